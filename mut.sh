#!/bin/bash
# debug helper: mut.sh <prop> <file> <python-expr-old> <python-expr-new>  — applies a one-off textual
# mutation to /repo, runs the check, and restores the file.
prop="$1"; file="$2"; old="$3"; new="$4"
cd /repo || exit 2
python3 - "$file" "$old" "$new" <<'PY' || exit 3
import sys
p,old,new=sys.argv[1:4]
s=open(p).read()
if s.count(old)<1:
    print("MUT: pattern not found"); sys.exit(3)
s=s.replace(old,new,1)
open(p,'w').write(s)
PY
export GOFLAGS=-mod=mod GOPROXY=off GOSUMDB=off GOTOOLCHAIN=local
(go build -tags "badger filestore ngprecomputed" ./$(dirname $file)/ 2>&1 | head -5)
/verif/bin/dvidlint -prop "$prop" -noevidence 2>&1 | grep -A3 "^VIOLATION\|^UNDECIDED\|^ERROR" | grep -v "^--" | cut -c1-250 | head -${5:-12}
/verif/bin/dvidlint -prop "$prop" -noevidence 2>&1 | grep "^$prop tier" 
git -C /repo checkout -- "$file"
