#!/usr/bin/env python3
"""Management of seeded breaking changes (/verif/seeded/<id>/).

  seed.py add <srcdir> <id> <prop> [<prop>...]   verify a sub-agent's mutant in a scratch worktree (demo passes without
                                                  the patch, fails with it, pinned suite unchanged) and store it
  seed.py detect [<id>...]                        apply each stored patch to /repo, run the listed properties' checks,
                                                  undo the patch, and record which rules fired (seeded/MATRIX.json)
Nothing here is part of any registered check; it is the both-ways test of the checker.
"""
import json, os, re, shutil, subprocess, sys, glob

ENV = dict(os.environ, GOFLAGS="-mod=mod", GOPROXY="off", GOSUMDB="off", GOTOOLCHAIN="local")
ENV.pop("GOWORK", None)
SEEDED = "/verif/seeded"
WT = os.environ.get("SEED_WT", "/tmp/vw_seed")


def sh(cmd, cwd=None, timeout=1800):
    p = subprocess.run(cmd, shell=True, cwd=cwd, env=ENV, stdout=subprocess.PIPE, stderr=subprocess.STDOUT, text=True, timeout=timeout)
    return p.returncode, p.stdout


def ensure_wt():
    if not os.path.isdir(WT):
        rc, out = sh(f"git -C /repo worktree add -q --detach {WT} HEAD")
        if rc != 0:
            raise SystemExit("cannot create worktree: " + out)
    sh("git checkout -q --detach $(git -C /repo rev-parse HEAD) && git checkout -- . && git clean -fdq", cwd=WT)


def pinned(cwd):
    rc, out = sh("go test -json -vet=off -count=1 -timeout 20m ./... 2>/dev/null", cwd=cwd)
    passed = set()
    for l in out.splitlines():
        try:
            e = json.loads(l)
        except Exception:
            continue
        if e.get("Action") == "pass" and e.get("Test"):
            passed.add(e["Package"] + "::" + e["Test"])
    base = json.load(open("/root/.vp/BASELINE.json"))["stable_pass"]
    return [t for t in base if t not in passed]


def add(src, sid, props):
    meta = json.load(open(os.path.join(src, "meta.json")))
    demos = [f for f in glob.glob(os.path.join(src, "*_test.go"))]
    if len(demos) != 1:
        raise SystemExit(f"expected exactly one *_test.go in {src}, found {demos}")
    demo = demos[0]
    pkgdir = meta["demo_package_dir"].strip("./")
    m = re.search(r"-run\s+'?\"?([A-Za-z0-9_|^$]+)", meta["demo_cmd"])
    if not m:
        raise SystemExit("cannot find -run pattern in demo_cmd")
    runpat = m.group(1)
    tags = "badger filestore"
    mt = re.search(r'-tags\s+\\?"([^"\\]+)', meta["demo_cmd"])
    if mt:
        tags = mt.group(1)
    ensure_wt()
    dst_demo = os.path.join(WT, pkgdir, "zz_seed_demo_test.go")
    shutil.copy(demo, dst_demo)
    cmd = f'go test -vet=off -count=1 -tags "{tags}" -run \'{runpat}\' ./{pkgdir}'
    rc0, out0 = sh(cmd, cwd=WT)
    rc, out = sh(f"git apply {os.path.join(src, 'patch.diff')}", cwd=WT)
    if rc != 0:
        raise SystemExit("patch does not apply: " + out)
    rcb, outb = sh('go build -tags "badger filestore ngprecomputed" ./... 2>&1 | grep -v "main_main\\|^# github.com/janelia-flyem/dvid$"', cwd=WT)
    rc1, out1 = sh(cmd, cwd=WT)
    if rc1 == 0:  # flaky demos: a few more tries
        for _ in range(4):
            rc1, out1 = sh(cmd, cwd=WT)
            if rc1 != 0:
                break
    os.remove(dst_demo)
    missing = pinned(WT)
    sh("git checkout -- . && git clean -fdq", cwd=WT)
    ok = rc0 == 0 and rc1 != 0 and not missing and outb.strip() == ""
    print(f"{sid}: demo without patch rc={rc0}, with patch rc={rc1}, pinned missing={len(missing)}, build output={outb.strip()[:200]!r} -> {'KEEP' if ok else 'REJECT'}")
    if not ok:
        print(out0[-800:] if rc0 != 0 else "")
        return False
    d = os.path.join(SEEDED, sid)
    os.makedirs(d, exist_ok=True)
    if os.path.realpath(src) == os.path.realpath(d):
        return True  # re-verification of a stored mutant: nothing to copy
    shutil.copy(os.path.join(src, "patch.diff"), os.path.join(d, "patch.diff"))
    shutil.copy(demo, os.path.join(d, "demo_test.go"))
    meta2 = {
        "id": sid,
        "property": meta.get("property"),
        "checked_against": props,
        "summary": meta.get("summary"),
        "needs": meta.get("needs"),
        "files_changed": meta.get("files_changed"),
        "demo_package_dir": pkgdir,
        "demo_cmd": f"cp demo_test.go <worktree>/{pkgdir}/zz_seed_demo_test.go && (cd <worktree> && {cmd})",
        "verified": {
            "what_i_ran": "scratch worktree of /repo HEAD: demo without patch (pass), git apply patch.diff, go build with tags, demo with patch (fail), pinned tag-less suite with patch (all 47 stable tests pass)",
            "demo_without_patch": "pass",
            "demo_with_patch": "FAIL",
            "demo_with_patch_tail": out1[-600:],
            "pinned_suite_with_patch": "47/47",
        },
    }
    json.dump(meta2, open(os.path.join(d, "meta.json"), "w"), indent=1)
    return True


def detect(ids):
    if not ids:
        ids = sorted(os.listdir(SEEDED))
    matrix = {}
    # SEED_REPO / SEED_MATRIX let several detections run side by side, each on its own clean worktree of
    # /repo HEAD and with its own result file (tools/detect_parallel.sh merges them); default: /repo itself
    repo = os.environ.get("SEED_REPO", "/repo")
    mp = os.environ.get("SEED_MATRIX", os.path.join(SEEDED, "MATRIX.json"))
    if os.path.exists(mp):
        matrix = json.load(open(mp))
    rc, out = sh(f"git -C {repo} status --porcelain")
    if out.strip():
        raise SystemExit(f"{repo} working tree is not clean")
    for sid in ids:
        d = os.path.join(SEEDED, sid)
        if not os.path.isdir(d):
            continue
        meta = json.load(open(os.path.join(d, "meta.json")))
        rc, out = sh(f"git -C {repo} apply {d}/patch.diff")
        if rc != 0:
            print(sid, "patch does not apply:", out)
            continue
        res = {}
        try:
            for prop in meta["checked_against"]:
                rc, out = sh(f"/verif/bin/dvidlint -repo {repo} -prop {prop} -noevidence")
                fired = re.findall(r"rule=(\S+) construct=(\S+)", out)
                viol = [f"{a} {b}" for a, b in fired if ("VIOLATION" in out)]
                # keep only those under VIOLATION lines
                v2 = []
                lines = out.splitlines()
                for i, l in enumerate(lines):
                    if l.startswith("VIOLATION") and i + 1 < len(lines):
                        mm = re.search(r"rule=(\S+) construct=(.*?) at ", lines[i + 1])
                        if mm:
                            v2.append(mm.group(1) + " " + mm.group(2))
                res[prop] = {"exit": rc, "violations": v2[:6], "n_violations": len(v2), "undecided": out.count("\nUNDECIDED:")}
        finally:
            sh(f"git -C {repo} checkout -- .")
        caught = any(v["exit"] == 1 for v in res.values())
        matrix[sid] = {"property": meta["property"], "caught": caught, "by": res, "summary": (meta.get("summary") or "")[:160]}
        print(sid, "CAUGHT" if caught else "missed", {p: (v["exit"], v["violations"][:2]) for p, v in res.items()})
    json.dump(matrix, open(mp, "w"), indent=1, sort_keys=True)


if __name__ == "__main__":
    if len(sys.argv) < 2:
        print(__doc__)
        sys.exit(2)
    if sys.argv[1] == "add":
        ok = add(sys.argv[2], sys.argv[3], sys.argv[4:])
        sys.exit(0 if ok else 1)
    elif sys.argv[1] == "detect":
        detect(sys.argv[2:])
    elif sys.argv[1] == "reverify":
        # re-run the demonstration of stored mutants against the current /repo HEAD (fix: commits may have
        # masked or conflicted with a patch); prints KEEP/REJECT per id, changes nothing
        ids = sys.argv[2:] or sorted(x for x in os.listdir(SEEDED) if os.path.isdir(os.path.join(SEEDED, x)))
        bad = []
        for sid in ids:
            d = os.path.join(SEEDED, sid)
            meta = json.load(open(os.path.join(d, "meta.json")))
            try:
                ok = add(d, sid, meta.get("checked_against", [meta.get("property")]))
            except SystemExit as e:
                print(sid, "ERROR", e)
                ok = False
            if not ok:
                bad.append(sid)
        print("not reproducible at HEAD:", bad)
