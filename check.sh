#!/bin/bash
# usage: check.sh <property id> [quick|thorough]
# Rebuilds the analyser if needed and analyses /repo's current working tree (nothing is executed).
export GOFLAGS=-mod=mod GOPROXY=off GOSUMDB=off GOTOOLCHAIN=local
unset GOWORK
here="$(cd "$(dirname "$0")" && pwd)"
prop="$1"; tier="${2:-${VERIF_TIER:-quick}}"
if [ -z "$prop" ]; then echo "usage: check.sh <property> [quick|thorough]"; exit 2; fi
bin="$here/bin/dvidlint"
need=0
[ -x "$bin" ] || need=1
if [ $need -eq 0 ] && [ -n "$(find "$here/checker" -name '*.go' -newer "$bin" -print -quit)" ]; then need=1; fi
if [ $need -eq 1 ]; then
  mkdir -p "$here/bin"
  (cd "$here/checker" && go build -o "$bin" .) || { echo "ERROR: cannot build analyser"; exit 2; }
fi
exec "$bin" -prop "$prop" -tier "$tier" -repo /repo -verif "$here"
