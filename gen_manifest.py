#!/usr/bin/env python3
# Generates /verif/MANIFEST.json from the table below (kept in one place so that it stays valid).
import json

ARMED = {
 # id: (technique, level text, level note, design ref)
 "C02": ("SSA sparse conditional constant propagation of gate truth tables + HTTP-method/keyword-specialised write-effect reachability over the VTA call graph",
         "Static, for-all-paths decision of the structural necessary conditions of 'committed versions are immutable': (R2.1) the data-instance dispatcher cannot reach DataService.ServeHTTP for (versioned, non-admin, default mode, locked, IsMutationRequest) and the gate's operands are the request's own uuid/instance/method/keyword; (R2.2) for every compiled data type x endpoint keyword x HTTP method class, any path to a storage write or sync event implies IsMutationRequest is true; (R2.3) every mutating node route is refused on committed nodes by its middleware chain except the child-creating actions, new-instance creation is gated, read-only mode is enforced on every node/repo mux; (R2.4) commit refuses an already committed node and newVersion/merge never link a child under an uncommitted parent. Level 'other': this decides the gate structure for all inputs/configurations, not the read-back-identically clause.",
         "Trusts go/types, go/ssa, VTA call graph; effects through pre-existing worker goroutines fed by non-sync channels and reflection are not followed; RPC commands are outside the claim (anchors are HTTP routes).",
         "DESIGN.md §2 C02"),
}

NOT_APPLICABLE = {
 "C09": "losslessness of the block codec quantifies over label arrays and data-dependent bit widths; no structural necessary condition short of evaluating the arithmetic (DESIGN §3); its parser's bounds discipline is covered under C20",
 "C10": "voxel-wise equivalence of compressed-block operations with the reference is a value-level equivalence; no clause is visible in the shape of the code (DESIGN §3)",
}

PENDING = "rules designed in DESIGN.md §2 but not yet armed in this commit (a rule is armed only once it is silent on the tree apart from triaged findings and fires on its seeded variants)"

ALL = ["C%02d" % i for i in range(1, 21)]

def main():
    checks = []
    na = []
    for pid in ALL:
        if pid in ARMED:
            tech, text, note, ref = ARMED[pid]
            checks.append({
                "property_id": pid,
                "quick_cmd": "./check.sh %s quick" % pid,
                "thorough_cmd": "./check.sh %s thorough" % pid,
                "evidence_file": "/verif/evidence/%s.json" % pid,
                "replay_cmd_template": "cat {path}",
                "engine": "dvidlint",
                "level_claimed": {"category": "other", "text": text, "design_ref": ref},
                "level_note": note,
                "technique": tech,
            })
        elif pid in NOT_APPLICABLE:
            na.append({"property_id": pid, "reason": NOT_APPLICABLE[pid]})
        else:
            na.append({"property_id": pid, "reason": PENDING})
    m = {
        "version": 1,
        "setup_cmd": "cd /verif/checker && GOFLAGS=-mod=mod GOPROXY=off GOSUMDB=off GOTOOLCHAIN=local GOWORK=off go build -o /verif/bin/dvidlint .",
        "hooks": {
            "guard": "verif",
            "enable": "none: static analysis needs no instrumentation; no hook commits exist in /repo",
            "baseline_off_cmd": "/verif/baseline.sh",
            "source_commits": [],
            "add_only": True,
        },
        "engines": [{
            "name": "dvidlint",
            "path": "/verif/checker",
            "serves_properties": sorted(ARMED.keys()),
            "kind_free_text": "repository-specific static analyser (go/packages + go/types + go/ssa + VTA call graph, x/tools v0.29.0): SCCP truth tables, specialised effect reachability, must-pass-through, lock analysis, codec sibling agreement, guarded decode",
        }],
        "checks": checks,
        "not_applicable": na,
        "notes": "All verdicts are computed from /repo's current source on every run; nothing in dvid is executed. exit 0 = all obligations discharged (KNOWN-FINDING lines for listed findings); exit 1 + VIOLATION line = an obligation violated; exit 2 + UNDECIDED/ERROR = the analyser could not decide (type-check failure, anchor not found). fix: commits in /repo are listed in /verif/known_findings.json under 'fixed'.",
    }
    json.dump(m, open("/verif/MANIFEST.json", "w"), indent=1)
    print("wrote MANIFEST.json: %d checks, %d not_applicable" % (len(checks), len(na)))

main()
