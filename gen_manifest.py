#!/usr/bin/env python3
# Generates /verif/MANIFEST.json from the table below (kept in one place so that it stays valid).
import json

ARMED = {
 "C18": ("fixed-width codec extraction (region, endianness, bias, widening, component path) and writer/reader comparison; bit-field constant profiles (mask/flag/shift) with consistency arithmetic and extraction order; stream field-sequence comparison of sibling (un)marshalers; comparator sequence check",
         "Static decision of necessary conditions of 'spatial keys, packed block indices and run-length volumes preserve geometry': the block-coordinate key is z, y, x × 4-byte big-endian of (c − MinInt32) computed in 64 bits, decoded from the same regions with the inverse bias after a length check, and all wrappers delegate to it (R18.1); the packed-index encoder and both decoders agree on mask, sign flag, shift and packing order, and the constants are mutually consistent (R18.2); the six run (un)marshalers share field order, width and endianness and list codecs use the 12-byte key unit (R18.3); the run comparator orders by z, y, x ascending (R18.4). Level 'other': Normalize/Partition/Split/FitToBounds/Add/Excise voxel-set preservation and ROI query consistency are value-level and not decided.",
         "Trusts go/ssa and encoding/binary.",
         "DESIGN.md §2 C18"),
 "C08": ("op × structure matrix by must-pass-through on success exits (with per-iteration loop obligations); version-argument provenance over all single-version labelmap functions; ancestry-slice/position agreement of the mapping visibility tables; error-only edges of existence and membership tests; store-write ⇒ cache-operation path search with callee summaries; provenance of the aggregated delta table",
         "Static decision of necessary conditions of 'label indices, voxels and mappings stay consistent under proofreading': merge, renumber, cleave, split and supervoxel split pass on every success exit through their mapping update, index writes/deletes and block rewrite (R8.1); every version handed to a callee in a single-version labelmap function is the function's own (R8.2); the visibility table cached for a version is built from that version's own ancestry, the nearest visible version wins, and each version's log is replayed under that version (R8.3); a missing index or a request-named supervoxel outside the body ends the operation with an error (R8.4); every store write/delete of a label index is followed by the update or invalidation of its cache entry (R8.5); block writes feed the whole aggregated count table to the index of every affected body (R8.6). Level 'other': that counts, sparse volumes and mapped reads equal a voxel scan, and the arithmetic of split/cleave index surgery, are value-level and not decided.",
         "Trusts go/ssa; functions handling several versions (ancestry walks, messages) are outside R8.2; storage failures between the steps of an operation are not modelled.",
         "DESIGN.md §2 C08"),
 "C19": ("store-object provenance of every write/scan of the copy engines (def-use roots through closures and type assertions); rewrite-before-raw-put must-pass-through; scan-bound provenance; silent-drop path search in the writer goroutines; loop-entry phi check of the dedupe reference; wait-before-success path search",
         "Static decision of necessary conditions of 'copying a data instance preserves its versioned content': every write of copyData/copyVersions/TransferData is on the destination store and every scan on the source store, CopyInstance passes the stores of the source and of the new instance in that order, and the flattened copy writes under the destination instance at the scanned version (R19.1); a raw key reaches RawPut only after the instance (and version) rewrite of that key (R19.2); the raw scan covers the source instance's whole key range with values, no received pair is dropped except by the filter, the version set or a reported error, tombstones are not singled out, the dedupe reference is reset per key, and the flattened scan covers the whole TKey range and forwards every chunk (R19.3); CopyInstance invokes the new instance's PropertyCopier with the source and saves it, and in-scope types with persisted properties implement it (R19.4); engines return success only after their writer goroutine finished and the end marker is always sent (R19.5). Level 'other': equality of reads at every version for every history, filter semantics and the version-path arithmetic of copyVersions are not decided.",
         "Trusts go/ssa; store identity by parameter provenance (no pointer analysis); labelsz and tarsupervoxels lack a PropertyCopier but are outside the property's quantifier (reported as notes).",
         "DESIGN.md §2 C19"),
 "C13": ("edit × denormalisation matrix by must-pass-through on success exits; flow-sensitive event extraction and publisher/subscriber/handler-case agreement; delta ⇒ notify path search; sibling agreement of event handlers; loop-skip provenance",
         "Static decision of necessary conditions of 'annotation indices stay consistent': every element post/delete/move updates the block store, the tag index, the label index and partner relationships and commits the batch on each success exit (R13.1); every label operation publishes an event that annotation subscribes to with a delta type its handler has a case for (R13.2); wherever a per-body delta is recorded the count subscribers are notified (R13.3); the label-event handlers both write and delete per-body keys (R13.4); a move rewrites partner references in every partner block but the source block (R13.5). Level 'other': the contents of the denormalised lists (e.g. which tags are computed as removed) are value-level and not decided.",
         "Trusts go/ssa and VTA; sync event delivery order is not modelled.",
         "DESIGN.md §2 C13"),
 "C16": ("write-through must-pass-through per store write; must-hold lockset for the memory database; selector provenance of the dual read paths; head-guard edge dominance",
         "Static decision of necessary conditions of 'neuronjson's in-memory head database equals the store': every function that stores or deletes an annotation consults the in-memory database of the request's own version and applies the same change (R16.1); the database's maps and id list change only under its write lock (R16.2); every read entry selects memory vs store by getMemDBbyVersion of the request's version (R16.3); a head database is handed out only for the version GetBranchHead reports and the loader decodes with the typed decoder (R16.5); head metadata caches are written only when the request context is the head (R16.6). Level 'other': equality of query results between the two paths (field conditionals, range ends) is value-level and not decided.",
         "Trusts go/ssa; lock identity by field name; start-up loaders are exceptions with reasons.",
         "DESIGN.md §2 C16"),
 "C17": ("write entry → extents update reachability and provenance of the extents read/written; SCCP-restricted path search of the ROI gate",
         "Static decision of necessary conditions of 'extents and ROI masks bound writes': every voxel/block write entry of imageblk and the label types reaches the extents update, and PostExtents decides from the extents stored for the request's own version and writes them back under that context (R17.1); in ROI-aware write loops the block put is unreachable when the ROI test says outside (R17.2). Level 'other': the min/max arithmetic of the extents and ROI iterator geometry are value-level and not decided.",
         "Trusts go/ssa and VTA.",
         "DESIGN.md §2 C17"),
 "C14": ("typestate path search (NewMutation→Execute) with creation-guard propagation; write→announce must-pass-through; loop-shape checks of Execute by linear forms and SCCP; worker completeness path search; sibling comparison-direction agreement of vote loops",
         "Static decision of necessary conditions of 'lower-resolution levels match the down-sampling': every NewMutation reaches Execute on success exits (release on error exits: seven known findings) (R14.1); every hi-res block write/record with a mutation in scope is followed by BlockMutated on success paths (R14.2); Execute chains levels up to the configured maximum, marks level s+1 idle only after it was stored, and the started levels equal the stopped ones (R14.3); every lower-resolution block is stored at scale+1 and passed to the next level before its octant is reported done (R14.4); all map-based vote loops break ties towards the smaller label (R14.5). Level 'other': the vote and octant assembly themselves (value-level) are not decided.",
         "Trusts go/ssa; configuration flags (downscale, scale==0) may legitimately skip announcements.",
         "DESIGN.md §2 C14"),
 "C11": ("must-hold lockset dataflow per lock class (access-path identity), shard-selector provenance for the index read-modify-write, critical-section continuity between check and act, acquire/release path search",
         "Static decision (a lockset argument holds for every schedule) of necessary conditions of 'concurrent acknowledged mutations are never lost': a body's index read-modify-write is covered by the shard mutex chosen by that same body label (R11.1); stores into shared DAG/repo/id-map/branch-head/counter/split state happen with the owning mutex write-held (R11.2); the uuid membership test and insertion share one critical section and allocators read their counters under their lock (R11.3); versioned put/delete are single transactions (R11.4); every struct-field mutex acquired is released on all return paths (R11.5). Three genuine findings on the tree are listed as known findings (MergeLabels / RenumberLabels index RMW unlocked; newVersion links a child under a read lock). Level 'other': annotation and neuronjson element edits have no lock at all in the code (so no lock rule can be stated for them); linearizability of outcomes is not decided.",
         "Lock identity by access path / field name (no pointer analysis); start-up loaders and RPC-only surgery are exceptions with reasons.",
         "DESIGN.md §2 C11"),
 "C06": ("component-sequence extraction of key constructors vs linear-form regions of key parsers; constant-table distinctness; persist/lock/membership checks of id allocation; borrowed-buffer escape analysis",
         "Static decision of necessary conditions of 'storage keys isolate instances, data and versions': every key constructor yields [prefix][instance][tkey][version][client][marker] (prefix constructors a prefix), min/max version keys use the extreme ids/markers, every parser and rewriter addresses the same regions, ids are 4-byte big-endian (R6.1); TKey class constants are pairwise distinct per data type (R6.3); instance ids are tested against the live set, incremented under idMutex and persisted afterwards (R6.4); the instance key range is [prefix‖id, prefix‖(id+1)) (R6.5); iterator-owned key buffers are never retained by a write batch (R6.6); the versioned scanner's bounds are instance-scoped context keys tested for every key (R6.7). Level 'other': injectivity for datum keys containing terminator bytes and history-level isolation are not decided; id+1 wrap-around at 0xFFFFFFFF is not modelled.",
         "Trusts go/ssa; integer wrap-around not modelled.",
         "DESIGN.md §2 C06"),
 "C15": ("SCCP-restricted path search for checksum must-pass-through; shift/mask tuple and offset/endianness agreement between writer and reader; switch-constant set comparison; linear-form guarded-slice analysis; error-propagation path search",
         "Static decision of necessary conditions of 'the serialization envelope round-trips and detects corruption': with a CRC32-protected value every success exit of DeserializeData lies behind the stored-vs-recomputed comparison whose mismatch edge is an error (R15.1); format-byte bit fields, CRC offset/width/endianness and the LZ4 length prefix agree between serialiser and deserialiser (R15.2); both sides handle the same compression and checksum constants (R15.3); every slice/index/type assertion on input-derived data is guarded, every decoder error reaches an error exit, and the LZ4 raw-copy fallback is taken only for a zero prefix (R15.4). Level 'other': decompress∘compress identity of the third-party codecs and CRC strength are not decided.",
         "Trusts snappy/lz4/gzip/jpeg libraries; integer overflow not modelled.",
         "DESIGN.md §2 C15"),
 "C20": ("route-table containment check; linear-form guarded-slice analysis of the payload parsers; call-graph reachability of process-terminating calls; acquire/release path search for throttle slots; nil-without-error contract check before channel hand-off; size-gate dominance before worker fan-out; SCCP path search 'parse error ⇒ no storage write'",
         "Static decision of necessary conditions of 'no request can crash or wedge the server; malformed ones are rejected harmlessly': every API mux has a recover middleware and the sync-event loops recover (R20.1); the enumerated payload parsers guard every input-derived slice/index (R20.2); no process-terminating call is reachable from any handler except five same-package-invariant sites (R20.3); a taken throttle slot is released on every exit (R20.4); possibly-nil results are tested before being handed to worker goroutines (R20.6); voxel write entry points validate the payload size before starting workers (R20.7); after any of 224 parsing calls has failed no storage write is reachable in that function (R20.8). Level 'other': panics from arithmetic inside codecs on well-formed-but-hostile values, memory exhaustion and liveness in general are not decided.",
         "Trusts go/ssa and the VTA call graph; integer overflow not modelled; goroutines without parsers are not examined.",
         "DESIGN.md §2 C20"),
 "C03": ("AST gob writer/reader sequence comparison; save-after-store must-pass-through with caller-chain lifting over the call graph; log writer/replay registry agreement; at-most-once path search for accumulating records",
         "Static decision of necessary conditions of 'a restart changes nothing observable': every GobEncode/GobDecode pair agrees on the ordered types and fields (R3.1); every change of a persisted field of repoT/nodeT/dagT/datastore.Data is followed by the repo save on every success exit of the function or of every caller chain (R3.3); every live mapping change is logged with a record type the replay applies, every replayed type has a live writer, accumulating record types are logged once per operation and each version's log is replayed under that version (R3.5); rebuild hooks are implemented and invoked (R3.6); id/label/mutation-id counters are persisted after every change (R3.7). Level 'other': equality of rebuilt state with live state for every history is value-level and not decided.",
         "Trusts encoding/gob, go/ssa, VTA; RPC-only repo surgery (push/flatten/limit) is outside the claim (exceptions table).",
         "DESIGN.md §2 C03"),
 "C04": ("typestate path search (header→payload→Sync under lock); linear-form guarded-slice analysis of log readers; order-of-persistence path search; SCCP tolerance check of the loader",
         "Static decision of necessary conditions of 'a crash at any write point is recoverable': log appends write header, payload and Sync in order under the file lock before acknowledging (R4.1); every slice of a log file's contents in the readers is dominated by a comparison bounding it by the bytes present (R4.2); the repo-id map is persisted before any repo blob that needs it and the loader tolerates absent map keys (R4.3); versioned put/delete pair data and tombstone operations in one transaction (R4.4). Level 'other': prefix-closure of every multi-key operation against the loader and Badger's own durability are not decided.",
         "Trusts go/ssa; integer overflow is not modelled in the bounds analysis; os.File/Badger semantics.",
         "DESIGN.md §2 C04"),
 "C12": ("store→persist must-pass-through, must-hold lock dataflow, linear-form check of the stride comparison, provenance of load-time corrections",
         "Static decision of necessary conditions of 'server-issued identifiers are unique and only move forward': every increment of the repo/version/instance id counters is under idMutex and persisted afterwards (R12.1); every store to the label counters is under mlMu, followed by its persist call, and decided on a counter value read inside that write-locked section (R12.2); mutation-id initialisation persists current+stride, allocation is under mutMu, renews the reservation whenever the advanced counter reaches the persisted bound (≥) and writes the new bound before returning (R12.3); load-time corrections only ever raise the id counters (guarded by a comparison with the loaded value), raise the version counter above all known ids and the repo-wide max label to the largest per-version max (R12.5). Level 'other': schedule×crash interleavings of background max-label updates are not decided.",
         "Trusts go/ssa; lock identity by field name; load/copy constructors are exceptions with reasons.",
         "DESIGN.md §2 C12"),
 "C01": ("SSA must-pass-through on feasible paths (SCCP under ctx.Versioned()), provenance of keys/versions, structural truth tables of the ancestry resolver",
         "Static decision, for every path, of necessary conditions of 'versioned reads resolve to the nearest ancestor write': every versioned Get/Exists and range scan of each ordered back end returns only what GetBestKeyVersion/VersionedKeyValue selected at the context's own version (R1.1); versioned Put/Delete and their batch forms pair the data-key operation with the same-version tombstone operation in one transaction (R1.2); the dispatcher pins unversioned instances to the repo root and versioned ones to the request uuid's version (R1.3); tombstone/data markers agree between constructors and IsTombstone (R1.4); the resolver never returns a tombstoned or superseded entry, marks ancestors before returning a found value, keeps walking above live entries, and fails on two live candidates (R1.6). Level 'other': the resolver's answer on every DAG shape (value-level) is not decided.",
         "Trusts go/ssa; Badger transaction atomicity; only back ends compiled in the analysed tag sets.",
         "DESIGN.md §2 C01"),
 "C05": ("sibling cross-check of range consumers, boundary-key provenance (def-use roots), edge-dominance and must-flush path search in the versioned scanner",
         "Static decision of necessary conditions of 'range queries agree with point reads': the five range consumers of each back end agree on scanner dispatch, bound order, keysOnly vs value use and error-before-end-of-stream (R5.1); the versioned scanner seeks at MinVersionKey(beg), compares every key with MaxVersionKey(end) before it can join a group, and uses MaxVersionKey of the current datum as group boundary (R5.2); every pending group is resolved before being dropped or the scan ends, and only resolver output is sent (R5.3); DeleteRange deletes through a batch of the request context by TKey, never raw (R5.4); keyvalue range endpoints use the handler's own context and TKey constructors (R5.5). Level 'other': interval inclusivity, ordering and once-only emission for every key set are value-level and not decided.",
         "Trusts go/ssa and Badger iterator ordering.",
         "DESIGN.md §2 C05"),
 "C07": ("SCCP feasibility + pred-sensitive path search (non-empty range loops) for guard-before-insert, membership-test-before-map-write, persist-after-increment must-pass-through, error-reply-then-mutation path search over handlers",
         "Static decision of necessary conditions of 'the version DAG stays well formed and identifiers unique': newVersion/merge make a child visible only for committed parents of the same repo, branch-name uniqueness is decided by scanning the DAG (R7.1); assigned UUIDs are entered only after a membership test and every id-counter increment happens under idMutex and is persisted afterwards on every success exit (R7.3); no server handler reaches a datastore mutator after writing an error reply (R7.4); parent/child links are created in mirrored pairs (R7.5); the default branch's reserved name cannot be requested (R7.6). Level 'other': acyclicity/single-rootedness over histories and hideBranch/makeMaster surgery are not decided.",
         "Trusts go/ssa; lock identity by field name.",
         "DESIGN.md §2 C07"),
 # id: (technique, level text, level note, design ref)
 "C02": ("SSA sparse conditional constant propagation of gate truth tables + HTTP-method/keyword-specialised write-effect reachability over the VTA call graph",
         "Static, for-all-paths decision of the structural necessary conditions of 'committed versions are immutable': (R2.1) the data-instance dispatcher cannot reach DataService.ServeHTTP for (versioned, non-admin, default mode, locked, IsMutationRequest) and the gate's operands are the request's own uuid/instance/method/keyword; (R2.2) for every compiled data type x endpoint keyword x HTTP method class, any path to a storage write or sync event implies IsMutationRequest is true; (R2.3) every mutating node route is refused on committed nodes by its middleware chain except the child-creating actions, new-instance creation is gated, read-only mode is enforced on every node/repo mux; (R2.4) commit refuses an already committed node and newVersion/merge never link a child under an uncommitted parent. Level 'other': this decides the gate structure for all inputs/configurations, not the read-back-identically clause.",
         "Trusts go/types, go/ssa, VTA call graph; effects through pre-existing worker goroutines fed by non-sync channels and reflection are not followed; RPC commands are outside the claim (anchors are HTTP routes).",
         "DESIGN.md §2 C02"),
}

NOT_APPLICABLE = {
 "C09": "losslessness of the block codec quantifies over label arrays and data-dependent bit widths; no structural necessary condition short of evaluating the arithmetic (DESIGN §3); its parser's bounds discipline is covered under C20",
 "C10": "voxel-wise equivalence of compressed-block operations with the reference is a value-level equivalence; no clause is visible in the shape of the code (DESIGN §3)",
}

PENDING = "rules designed in DESIGN.md §2 but not yet armed in this commit (a rule is armed only once it is silent on the tree apart from triaged findings and fires on its seeded variants)"

ALL = ["C%02d" % i for i in range(1, 21)]

def main():
    checks = []
    na = []
    for pid in ALL:
        if pid in ARMED:
            tech, text, note, ref = ARMED[pid]
            checks.append({
                "property_id": pid,
                "quick_cmd": "./check.sh %s quick" % pid,
                "thorough_cmd": "./check.sh %s thorough" % pid,
                "evidence_file": "/verif/evidence/%s.json" % pid,
                "replay_cmd_template": "cat {path}",
                "engine": "dvidlint",
                "level_claimed": {"category": "other", "text": text, "design_ref": ref},
                "level_note": note,
                "technique": tech,
            })
        elif pid in NOT_APPLICABLE:
            na.append({"property_id": pid, "reason": NOT_APPLICABLE[pid]})
        else:
            na.append({"property_id": pid, "reason": PENDING})
    m = {
        "version": 1,
        "setup_cmd": "cd /verif/checker && GOFLAGS=-mod=mod GOPROXY=off GOSUMDB=off GOTOOLCHAIN=local GOWORK=off go build -o /verif/bin/dvidlint .",
        "hooks": {
            "guard": "verif",
            "enable": "none: static analysis needs no instrumentation; no hook commits exist in /repo",
            "baseline_off_cmd": "/verif/baseline.sh",
            "source_commits": [],
            "add_only": True,
        },
        "engines": [{
            "name": "dvidlint",
            "path": "/verif/checker",
            "serves_properties": sorted(ARMED.keys()),
            "kind_free_text": "repository-specific static analyser (go/packages + go/types + go/ssa + VTA call graph, x/tools v0.29.0): SCCP truth tables, specialised effect reachability, must-pass-through, lock analysis, codec sibling agreement, guarded decode",
        }],
        "checks": checks,
        "not_applicable": na,
        "notes": "All verdicts are computed from /repo's current source on every run; nothing in dvid is executed. exit 0 = all obligations discharged (KNOWN-FINDING lines for listed findings); exit 1 + VIOLATION line = an obligation violated; exit 2 + UNDECIDED/ERROR = the analyser could not decide (type-check failure, anchor not found). fix: commits in /repo are listed in /verif/known_findings.json under 'fixed'.",
    }
    json.dump(m, open("/verif/MANIFEST.json", "w"), indent=1)
    print("wrote MANIFEST.json: %d checks, %d not_applicable" % (len(checks), len(na)))

main()
