package main

import (
	"fmt"
	"go/types"
	"sort"
	"strings"

	"golang.org/x/tools/go/ssa"
)

// R20.9: no re-entrant acquisition of a mutex.  sync.RWMutex is not re-entrant: a second RLock by a
// goroutine that already holds the read lock blocks for ever once a writer is waiting in between,
// and a Lock while holding either lock always blocks.  A request that wedges this way holds the
// repo's (or node's) mutex, so every later request on that repo hangs as well.

func init() {
	register(ruleDef{ID: "R20.9", Prop: "C20", Tier: "quick", Floor: 15,
		Title: "no re-entrant lock: while a function holds a mutex of an object it does not call (directly, through helpers, or through gob/json encoding of that object) a method that acquires the same mutex of the same object",
		Fn:    ruleR20_9})
}

type ownLock struct {
	field string
	write bool
	via   string
}

// heldKeyAt: must-hold analysis for one mutex access path.
func heldKeyAt(f *ssa.Function, at ssa.Instruction, key string) (held, write bool) {
	type st struct{ held, write bool }
	in := map[*ssa.BasicBlock]st{}
	for _, b := range f.Blocks {
		in[b] = st{held: true, write: true}
	}
	in[f.Blocks[0]] = st{}
	step := func(s st, x ssa.Instruction) st {
		if op, ok := asLockOp(x); ok && op.key == key {
			if op.lock {
				return st{true, op.write}
			}
			return st{}
		}
		return s
	}
	out := func(b *ssa.BasicBlock, upto ssa.Instruction) st {
		s := in[b]
		for _, x := range b.Instrs {
			if x == upto {
				break
			}
			s = step(s, x)
		}
		return s
	}
	for changed := true; changed; {
		changed = false
		for _, b := range f.Blocks[1:] {
			v := st{held: true, write: true}
			if len(b.Preds) == 0 {
				v = st{}
			}
			for _, p := range b.Preds {
				o := out(p, nil)
				if !o.held {
					v = st{}
				} else if v.held {
					v.write = v.write && o.write
				}
			}
			if v != in[b] {
				in[b] = v
				changed = true
			}
		}
	}
	s := out(at.Block(), at)
	return s.held, s.write
}

// encoderTarget: for a call that serialises one of its arguments by reflection (gob / json), the
// method of the argument's type that the encoder will invoke, and the argument.
func (w *World) encoderTarget(c ssa.CallInstruction) (*ssa.Function, ssa.Value) {
	callee := c.Common().StaticCallee()
	if callee == nil {
		return nil, nil
	}
	var methods []string
	switch {
	case callee.Name() == "Serialize" && relPkg(pkgPathOf(callee)) == "dvid":
		methods = []string{"GobEncode"}
	case callee.Name() == "Encode" && callee.Pkg != nil && callee.Pkg.Pkg.Path() == "encoding/gob":
		methods = []string{"GobEncode"}
	case (callee.Name() == "Marshal" || callee.Name() == "Encode") && callee.Pkg != nil && callee.Pkg.Pkg.Path() == "encoding/json":
		methods = []string{"MarshalJSON"}
	default:
		return nil, nil
	}
	for _, a := range c.Common().Args {
		mi, ok := a.(*ssa.MakeInterface)
		if !ok {
			continue
		}
		t := mi.X.Type()
		ms := w.Prog.MethodSets.MethodSet(t)
		for _, m := range methods {
			if sel := ms.Lookup(nil, m); sel != nil {
				if fn := w.Prog.MethodValue(sel); fn != nil && inRepo(fn) {
					return fn, mi.X
				}
			}
			// unexported? GobEncode is exported; try with package
		}
	}
	return nil, nil
}

func recvParam(f *ssa.Function) *ssa.Parameter {
	if f.Signature.Recv() == nil || len(f.Params) == 0 {
		return nil
	}
	return f.Params[0]
}

func ruleR20_9(r *Run) {
	w := r.W
	memo := map[*ssa.Function][]ownLock{}
	busy := map[*ssa.Function]bool{}
	var summary func(f *ssa.Function, depth int) []ownLock
	summary = func(f *ssa.Function, depth int) []ownLock {
		if s, ok := memo[f]; ok {
			return s
		}
		if busy[f] || depth > 6 || len(f.Blocks) == 0 {
			return nil
		}
		busy[f] = true
		defer func() { busy[f] = false }()
		rp := recvParam(f)
		var out []ownLock
		if rp == nil {
			memo[f] = nil
			return nil
		}
		base := addrKey(rp)
		seen := map[string]bool{}
		add := func(l ownLock) {
			k := fmt.Sprintf("%s/%v", l.field, l.write)
			if !seen[k] {
				seen[k] = true
				out = append(out, l)
			}
		}
		for _, b := range f.Blocks {
			for _, in := range b.Instrs {
				if op, ok := asLockOp(in); ok && op.lock && strings.HasPrefix(op.key, base+".") && !strings.Contains(strings.TrimPrefix(op.key, base+"."), ".") {
					add(ownLock{field: strings.TrimPrefix(op.key, base+"."), write: op.write, via: fname(f)})
				}
				c, ok := in.(ssa.CallInstruction)
				if !ok {
					continue
				}
				if _, isGo := in.(*ssa.Go); isGo {
					continue
				}
				var g *ssa.Function
				var ra ssa.Value
				if callee := c.Common().StaticCallee(); callee != nil && inRepo(callee) && callee.Signature.Recv() != nil && len(c.Common().Args) > 0 {
					g, ra = unwrapSynthetic(callee), c.Common().Args[0]
				} else if eg, ea := w.encoderTarget(c); eg != nil {
					g, ra = eg, ea
				}
				if g == nil || ra != ssa.Value(rp) {
					continue
				}
				for _, l := range summary(g, depth+1) {
					add(ownLock{field: l.field, write: l.write, via: fname(f) + " → " + l.via})
				}
			}
		}
		memo[f] = out
		return out
	}
	var fns []*ssa.Function
	for _, f := range w.RepoFuncs {
		if len(f.Blocks) > 0 && !strings.HasSuffix(w.fposFile(f), "_test.go") {
			fns = append(fns, f)
		}
	}
	sort.Slice(fns, func(i, j int) bool { return fname(fns[i]) < fname(fns[j]) })
	nSites := 0
	for _, f := range fns {
		// does f take any lock at all?
		takes := false
		for _, b := range f.Blocks {
			for _, in := range b.Instrs {
				if op, ok := asLockOp(in); ok && op.lock {
					takes = true
				}
			}
		}
		if !takes {
			continue
		}
		k := 0
		sitesHere := 0
		for _, c := range calls(f) {
			if _, isGo := c.(*ssa.Go); isGo {
				continue
			}
			if _, isDefer := c.(*ssa.Defer); isDefer {
				continue
			}
			var g *ssa.Function
			var ra ssa.Value
			how := "calls"
			if callee := c.Common().StaticCallee(); callee != nil && inRepo(callee) && callee.Signature.Recv() != nil && len(c.Common().Args) > 0 {
				g, ra = unwrapSynthetic(callee), c.Common().Args[0]
			} else if eg, ea := w.encoderTarget(c); eg != nil {
				g, ra = eg, ea
				how = "serialises the object, which invokes"
			}
			if g == nil {
				continue
			}
			sum := summary(g, 0)
			if len(sum) == 0 {
				continue
			}
			// receiver must be a pointer to a struct for the lock path to be the same object
			if _, isPtr := ra.Type().(*types.Pointer); !isPtr {
				continue
			}
			nSites++
			sitesHere++
			for _, l := range sum {
				key := addrKey(ra) + "." + l.field
				held, hw := heldKeyAt(f, c, key)
				if !held {
					continue
				}
				k++
				mode := map[bool]string{true: "write", false: "read"}
				construct := fmt.Sprintf("%s:reentrant-%s#%d", fname(f), l.field, k)
				r.violation(construct, fmt.Sprintf("holding the %s lock %s of an object, the function %s %s, which acquires the %s lock of the same mutex (%s): sync.RWMutex is not re-entrant, so the request blocks for ever%s and every later request on the object hangs behind it",
					mode[hw], l.field, how, fname(g), mode[l.write], l.via, map[bool]string{true: "", false: " as soon as a writer is waiting between the two acquisitions"}[hw || l.write]), w.pos(c.Pos()))
			}
		}
		if sitesHere > 0 && k == 0 {
			r.ok(fname(f)+":no-reentrant-lock", fmt.Sprintf("%d calls into methods that lock their receiver; at none of them is that mutex of that object held", sitesHere), w.fpos(f))
		}
	}
	r.check(nSites >= 20, "repo:calls-into-lock-taking-methods", fmt.Sprintf("%d call sites into methods that lock their receiver were examined with the caller's lock state", nSites), "too few call sites examined: rule needs review", "-")
}
