package main

import (
	"fmt"
	"go/ast"
	"go/constant"
	"go/token"
	"go/types"
	"os"
	"path/filepath"
	"sort"
	"strings"
	"time"

	"golang.org/x/tools/go/callgraph"
	"golang.org/x/tools/go/callgraph/cha"
	"golang.org/x/tools/go/callgraph/vta"
	"golang.org/x/tools/go/packages"
	"golang.org/x/tools/go/ssa"
	"golang.org/x/tools/go/ssa/ssautil"
)

const modPath = "github.com/janelia-flyem/dvid"
const defaultTags = "badger filestore ngprecomputed"

type World struct {
	Repo        string
	Tags        string
	Roots       []*packages.Package
	ByPath      map[string]*packages.Package
	Prog        *ssa.Program
	Fset        *token.FileSet
	AllFuncs    map[*ssa.Function]bool
	RepoFuncs   []*ssa.Function // functions (incl. closures) whose package is inside the module
	LoadSeconds float64
	NumPkgs     int
	cg          *callgraph.Graph
	cgSeconds   float64
	declOf      map[*ssa.Function]ast.Node
	closuresOf  map[*ssa.Function][]*ssa.Function
}

func loadWorld(repo, tags string) (*World, error) {
	t0 := time.Now()
	env := append(os.Environ(), "GOWORK=off", "GOFLAGS=-mod=mod", "GOPROXY=off", "GOSUMDB=off", "GOTOOLCHAIN=local")
	cfg := &packages.Config{
		Mode:       packages.LoadAllSyntax,
		Dir:        repo,
		BuildFlags: []string{"-tags=" + tags},
		Env:        env,
	}
	pkgs, err := packages.Load(cfg, "./...")
	if err != nil {
		return nil, err
	}
	if len(pkgs) == 0 {
		return nil, fmt.Errorf("no packages loaded")
	}
	w := &World{Repo: repo, Tags: tags, Roots: pkgs, ByPath: map[string]*packages.Package{}}
	var errs []string
	packages.Visit(pkgs, nil, func(p *packages.Package) {
		w.NumPkgs++
		w.ByPath[p.PkgPath] = p
		if strings.HasPrefix(p.PkgPath, modPath) {
			for _, e := range p.Errors {
				errs = append(errs, e.Error())
			}
		}
	})
	if len(errs) > 0 {
		if len(errs) > 10 {
			errs = errs[:10]
		}
		return nil, fmt.Errorf("type-check errors in repository packages:\n  %s", strings.Join(errs, "\n  "))
	}
	if len(pkgs) < 30 {
		return nil, fmt.Errorf("only %d root packages loaded (expected ≥30)", len(pkgs))
	}
	w.Fset = pkgs[0].Fset
	prog, _ := ssautil.AllPackages(pkgs, ssa.BuilderMode(0))
	prog.Build()
	w.Prog = prog
	w.AllFuncs = ssautil.AllFunctions(prog)
	w.closuresOf = map[*ssa.Function][]*ssa.Function{}
	for f := range w.AllFuncs {
		if f.Pkg != nil && strings.HasPrefix(f.Pkg.Pkg.Path(), modPath) {
			w.RepoFuncs = append(w.RepoFuncs, f)
		} else if f.Pkg == nil && f.Parent() != nil {
			// closures have Pkg set via parent
		}
	}
	sort.Slice(w.RepoFuncs, func(i, j int) bool { return w.RepoFuncs[i].String() < w.RepoFuncs[j].String() })
	w.LoadSeconds = time.Since(t0).Seconds()
	return w, nil
}

func (w *World) describe() map[string]interface{} {
	return map[string]interface{}{
		"root_packages":     len(w.Roots),
		"packages_total":    w.NumPkgs,
		"ssa_functions":     len(w.AllFuncs),
		"repo_functions":    len(w.RepoFuncs),
		"build_tags":        w.Tags,
		"load_seconds":      w.LoadSeconds,
		"callgraph_seconds": w.cgSeconds,
		"callgraph_built":   w.cg != nil,
		"excluded_backends": "kvautobus bigtable gcloud clustered lowmem (do not type-check at this commit)",
	}
}

// CG returns the VTA-over-CHA call graph, built on first use.
func (w *World) CG() *callgraph.Graph {
	if w.cg == nil {
		t0 := time.Now()
		w.cg = vta.CallGraph(w.AllFuncs, cha.CallGraph(w.Prog))
		w.cgSeconds = time.Since(t0).Seconds()
	}
	return w.cg
}

func full(pkg string) string {
	if pkg == "" {
		return modPath
	}
	if strings.HasPrefix(pkg, modPath) || !strings.Contains(pkg, "/") && false {
		return pkg
	}
	return modPath + "/" + pkg
}

func (w *World) pkg(rel string) *ssa.Package {
	p := w.ByPath[full(rel)]
	if p == nil || p.Types == nil {
		return nil
	}
	return w.Prog.Package(p.Types)
}

func (w *World) tpkg(rel string) *types.Package {
	p := w.ByPath[full(rel)]
	if p == nil {
		return nil
	}
	return p.Types
}

// fn returns the package-level function pkg.name (pkg relative to the module), or nil.
func (w *World) fn(pkg, name string) *ssa.Function {
	p := w.pkg(pkg)
	if p == nil {
		return nil
	}
	return p.Func(name)
}

// named returns the named type pkg.name.
func (w *World) named(pkg, name string) *types.Named {
	tp := w.tpkg(pkg)
	if tp == nil {
		return nil
	}
	o := tp.Scope().Lookup(name)
	if o == nil {
		return nil
	}
	n, _ := o.Type().(*types.Named)
	return n
}

// method returns method typ.name declared in pkg (value or pointer receiver), or nil.
func (w *World) method(pkg, typ, name string) *ssa.Function {
	n := w.named(pkg, typ)
	if n == nil {
		return nil
	}
	for _, t := range []types.Type{n, types.NewPointer(n)} {
		sel := w.Prog.MethodSets.MethodSet(t).Lookup(n.Obj().Pkg(), name)
		if sel != nil {
			f := w.Prog.MethodValue(sel)
			if f != nil {
				// unwrap promoted-method wrappers to report the declared method
				return f
			}
		}
	}
	return nil
}

func (w *World) iface(pkg, name string) *types.Interface {
	n := w.named(pkg, name)
	if n == nil {
		return nil
	}
	i, _ := n.Underlying().(*types.Interface)
	return i
}

// implementers lists named, non-interface types declared in repository packages such that T or *T
// implements iface.  Sorted by qualified name.
func (w *World) implementers(iface *types.Interface) []*types.Named {
	var out []*types.Named
	for path, p := range w.ByPath {
		if !strings.HasPrefix(path, modPath) || p.Types == nil {
			continue
		}
		sc := p.Types.Scope()
		for _, nm := range sc.Names() {
			tn, ok := sc.Lookup(nm).(*types.TypeName)
			if !ok || tn.IsAlias() {
				continue
			}
			n, ok := tn.Type().(*types.Named)
			if !ok {
				continue
			}
			if _, isI := n.Underlying().(*types.Interface); isI {
				continue
			}
			if types.Implements(n, iface) || types.Implements(types.NewPointer(n), iface) {
				out = append(out, n)
			}
		}
	}
	sort.Slice(out, func(i, j int) bool { return qname(out[i]) < qname(out[j]) })
	return out
}

func qname(n *types.Named) string {
	if n.Obj().Pkg() == nil {
		return n.Obj().Name()
	}
	return relPkg(n.Obj().Pkg().Path()) + "." + n.Obj().Name()
}

func relPkg(path string) string {
	if path == modPath {
		return "."
	}
	return strings.TrimPrefix(path, modPath+"/")
}

// methodOf returns the concrete method `name` in the method set of *T (so pointer and value
// receiver methods and promoted ones are all found).
func (w *World) methodOf(n *types.Named, name string) *ssa.Function {
	ms := w.Prog.MethodSets.MethodSet(types.NewPointer(n))
	for i := 0; i < ms.Len(); i++ {
		if ms.At(i).Obj().Name() == name {
			return w.Prog.MethodValue(ms.At(i))
		}
	}
	return nil
}

// pos renders a position relative to the repository root (diagnosis only, never an identity).
func (w *World) pos(p token.Pos) string {
	if !p.IsValid() {
		return "-"
	}
	pp := w.Fset.Position(p)
	rel, err := filepath.Rel(w.Repo, pp.Filename)
	if err != nil {
		rel = pp.Filename
	}
	return fmt.Sprintf("%s:%d", rel, pp.Line)
}

func (w *World) fpos(f *ssa.Function) string {
	if f == nil {
		return "-"
	}
	return w.pos(f.Pos())
}

// fname gives a stable, position-free name for a function: pkg.(Recv).Name or pkg.Name$N.
func fname(f *ssa.Function) string {
	if f == nil {
		return "<nil>"
	}
	s := f.String()
	s = strings.ReplaceAll(s, modPath+"/", "")
	s = strings.ReplaceAll(s, modPath, "dvid")
	return s
}

// closures returns all anonymous functions nested (transitively) in f.
func closures(f *ssa.Function) []*ssa.Function {
	var out []*ssa.Function
	var rec func(g *ssa.Function)
	rec = func(g *ssa.Function) {
		for _, a := range g.AnonFuncs {
			out = append(out, a)
			rec(a)
		}
	}
	rec(f)
	return out
}

// withClosures returns f followed by its nested closures.
func withClosures(f *ssa.Function) []*ssa.Function {
	return append([]*ssa.Function{f}, closures(f)...)
}

// inRepo reports whether f belongs to a package of the module.
func inRepo(f *ssa.Function) bool {
	if f == nil {
		return false
	}
	p := f.Pkg
	if p == nil && f.Parent() != nil {
		return inRepo(f.Parent())
	}
	if p == nil {
		// wrappers / synthetic: use the object's package
		if f.Object() != nil && f.Object().Pkg() != nil {
			return strings.HasPrefix(f.Object().Pkg().Path(), modPath)
		}
		return false
	}
	return strings.HasPrefix(p.Pkg.Path(), modPath)
}

func pkgPathOf(f *ssa.Function) string {
	for f != nil {
		if f.Pkg != nil {
			return f.Pkg.Pkg.Path()
		}
		if f.Object() != nil && f.Object().Pkg() != nil {
			return f.Object().Pkg().Path()
		}
		f = f.Parent()
	}
	return ""
}

// syntaxPkg returns the go/packages package holding f (for AST-level rules).
func (w *World) syntaxPkg(f *ssa.Function) *packages.Package {
	return w.ByPath[pkgPathOf(f)]
}

// funcDecl finds the *ast.FuncDecl of a package-level function or method by its object.
func (w *World) funcDecl(f *ssa.Function) *ast.FuncDecl {
	if f == nil {
		return nil
	}
	if d, ok := f.Syntax().(*ast.FuncDecl); ok {
		return d
	}
	return nil
}

// fposFile: the file name of the function's position ("" for synthetic functions).
func (w *World) fposFile(f *ssa.Function) string {
	if f == nil || !f.Pos().IsValid() {
		return ""
	}
	return w.Fset.Position(f.Pos()).Filename
}

// pkgScopeConst returns the value of the package-level constant pkg.name, or nil.
func (w *World) pkgScopeConst(pkg, name string) constant.Value {
	tp := w.tpkg(pkg)
	if tp == nil {
		return nil
	}
	c, ok := tp.Scope().Lookup(name).(*types.Const)
	if !ok {
		return nil
	}
	return c.Val()
}
