package main

import (
	"fmt"
	"go/constant"
	"go/token"
	"go/types"
	"sort"
	"strings"

	"golang.org/x/tools/go/ssa"
)

// Sparse conditional constant propagation over one SSA function under an environment of
// assumptions (atoms identified by provenance, bound parameters).  Used for the gate truth tables
// (E7) and for the method/keyword-specialised effect analysis (E1).

type AKind int

const (
	AUnknown AKind = iota
	ABool
	AString
	AInt
	ATag // symbolic marker, e.g. "PARTS" for the slice of URL path segments
	ANil // the nil constant (pointer, slice, map, interface, func, chan)
	aTop // internal: value of a phi all of whose evaluated edges were cyclic (optimistic "no information yet")
)

type AVal struct {
	K AKind
	B bool
	S string
	I int64
}

func (a AVal) known() bool { return a.K != AUnknown && a.K != aTop }
func (a AVal) String() string {
	switch a.K {
	case ABool:
		return fmt.Sprintf("%v", a.B)
	case AString:
		return fmt.Sprintf("%q", a.S)
	case AInt:
		return fmt.Sprintf("%d", a.I)
	case ATag:
		return "#" + a.S
	case ANil:
		return "nil"
	}
	return "?"
}
func aBool(b bool) AVal     { return AVal{K: ABool, B: b} }
func aStr(s string) AVal    { return AVal{K: AString, S: s} }
func aTag(s string) AVal    { return AVal{K: ATag, S: s} }
func (a AVal) eq(b AVal) bool { return a == b }

var unknown = AVal{}

type AEnv struct {
	// Atom lets the rule identify values by provenance and give them an assumed value.
	Atom func(v ssa.Value) (AVal, bool)
	// Params / FreeVars bound by the caller.
	Params   map[*ssa.Parameter]AVal
	FreeVars map[*ssa.FreeVar]AVal
	// CallEval optionally evaluates a call's result (pure helper functions).
	CallEval func(c *ssa.Call, args []AVal) (AVal, bool)
	// IndexTag evaluates element `idx` of a tagged slice (e.g. PARTS[3] = keyword).
	IndexTag func(tag string, idx int64) (AVal, bool)
}

type SCCP struct {
	F        *ssa.Function
	Env      *AEnv
	Feasible map[*ssa.BasicBlock]bool
	edge     map[[2]int]bool // (block index, succ index)
	vals     map[ssa.Value]AVal
	inprog   map[ssa.Value]bool
	skipped  int // number of optimistic skips of in-progress (cyclic) values so far
}

func runSCCP(f *ssa.Function, env *AEnv) *SCCP {
	s := &SCCP{F: f, Env: env, Feasible: map[*ssa.BasicBlock]bool{}, edge: map[[2]int]bool{}}
	if len(f.Blocks) == 0 {
		return s
	}
	s.Feasible[f.Blocks[0]] = true
	// f.Recover (the block run after a recovered panic) is deliberately not entered: panicking
	// exits are outside every rule (DESIGN §1.3).
	for iter := 0; iter < 200; iter++ {
		changed := false
		s.vals = map[ssa.Value]AVal{}
		s.inprog = map[ssa.Value]bool{}
		for _, b := range f.Blocks {
			if !s.Feasible[b] || len(b.Instrs) == 0 {
				continue
			}
			mark := func(i int) {
				k := [2]int{b.Index, i}
				if !s.edge[k] {
					s.edge[k] = true
					changed = true
				}
				if !s.Feasible[b.Succs[i]] {
					s.Feasible[b.Succs[i]] = true
					changed = true
				}
			}
			switch t := b.Instrs[len(b.Instrs)-1].(type) {
			case *ssa.If:
				c := s.Eval(t.Cond)
				if c.K == ABool {
					if c.B {
						mark(0)
					} else {
						mark(1)
					}
				} else {
					mark(0)
					mark(1)
				}
			default:
				for i := range b.Succs {
					mark(i)
				}
			}
		}
		if !changed {
			break
		}
	}
	return s
}

func (s *SCCP) EdgeFeasible(b *ssa.BasicBlock, i int) bool {
	return s.Feasible[b] && s.edge[[2]int{b.Index, i}]
}

// Eval returns the abstract value of v under the current feasibility.
func (s *SCCP) Eval(v ssa.Value) AVal {
	if v == nil {
		return unknown
	}
	if a, ok := s.vals[v]; ok {
		return a
	}
	if s.inprog[v] {
		// cyclic phi: optimistic (classic SCCP) — the edge contributes nothing yet
		s.skipped++
		return AVal{K: aTop}
	}
	s.inprog[v] = true
	before := s.skipped
	a := s.eval1(v)
	delete(s.inprog, v)
	if a.K == aTop {
		if len(s.inprog) == 0 {
			a = unknown
		} else {
			return a
		}
	}
	// a value computed while a cycle was cut beneath it is final only at the outermost level
	if s.skipped == before || len(s.inprog) == 0 {
		s.vals[v] = a
	}
	return a
}

func constVal(c *ssa.Const) AVal {
	if c.Value == nil {
		switch c.Type().Underlying().(type) {
		case *types.Pointer, *types.Slice, *types.Map, *types.Interface, *types.Signature, *types.Chan:
			return AVal{K: ANil}
		}
		return unknown
	}
	switch c.Value.Kind() {
	case constant.Bool:
		return aBool(constant.BoolVal(c.Value))
	case constant.String:
		return aStr(constant.StringVal(c.Value))
	case constant.Int:
		if i, ok := constant.Int64Val(c.Value); ok {
			return AVal{K: AInt, I: i}
		}
	}
	return unknown
}

func (s *SCCP) eval1(v ssa.Value) AVal {
	if s.Env != nil && s.Env.Atom != nil {
		if a, ok := s.Env.Atom(v); ok {
			return a
		}
	}
	switch x := v.(type) {
	case *ssa.Const:
		return constVal(x)
	case *ssa.Parameter:
		if s.Env != nil {
			if a, ok := s.Env.Params[x]; ok {
				return a
			}
		}
	case *ssa.FreeVar:
		if s.Env != nil {
			if a, ok := s.Env.FreeVars[x]; ok {
				return a
			}
		}
	case *ssa.Phi:
		var res AVal
		first, sawTop := true, false
		for i, e := range x.Edges {
			pred := x.Block().Preds[i]
			// which succ index of pred leads to this block?
			feas := false
			for si, sb := range pred.Succs {
				if sb == x.Block() && s.EdgeFeasible(pred, si) {
					feas = true
				}
			}
			if !feas {
				continue
			}
			ev := s.Eval(e)
			if ev.K == aTop {
				sawTop = true
				continue
			}
			if !ev.known() {
				return unknown
			}
			if first {
				res, first = ev, false
			} else if !res.eq(ev) {
				return unknown
			}
		}
		if first {
			if sawTop {
				return AVal{K: aTop}
			}
			return unknown
		}
		return res
	case *ssa.UnOp:
		switch x.Op {
		case token.NOT:
			a := s.Eval(x.X)
			if a.K == ABool {
				return aBool(!a.B)
			}
		case token.MUL:
			return s.evalLoad(x)
		}
	case *ssa.BinOp:
		a, b := s.Eval(x.X), s.Eval(x.Y)
		// a value known to be non-nil (an error a helper certainly returned) against nil
		if (a.K == ANil && b.K == ATag && b.S == "nonnil") || (b.K == ANil && a.K == ATag && a.S == "nonnil") {
			switch x.Op {
			case token.EQL:
				return aBool(false)
			case token.NEQ:
				return aBool(true)
			}
		}
		if a.known() && b.known() && a.K == b.K {
			switch x.Op {
			case token.EQL:
				return aBool(a.eq(b))
			case token.NEQ:
				return aBool(!a.eq(b))
			}
			if a.K == AInt {
				switch x.Op {
				case token.LSS:
					return aBool(a.I < b.I)
				case token.LEQ:
					return aBool(a.I <= b.I)
				case token.GTR:
					return aBool(a.I > b.I)
				case token.GEQ:
					return aBool(a.I >= b.I)
				}
			}
			if a.K == ABool {
				switch x.Op {
				case token.AND:
					return aBool(a.B && b.B)
				case token.OR:
					return aBool(a.B || b.B)
				}
			}
		}
	case *ssa.ChangeType:
		return s.Eval(x.X)
	case *ssa.ChangeInterface:
		if a := s.Eval(x.X); a.K == ANil {
			return a
		}
	case *ssa.Convert:
		a := s.Eval(x.X)
		if a.K == AString || a.K == ATag {
			if b, ok := x.Type().Underlying().(*types.Basic); ok && b.Info()&types.IsString != 0 {
				return a
			}
		}
		if a.K == AInt {
			if b, ok := x.Type().Underlying().(*types.Basic); ok && b.Info()&types.IsInteger != 0 {
				return a
			}
		}
	case *ssa.Slice:
		// re-slicing the parts slice keeps its tag (indices below are still the same segments
		// only when Low is nil/0 — the repo's idiom `parts = parts[:len(parts)-1]`)
		a := s.Eval(x.X)
		if a.K == ATag && (x.Low == nil || isZeroConst(x.Low)) {
			return a
		}
	case *ssa.Call:
		var args []AVal
		for _, arg := range x.Call.Args {
			args = append(args, s.Eval(arg))
		}
		if bi, ok := x.Call.Value.(*ssa.Builtin); ok && bi.Name() == "len" && len(args) == 1 {
			if args[0].K == AString {
				return AVal{K: AInt, I: int64(len(args[0].S))}
			}
			if args[0].K == ANil {
				return AVal{K: AInt, I: 0}
			}
		}
		if f := x.Call.StaticCallee(); f != nil {
			switch f.String() {
			case "strings.ToLower":
				if args[0].K == AString {
					return aStr(strings.ToLower(args[0].S))
				}
			case "strings.ToUpper":
				if args[0].K == AString {
					return aStr(strings.ToUpper(args[0].S))
				}
			case "strings.TrimSpace":
				if args[0].K == AString {
					return aStr(strings.TrimSpace(args[0].S))
				}
			}
		}
		if s.Env != nil && s.Env.CallEval != nil {
			if a, ok := s.Env.CallEval(x, args); ok {
				return a
			}
		}
	}
	return unknown
}

func isZeroConst(v ssa.Value) bool {
	i, ok := constInt(v)
	return ok && i == 0
}

// evalLoad evaluates *addr for (a) element loads of tagged slices, (b) locals spilled to an Alloc
// whose every store writes the same known value.
func (s *SCCP) evalLoad(u *ssa.UnOp) AVal {
	switch addr := u.X.(type) {
	case *ssa.IndexAddr:
		base := s.Eval(addr.X)
		if base.K == ATag && s.Env != nil && s.Env.IndexTag != nil {
			if idx := s.Eval(addr.Index); idx.K == AInt {
				if a, ok := s.Env.IndexTag(base.S, idx.I); ok {
					return a
				}
			}
		}
	case *ssa.Alloc:
		var res AVal
		first := true
		for _, ref := range *addr.Referrers() {
			switch r := ref.(type) {
			case *ssa.Store:
				if r.Addr != addr {
					return unknown // address stored somewhere
				}
				if !s.Feasible[r.Block()] {
					continue
				}
				ev := s.Eval(r.Val)
				if !ev.known() {
					return unknown
				}
				if first {
					res, first = ev, false
				} else if !res.eq(ev) {
					return unknown
				}
			case *ssa.UnOp, *ssa.DebugRef:
			case *ssa.MakeClosure:
				// captured by reference: a closure may store into it
				if closureStores(r, addr) {
					return unknown
				}
			default:
				return unknown
			}
		}
		if !first {
			return res
		}
	}
	return unknown
}

// closureStores reports whether the closure created by mc stores through the free variable bound
// to alloc.
func closureStores(mc *ssa.MakeClosure, alloc *ssa.Alloc) bool {
	fn, ok := mc.Fn.(*ssa.Function)
	if !ok {
		return true
	}
	for i, b := range mc.Bindings {
		if b != alloc {
			continue
		}
		fv := fn.FreeVars[i]
		for _, ref := range *fv.Referrers() {
			switch r := ref.(type) {
			case *ssa.UnOp:
			case *ssa.Store:
				if r.Addr == fv {
					return true
				}
			default:
				return true
			}
		}
	}
	return false
}

// feasibleInstrs calls fn for each instruction in feasible blocks.
func (s *SCCP) eachFeasible(fn func(in ssa.Instruction)) {
	for _, b := range s.F.Blocks {
		if !s.Feasible[b] {
			continue
		}
		for _, in := range b.Instrs {
			fn(in)
		}
	}
}

// bindingKey renders parameter bindings canonically (memo key).
func bindingKey(f *ssa.Function, env *AEnv) string {
	var parts []string
	for p, a := range env.Params {
		parts = append(parts, "p:"+p.Name()+"="+a.String())
	}
	for p, a := range env.FreeVars {
		parts = append(parts, "f:"+p.Name()+"="+a.String())
	}
	sort.Strings(parts)
	return f.String() + "|" + strings.Join(parts, ",")
}
