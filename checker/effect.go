package main

import (
	"go/token"
	"go/types"
	"strings"

	"golang.org/x/tools/go/ssa"
)

// ---------------------------------------------------------------------------------------------
// storage write sinks (DESIGN §1.2)

var storageWriteMethods = map[string]bool{
	"Put": true, "Delete": true, "RawPut": true, "RawDelete": true, "PutRange": true,
	"DeleteRange": true, "DeleteAll": true, "PutCallback": true, "KeyValueIngest": true,
	"Append": true, "TopicAppend": true, "PutBlob": true,
}

// storageWriteIfaces are the interfaces of package storage whose methods above are sinks.
var storageWriteIfaceNames = []string{"KeyValueSetter", "OrderedKeyValueSetter", "BufferableOps", "RequestBuffer",
	"KeyValueIngestable", "Batch", "WriteLog", "BlobStore", "KeyValueDB", "OrderedKeyValueDB"}

type Sinks struct {
	w      *World
	ifaces []*types.Interface
	cache  map[*types.Func]bool
}

func (w *World) newSinks() *Sinks {
	s := &Sinks{w: w, cache: map[*types.Func]bool{}}
	for _, n := range storageWriteIfaceNames {
		if i := w.iface("storage", n); i != nil {
			s.ifaces = append(s.ifaces, i)
		}
	}
	return s
}

// isWriteMethod reports whether the method object is a storage write: declared on an interface of
// package storage (or an embedding of it), or on a concrete repository type implementing one of
// the storage write interfaces.
func (s *Sinks) isWriteMethod(o *types.Func) bool {
	if o == nil || !storageWriteMethods[o.Name()] {
		return false
	}
	if v, ok := s.cache[o]; ok {
		return v
	}
	res := false
	sig := o.Type().(*types.Signature)
	if sig.Recv() != nil && o.Pkg() != nil && strings.HasPrefix(o.Pkg().Path(), modPath) {
		rt := sig.Recv().Type()
		if _, isI := rt.Underlying().(*types.Interface); isI {
			// interface method: the interface must be one of storage's (or datastore.BlobService etc.
			// embedding them) and the method must come from a storage write interface
			for _, i := range s.ifaces {
				for k := 0; k < i.NumMethods(); k++ {
					if i.Method(k) == o {
						res = true
					}
				}
			}
			// interfaces outside storage that redeclare the same method (datastore.BlobService,
			// copy_local's rawPutDB): accept when the declaring package is inside storage/datastore
			// and the name is a write method
			if !res {
				p := relPkg(o.Pkg().Path())
				if p == "storage" || p == "datastore" || strings.HasPrefix(p, "storage/") {
					res = true
				}
			}
		} else {
			// concrete type: must implement (by pointer) one storage write interface containing a
			// method of that name
			pt := rt
			if _, ok := pt.(*types.Pointer); !ok {
				pt = types.NewPointer(rt)
			}
			for _, i := range s.ifaces {
				has := false
				for k := 0; k < i.NumMethods(); k++ {
					if i.Method(k).Name() == o.Name() {
						has = true
					}
				}
				if has && (types.Implements(pt, i) || types.Implements(rt, i)) {
					res = true
				}
			}
		}
	}
	s.cache[o] = res
	return res
}

func (s *Sinks) isStorageWrite(c ssa.CallInstruction) bool {
	return s.isWriteMethod(calleeObj(c))
}

// isEffectTransfer: publishing a sync event makes another instance write.
func isEffectTransfer(c ssa.CallInstruction) bool {
	return isCallTo(c, "datastore", "", "NotifySubscribers")
}

// isSyncSend: a send on a chan datastore.SyncMessage.
func isSyncSend(in ssa.Instruction) bool {
	s, ok := in.(*ssa.Send)
	if !ok {
		return false
	}
	ch, ok := s.Chan.Type().Underlying().(*types.Chan)
	return ok && typeIs(ch.Elem(), "datastore", "SyncMessage")
}

// ---------------------------------------------------------------------------------------------
// method / keyword specialised reachability

type SpecCtx struct {
	Method  string // upper-case HTTP method, "" = unknown
	Keyword string
	KwKnown bool
}

type SpecReach struct {
	w        *World
	sink     func(c ssa.CallInstruction) bool
	plain    *Reach
	memo     map[string]*specRes
	inprog   map[string]bool
	Keywords map[string]bool // discovery: string constants compared with the keyword
	Visited  int
}

type specRes struct {
	hit  bool
	site ssa.Instruction
	next string // memo key of the callee
	fn   *ssa.Function
}

func (w *World) newSpecReach(sink func(c ssa.CallInstruction) bool) *SpecReach {
	return &SpecReach{w: w, sink: sink, plain: w.newReach(sink, nil), memo: map[string]*specRes{}, inprog: map[string]bool{}, Keywords: map[string]bool{}}
}

func isHTTPRequestMethodLoad(v ssa.Value) bool {
	u, ok := v.(*ssa.UnOp)
	if !ok || u.Op != token.MUL {
		return false
	}
	fa, ok := u.X.(*ssa.FieldAddr)
	if !ok {
		return false
	}
	name, _, ok := fieldName(fa)
	return ok && name == "Method" && typeIs(fa.X.Type(), "net/http", "Request")
}

// derivesFromURLPath: v is r.URL.Path or a slice of it.
func derivesFromURLPath(v ssa.Value) bool {
	for i := 0; i < 6; i++ {
		switch x := v.(type) {
		case *ssa.Slice:
			v = x.X
			continue
		case *ssa.UnOp:
			if fa, ok := x.X.(*ssa.FieldAddr); ok {
				name, _, _ := fieldName(fa)
				return name == "Path" && typeIs(fa.X.Type(), "net/url", "URL")
			}
			return false
		case *ssa.Phi:
			for _, e := range x.Edges {
				if !derivesFromURLPath(e) {
					return false
				}
			}
			return len(x.Edges) > 0
		}
		return false
	}
	return false
}

func isURLPartsSplit(v ssa.Value) bool {
	c, ok := v.(*ssa.Call)
	if !ok {
		return false
	}
	f := c.Call.StaticCallee()
	if f == nil || f.String() != "strings.Split" {
		return false
	}
	if sep, ok := constString(c.Call.Args[1]); !ok || sep != "/" {
		return false
	}
	return derivesFromURLPath(c.Call.Args[0])
}

func (sr *SpecReach) env(sc SpecCtx, base *AEnv) *AEnv {
	e := &AEnv{Params: map[*ssa.Parameter]AVal{}, FreeVars: map[*ssa.FreeVar]AVal{}}
	if base != nil {
		e.Params, e.FreeVars = base.Params, base.FreeVars
	}
	e.Atom = func(v ssa.Value) (AVal, bool) {
		if sc.Method != "" && isHTTPRequestMethodLoad(v) {
			return aStr(sc.Method), true
		}
		if isURLPartsSplit(v) {
			return aTag("PARTS"), true
		}
		return unknown, false
	}
	e.CallEval = func(c *ssa.Call, args []AVal) (AVal, bool) { return evalPureCall(c, args, 0) }
	e.IndexTag = func(tag string, idx int64) (AVal, bool) {
		if tag == "PARTS" && idx == 3 {
			if sc.KwKnown {
				return aStr(sc.Keyword), true
			}
			return aTag("KEYWORD"), true
		}
		return unknown, false
	}
	return e
}

func bindable(a AVal) bool { return a.K == AString || a.K == ATag || a.K == ABool }

// From reports whether f, entered with the bindings of env under sc, may reach a sink.
func (sr *SpecReach) From(f *ssa.Function, sc SpecCtx, bind *AEnv) bool {
	hit, _ := sr.from(f, sc, bind)
	return hit
}

func (sr *SpecReach) key(f *ssa.Function, sc SpecCtx, e *AEnv) string {
	kw := "?"
	if sc.KwKnown {
		kw = sc.Keyword
	}
	return bindingKey(f, e) + "|" + sc.Method + "|" + kw
}

// from returns (hit, tainted): tainted = the negative answer depended on an in-progress node.
func (sr *SpecReach) from(f *ssa.Function, sc SpecCtx, bind *AEnv) (bool, bool) {
	if f == nil || len(f.Blocks) == 0 {
		return false, false
	}
	if !sr.plain.From(f) && !sr.hasClosureReach(f) {
		return false, false
	}
	e := sr.env(sc, bind)
	k := sr.key(f, sc, e)
	if m, ok := sr.memo[k]; ok {
		return m.hit, false
	}
	if sr.inprog[k] {
		return false, true
	}
	sr.inprog[k] = true
	defer delete(sr.inprog, k)
	sr.Visited++
	s := runSCCP(f, e)
	res := &specRes{fn: f}
	tainted := false
	try := func(site ssa.Instruction, callee *ssa.Function, ce *AEnv) bool {
		h, t := sr.from(callee, sc, ce)
		if t {
			tainted = true
		}
		if h {
			res.hit, res.site, res.next = true, site, sr.key(callee, sc, sr.env(sc, ce))
		}
		return h
	}
	discover := !sc.KwKnown && sc.Method == ""
	for _, b := range f.Blocks {
		if !s.Feasible[b] || (res.hit && !discover) {
			continue
		}
		for _, in := range b.Instrs {
			if res.hit && !discover {
				break
			}
			// discovery of keyword constants
			if bo, ok := in.(*ssa.BinOp); ok && (bo.Op == token.EQL || bo.Op == token.NEQ) {
				if a := s.Eval(bo.X); a.K == ATag && a.S == "KEYWORD" {
					if c := s.Eval(bo.Y); c.K == AString {
						sr.Keywords[c.S] = true
					}
				} else if a := s.Eval(bo.Y); a.K == ATag && a.S == "KEYWORD" {
					if c := s.Eval(bo.X); c.K == AString {
						sr.Keywords[c.S] = true
					}
				}
			}
			switch x := in.(type) {
			case ssa.CallInstruction:
				if sr.sink(x) {
					res.hit, res.site = true, in
					break
				}
				cc := x.Common()
				static := cc.StaticCallee()
				for _, callee := range sr.w.Callees(x) {
					ce := &AEnv{Params: map[*ssa.Parameter]AVal{}, FreeVars: map[*ssa.FreeVar]AVal{}}
					if callee == static || cc.IsInvoke() || static == nil {
						// bind parameters from arguments
						args := cc.Args
						params := callee.Params
						if cc.IsInvoke() || (static == nil && len(params) == len(args)+1) {
							// receiver is params[0] for invoke-mode calls
							if len(params) == len(args)+1 {
								params = params[1:]
							}
						}
						if len(params) == len(args) {
							for i, a := range args {
								if av := s.Eval(a); bindable(av) {
									ce.Params[params[i]] = av
								}
							}
						}
					}
					// free variables of closures created here
					sr.bindFreeVars(s, x, callee, ce)
					if try(in, callee, ce) && !discover {
						break
					}
				}
			case *ssa.MakeClosure:
				if fn, ok := x.Fn.(*ssa.Function); ok {
					ce := &AEnv{Params: map[*ssa.Parameter]AVal{}, FreeVars: map[*ssa.FreeVar]AVal{}}
					for i, bv := range x.Bindings {
						if av := s.Eval(bv); bindable(av) && i < len(fn.FreeVars) {
							ce.FreeVars[fn.FreeVars[i]] = av
						}
					}
					try(in, fn, ce)
				}
			}
		}
	}
	if res.hit || !tainted {
		sr.memo[k] = res
	}
	return res.hit, tainted && !res.hit
}

func (sr *SpecReach) bindFreeVars(s *SCCP, c ssa.CallInstruction, callee *ssa.Function, ce *AEnv) {
	find := func(v ssa.Value) {
		if mc, ok := v.(*ssa.MakeClosure); ok && mc.Fn == callee {
			for i, bv := range mc.Bindings {
				if av := s.Eval(bv); bindable(av) && i < len(callee.FreeVars) {
					ce.FreeVars[callee.FreeVars[i]] = av
				}
			}
		}
	}
	find(c.Common().Value)
	for _, a := range c.Common().Args {
		find(a)
	}
}

// hasClosureReach: some closure nested in f reaches a sink (closures are explored from their
// MakeClosure site even when never called inside f).
func (sr *SpecReach) hasClosureReach(f *ssa.Function) bool {
	for _, a := range f.AnonFuncs {
		if sr.plain.From(a) || sr.hasClosureReach(a) {
			return true
		}
	}
	return false
}

// Path renders the witness for a hit starting at f.
func (sr *SpecReach) Path(f *ssa.Function, sc SpecCtx, bind *AEnv) []string {
	var out []string
	k := sr.key(f, sc, sr.env(sc, bind))
	seen := map[string]bool{}
	for k != "" && !seen[k] && len(out) < 40 {
		seen[k] = true
		m := sr.memo[k]
		if m == nil || !m.hit {
			break
		}
		desc := short(m.site.String(), 90)
		if c, ok := m.site.(ssa.CallInstruction); ok {
			desc = callDesc(c)
		}
		out = append(out, fname(m.fn)+" @ "+sr.w.pos(m.site.Pos())+" → "+desc)
		k = m.next
	}
	return out
}

// evalPureCall evaluates a static call of a repository function whose result is a single string or
// bool and whose arguments are all known, by SCCP on the callee (join of feasible returns).  Only
// functions without calls other than to further such functions are evaluated.
func evalPureCall(c *ssa.Call, args []AVal, depth int) (AVal, bool) {
	callee := c.Call.StaticCallee()
	if callee == nil || !inRepo(callee) || len(callee.Blocks) == 0 || depth > 3 {
		return unknown, false
	}
	res := callee.Signature.Results()
	if res.Len() != 1 {
		return unknown, false
	}
	b, ok := res.At(0).Type().Underlying().(*types.Basic)
	if !ok || (b.Kind() != types.Bool && b.Info()&types.IsString == 0) {
		return unknown, false
	}
	if len(callee.Params) != len(args) {
		return unknown, false
	}
	env := &AEnv{Params: map[*ssa.Parameter]AVal{}}
	for i, a := range args {
		if !a.known() {
			// unknown receiver pointer etc. is fine as long as the result does not depend on it
			continue
		}
		env.Params[callee.Params[i]] = a
	}
	env.CallEval = func(c2 *ssa.Call, a2 []AVal) (AVal, bool) { return evalPureCall(c2, a2, depth+1) }
	s := runSCCP(callee, env)
	var out AVal
	first := true
	for _, blk := range callee.Blocks {
		if !s.Feasible[blk] {
			continue
		}
		if ret, ok := blk.Instrs[len(blk.Instrs)-1].(*ssa.Return); ok {
			v := s.Eval(ret.Results[0])
			if !v.known() {
				return unknown, false
			}
			if first {
				out, first = v, false
			} else if !out.eq(v) {
				return unknown, false
			}
		}
	}
	if first {
		return unknown, false
	}
	return out, true
}
