package main

import (
	"fmt"
	"go/constant"
	"go/token"
	"go/types"
	"sort"
	"strings"

	"golang.org/x/tools/go/ssa"
)

// logWriters: functions of datatype/common/labels that append a record; value = entry type names.
type logWriter struct {
	Fn    *ssa.Function
	Types []string // names of the proto entry-type constants written
}

func entryTypeName(w *World, v ssa.Value) string {
	c, ok := v.(*ssa.Const)
	if !ok || c.Value == nil || c.Value.Kind() != constant.Int {
		return ""
	}
	k, _ := constant.Int64Val(c.Value)
	// name by looking up constants of the proto package
	for path, p := range w.ByPath {
		if !strings.HasSuffix(path, "datatype/common/proto") || p.Types == nil {
			continue
		}
		sc := p.Types.Scope()
		for _, nm := range sc.Names() {
			cc, ok := sc.Lookup(nm).(*types.Const)
			if !ok || cc.Val().Kind() != constant.Int || !strings.HasSuffix(nm, "Type") {
				continue
			}
			if kv, _ := constant.Int64Val(cc.Val()); kv == k {
				return nm
			}
		}
	}
	return fmt.Sprintf("type#%d", k)
}

func findLogWriters(w *World) []logWriter {
	var out []logWriter
	for _, f := range w.RepoFuncs {
		if relPkg(pkgPathOf(f)) != "datatype/common/labels" || f.Parent() != nil {
			continue
		}
		appends := false
		for _, c := range calls(f) {
			if c.Common().IsInvoke() && (c.Common().Method.Name() == "Append" || c.Common().Method.Name() == "TopicAppend") {
				appends = true
			}
		}
		if !appends {
			continue
		}
		// EntryType stores into a storage.LogMessage literal
		seen := map[string]bool{}
		for _, b := range f.Blocks {
			for _, in := range b.Instrs {
				st, ok := in.(*ssa.Store)
				if !ok {
					continue
				}
				fa, ok := st.Addr.(*ssa.FieldAddr)
				if !ok {
					continue
				}
				if name, _, _ := fieldName(fa); name == "EntryType" && typeIs(fa.X.Type(), "storage", "LogMessage") {
					if n := entryTypeName(w, st.Val); n != "" {
						seen[n] = true
					}
				}
			}
		}
		var ts []string
		for t := range seen {
			ts = append(ts, t)
		}
		sort.Strings(ts)
		if len(ts) > 0 {
			out = append(out, logWriter{f, ts})
		}
	}
	return out
}

// replayCases: in the replay function, the entry-type constants of switch cases, with whether the
// case body sets a mapping and whether it accumulates (appends) split records.
type replayCase struct {
	Type        string
	SetsMapping bool
	Accumulates bool
}

func replayCasesOf(w *World, f *ssa.Function) []replayCase {
	var out []replayCase
	for _, b := range f.Blocks {
		ifi, ok := b.Instrs[len(b.Instrs)-1].(*ssa.If)
		if !ok {
			continue
		}
		bo, ok := ifi.Cond.(*ssa.BinOp)
		if !ok || bo.Op != token.EQL {
			continue
		}
		var k ssa.Value
		for _, pr := range [][2]ssa.Value{{bo.X, bo.Y}, {bo.Y, bo.X}} {
			if fl, ok := pr[0].(*ssa.Field); ok {
				if name, _, _ := fieldName(fl); name == "EntryType" {
					k = pr[1]
				}
			}
			if u, ok := pr[0].(*ssa.UnOp); ok {
				if fa, ok := u.X.(*ssa.FieldAddr); ok {
					if name, _, _ := fieldName(fa); name == "EntryType" {
						k = pr[1]
					}
				}
			}
		}
		if k == nil {
			continue
		}
		name := entryTypeName(w, k)
		if name == "" {
			continue
		}
		// the case body: blocks dominated by the true successor (single pred)
		body := b.Succs[0]
		rc := replayCase{Type: name}
		for _, bb := range f.Blocks {
			if !(body.Dominates(bb)) || len(body.Preds) != 1 {
				continue
			}
			for _, in := range bb.Instrs {
				if c, ok := in.(ssa.CallInstruction); ok {
					if callsMethodNamed(c, "setMapping") {
						rc.SetsMapping = true
					}
					if bi, ok := c.Common().Value.(*ssa.Builtin); ok && bi.Name() == "append" {
						rc.Accumulates = true
					}
				}
			}
		}
		out = append(out, rc)
	}
	return out
}

func ruleR3_5(r *Run) {
	w := r.W
	replay := w.method("datatype/labelmap", "VCache", "loadVersionMapping")
	if replay == nil {
		r.violation("VCache.loadVersionMapping", "the mapping replay function was not found", "-")
		return
	}
	cases := replayCasesOf(w, replay)
	writers := findLogWriters(w)
	writerOf := map[string][]*ssa.Function{}
	for _, lw := range writers {
		for _, t := range lw.Types {
			writerOf[t] = append(writerOf[t], lw.Fn)
		}
	}
	var rt, wt []string
	replayed := map[string]bool{}
	accum := map[string]bool{}
	for _, c := range cases {
		rt = append(rt, fmt.Sprintf("%s(setsMapping=%v,accumulates=%v)", c.Type, c.SetsMapping, c.Accumulates))
		if c.SetsMapping {
			replayed[c.Type] = true
		}
		if c.Accumulates {
			accum[c.Type] = true
		}
	}
	for t := range writerOf {
		wt = append(wt, t)
	}
	sort.Strings(wt)
	r.note("R3.5 replayed record types: %s; written record types: %s", strings.Join(rt, ", "), strings.Join(wt, ", "))
	if len(replayed) < 4 {
		r.violation("replay:cases", fmt.Sprintf("only %d replay cases apply a mapping (%v): a handler was emptied or removed, so logged changes are not rebuilt after restart", len(replayed), rt), w.fpos(replay))
	}
	// (b) every replayed type has a writer that some labelmap function calls
	lmCalls := map[*ssa.Function]bool{}
	for _, f := range w.RepoFuncs {
		if relPkg(pkgPathOf(f)) != "datatype/labelmap" {
			continue
		}
		for _, c := range calls(f) {
			if callee := c.Common().StaticCallee(); callee != nil {
				lmCalls[callee] = true
			}
		}
	}
	var rts []string
	for t := range replayed {
		rts = append(rts, t)
	}
	sort.Strings(rts)
	for _, t := range rts {
		used := false
		for _, fn := range writerOf[t] {
			if lmCalls[fn] {
				used = true
			}
		}
		r.check(used, "replayed-type-has-writer:"+t, "a log writer for this record type is called by labelmap",
			"the replay handles record type "+t+" but no live operation writes it any more (or the writer now uses another type): the state it rebuilt is lost after restart", w.fpos(replay))
	}
	// (a) every function that sets a mapping live also appends a replayed record on every success exit
	isDirectLog := func(in ssa.Instruction) bool {
		c, ok := in.(ssa.CallInstruction)
		if !ok {
			return false
		}
		callee := c.Common().StaticCallee()
		for _, lw := range writers {
			if lw.Fn == callee {
				for _, t := range lw.Types {
					if replayed[t] {
						return true
					}
				}
			}
		}
		return false
	}
	// a wrapper of the log writer: a labelmap function all of whose returns lie behind a direct log call
	// (logMappedSet(d, v, mutID, label, set) { return labels.LogMapping(d, v, op) })
	wrapper := map[*ssa.Function]bool{}
	for _, g := range w.RepoFuncs {
		if relPkg(pkgPathOf(g)) != "datatype/labelmap" || len(g.Blocks) == 0 || g == replay {
			continue
		}
		has := false
		for _, c := range calls(g) {
			if isDirectLog(c) {
				has = true
			}
		}
		if !has {
			continue
		}
		anyRet := func(x ssa.Instruction) bool { _, ok := x.(*ssa.Return); return ok }
		if findPath(g, nil, isDirectLog, anyRet, nil) == nil {
			wrapper[g] = true
		}
	}
	isReplayedLog := func(in ssa.Instruction) bool {
		if isDirectLog(in) {
			return true
		}
		c, ok := in.(ssa.CallInstruction)
		if !ok {
			return false
		}
		callee := c.Common().StaticCallee()
		return callee != nil && wrapper[callee]
	}
	n := 0
	for _, f := range w.RepoFuncs {
		if relPkg(pkgPathOf(f)) != "datatype/labelmap" || f == replay || len(f.Blocks) == 0 {
			continue
		}
		var sets []ssa.Instruction
		for _, c := range calls(f) {
			if callsMethodNamed(c, "setMapping") {
				sets = append(sets, c)
			}
		}
		if len(sets) == 0 {
			continue
		}
		n++
		var bad []ssa.Instruction
		for _, s := range sets {
			p := findPath(f, s, isReplayedLog, func(in ssa.Instruction) bool {
				ret, ok := in.(*ssa.Return)
				return ok && !isErrorExit(ret)
			}, nil)
			if p != nil {
				bad = p
			}
		}
		r.check(bad == nil, fname(f)+":mapping-change-logged",
			"after every live setMapping a record of a replayed type is appended before any success exit",
			"a live mapping change can be acknowledged without a log record of a replayed type: the mapping is lost at restart", w.fpos(f), w.renderPath(bad)...)
	}
	if n < 5 {
		r.undecided("mapping-setters", fmt.Sprintf("only %d functions set mappings", n))
	}
	// (c) accumulating record types: at most one append per operation path
	var accTypes []string
	for t := range accum {
		accTypes = append(accTypes, t)
	}
	sort.Strings(accTypes)
	for _, t := range accTypes {
		var wfn []*ssa.Function
		wfn = append(wfn, writerOf[t]...)
		if len(wfn) == 0 {
			continue
		}
		isW := func(c ssa.CallInstruction) bool {
			for _, x := range wfn {
				if c.Common().StaticCallee() == x {
					return true
				}
			}
			return false
		}
		reachW := w.newReach(isW, func(f *ssa.Function) bool { return !strings.HasPrefix(relPkg(pkgPathOf(f)), "datatype/") })
		dup := ""
		var dupPath []ssa.Instruction
		for _, f := range w.RepoFuncs {
			if relPkg(pkgPathOf(f)) != "datatype/labelmap" || len(f.Blocks) == 0 {
				continue
			}
			reaches := func(in ssa.Instruction) bool {
				c, ok := in.(ssa.CallInstruction)
				if !ok {
					return false
				}
				if isW(c) {
					return true
				}
				callee := c.Common().StaticCallee()
				return callee != nil && inRepo(callee) && reachW.From(callee)
			}
			for _, b := range f.Blocks {
				for _, in := range b.Instrs {
					if !reaches(in) {
						continue
					}
					if p := findPath(f, in, nil, reaches, nil); p != nil {
						dup = fname(f)
						dupPath = p
					}
				}
			}
		}
		r.check(dup == "", "accumulating-record-once:"+t,
			"no operation path appends this record type twice (its replay handler accumulates, so a duplicate record shows up twice after restart)",
			"the operation "+dup+" can append a "+t+" record twice on one path; the replay handler accumulates records, so after a restart the split list contains the split twice", "-", w.renderPath(dupPath)...)
	}
	// (d) version attribution in initToVersion
	itv := w.method("datatype/labelmap", "VCache", "initToVersion")
	if itv == nil {
		r.violation("VCache.initToVersion", "not found", "-")
		return
	}
	var goCall ssa.CallInstruction
	var stream ssa.CallInstruction
	for _, c := range calls(itv) {
		if c.Common().StaticCallee() == replay {
			goCall = c
		}
		if isCallTo(c, "datatype/common/labels", "", "StreamLog") {
			stream = c
		}
	}
	if goCall == nil || stream == nil {
		r.violation("VCache.initToVersion:replay-wiring", "initToVersion no longer starts loadVersionMapping and streams the version's log", w.fpos(itv))
		return
	}
	okAttr := false
	if sl, ok := goCall.Common().Args[1].(*ssa.Slice); ok && sl.Low != nil {
		// streamed version = sl.X[sl.Low]
		sv := stripConv(stream.Common().Args[1])
		if u, ok := sv.(*ssa.UnOp); ok {
			if ia, ok := u.X.(*ssa.IndexAddr); ok && ia.X == sl.X && ia.Index == sl.Low {
				okAttr = true
			}
		}
	}
	r.check(okAttr, "VCache.initToVersion:log-attributed-to-its-version",
		"the ancestry slice handed to the replay starts at the very version whose log is streamed",
		"the replay of a version's log is attributed to another version (the ancestry slice does not start at the streamed version): after restart mappings of ancestors overwrite the leaf's", w.pos(goCall.Pos()))
}

func ruleR3_6(r *Run) {
	w := r.W
	type hook struct{ pkg, typ, iface, method string }
	hooks := []hook{
		{"datatype/labelmap", "Data", "InstanceMutator", "LoadMutable"},
		{"datatype/labelmap", "Data", "Initializer", "Initialize"},
		{"datatype/neuronjson", "Data", "Initializer", "Initialize"},
		{"datatype/annotation", "Data", "DataInitializer", "InitDataHandlers"},
		{"datatype/labelsz", "Data", "DataInitializer", "InitDataHandlers"},
	}
	for _, h := range hooks {
		n := w.named(h.pkg, h.typ)
		i := w.iface("datastore", h.iface)
		if n == nil || i == nil {
			r.violation(h.pkg+"."+h.typ+":"+h.iface, "type or interface not found", "-")
			continue
		}
		r.check(types.Implements(types.NewPointer(n), i), h.pkg+"."+h.typ+":implements:"+h.iface,
			"implements datastore."+h.iface, "no longer implements datastore."+h.iface+": its start-up rebuild is silently skipped by the loader's type assertion", w.pos(n.Obj().Pos()))
		// some datastore function type-asserts to the interface and invokes the method
		invoked := false
		for _, f := range w.RepoFuncs {
			if relPkg(pkgPathOf(f)) != "datastore" {
				continue
			}
			for _, c := range calls(f) {
				if c.Common().IsInvoke() && c.Common().Method.Name() == h.method && typeIs(c.Common().Value.Type(), "datastore", h.iface) {
					invoked = true
				}
			}
		}
		r.check(invoked, "datastore:invokes:"+h.iface+"."+h.method, "the datastore invokes the hook", "no datastore function invokes "+h.iface+"."+h.method+" any more", "-")
	}
}
