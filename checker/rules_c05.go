package main

import (
	"fmt"
	"go/token"
	"go/types"
	"strings"

	"golang.org/x/tools/go/ssa"
)

func init() {
	register(ruleDef{ID: "R5.1", Prop: "C05", Tier: "quick", Floor: 15,
		Title: "sibling agreement of the range consumers of each ordered back end: scanner dispatch on ctx.Versioned(), begin/end argument order, keysOnly vs value use, error tested before end-of-stream",
		Fn:    ruleR5_1})
	register(ruleDef{ID: "R5.2", Prop: "C05", Tier: "quick", Floor: 3,
		Title: "versioned scanner boundary keys: seek at MinVersionKey(beg), stop beyond MaxVersionKey(end) tested for every key before it joins a group, group boundary at MaxVersionKey of the current datum",
		Fn:    ruleR5_2})
	register(ruleDef{ID: "R5.3", Prop: "C05", Tier: "quick", Floor: 2,
		Title: "every pending group of per-version entries is passed through the ancestry resolver before it is dropped or the scan ends; only resolved entries are sent",
		Fn:    ruleR5_3})
	register(ruleDef{ID: "R5.4", Prop: "C05", Tier: "quick", Floor: 3,
		Title: "range delete removes keys through a batch of the request's own context (tombstones at the request version), never by raw deletion of the stored key",
		Fn:    ruleR5_4})
	register(ruleDef{ID: "R5.5", Prop: "C05", Tier: "quick", Floor: 4,
		Title: "key-value range/list endpoints query the store with the handler's own version context and bounds built by the package's TKey constructor",
		Fn:    ruleR5_5})
}

// versionedCtxAtom: ctx.Versioned() = val, and the (already rejected) nil-context comparison
// `ctx == nil` of the repo's `if ctx == nil || !ctx.Versioned()` idiom is false.
func versionedCtxAtom(val bool) func(v ssa.Value) (AVal, bool) {
	base := versionedAtom(val)
	return func(v ssa.Value) (AVal, bool) {
		if a, ok := base(v); ok {
			return a, true
		}
		if bo, ok := v.(*ssa.BinOp); ok && (bo.Op == token.EQL || bo.Op == token.NEQ) {
			for _, pr := range [][2]ssa.Value{{bo.X, bo.Y}, {bo.Y, bo.X}} {
				if isNilConst(pr[1]) && typeIs(pr[0].Type(), "storage", "Context") {
					return aBool(bo.Op == token.NEQ), true
				}
			}
		}
		return unknown, false
	}
}

type scannerSet struct {
	versioned, unversioned *ssa.Function
}

func isTKey(t types.Type) bool { return typeIs(t, "storage", "TKey") }

func chanOfKV(t types.Type) bool {
	ch, ok := t.Underlying().(*types.Chan)
	return ok && hasKeyValueField(ch.Elem())
}

// findScanners: functions of the backend's package with parameters (ctx, TKey, TKey, chan{KeyValue,error}, ...).
func findScanners(w *World, b *types.Named) scannerSet {
	var s scannerSet
	pkgPath := b.Obj().Pkg().Path()
	for _, f := range w.RepoFuncs {
		if pkgPathOf(f) != pkgPath || f.Parent() != nil || len(f.Blocks) == 0 {
			continue
		}
		nT, hasCh, hasV, hasC := 0, false, false, false
		for _, p := range f.Params {
			switch {
			case isTKey(p.Type()):
				nT++
			case chanOfKV(p.Type()):
				hasCh = true
			case typeIs(p.Type(), "storage", "VersionedCtx"):
				hasV = true
			case typeIs(p.Type(), "storage", "Context"):
				hasC = true
			}
		}
		if nT == 2 && hasCh && hasV {
			s.versioned = f
		}
		if nT == 2 && hasCh && hasC {
			s.unversioned = f
		}
	}
	return s
}

func tkeyParams(f *ssa.Function) []*ssa.Parameter {
	var out []*ssa.Parameter
	for _, p := range f.Params {
		if isTKey(p.Type()) {
			out = append(out, p)
		}
	}
	return out
}

// rootsAre: every root of v (from fn) equals want.
func rootsAre(v ssa.Value, fn *ssa.Function, want ssa.Value) bool {
	rs := roots(v, fn)
	if len(rs) == 0 {
		return false
	}
	for _, r := range rs {
		if r.V != want {
			return false
		}
	}
	return true
}

func ruleR5_1(r *Run) {
	w := r.W
	for _, b := range orderedBackends(w) {
		bn := qname(b)
		sc := findScanners(w, b)
		if sc.versioned == nil || sc.unversioned == nil {
			r.violation(bn+":scanners", "the versioned and/or unversioned range scanner of "+bn+" was not found", "-")
			continue
		}
		// consumers: methods of b with a closure that calls the versioned scanner
		ms := w.Prog.MethodSets.MethodSet(types.NewPointer(b))
		nCons := 0
		for i := 0; i < ms.Len(); i++ {
			f := w.Prog.MethodValue(ms.At(i))
			if f == nil || len(f.Blocks) == 0 || f == sc.versioned || f == sc.unversioned {
				continue
			}
			var vcall, ucall ssa.CallInstruction
			var holder *ssa.Function
			for _, g := range withClosures(f) {
				for _, c := range calls(g) {
					if c.Common().StaticCallee() == sc.versioned {
						vcall, holder = c, g
					}
					if c.Common().StaticCallee() == sc.unversioned {
						ucall = c
					}
				}
			}
			// the dispatch may have been moved into a helper method of the backend that calls both scanners
			// (go db.rangeQuery(ctx, kStart, kEnd, ch, done, keysOnly)): the consumer is then checked at its
			// call of the helper, the helper itself is a consumer of its own (dispatch and argument order).
			if vcall == nil {
				var hcall ssa.CallInstruction
				var helper *ssa.Function
				for _, g := range withClosures(f) {
					for _, c := range calls(g) {
						h := c.Common().StaticCallee()
						if h == nil || h == f || len(h.Blocks) == 0 || h.Signature.Recv() == nil || namedOf(h.Signature.Recv().Type()) != b {
							continue
						}
						hv, hu := false, false
						for _, hc := range calls(h) {
							if hc.Common().StaticCallee() == sc.versioned {
								hv = true
							}
							if hc.Common().StaticCallee() == sc.unversioned {
								hu = true
							}
						}
						if hv && hu {
							hcall, helper = c, h
						}
					}
				}
				if hcall == nil {
					continue
				}
				nCons++
				cn := bn + "." + f.Name()
				tp := tkeyParams(f)
				var targs []ssa.Value
				var flag ssa.Value
				for k, p := range helper.Params {
					if isTKey(p.Type()) {
						targs = append(targs, hcall.Common().Args[k])
					}
					if bt, ok := p.Type().(*types.Basic); ok && bt.Kind() == types.Bool {
						flag = hcall.Common().Args[k]
					}
				}
				r.check(true, cn+":dispatch", "dispatches through "+helper.Name()+", which is checked as a consumer of its own", "", w.pos(hcall.Pos()))
				if len(tp) == 2 {
					ok := len(targs) == 2 && rootsAre(targs[0], hcall.Parent(), tp[0]) && rootsAre(targs[1], hcall.Parent(), tp[1])
					r.check(ok, cn+":bounds:"+helper.Name(), "the dispatching helper receives (kStart, kEnd) in that order",
						"the dispatching helper is not given the consumer's own (kStart, kEnd) in order", w.pos(hcall.Pos()))
				}
				readsV := false
				for _, g := range withClosures(f) {
					for _, blk := range g.Blocks {
						for _, in := range blk.Instrs {
							if fa, ok := in.(*ssa.FieldAddr); ok {
								if name, _, _ := fieldName(fa); name == "V" && typeIs(fa.X.Type(), "storage", "KeyValue") {
									readsV = true
								}
							}
						}
					}
				}
				keysOnlyTrue := true // unknown flag counts as possibly keys-only
				if flag != nil {
					if k, ok := flag.(*ssa.Const); ok && constVal(k).K == ABool {
						keysOnlyTrue = constVal(k).B
					}
				}
				r.check(!(readsV && keysOnlyTrue), cn+":keysOnly", fmt.Sprintf("consumer reads values=%v, keysOnly=%v", readsV, keysOnlyTrue),
					"the consumer uses the values of the scanned pairs but asks the scanner for keys only", w.fpos(f))
				r5_1ErrorBeforeEnd(r, f, cn)
				continue
			}
			nCons++
			cn := bn + "." + f.Name()
			// dispatch
			okDisp := ucall != nil
			if okDisp {
				sT := runSCCP(holder, &AEnv{Atom: versionedCtxAtom(true)})
				sF := runSCCP(holder, &AEnv{Atom: versionedCtxAtom(false)})
				okDisp = sT.Feasible[vcall.Block()] && !sT.Feasible[ucall.Block()] && sF.Feasible[ucall.Block()] && !sF.Feasible[vcall.Block()]
			}
			r.check(okDisp, cn+":dispatch", "versioned context → versioned scanner, unversioned → unversioned scanner",
				"the consumer does not dispatch on ctx.Versioned() like its siblings (a versioned request may be scanned without ancestry resolution or vice versa)", w.pos(vcall.Pos()))
			// begin / end arguments
			tp := tkeyParams(f)
			for _, c := range []ssa.CallInstruction{vcall, ucall} {
				if c == nil || len(tp) != 2 {
					continue
				}
				callee := c.Common().StaticCallee()
				var targs []ssa.Value
				for k, p := range callee.Params {
					if isTKey(p.Type()) {
						targs = append(targs, c.Common().Args[k])
					}
				}
				ok := len(targs) == 2 && rootsAre(targs[0], c.Parent(), tp[0]) && rootsAre(targs[1], c.Parent(), tp[1])
				r.check(ok, cn+":bounds:"+callee.Name(), "scanner receives (kStart, kEnd) in that order",
					"the scanner is not given the consumer's own (kStart, kEnd) in order", w.pos(c.Pos()))
			}
			// keysOnly vs value use
			readsV := false
			for _, g := range withClosures(f) {
				for _, blk := range g.Blocks {
					for _, in := range blk.Instrs {
						if fa, ok := in.(*ssa.FieldAddr); ok {
							if name, _, _ := fieldName(fa); name == "V" && typeIs(fa.X.Type(), "storage", "KeyValue") {
								readsV = true
							}
						}
					}
				}
			}
			keysOnly := map[bool]bool{}
			for _, c := range []ssa.CallInstruction{vcall, ucall} {
				if c == nil {
					continue
				}
				a := c.Common().Args
				if k, ok := a[len(a)-1].(*ssa.Const); ok && constVal(k).K == ABool {
					keysOnly[constVal(k).B] = true
				} else {
					for _, rv := range roots(a[len(a)-1], c.Parent()) {
						if k, ok := rv.V.(*ssa.Const); ok && constVal(k).K == ABool {
							keysOnly[constVal(k).B] = true
						} else {
							keysOnly[false], keysOnly[true] = true, true
						}
					}
				}
			}
			r.check(!(readsV && keysOnly[true]), cn+":keysOnly", fmt.Sprintf("consumer reads values=%v, keysOnly=%v", readsV, keysOnly),
				"the consumer uses the values of the scanned pairs but asks the scanner for keys only", w.fpos(f))
			r5_1ErrorBeforeEnd(r, f, cn)
		}
		r.check(nCons >= 5, bn+":consumers", fmt.Sprintf("%d range consumers analysed", nCons), fmt.Sprintf("only %d range consumers found (GetRange, KeysInRange, SendKeysInRange, ProcessRange, DeleteRange expected)", nCons), "-")
	}
}

// r5_1ErrorBeforeEnd: after each receive from the scanner's channel the error component is tested before the stream
// can be treated as finished.
func r5_1ErrorBeforeEnd(r *Run, f *ssa.Function, cn string) {
	w := r.W
	for _, blk := range f.Blocks {
		for _, in := range blk.Instrs {
			u, ok := in.(*ssa.UnOp)
			if !ok || u.Op != token.ARROW || !chanOfKV(u.X.Type()) {
				continue
			}
			isErrTest := func(x ssa.Instruction) bool {
				ifi, ok := x.(*ssa.If)
				if !ok {
					return false
				}
				bo, ok := ifi.Cond.(*ssa.BinOp)
				if !ok {
					return false
				}
				for _, op := range []ssa.Value{bo.X, bo.Y} {
					if isErrorType(op.Type()) && isFieldReadOfValue(op, "error", u, f) {
						return true
					}
				}
				return false
			}
			exit := func(x ssa.Instruction) bool {
				ret, ok := x.(*ssa.Return)
				return ok && !isErrorExit(ret)
			}
			p := findPath(f, u, isErrTest, exit, nil)
			r.check(p == nil, cn+":error-before-end",
				"after each receive the error component is tested before the stream can be treated as finished",
				"a received item's error is not tested before end-of-stream is acted on: a resolver/iterator error ends the scan silently and the consumer reports success on partial results", w.pos(u.Pos()), w.renderPath(p)...)
		}
	}
}

// cmpInfo describes `bytes.Compare(a, b) > 0` (or the mirrored `bytes.Compare(b, a) < 0`):
// "a is beyond b".
type cmpInfo struct {
	beyond, bound ssa.Value
	ifi           *ssa.If
	fn            *ssa.Function
}

func findBeyondTests(g *ssa.Function) []cmpInfo {
	var out []cmpInfo
	for _, blk := range g.Blocks {
		ifi, ok := blk.Instrs[len(blk.Instrs)-1].(*ssa.If)
		if !ok {
			continue
		}
		bo, ok := ifi.Cond.(*ssa.BinOp)
		if !ok {
			continue
		}
		c, ok := bo.X.(*ssa.Call)
		if !ok || c.Call.StaticCallee() == nil || c.Call.StaticCallee().String() != "bytes.Compare" {
			continue
		}
		k, ok := constInt(bo.Y)
		if !ok {
			continue
		}
		a, b := c.Call.Args[0], c.Call.Args[1]
		switch {
		case bo.Op == token.GTR && k == 0, bo.Op == token.GEQ && k == 1:
			out = append(out, cmpInfo{a, b, ifi, g})
		case bo.Op == token.LSS && k == 0, bo.Op == token.LEQ && k == -1:
			out = append(out, cmpInfo{b, a, ifi, g})
		}
	}
	return out
}

// isCallResult: v (a root) is Extract #0 of an invoke/static call of a method named name; returns
// the call.
func asMethodResult(v ssa.Value, name string) *ssa.Call {
	if ex, ok := v.(*ssa.Extract); ok && ex.Index == 0 {
		v = ex.Tuple
	}
	c, ok := v.(*ssa.Call)
	if !ok {
		return nil
	}
	if isInvokeCall(c, name) || callsMethodNamed(c, name) {
		return c
	}
	return nil
}

func ruleR5_2(r *Run) {
	w := r.W
	for _, b := range orderedBackends(w) {
		bn := qname(b)
		sc := findScanners(w, b)
		f := sc.versioned
		if f == nil {
			r.violation(bn+":versioned-scanner", "versioned scanner not found", "-")
			continue
		}
		tp := tkeyParams(f)
		beg, end := tp[0], tp[1]
		fnName := bn + "." + f.Name()
		lastArg := func(c *ssa.Call) ssa.Value { a := c.Call.Args; return a[len(a)-1] }
		// seek
		nSeek := 0
		for _, g := range withClosures(f) {
			for _, c := range calls(g) {
				callee := c.Common().StaticCallee()
				if callee == nil || callee.Name() != "Seek" || inRepo(callee) {
					continue
				}
				nSeek++
				ok := true
				rs := roots(c.Common().Args[1], g)
				for _, rv := range rs {
					mc := asMethodResult(rv.V, "MinVersionKey")
					if mc == nil || !rootsAre(lastArg(mc), rv.Fn, beg) {
						ok = false
					}
				}
				r.check(ok && len(rs) > 0, fnName+":seek", "the iterator seeks to MinVersionKey(begTKey)",
					"the versioned scan does not start at MinVersionKey of the begin key", w.pos(c.Pos()))
			}
		}
		if nSeek == 0 {
			r.undecided(fnName+":seek", "no iterator Seek found in the versioned scanner")
		}
		// accumulate step: stores of append(values, kv) into the pending group
		var appends []ssa.Instruction
		var groupFV ssa.Value
		for _, g := range withClosures(f) {
			for _, blk := range g.Blocks {
				for _, in := range blk.Instrs {
					st, ok := in.(*ssa.Store)
					if !ok {
						continue
					}
					if c, ok := st.Val.(*ssa.Call); ok {
						if bi, ok := c.Call.Value.(*ssa.Builtin); ok && bi.Name() == "append" && isKVSlice(c.Type()) {
							appends = append(appends, in)
							groupFV = st.Addr
						}
					}
				}
			}
		}
		if len(appends) == 0 {
			r.undecided(fnName+":group", "cannot find the pending-group accumulation (append to []*storage.KeyValue)")
			continue
		}
		_ = groupFV
		// end bound: a beyond-test whose bound is MaxVersionKey(end) must dominate every accumulate
		// step (on its not-beyond edge) and its beyond edge must lead to termination
		for _, ap := range appends {
			g := ap.Parent()
			tests := findBeyondTests(g)
			endOK, grpOK := false, false
			for _, t := range tests {
				rs := roots(t.bound, g)
				isEnd, isGrp := len(rs) > 0, len(rs) > 0
				sawBeg, sawCur := false, false
				for _, rv := range rs {
					mc := asMethodResult(rv.V, "MaxVersionKey")
					if mc == nil {
						isEnd, isGrp = false, false
						break
					}
					arg := lastArg(mc)
					if !rootsAre(arg, rv.Fn, end) {
						isEnd = false
					}
					switch {
					case rootsAre(arg, rv.Fn, beg):
						sawBeg = true
					case tkeyOfCurrent(arg, rv.Fn):
						sawCur = true
					default:
						isGrp = false
					}
				}
				if isEnd {
					// not-beyond edge dominates the append
					if guardedByEdge(t.ifi, 1, ap) {
						endOK = true
					}
				}
				if isGrp && sawBeg && sawCur && t.ifi.Block().Dominates(ap.Block()) {
					grpOK = true
				}
			}
			r.check(endOK, fnName+":end-bound-before-accumulate",
				"every key is compared with MaxVersionKey(endTKey) before it joins a group (keys beyond the interval are never accumulated)",
				"a key can be added to the pending group without having been compared with MaxVersionKey(endTKey): keys beyond the requested interval can be returned", w.pos(ap.Pos()))
			r.check(grpOK, fnName+":group-boundary",
				"the per-datum boundary is MaxVersionKey(begTKey) initially and MaxVersionKey(TKeyFromKey(current key)) afterwards, tested for every key",
				"the per-datum group boundary is not MaxVersionKey of the begin key / of the current key's TKey, or is not tested for every key", w.pos(ap.Pos()))
		}
	}
}

func isKVSlice(t types.Type) bool {
	s, ok := t.Underlying().(*types.Slice)
	return ok && typeIs(s.Elem(), "storage", "KeyValue")
}

// tkeyOfCurrent: v is the TKey extracted by storage.TKeyFromKey(...).
func tkeyOfCurrent(v ssa.Value, fn *ssa.Function) bool {
	rs := roots(v, fn)
	if len(rs) == 0 {
		return false
	}
	for _, rv := range rs {
		ex, ok := rv.V.(*ssa.Extract)
		if !ok {
			return false
		}
		c, ok := ex.Tuple.(*ssa.Call)
		if !ok || !isCallTo(c, "storage", "", "TKeyFromKey") {
			return false
		}
	}
	return true
}

func ruleR5_3(r *Run) {
	w := r.W
	for _, b := range orderedBackends(w) {
		bn := qname(b)
		sc := findScanners(w, b)
		f := sc.versioned
		if f == nil {
			continue
		}
		fnName := bn + "." + f.Name()
		// resolver-calling helpers: functions of the package that call VersionedKeyValue
		flushes := func(in ssa.Instruction) bool {
			c, ok := in.(ssa.CallInstruction)
			if !ok {
				return false
			}
			if isInvokeCall(c, "VersionedKeyValue") {
				return true
			}
			if callee := c.Common().StaticCallee(); callee != nil && inRepo(callee) {
				for _, c2 := range calls(callee) {
					if isInvokeCall(c2, "VersionedKeyValue") {
						return true
					}
				}
			}
			return false
		}
		n := 0
		for _, g := range withClosures(f) {
			for _, blk := range g.Blocks {
				for _, in := range blk.Instrs {
					st, ok := in.(*ssa.Store)
					if !ok {
						continue
					}
					c, ok := st.Val.(*ssa.Call)
					if !ok {
						continue
					}
					bi, ok := c.Call.Value.(*ssa.Builtin)
					if !ok || bi.Name() != "append" || !isKVSlice(c.Type()) {
						continue
					}
					n++
					group := st.Addr
					// edges on which the group is known non-empty: prune the false edge of len(group) > 0
					feasible := func(b *ssa.BasicBlock, i int) bool {
						ifi, ok := b.Instrs[len(b.Instrs)-1].(*ssa.If)
						if !ok {
							return true
						}
						if bo, ok := ifi.Cond.(*ssa.BinOp); ok {
							if lc, ok := bo.X.(*ssa.Call); ok {
								if bi, ok := lc.Call.Value.(*ssa.Builtin); ok && bi.Name() == "len" {
									if ld, ok := lc.Call.Args[0].(*ssa.UnOp); ok && ld.X == group {
										k, _ := constInt(bo.Y)
										if (bo.Op == token.GTR && k == 0) || (bo.Op == token.NEQ && k == 0) || (bo.Op == token.GEQ && k == 1) {
											return i == 0
										}
									}
								}
							}
						}
						return true
					}
					isCancelReturn := func(ret *ssa.Return) bool {
						// a return taken because the consumer closed `done`: dominated by a select on a receive
						for _, p := range ret.Block().Preds {
							if ifi, ok := p.Instrs[len(p.Instrs)-1].(*ssa.If); ok {
								if bo, ok := ifi.Cond.(*ssa.BinOp); ok {
									if ex, ok := bo.X.(*ssa.Extract); ok {
										if _, ok := ex.Tuple.(*ssa.Select); ok {
											return true
										}
									}
								}
							}
						}
						return false
					}
					target := func(x ssa.Instruction) bool {
						if ret, ok := x.(*ssa.Return); ok {
							return !isErrorExit(ret) && !isCancelReturn(ret)
						}
						if s2, ok := x.(*ssa.Store); ok && s2.Addr == group && s2 != st {
							if c2, ok := s2.Val.(*ssa.Call); ok {
								if bi, ok := c2.Call.Value.(*ssa.Builtin); ok && bi.Name() == "append" {
									return false
								}
							}
							return true // the group is reset / replaced
						}
						return false
					}
					p := findPath(g, st, flushes, target, feasible)
					r.check(p == nil, fnName+":group-flushed",
						"after a key joins the pending group, every way to end the scan or reset the group passes the group through VersionedKeyValue (consumer cancellation excepted)",
						"a pending group of versions can be dropped (scan ends or group is reset) without being resolved and sent: keys at the end of an interval or of a datum are silently missing", w.pos(st.Pos()), w.renderPath(p)...)
				}
			}
		}
		if n == 0 {
			r.undecided(fnName+":group-flushed", "no accumulation into a pending group found")
		}
	}
	// sends only resolved entries (shared with C01 R1.1)
	sub := &Run{W: r.W, Prop: r.Prop, Known: r.Known, cur: ruleDef{ID: "R1.1"}}
	ruleR1_1(sub)
	for _, o := range sub.Obls {
		if strings.Contains(o.Construct, "send-only-resolved") {
			r.add(o.st, o.Construct, o.Detail, o.Pos, o.Witness, true)
		}
	}
}

func ruleR5_4(r *Run) {
	w := r.W
	for _, b := range orderedBackends(w) {
		bn := qname(b)
		f := w.methodOf(b, "DeleteRange")
		if f == nil {
			r.violation(bn+".DeleteRange", "DeleteRange not found", "-")
			continue
		}
		ctxParam := f.Params[1]
		// all NewBatch calls take the ctx parameter
		nb, okNB := 0, true
		for _, c := range calls(f) {
			if callsMethodNamed(c, "NewBatch") {
				nb++
				a := c.Common().Args
				if !rootsAre(a[len(a)-1], f, ctxParam) {
					okNB = false
				}
			}
		}
		r.check(nb > 0 && okNB, bn+".DeleteRange:batch-of-request-context", fmt.Sprintf("%d NewBatch(ctx) calls, all on the request's context", nb),
			"DeleteRange does not delete through a batch created from the request's own context (versioned deletes must become tombstones at the request version)", w.fpos(f))
		// deletions: Batch.Delete(tk) with tk = TKeyFromKey(received key); no raw deletes
		nDel, okDel, raw := 0, true, ""
		for _, g := range withClosures(f) {
			for _, c := range calls(g) {
				callee := c.Common().StaticCallee()
				name := ""
				if callee != nil {
					name = callee.Name()
				} else if c.Common().IsInvoke() {
					name = c.Common().Method.Name()
				}
				switch {
				case name == "RawDelete":
					raw = w.pos(c.Pos())
				case name == "Delete" && callee != nil && !inRepo(callee):
					raw = w.pos(c.Pos()) // direct engine delete of a stored key
				case name == "Delete":
					nDel++
					a := c.Common().Args
					if !tkeyOfCurrent(a[len(a)-1], g) {
						okDel = false
					}
				}
			}
		}
		r.check(raw == "", bn+".DeleteRange:no-raw-delete", "no stored key is physically deleted",
			"DeleteRange physically deletes a stored key (which may belong to an ancestor version) instead of writing a tombstone at the request version", raw)
		r.check(nDel > 0 && okDel, bn+".DeleteRange:delete-by-tkey", "each scanned key is deleted as Batch.Delete(TKeyFromKey(key))",
			"DeleteRange does not delete the scanned datum keys through the context batch", w.fpos(f))
	}
}

func ruleR5_5(r *Run) {
	w := r.W
	// key-value style data types: functions of datatype/keyvalue and neuronjson that call a range
	// method of an ordered store
	rangeMethods := map[string]bool{"GetRange": true, "KeysInRange": true, "SendKeysInRange": true, "ProcessRange": true, "DeleteRange": true}
	for _, pkg := range []string{"datatype/keyvalue"} {
		n := 0
		for _, f := range w.RepoFuncs {
			if relPkg(pkgPathOf(f)) != pkg || len(f.Blocks) == 0 {
				continue
			}
			for _, c := range calls(f) {
				cc := c.Common()
				if !cc.IsInvoke() || !rangeMethods[cc.Method.Name()] || cc.Method.Pkg() == nil || relPkg(cc.Method.Pkg().Path()) != "storage" {
					continue
				}
				n++
				construct := fmt.Sprintf("%s:%s", fname(f), cc.Method.Name())
				// ctx argument: a parameter of type *datastore.VersionedCtx (possibly of the enclosing function)
				okCtx := false
				rs := roots(cc.Args[0], f)
				for _, rv := range rs {
					if p, ok := rv.V.(*ssa.Parameter); ok && (typeIs(p.Type(), "datastore", "VersionedCtx") || typeIs(p.Type(), "storage", "Context")) {
						okCtx = true
					} else if c2, ok := rv.V.(*ssa.Call); ok && isCallTo(c2, "datastore", "", "NewVersionedCtx") {
						// a context built for this instance at a version handed in by the caller
						_, isParam := stripConv(c2.Call.Args[1]).(*ssa.Parameter)
						okCtx = isParam
						if !okCtx {
							break
						}
					} else {
						okCtx = false
						break
					}
				}
				r.check(okCtx, construct+":ctx", "the store is queried with the request's *datastore.VersionedCtx itself",
					"the range query does not use the handler's own version context (a derived or embedded context bypasses ancestry resolution / uses another version)", w.pos(c.Pos()))
				// bounds: NewTKey(...) or package Min/Max constants
				okB := true
				for _, a := range cc.Args[1:3] {
					for _, rv := range roots(a, f) {
						v := rv.V
						if ex, ok := v.(*ssa.Extract); ok {
							v = ex.Tuple
						}
						switch x := v.(type) {
						case *ssa.Call:
							callee := x.Call.StaticCallee()
							if callee == nil || !(callee.Name() == "NewTKey" || callee.Name() == "MinTKey" || callee.Name() == "MaxTKey") {
								okB = false
							}
						case *ssa.Global, *ssa.Parameter:
						case *ssa.UnOp:
							if _, ok := x.X.(*ssa.Global); !ok {
								okB = false
							}
						default:
							okB = false
						}
					}
				}
				r.check(okB, construct+":bounds", "bounds come from the TKey constructors", "range bounds are not built by the package's TKey constructors", w.pos(c.Pos()))
			}
		}
		if n == 0 {
			r.undecided(pkg+":range-calls", "no range query found in "+pkg)
		}
	}
}
