package main

import (
	"fmt"
	"go/token"
	"strings"

	"golang.org/x/tools/go/ssa"
)

func init() {
	register(ruleDef{ID: "R12.1", Prop: "C12", Tier: "quick", Floor: 4,
		Title: "repo/version/instance id counters: every increment is made under idMutex (write) and persisted (putNewIDs) afterwards on every success exit",
		Fn:    func(r *Run) { checkCounterPersist(r) }})
	register(ruleDef{ID: "R12.2", Prop: "C12", Tier: "quick", Floor: 8,
		Title: "label counters (MaxRepoLabel, NextLabel, per-version MaxLabel): every store is made under mlMu (write) and followed by the matching persist call on every success exit",
		Fn:    ruleR12_2})
	register(ruleDef{ID: "R12.3", Prop: "C12", Tier: "quick", Floor: 4,
		Title: "mutation ids: initialisation persists current+stride before success; allocation happens under mutMu, re-persists saved+stride whenever the next id reaches the persisted bound (≥, not >), and what is written is the new bound",
		Fn:    ruleR12_3})
	register(ruleDef{ID: "R12.5", Prop: "C12", Tier: "quick", Floor: 2,
		Title: "load-time correction: the version-id counter is raised above every known version id; the repo-wide max label is raised to the largest per-version max",
		Fn:    ruleR12_5})
}

// fieldStores lists stores into field `field` of struct type typ (by name) in f.
func fieldStores(f *ssa.Function, typ, field string) []*ssa.Store {
	var out []*ssa.Store
	for _, b := range f.Blocks {
		for _, in := range b.Instrs {
			if isFieldStore(in, typ, field) {
				out = append(out, in.(*ssa.Store))
			}
		}
	}
	return out
}

func ruleR12_2(r *Run) {
	w := r.W
	for _, pkg := range []string{"datatype/labelmap"} {
		// persisters: functions of the package that load the field and reach a storage Put
		sinks := w.newSinks()
		persisterOf := map[string]*ssa.Function{}
		for _, f := range w.RepoFuncs {
			if relPkg(pkgPathOf(f)) != pkg || f.Parent() != nil || !strings.HasPrefix(f.Name(), "persist") {
				continue
			}
			puts := false
			for _, c := range calls(f) {
				if sinks.isStorageWrite(c) {
					puts = true
				}
			}
			if !puts {
				continue
			}
			for _, b := range f.Blocks {
				for _, in := range b.Instrs {
					if v, ok := in.(ssa.Value); ok {
						for _, fld := range []string{"MaxRepoLabel", "NextLabel", "MaxLabel"} {
							if isFieldLoad(v, "Data", fld) {
								persisterOf[fld] = f
							}
						}
					}
				}
			}
		}
		for _, fld := range []string{"MaxRepoLabel", "NextLabel", "MaxLabel"} {
			r.check(persisterOf[fld] != nil, pkg+":persister:"+fld, "persist function found", "no function of "+pkg+" persists Data."+fld, "-")
		}
		n := 0
		for _, f := range w.RepoFuncs {
			if relPkg(pkgPathOf(f)) != pkg || len(f.Blocks) == 0 {
				continue
			}
			type site struct {
				in  ssa.Instruction
				fld string
			}
			var sites []site
			for _, fld := range []string{"MaxRepoLabel", "NextLabel"} {
				for _, st := range fieldStores(f, "Data", fld) {
					sites = append(sites, site{st, fld})
				}
			}
			for _, b := range f.Blocks {
				for _, in := range b.Instrs {
					if isMapUpdateOnField(in, "Data", "MaxLabel") {
						sites = append(sites, site{in, "MaxLabel"})
					}
				}
			}
			for _, s := range sites {
				p := persisterOf[s.fld]
				if p == nil {
					continue
				}
				construct := fmt.Sprintf("%s:%s", fname(f), s.fld)
				if reason, ok := r.exceptionFor("R12.2", construct); ok {
					r.ok(construct, "exception: "+reason, w.pos(s.in.Pos()))
					continue
				}
				n++
				isPersist := func(in ssa.Instruction) bool { return w.performs(in, []string{p.Name()}, 2) }
				succ := func(in ssa.Instruction) bool {
					ret, ok := in.(*ssa.Return)
					return ok && !isErrorExit(ret)
				}
				path := findPath(f, s.in, isPersist, succ, nil)
				r.check(path == nil, construct+":persisted-after-store",
					"from the store every success exit passes through "+p.Name(),
					"Data."+s.fld+" is changed but a success exit is reachable without "+p.Name()+": after a restart or crash the counter falls back and labels can be issued twice / per-version maxima are lost", w.pos(s.in.Pos()), w.renderPath(path)...)
				r.check(lockHeldAt(f, s.in, "mlMu", true), construct+":under-mlMu", "mlMu is write-locked at the store",
					"Data."+s.fld+" is written without holding mlMu for writing: concurrent allocations can hand out the same label", w.pos(s.in.Pos()))
				// R12.6 (reported under this rule's constructs): the decision to move the counter is taken on a
				// value of a counter read inside the write-locked section
				if s.fld != "NextLabel" {
					okDec, why := decidedUnderLock(f, s.in, s.fld)
					r.check(okDec, construct+":raise-decided-under-write-lock", "the stored value, or a comparison guarding the store, derives from a counter read with mlMu write-held",
						"Data."+s.fld+" is moved on the strength of a counter value read before the write lock was taken ("+why+"): of two concurrent updates the smaller can be written last, so the counter goes backwards and a later allocation can collide with a label already present", w.pos(s.in.Pos()))
				}
			}
		}
		if n < 4 {
			r.undecided(pkg+":label-counter-stores", fmt.Sprintf("only %d stores to label counters found", n))
		}
		// allocation functions return the value they persisted: newLabel/newLabels return values
		// derived from the counter after the increment (checked structurally: the returned value
		// is a load of the counter field or the sum stored into it)
	}
}

func ruleR12_3(r *Run) {
	w := r.W
	sinks := w.newSinks()
	// --- initMutationID
	init := w.method("datastore", "repoT", "initMutationID")
	if init == nil {
		r.violation("repoT.initMutationID", "not found", "-")
	} else {
		var ro *ssa.Parameter
		for _, p := range init.Params {
			if p.Name() == "readOnly" || (p.Type().String() == "bool" && ro == nil) {
				ro = p
			}
		}
		env := &AEnv{Params: map[*ssa.Parameter]AVal{}}
		if ro != nil {
			env.Params[ro] = aBool(false)
		}
		s := runSCCP(init, env)
		isPut := func(in ssa.Instruction) bool {
			c, ok := in.(ssa.CallInstruction)
			return ok && sinks.isStorageWrite(c)
		}
		succ := func(in ssa.Instruction) bool {
			ret, ok := in.(*ssa.Return)
			return ok && !isErrorExit(ret)
		}
		p := findPath(init, nil, isPut, succ, s.EdgeFeasible)
		r.check(p == nil, "repoT.initMutationID:persist-ahead-before-success",
			"when not read-only every success exit passes through the store Put of the reserved bound",
			"initMutationID can succeed without persisting the reserved mutation-id bound: after the next restart the same ids are issued again", w.fpos(init), w.renderPath(p)...)
		// saved = cur + stride (stride > 0) and the value written is saved
		okBound := false
		for _, st := range fieldStores(init, "repoT", "mutSavedID") {
			l := lin(st.Val, 0)
			if l.ok && l.c > 0 && len(l.terms) == 1 {
				for k, v := range l.terms {
					if v == 1 && strings.Contains(k, "mutCurID") {
						okBound = true
					}
				}
			}
			// cur may have been assigned before: resolve through lastFieldStore gives either entry or stored value
			if l.ok && l.c > 0 && !okBound {
				okBound = linMentions(st.Val, "mutCurID")
			}
		}
		r.check(okBound, "repoT.initMutationID:bound-is-current-plus-stride", "mutSavedID = mutCurID + positive stride",
			"the reserved bound is not current id + a positive stride", w.fpos(init))
		r.check(putWritesField(init, "mutSavedID"), "repoT.initMutationID:writes-bound", "the bytes written encode mutSavedID",
			"the value persisted at initialisation is not the reserved bound mutSavedID", w.fpos(init))
		// every repo creation/load path calls it
		for _, caller := range []string{"newRepo", "addRepo", "loadMetadata"} {
			f := w.method("datastore", "repoManager", caller)
			if f == nil {
				continue
			}
			found := false
			for _, g := range withClosures(f) {
				for _, c := range calls(g) {
					if c.Common().StaticCallee() == init {
						found = true
					}
				}
			}
			if caller == "addRepo" && !found {
				continue
			}
			r.check(found, "repoManager."+caller+":calls-initMutationID", "initialises the mutation-id reservation", caller+" publishes a repo without initialising its mutation-id reservation", w.fpos(f))
		}
	}
	// --- newMutationID
	nm := w.method("datastore", "repoT", "newMutationID")
	if nm == nil {
		r.violation("repoT.newMutationID", "not found", "-")
		return
	}
	curStores := fieldStores(nm, "repoT", "mutCurID")
	savedStores := fieldStores(nm, "repoT", "mutSavedID")
	if len(curStores) != 1 || len(savedStores) != 1 {
		r.undecided("repoT.newMutationID:shape", fmt.Sprintf("expected one store to mutCurID and one to mutSavedID, found %d and %d", len(curStores), len(savedStores)))
		return
	}
	cs, ss := curStores[0], savedStores[0]
	r.check(lockHeldAt(nm, cs, "mutMu", true) && lockHeldAt(nm, ss, "mutMu", true), "repoT.newMutationID:under-mutMu",
		"counter and bound are updated with mutMu write-held", "the mutation-id counter is advanced without holding mutMu for writing", w.pos(cs.Pos()))
	// the id returned is the counter's value before the increment, read under the lock
	incr := lin(cs.Val, 0)
	okIncr := incr.ok && incr.c == 1 && len(incr.terms) == 1
	r.check(okIncr, "repoT.newMutationID:increments-by-one", "mutCurID' = mutCurID + 1", "the counter is not advanced by exactly one per id", w.pos(cs.Pos()))
	// the bound update is guarded by an If; on the edge that skips it the fact must imply cur' < saved
	var guard *ssa.If
	var skipEdge int
	for _, b := range nm.Blocks {
		ifi, ok := b.Instrs[len(b.Instrs)-1].(*ssa.If)
		if !ok {
			continue
		}
		for i := 0; i < 2; i++ {
			if guardedByEdge(ifi, i, ss) {
				guard, skipEdge = ifi, 1-i
			}
		}
	}
	if guard == nil {
		// unconditional re-persist is fine
		r.ok("repoT.newMutationID:bound-renewed-in-time", "the bound is renewed unconditionally", w.pos(ss.Pos()))
	} else {
		need := lin(cs.Val, 0).add(linAtom("entry:"+addrKey(ss.Addr.(*ssa.FieldAddr))), -1).add(linConst(1), 1) // cur' - saved + 1 ≤ 0
		ok := false
		for _, ft := range factsOf(nm) {
			if ft.ifi == guard && ft.succ == skipEdge && ft.form.sameVars(need) && need.c <= ft.form.c {
				ok = true
			}
		}
		r.check(ok, "repoT.newMutationID:bound-renewed-in-time",
			"the reservation is skipped only when the advanced counter is strictly below the persisted bound",
			"the reservation is not renewed when the advanced counter reaches the persisted bound (off by one at a stride boundary): the id equal to the persisted bound is issued again after a crash", w.pos(guard.Pos()))
	}
	// after the bound store, a Put of the bound happens before the unlock / any return
	isPut := func(in ssa.Instruction) bool {
		c, ok := in.(ssa.CallInstruction)
		return ok && sinks.isStorageWrite(c)
	}
	p := findPath(nm, ss, isPut, isReturn, nil)
	r.check(p == nil, "repoT.newMutationID:bound-persisted", "after the bound is advanced it is written to the store before returning",
		"the advanced bound is not persisted before ids above the old bound are handed out", w.pos(ss.Pos()), w.renderPath(p)...)
	bound := lin(ss.Val, 0)
	r.check(bound.ok && bound.c > 0, "repoT.newMutationID:bound-advances", "mutSavedID grows by a positive stride", "the persisted bound does not grow", w.pos(ss.Pos()))
	r.check(putWritesField(nm, "mutSavedID"), "repoT.newMutationID:writes-bound", "the bytes written encode mutSavedID", "the value persisted is not the reserved bound mutSavedID", w.fpos(nm))
}

// linMentions: some atom of lin(v) mentions name.
func linMentions(v ssa.Value, name string) bool {
	l := lin(v, 0)
	for k := range l.terms {
		if strings.Contains(k, name) {
			return true
		}
	}
	return false
}

// putWritesField: f contains a binary.*.PutUintN(buf, load of field) whose buf reaches a storage Put.
func putWritesField(top *ssa.Function, field string) bool {
	for _, f := range withHelpers(top) {
		if putWritesFieldIn(f, field) {
			return true
		}
	}
	return false
}

func putWritesFieldIn(f *ssa.Function, field string) bool {
	for _, c := range calls(f) {
		cc := c.Common()
		if !cc.IsInvoke() || !strings.HasPrefix(cc.Method.Name(), "PutUint") {
			if callee := cc.StaticCallee(); callee == nil || !strings.HasPrefix(callee.Name(), "PutUint") {
				continue
			}
		}
		args := cc.Args
		v := args[len(args)-1]
		if u, ok := stripConv(v).(*ssa.UnOp); ok {
			if fa, ok := u.X.(*ssa.FieldAddr); ok {
				if name, _, _ := fieldName(fa); name == field {
					return true
				}
			}
		}
	}
	return false
}

func ruleR12_5(r *Run) {
	w := r.W
	// the corrections may sit in a helper of the loader (m.correctNewIDs(), d.loadMaxRepoLabel(...)): the function of
	// the loader's helper set that stores into the counter is the one the rule reads
	pick := func(top *ssa.Function, typ, field string) *ssa.Function {
		if top == nil {
			return nil
		}
		for _, g := range withHelpers(top) {
			if len(fieldStores(g, typ, field)) > 0 {
				return g
			}
		}
		return top
	}
	lm := pick(w.method("datastore", "repoManager", "loadMetadata"), "repoManager", "versionID")
	if lm == nil {
		r.violation("repoManager.loadMetadata", "not found", "-")
	} else {
		// a store versionID = v + k (k ≥ 1) where v ranges over versionToUUID keys, followed by putNewIDs
		ok := false
		for _, st := range fieldStores(lm, "repoManager", "versionID") {
			l := lin(st.Val, 0)
			if l.ok && l.c >= 1 {
				for _, rv := range rootsOfLin(st.Val) {
					if ex, ok2 := rv.(*ssa.Extract); ok2 {
						if nx, ok3 := ex.Tuple.(*ssa.Next); ok3 {
							if rg, ok4 := nx.Iter.(*ssa.Range); ok4 && isFieldLoad(rg.X, "repoManager", "versionToUUID") {
								ok = true
							}
						}
					}
				}
			}
		}
		r.check(ok, "repoManager.loadMetadata:versionID-above-known", "versionID is raised to (known version id)+k, k ≥ 1, over all of versionToUUID",
			"the loader no longer raises the version-id counter above every known version id", w.fpos(lm))
		// the counter is the NEXT id to hand out, so a known id equal to it must trigger the correction too:
		// the guard is `v >= versionID` (its negation v < versionID is what must hold afterwards)
		okGe, found := false, false
		for _, st := range fieldStores(lm, "repoManager", "versionID") {
			for _, b := range lm.Blocks {
				ifi, isIf := b.Instrs[len(b.Instrs)-1].(*ssa.If)
				if !isIf || !guardedByEdge(ifi, 0, st) {
					continue
				}
				bo, isBo := ifi.Cond.(*ssa.BinOp)
				if !isBo {
					continue
				}
				switch {
				case isFieldLoad(stripConv(bo.Y), "repoManager", "versionID") && (bo.Op == token.GEQ || bo.Op == token.GTR):
					found = true
					okGe = bo.Op == token.GEQ
				case isFieldLoad(stripConv(bo.X), "repoManager", "versionID") && (bo.Op == token.LEQ || bo.Op == token.LSS):
					found = true
					okGe = bo.Op == token.LEQ
				}
			}
		}
		r.check(found && okGe, "repoManager.loadMetadata:versionID-correction-includes-equality", "a known version id equal to the next-id counter also triggers the correction (v >= versionID)",
			"the load-time correction only fires for known version ids strictly above the counter; the counter is the next id to issue, so after a crash between persisting the uuid↔version maps and persisting the counter (known id == counter) the next new version is given an id that is already in use", w.fpos(lm))
	}
	if lm != nil {
		checkCorrectionsOnlyRaise(r, lm, []string{"instanceID", "versionID", "repoID"}, 2)
	}
	ll := pick(w.method("datatype/labelmap", "Data", "loadLabelIDs"), "Data", "MaxRepoLabel")
	if ll == nil {
		r.violation("labelmap.loadLabelIDs", "not found", "-")
		return
	}
	// MaxRepoLabel stores: at least one whose value is the running maximum of the per-version labels,
	// guarded by MaxRepoLabel < max
	okMax := false
	for _, st := range fieldStores(ll, "Data", "MaxRepoLabel") {
		_, isPhi := st.Val.(*ssa.Phi)
		_, isPrm := st.Val.(*ssa.Parameter) // the running maximum handed to a helper of the loader
		if isPhi || isPrm {
			// guarded by a comparison of the loaded MaxRepoLabel with the same value
			for _, ft := range factsOf(ll) {
				if guardedByEdge(ft.ifi, ft.succ, st) {
					okMax = true
				}
			}
		}
	}
	r.check(okMax, "labelmap.loadLabelIDs:repo-max-raised-to-version-max", "MaxRepoLabel is raised to the largest per-version max label when it is smaller",
		"the loader no longer raises MaxRepoLabel to the largest per-version max label: after a crash between the two persists a new label can collide with an existing one", w.fpos(ll))
}

// rootsOfLin returns the non-constant leaf values of an additive expression.
func rootsOfLin(v ssa.Value) []ssa.Value {
	var out []ssa.Value
	var rec func(v ssa.Value, d int)
	rec = func(v ssa.Value, d int) {
		if d > 8 {
			return
		}
		switch x := v.(type) {
		case *ssa.BinOp:
			if x.Op == token.ADD || x.Op == token.SUB {
				rec(x.X, d+1)
				rec(x.Y, d+1)
				return
			}
		case *ssa.Convert:
			rec(x.X, d+1)
			return
		case *ssa.Const:
			return
		}
		out = append(out, v)
	}
	rec(v, 0)
	return out
}

// decidedUnderLock: the store to a label counter either stores a value derived from a read of a
// label counter made with mlMu write-held, or is guarded by a comparison that depends on such a read.
func decidedUnderLock(f *ssa.Function, store ssa.Instruction, fld string) (bool, string) {
	isCounterRead := func(v ssa.Value) bool {
		if isFieldLoad(v, "Data", "MaxRepoLabel") || isFieldLoad(v, "Data", "NextLabel") {
			return true
		}
		if lk, ok := v.(*ssa.Lookup); ok && isFieldLoad(lk.X, "Data", "MaxLabel") {
			return true
		}
		return false
	}
	// forward closure of locked counter reads
	derived := map[ssa.Value]bool{}
	var work []ssa.Value
	nLocked, nUnlocked := 0, 0
	for _, b := range f.Blocks {
		for _, in := range b.Instrs {
			v, ok := in.(ssa.Value)
			if !ok || !isCounterRead(v) {
				continue
			}
			if lockHeldAt(f, in, "mlMu", true) {
				nLocked++
				derived[v] = true
				work = append(work, v)
			} else {
				nUnlocked++
			}
		}
	}
	for len(work) > 0 {
		v := work[len(work)-1]
		work = work[:len(work)-1]
		if v.Referrers() == nil {
			continue
		}
		for _, ref := range *v.Referrers() {
			switch x := ref.(type) {
			case *ssa.BinOp, *ssa.Extract, *ssa.Convert, *ssa.ChangeType, *ssa.UnOp:
				if u, ok := x.(*ssa.UnOp); ok && u.Op == token.MUL {
					continue
				}
				xv := x.(ssa.Value)
				if !derived[xv] {
					derived[xv] = true
					work = append(work, xv)
				}
			case *ssa.Store:
				// spilled local (named result with defer): its loads are derived when every store is
				if al, ok := x.Addr.(*ssa.Alloc); ok && x.Val == v {
					all := true
					for _, r2 := range *al.Referrers() {
						if st, ok := r2.(*ssa.Store); ok && st.Addr == ssa.Value(al) {
							if _, isC := st.Val.(*ssa.Const); !isC && !derived[st.Val] {
								all = false
							}
						}
					}
					if all {
						for _, r2 := range *al.Referrers() {
							if ld, ok := r2.(*ssa.UnOp); ok && ld.Op == token.MUL && !derived[ld] {
								derived[ld] = true
								work = append(work, ld)
							}
						}
					}
				}
			case *ssa.Phi:
				// a phi is "decided under lock" only if all incoming values are derived or constants
				all := true
				for _, e := range x.Edges {
					if _, isC := e.(*ssa.Const); !isC && !derived[e] {
						all = false
					}
				}
				if all && !derived[x] {
					derived[x] = true
					work = append(work, x)
				}
			}
		}
	}
	var stored ssa.Value
	switch x := store.(type) {
	case *ssa.Store:
		stored = x.Val
	case *ssa.MapUpdate:
		stored = x.Value
	}
	if stored != nil && derived[stripConv(stored)] {
		return true, ""
	}
	// decisions on the same counter: closure restricted to locked reads of fld
	same := map[ssa.Value]bool{}
	var wk []ssa.Value
	for v := range derived {
		isSame := false
		if fld == "MaxLabel" {
			if lk, ok := v.(*ssa.Lookup); ok && isFieldLoad(lk.X, "Data", "MaxLabel") {
				isSame = true
			}
		} else if isFieldLoad(v, "Data", fld) {
			isSame = true
		}
		if isSame {
			same[v] = true
			wk = append(wk, v)
		}
	}
	for len(wk) > 0 {
		v := wk[len(wk)-1]
		wk = wk[:len(wk)-1]
		if v.Referrers() == nil {
			continue
		}
		for _, ref := range *v.Referrers() {
			switch x := ref.(type) {
			case *ssa.BinOp, *ssa.Extract, *ssa.Convert, *ssa.ChangeType:
				xv := x.(ssa.Value)
				if !same[xv] {
					same[xv] = true
					wk = append(wk, xv)
				}
			case *ssa.UnOp:
				if x.Op != token.MUL && !same[x] {
					same[x] = true
					wk = append(wk, x)
				}
			}
		}
	}
	// the write-lock acquisition covering the store
	var lock ssa.Instruction
	for _, b := range f.Blocks {
		for _, in := range b.Instrs {
			c, ok := in.(*ssa.Call)
			if !ok || c.Call.StaticCallee() == nil || c.Call.StaticCallee().Name() != "Lock" || len(c.Call.Args) == 0 {
				continue
			}
			if fa, ok := c.Call.Args[0].(*ssa.FieldAddr); ok {
				if nm, _, _ := fieldName(fa); nm == "mlMu" && domInstr(in, store) {
					lock = in
				}
			}
		}
	}
	if lock != nil {
		decides := func(in ssa.Instruction) bool {
			ifi, ok := in.(*ssa.If)
			return ok && same[ifi.Cond]
		}
		if p := findPath(f, lock, decides, func(in ssa.Instruction) bool { return in == store }, nil); p == nil {
			return true, ""
		}
	}
	return false, fmt.Sprintf("%d counter reads under the write lock, %d outside it, none decides this store", nLocked, nUnlocked)
}

// sameLoadOrValue: identical values, or two loads of the same field of the same base object.
func sameLoadOrValue(a, b ssa.Value) bool {
	a, b = stripConv(a), stripConv(b)
	if a == b {
		return true
	}
	la, ok1 := a.(*ssa.UnOp)
	lb, ok2 := b.(*ssa.UnOp)
	if !ok1 || !ok2 || la.Op != token.MUL || lb.Op != token.MUL {
		return false
	}
	fa, ok1 := la.X.(*ssa.FieldAddr)
	fb, ok2 := lb.X.(*ssa.FieldAddr)
	return ok1 && ok2 && fa.Field == fb.Field && fa.X == fb.X
}

// checkCorrectionsOnlyRaise: every correction of an id counter at load time only raises it: the store is
// on the true edge of `x > counter` (or `counter < x`) and stores x (+k, k ≥ 0).
func checkCorrectionsOnlyRaise(r *Run, lm *ssa.Function, flds []string, floor int) {
	w := r.W
		// every correction of an id counter at load time only raises it: the store is on the true edge of
		// `x > counter` (or `counter < x`) and stores x (+k, k ≥ 0)
		n := 0
		for _, fld := range flds {
			for _, st := range fieldStores(lm, "repoManager", fld) {
				n++
				okRaise := false
				for _, b := range lm.Blocks {
					ifi, ok := b.Instrs[len(b.Instrs)-1].(*ssa.If)
					if !ok {
						continue
					}
					bo, ok := ifi.Cond.(*ssa.BinOp)
					if !ok {
						continue
					}
					var x, cur ssa.Value
					switch bo.Op {
					case token.GTR, token.GEQ:
						x, cur = bo.X, bo.Y
					case token.LSS, token.LEQ:
						x, cur = bo.Y, bo.X
					default:
						continue
					}
					if !isFieldLoad(stripConv(cur), "repoManager", fld) || !guardedByEdge(ifi, 0, st) {
						continue
					}
					l := lin(st.Val, 0)
					if !l.ok || l.c < 0 {
						continue
					}
					for _, rv := range rootsOfLin(st.Val) {
						if sameLoadOrValue(rv, x) {
							okRaise = true
						}
					}
				}
				r.check(okRaise, fmt.Sprintf("repoManager.loadMetadata:%s:correction-only-raises", fld), "the load-time correction is on the true edge of `x > counter` and stores x (+k)",
					"a load-time correction can move the "+fld+" counter backwards (it is not guarded by a comparison with the loaded counter): ids issued before the restart are issued again", w.pos(st.Pos()))
			}
		}
		r.check(n >= floor, "repoManager.loadMetadata:id-corrections", fmt.Sprintf("%d corrections", n), "load-time corrections of the id counters not found", w.fpos(lm))
}
