package main

// R11.7 — a read-modify-write under a mutex is one critical section.
//
// Where a map element (or a struct field) is written while a mutex is write-held, and the written value
// is computed from a read of the same element / field, that read lies in the same critical section
// (same acquiring Lock): reading under RLock (or an earlier Lock), releasing, and writing under a
// later Lock lets two writers compute from the same old value; one update is lost.

import (
	"fmt"
	"go/token"
	"go/types"
	"strings"

	"golang.org/x/tools/go/ssa"
)

func init() {
	register(ruleDef{ID: "R11.7", Prop: "C11", Tier: "quick", Floor: 10,
		Title: "read-modify-write under a mutex is one critical section: a map element or field written under a write-held mutex from a value read from the same element/field has that read under the same acquisition of the lock",
		Fn:    ruleRMWOneSection})
}

func ruleRMWOneSection(r *Run) {
	w := r.W
	n := 0
	for _, f := range w.RepoFuncs {
		if len(f.Blocks) == 0 || strings.HasSuffix(w.fposFile(f), "_test.go") {
			continue
		}
		p := relPkg(pkgPathOf(f))
		if !strings.HasPrefix(p, "datatype/") && p != "datastore" && !strings.HasPrefix(p, "storage") && p != "server" {
			continue
		}
		// lock classes used in f
		names := map[string]bool{}
		for _, b := range f.Blocks {
			for _, in := range b.Instrs {
				if op, ok := asLockOp(in); ok && op.lock && op.write {
					names[op.name] = true
				}
			}
		}
		if len(names) == 0 {
			continue
		}
		k := 0
		for _, b := range f.Blocks {
			for _, in := range b.Instrs {
				var written ssa.Value // the value stored
				var same func(d ssa.Value) bool
				what := ""
				switch x := in.(type) {
				case *ssa.MapUpdate:
					written = x.Value
					mk := placeKey(x.Map)
					kk := coordKey(x.Key)
					same = func(d ssa.Value) bool {
						lk, ok := d.(*ssa.Lookup)
						return ok && placeKey(lk.X) == mk && coordKey(lk.Index) == kk
					}
					what = "map element"
				case *ssa.Store:
					fa, ok := x.Addr.(*ssa.FieldAddr)
					if !ok {
						continue
					}
					ak := addrKey(fa)
					written = x.Val
					same = func(d ssa.Value) bool {
						u, ok := d.(*ssa.UnOp)
						if !ok || u.Op != token.MUL {
							return false
						}
						fa2, ok := u.X.(*ssa.FieldAddr)
						return ok && addrKey(fa2) == ak
					}
					what = "field"
				default:
					continue
				}
				var reads []ssa.Instruction
				for d := range dataDeps(written) {
					if same(d) {
						if di, ok := d.(ssa.Instruction); ok {
							reads = append(reads, di)
						}
					}
				}
				if len(reads) == 0 {
					continue
				}
				for name := range names {
					held, by := heldAt(f, in, name, true)
					if !held || by == nil {
						continue
					}
					n++
					k++
					bad := ""
					for _, rd := range reads {
						h2, by2 := heldAt(f, rd, name, true)
						if !h2 || by2 != by {
							bad = w.pos(rd.Pos())
						}
					}
					// double-checked update: the write is guarded by a test on a fresh read of the same
					// element made under this acquisition (the early read only avoids taking the lock)
					if bad != "" {
						for _, b2 := range f.Blocks {
							ifi, ok := b2.Instrs[len(b2.Instrs)-1].(*ssa.If)
							if !ok || !b2.Dominates(in.Block()) || b2 == in.Block() {
								continue
							}
							for d := range dataDeps(ifi.Cond) {
								if !same(d) {
									continue
								}
								if di, ok := d.(ssa.Instruction); ok {
									if h3, by3 := heldAt(f, di, name, true); h3 && by3 == by {
										bad = ""
									}
								}
							}
						}
					}
					r.check(bad == "", fmt.Sprintf("%s:%s-rmw#%d:under-one-%s", fname(f), strings.Fields(what)[0], k, name),
						"the value written under "+name+" is computed from a read made under the same acquisition",
						"a "+what+" is written under "+name+" from a value that was read outside this critical section (under a read lock or an earlier acquisition): two concurrent writers compute from the same old value and one update is lost", bad)
				}
			}
		}
	}
	r.check(n >= 10, "repo:locked-read-modify-writes", fmt.Sprintf("%d read-modify-writes under a write-held mutex examined", n), "too few: rule needs review", "-")
}

// ---------------------------------------------------------------------------------------------
// R11.8 (=R4.1) and R11.9

func init() {
	register(ruleDef{ID: "R11.8", Prop: "C11", Tier: "quick", Floor: 6,
		Title: "log records of concurrent mutations do not interleave (shared with R4.1): header write, payload write and Sync of one record happen under the file's exclusive lock",
		Fn:    ruleR4_1})
	register(ruleDef{ID: "R11.9", Prop: "C11", Tier: "quick", Floor: 3,
		Title: "sync events of one instance are applied one at a time, in arrival order: the consumers of an instance's sync channel whose handlers update unlocked denormalised indexes (annotation, labelvol, labelsz) do not hand a received message to a new goroutine",
		Fn:    ruleSyncSerial})
}

func ruleSyncSerial(r *Run) {
	w := r.W
	n := 0
	for _, f := range w.RepoFuncs {
		if len(f.Blocks) == 0 || f.Parent() != nil || !strings.HasPrefix(relPkg(pkgPathOf(f)), "datatype/") || strings.HasSuffix(w.fposFile(f), "_test.go") {
			continue
		}
		// the receive from the instance's sync channel
		var recv []ssa.Value
		for _, b := range f.Blocks {
			for _, in := range b.Instrs {
				switch x := in.(type) {
				case *ssa.Select:
					for i, st := range x.States {
						if st.Dir != 2 /* types.RecvOnly */ || !isSyncChan(st.Chan) {
							continue
						}
						// the received value: Extract(select, 2+k)
						_ = i
						for _, ref := range *x.Referrers() {
							if ex, ok := ref.(*ssa.Extract); ok && ex.Index >= 2 && typeIs(ex.Type(), "datastore", "SyncMessage") {
								recv = append(recv, ex)
							}
						}
					}
				case *ssa.UnOp:
					if x.Op == token.ARROW && isSyncChan(x.X) {
						recv = append(recv, x)
					}
				}
			}
		}
		if len(recv) == 0 {
			continue
		}
		n++
		if _, exc := r.exceptionFor("R11.9", fname(f)); exc {
			continue
		}
		bad := ""
		for _, b := range f.Blocks {
			for _, in := range b.Instrs {
				g, ok := in.(*ssa.Go)
				if !ok {
					continue
				}
				ops := append([]ssa.Value{}, g.Call.Args...)
				if mc, ok := g.Call.Value.(*ssa.MakeClosure); ok {
					ops = append(ops, mc.Bindings...)
				}
				for _, a := range ops {
					for d := range dataDeps(a) {
						for _, rv := range recv {
							if d == rv {
								bad = w.pos(g.Pos())
							}
						}
					}
				}
			}
		}
		r.check(bad == "", fname(f)+":messages-handled-on-the-consumer-goroutine",
			"no received sync message is handed to a new goroutine",
			"the consumer of the instance's sync channel starts a goroutine per message: the handlers read-modify-write the denormalised indexes without a lock and relied on being the only writer, so overlapping events lose updates and are applied out of order", bad)
	}
	r.check(n >= 3, "datatype:sync-consumers", fmt.Sprintf("%d sync-channel consumers examined", n), "sync consumers not found: rule needs review", "-")
}

func isSyncChan(v ssa.Value) bool {
	u, ok := v.(*ssa.UnOp)
	if !ok || u.Op != token.MUL {
		return false
	}
	fa, ok := u.X.(*ssa.FieldAddr)
	if !ok {
		return false
	}
	name, _, _ := fieldName(fa)
	return name == "syncCh"
}

// ---------------------------------------------------------------------------------------------
// R14.9 — the idle report looks at every level a mutation marks

func init() {
	register(ruleDef{ID: "R14.9", Prop: "C14", Tier: "quick", Floor: 2,
		Title: "the volume reports itself idle only when no level is marked: AnyScaleUpdating examines the levels up to and including MaxDownresLevel, the range downres.NewMutation marks",
		Fn:    ruleIdleCoversTop})
}

func ruleIdleCoversTop(r *Run) {
	w := r.W
	// the marking side: NewMutation's loop is inclusive
	nm := w.fn("datatype/common/downres", "NewMutation")
	inclusive := func(f *ssa.Function, isBound func(v ssa.Value) bool) (found, incl bool, pos string) {
		for _, b := range f.Blocks {
			ifi, ok := b.Instrs[len(b.Instrs)-1].(*ssa.If)
			if !ok || loopOf(b) == nil {
				continue
			}
			bo, ok := ifi.Cond.(*ssa.BinOp)
			if !ok {
				continue
			}
			y := stripConv(bo.Y)
			switch bo.Op {
			case token.LEQ:
				if isBound(y) {
					return true, true, w.pos(bo.Pos())
				}
			case token.LSS:
				if isBound(y) {
					return true, false, w.pos(bo.Pos())
				}
				if add, ok := y.(*ssa.BinOp); ok && add.Op == token.ADD && isBound(stripConv(add.X)) {
					if k, isK := constInt(add.Y); isK && k >= 1 {
						return true, true, w.pos(bo.Pos())
					}
				}
			}
		}
		return false, false, ""
	}
	if nm != nil {
		found, incl, pos := inclusive(nm, func(v ssa.Value) bool {
			c, ok := v.(*ssa.Call)
			return ok && methodNameOf(c) == "GetMaxDownresLevel"
		})
		r.check(found && incl, "downres.NewMutation:marks-up-to-max-level", "levels 1..GetMaxDownresLevel() inclusive are marked", "NewMutation no longer marks the levels up to and including the maximum", pos)
	} else {
		r.violation("downres.NewMutation", "not found", "-")
	}
	n := 0
	for _, f := range w.RepoFuncs {
		if f.Name() != "AnyScaleUpdating" || len(f.Blocks) == 0 || f.Parent() != nil {
			continue
		}
		n++
		found, incl, pos := inclusive(f, func(v ssa.Value) bool {
			u, ok := v.(*ssa.UnOp)
			if !ok {
				return false
			}
			fa, ok := u.X.(*ssa.FieldAddr)
			if !ok {
				return false
			}
			name, _, _ := fieldName(fa)
			return name == "MaxDownresLevel"
		})
		r.check(found && incl, fname(f)+":examines-up-to-max-level", "the scan over the per-level update counts includes MaxDownresLevel",
			"AnyScaleUpdating stops below MaxDownresLevel: while the last (top) level of a down-res pass is still being computed the volume reports itself idle", pos)
	}
	r.check(n >= 1, "repo:AnyScaleUpdating", fmt.Sprintf("%d implementations", n), "no AnyScaleUpdating found", "-")
}

// ---------------------------------------------------------------------------------------------
// R11.10 / R20.17 — no map write under a read lock; R20.16 (=R11.5)

func init() {
	register(ruleDef{ID: "R11.10", Prop: "C11", Tier: "quick", Floor: 1,
		Title: "a map that lives next to an RWMutex in one object is not written while only the read lock of that mutex is held (readers run concurrently: two writers corrupt the map)",
		Fn:    ruleNoMapWriteUnderRLock})
	register(ruleDef{ID: "R20.17", Prop: "C20", Tier: "quick", Floor: 1,
		Title: "no `fatal error: concurrent map writes` from a well-formed request (shared with R11.10): map writes guarded by an object's RWMutex hold its write lock",
		Fn:    ruleNoMapWriteUnderRLock})
	register(ruleDef{ID: "R20.16", Prop: "C20", Tier: "quick", Floor: 20,
		Title: "no request leaves a lock behind (shared with R11.5): every mutex locked in a function is unlocked on every return path, so a rejected request cannot wedge the requests that follow",
		Fn:    ruleR11_5})
}

func ruleNoMapWriteUnderRLock(r *Run) {
	w := r.W
	nRead, nSites := 0, 0
	for _, f := range w.RepoFuncs {
		if len(f.Blocks) == 0 || strings.HasSuffix(w.fposFile(f), "_test.go") {
			continue
		}
		p := relPkg(pkgPathOf(f))
		if !strings.HasPrefix(p, "datatype/") && p != "datastore" && !strings.HasPrefix(p, "storage") && p != "server" {
			continue
		}
		// read-lock acquisitions in f: key → base object key
		rlocks := map[string]string{}
		for _, b := range f.Blocks {
			for _, in := range b.Instrs {
				op, ok := asLockOp(in)
				if !ok || !op.lock || op.write {
					continue
				}
				c := in.(*ssa.Call)
				if fa, ok := c.Call.Args[0].(*ssa.FieldAddr); ok {
					rlocks[op.key] = addrKey(fa.X)
				}
			}
		}
		if len(rlocks) == 0 {
			continue
		}
		nRead++
		k := 0
		for _, b := range f.Blocks {
			for _, in := range b.Instrs {
				var m ssa.Value
				switch x := in.(type) {
				case *ssa.MapUpdate:
					m = x.Map
				case *ssa.Call:
					if bi, ok := x.Call.Value.(*ssa.Builtin); ok && bi.Name() == "delete" {
						m = x.Call.Args[0]
					}
				}
				if m == nil {
					continue
				}
				u, ok := m.(*ssa.UnOp)
				if !ok {
					continue
				}
				fa, ok := u.X.(*ssa.FieldAddr)
				if !ok {
					continue
				}
				base := addrKey(fa.X)
				for key, mbase := range rlocks {
					if mbase != base {
						continue
					}
					held, write := heldKeyAt(f, in, key)
					if !held {
						continue
					}
					nSites++
					k++
					name, _, _ := fieldName(fa)
					r.check(write, fmt.Sprintf("%s:map-write#%d:%s:needs-write-lock", fname(f), k, name), "the map is written with the write lock held",
						"the map "+name+" is written while only the read lock of the object's RWMutex is held: other holders of the read lock write or read it at the same time (lost entries, or the runtime's fatal `concurrent map writes`)", w.pos(in.Pos()))
				}
			}
		}
	}
	r.check(nRead >= 20, "repo:read-locked-functions", fmt.Sprintf("%d functions taking a read lock examined, %d map writes inside a section of the same object's lock", nRead, nSites), "too few functions with read locks: rule needs review", "-")
}

// ---------------------------------------------------------------------------------------------
// R20.18 — nothing that can panic on request data runs under a lock that only an explicit Unlock releases

func init() {
	register(ruleDef{ID: "R20.18", Prop: "C20", Tier: "quick", Floor: 1,
		Title: "a recovered panic cannot leave a lock behind: an unchecked type assertion (x.(T) without comma-ok) is not executed between a Lock and its explicit, non-deferred Unlock (the HTTP layer recovers the panic, the lock stays held and every later request on that object blocks)",
		Fn:    rulePanicUnderLock})
}

func rulePanicUnderLock(r *Run) {
	w := r.W
	nLocked, nAsserts := 0, 0
	for _, f := range w.RepoFuncs {
		if len(f.Blocks) == 0 || strings.HasSuffix(w.fposFile(f), "_test.go") {
			continue
		}
		p := relPkg(pkgPathOf(f))
		if !strings.HasPrefix(p, "datatype/") && p != "datastore" && p != "server" {
			continue
		}
		// mutex keys locked in f, and those released by a deferred unlock
		keys := map[string]string{}
		deferred := map[string]bool{}
		for _, b := range f.Blocks {
			for _, in := range b.Instrs {
				if op, ok := asLockOp(in); ok && op.lock {
					keys[op.key] = op.name
				}
				if d, ok := in.(*ssa.Defer); ok {
					if callee := d.Call.StaticCallee(); callee != nil && strings.HasPrefix(callee.String(), "(*sync.") && (callee.Name() == "Unlock" || callee.Name() == "RUnlock") && len(d.Call.Args) > 0 {
						k, _, _ := mutexKey(d.Call.Args[0])
						deferred[k] = true
					}
				}
			}
		}
		if len(keys) == 0 {
			continue
		}
		nLocked++
		k := 0
		for _, b := range f.Blocks {
			for _, in := range b.Instrs {
				ta, ok := in.(*ssa.TypeAssert)
				if !ok || ta.CommaOk {
					continue
				}
				for key, name := range keys {
					if deferred[key] {
						continue
					}
					held, _ := heldKeyAt(f, in, key)
					if !held {
						continue
					}
					nAsserts++
					k++
					// a type switch / preceding comma-ok test of the same value makes the assertion safe
					safe := false
					if ta.X.Referrers() != nil {
						for _, ref := range *ta.X.Referrers() {
							if t2, ok := ref.(*ssa.TypeAssert); ok && t2.CommaOk && types_Identical(t2.AssertedType, ta.AssertedType) && t2.Block().Dominates(ta.Block()) {
								safe = true
							}
						}
					}
					r.check(safe, fmt.Sprintf("%s:type-assert#%d:under-%s", fname(f), k, name), "guarded by a comma-ok test of the same value",
						"an unchecked type assertion runs while "+name+" is held and only an explicit Unlock releases it: a value of another type (request data) panics, the HTTP layer recovers, the lock is never released and later requests on the object block for ever", w.pos(ta.Pos()))
				}
			}
		}
	}
	r.check(nLocked >= 20, "repo:locking-functions", fmt.Sprintf("%d locking functions examined, %d unchecked assertions inside explicitly released sections", nLocked, nAsserts), "too few: rule needs review", "-")
}

func types_Identical(a, b types.Type) bool { return types.Identical(a, b) }

// ---------------------------------------------------------------------------------------------
// R17.6 / R11.12 — a read-modify-write of a stored value under a mutex is one critical section

func init() {
	register(ruleDef{ID: "R17.6", Prop: "C17", Tier: "quick", Floor: 1,
		Title: "the stored extents are updated atomically: where a value is read from the store, modified and written back under a mutex, the read lies in the same critical section as the write (two writers growing the extents at once must not lose one update)",
		Fn:    ruleStoreRMWOneSection})
	register(ruleDef{ID: "R11.12", Prop: "C11", Tier: "quick", Floor: 1,
		Title: "store read-modify-write under a mutex is one critical section (shared with R17.6)",
		Fn:    ruleStoreRMWOneSection})
}

func ruleStoreRMWOneSection(r *Run) {
	w := r.W
	n := 0
	for _, f := range w.RepoFuncs {
		if len(f.Blocks) == 0 || strings.HasSuffix(w.fposFile(f), "_test.go") || !strings.HasPrefix(relPkg(pkgPathOf(f)), "datatype/") {
			continue
		}
		names := map[string]bool{}
		for _, b := range f.Blocks {
			for _, in := range b.Instrs {
				if op, ok := asLockOp(in); ok && op.lock && op.write {
					names[op.name] = true
				}
			}
		}
		if len(names) == 0 {
			continue
		}
		keyOf := func(c ssa.CallInstruction) string {
			args := c.Common().Args
			if len(args) < 2 {
				return ""
			}
			k := args[1]
			if kc, ok := k.(*ssa.Call); ok {
				if cal := kc.Call.StaticCallee(); cal != nil && len(kc.Call.Args) == 0 {
					return cal.String()
				}
			}
			return ""
		}
		k := 0
		for _, put := range calls(f) {
			if methodNameOf(put) != "Put" || !put.Common().IsInvoke() || len(put.Common().Args) != 3 {
				continue
			}
			pk := keyOf(put)
			if pk == "" {
				continue
			}
			// a Get of the same key whose result the written value depends on
			var get ssa.Instruction
			for d := range dataDeps(put.Common().Args[2]) {
				if gc, ok := d.(*ssa.Call); ok && methodNameOf(gc) == "Get" && gc.Call.IsInvoke() && keyOf(gc) == pk {
					get = gc
				}
			}
			if get == nil {
				// the dependence may run through a decoded struct: accept a dominating Get of the same key
				for _, c := range calls(f) {
					if methodNameOf(c) == "Get" && c.Common().IsInvoke() && keyOf(c) == pk && c.Block().Dominates(put.Block()) {
						get = c
					}
				}
			}
			if get == nil {
				continue
			}
			for name := range names {
				held, by := heldAt(f, put, name, true)
				if !held || by == nil {
					continue
				}
				n++
				k++
				h2, by2 := heldAt(f, get, name, true)
				r.check(h2 && by2 == by, fmt.Sprintf("%s:store-rmw#%d:%s:under-one-%s", fname(f), k, pk[strings.LastIndex(pk, ".")+1:], name),
					"the stored value is read and written back under one acquisition of "+name,
					"a stored value is written back under "+name+" from a copy that was read from the store before the lock was taken: two concurrent updates both start from the old value and one is lost", w.pos(get.Pos()))
			}
		}
	}
	r.check(n >= 1, "datatype:locked-store-rmw", fmt.Sprintf("%d locked read-modify-writes of stored values", n), "none found: rule needs review", "-")
}

// ---------------------------------------------------------------------------------------------
// R20.21 — a worker's error report cannot block the Wait that precedes its receiver

func init() {
	register(ruleDef{ID: "R20.21", Prop: "C20", Tier: "quick", Floor: 1,
		Title: "a worker's error report cannot wedge the request: where a function waits for its worker goroutines (WaitGroup.Wait) before it first receives from an error channel, that channel is buffered (a worker that sends on an unbuffered channel before its Done blocks for ever, and so does the Wait)",
		Fn:    ruleErrChanBuffered})
}

func ruleErrChanBuffered(r *Run) {
	w := r.W
	n := 0
	for _, f := range w.RepoFuncs {
		if len(f.Blocks) == 0 || f.Parent() != nil || strings.HasSuffix(w.fposFile(f), "_test.go") {
			continue
		}
		p := relPkg(pkgPathOf(f))
		if !strings.HasPrefix(p, "datatype/") && p != "datastore" && p != "server" && !strings.HasPrefix(p, "storage") {
			continue
		}
		// Wait calls in f itself
		var waits []ssa.Instruction
		for _, c := range calls(f) {
			if cal := staticCallee(c); cal != nil && cal.String() == "(*sync.WaitGroup).Wait" {
				waits = append(waits, c)
			}
		}
		if len(waits) == 0 {
			continue
		}
		k := 0
		for _, b := range f.Blocks {
			for _, in := range b.Instrs {
				mk, ok := in.(*ssa.MakeChan)
				if !ok {
					continue
				}
				buffered := true
				if sz, isK := constInt(mk.Size); isK && sz == 0 {
					buffered = false
				}
				ch, ok := mk.Type().Underlying().(*types.Chan)
				if !ok || !isErrorType(ch.Elem()) {
					continue
				}
				// the channel variable (cell) when captured
				var handles []ssa.Value
				handles = append(handles, mk)
				if mk.Referrers() != nil {
					for _, ref := range *mk.Referrers() {
						if st, ok := ref.(*ssa.Store); ok && st.Val == ssa.Value(mk) {
							handles = append(handles, st.Addr)
						}
					}
				}
				// receives in f (not in closures): every one is behind a Wait?
				var recvs []ssa.Instruction
				isHandle := func(v ssa.Value) bool {
					for _, h := range handles {
						if v == h {
							return true
						}
						if ld, ok := v.(*ssa.UnOp); ok && ld.Op == token.MUL && ld.X == h {
							return true
						}
					}
					return false
				}
				for _, b2 := range f.Blocks {
					for _, in2 := range b2.Instrs {
						switch x := in2.(type) {
						case *ssa.UnOp:
							if x.Op == token.ARROW && isHandle(x.X) {
								recvs = append(recvs, x)
							}
						case *ssa.Select:
							for _, st := range x.States {
								if st.Dir == types.RecvOnly && isHandle(st.Chan) {
									recvs = append(recvs, x)
								}
							}
						}
					}
				}
				if len(recvs) == 0 {
					continue
				}
				allBehind := true
				for _, rc := range recvs {
					behind := false
					for _, wt := range waits {
						if domInstr(wt, rc) {
							behind = true
						}
					}
					if !behind {
						allBehind = false
					}
				}
				// a goroutine started by f sends on it
				sends := false
				for _, g := range withClosures(f) {
					if g == f {
						continue
					}
					if sendsOn(w, g, handles, 0) {
						sends = true
					}
				}
				if !sends {
					continue
				}
				n++
				k++
				r.check(buffered || !allBehind, fmt.Sprintf("%s:error-chan#%d:report-cannot-block-the-wait", fname(f), k),
					"the channel is buffered, or the function receives from it while its workers run",
					"workers report errors on an unbuffered channel that the function only reads after WaitGroup.Wait: a worker that hits an error blocks in the send before its Done, Wait never returns and the request is never answered", w.pos(mk.Pos()))
			}
		}
	}
	r.check(n >= 1, "repo:unbuffered-error-channels", fmt.Sprintf("%d error channels fed by workers of a waiting function", n), "none found: rule needs review", "-")
}

// ---------------------------------------------------------------------------------------------
// R11.13 / R20.22 — one lock order between a repo and its nodes

func init() {
	register(ruleDef{ID: "R11.13", Prop: "C11", Tier: "quick", Floor: 3,
		Title: "repo before node: no function acquires a repo's lock while it holds the lock of one of the repo's nodes (serialisation of the repo, commit and the node log take the repo's lock first and then each node's; the opposite order deadlocks against them)",
		Fn:    ruleRepoNodeLockOrder})
	register(ruleDef{ID: "R11.21", Prop: "C11", Tier: "quick", Floor: 2,
		Title: "DAG before node: no function acquires the lock of a repo's DAG (read or write) while it holds the lock of one of the nodes; the serialisation of the DAG on every save takes the DAG's lock and then each node's",
		Fn:    func(r *Run) { ruleOuterBeforeNode(r, "dagT", "dag", 5, 1) }})
	register(ruleDef{ID: "R20.31", Prop: "C20", Tier: "quick", Floor: 2,
		Title: "no lock-order inversion between a repo's DAG and its nodes (shared with R11.21)",
		Fn:    func(r *Run) { ruleOuterBeforeNode(r, "dagT", "dag", 5, 1) }})
	register(ruleDef{ID: "R20.22", Prop: "C20", Tier: "quick", Floor: 3,
		Title: "no lock-order inversion between a repo and its nodes (shared with R11.13): two requests that take the two locks in opposite orders wedge each other and every later request on the repo",
		Fn:    ruleRepoNodeLockOrder})
}

func ruleRepoNodeLockOrder(r *Run) { ruleOuterBeforeNode(r, "repoT", "repo", 10, 3) }

// ruleOuterBeforeNode: the lock of the enclosing object (a repo, a repo's DAG) is never acquired
// while the lock of one of its nodes is held.
func ruleOuterBeforeNode(r *Run, outerType, outerName string, minFuncs, minNested int) {
	w := r.W
	n, nested := 0, 0
	baseType := func(in ssa.Instruction) string {
		c, ok := in.(*ssa.Call)
		if !ok || len(c.Call.Args) == 0 {
			return ""
		}
		fa, ok := c.Call.Args[0].(*ssa.FieldAddr)
		if !ok {
			return ""
		}
		if nm := namedOf(fa.X.Type()); nm != nil {
			return nm.Obj().Name()
		}
		return ""
	}
	for _, f := range w.RepoFuncs {
		if relPkg(pkgPathOf(f)) != "datastore" || len(f.Blocks) == 0 || strings.HasSuffix(w.fposFile(f), "_test.go") {
			continue
		}
		nodeKeys := map[string]bool{}
		var repoAcq []ssa.Instruction
		for _, b := range f.Blocks {
			for _, in := range b.Instrs {
				op, ok := asLockOp(in)
				if !ok || !op.lock {
					continue
				}
				switch baseType(in) {
				case "nodeT":
					nodeKeys[op.key] = true
				case outerType:
					repoAcq = append(repoAcq, in)
				}
			}
		}
		if len(repoAcq) == 0 {
			continue
		}
		n++
		if len(nodeKeys) == 0 {
			continue
		}
		k := 0
		for _, acq := range repoAcq {
			nested++
			k++
			bad := false
			for key := range nodeKeys {
				if held, _ := heldKeyAt(f, acq, key); held {
					bad = true
				}
			}
			r.check(!bad, fmt.Sprintf("%s:%s-lock#%d:not-under-a-node-lock", fname(f), outerName, k), "no node lock is held when the "+outerName+"'s lock is taken",
				"the "+outerName+"'s lock is acquired while a node's lock is held; serialising the repo (GET repo info, every save), commit and the node log take them in the order "+outerName+" → node, so the two requests can block each other for ever", w.pos(acq.Pos()))
		}
	}
	r.check(n >= minFuncs && nested >= minNested, "datastore:"+outerName+"-lock-acquisitions", fmt.Sprintf("%d functions lock a %s, %d acquisitions in functions that also lock a node", n, outerName, nested), "too few: rule needs review", "-")
}

// ---------------------------------------------------------------------------------------------
// R20.23 — a deferred Unlock finds its lock held;  R20.24 — no send on a channel that was never made

func init() {
	register(ruleDef{ID: "R20.23", Prop: "C20", Tier: "quick", Floor: 20,
		Title: "a deferred Unlock finds its lock held: where a function defers the Unlock of a mutex, no path to a return releases that mutex explicitly as well (a second Unlock is a fatal error that no recover catches)",
		Fn:    ruleDeferredUnlockHeld})
	register(ruleDef{ID: "R20.24", Prop: "C20", Tier: "quick", Floor: 1,
		Title: "no send on a channel that was never made: a channel that is created only when some option is set is sent on (directly or by a callee) only under a test of that same option or of the channel itself (a send on a nil channel blocks for ever, with the request's locks held)",
		Fn:    ruleConditionalChannel})
}

func ruleDeferredUnlockHeld(r *Run) {
	w := r.W
	n := 0
	for _, f := range w.RepoFuncs {
		if len(f.Blocks) == 0 || strings.HasSuffix(w.fposFile(f), "_test.go") {
			continue
		}
		p := relPkg(pkgPathOf(f))
		if !strings.HasPrefix(p, "datatype/") && p != "datastore" && p != "server" && !strings.HasPrefix(p, "storage") {
			continue
		}
		k := 0
		for _, b := range f.Blocks {
			for _, in := range b.Instrs {
				d, ok := in.(*ssa.Defer)
				if !ok {
					continue
				}
				callee := d.Call.StaticCallee()
				if callee == nil || !strings.HasPrefix(callee.String(), "(*sync.") || (callee.Name() != "Unlock" && callee.Name() != "RUnlock") || len(d.Call.Args) == 0 {
					continue
				}
				key, name, _ := mutexKey(d.Call.Args[0])
				if key == "" {
					continue
				}
				n++
				k++
				// a path: defer … explicit Unlock of the same mutex … return, with no Lock of it in between
				bad := ""
				isRelock := func(x ssa.Instruction) bool {
					op, ok := asLockOp(x)
					return ok && op.lock && op.key == key
				}
				for _, ub := range f.Blocks {
					for _, u := range ub.Instrs {
						op, ok := asLockOp(u)
						if !ok || op.lock || op.key != key {
							continue
						}
						if findPath(f, d, nil, func(x ssa.Instruction) bool { return x == u }, allEdges) == nil {
							continue
						}
						if findPath(f, u, isRelock, isReturn, allEdges) != nil {
							bad = w.pos(u.Pos())
						}
					}
				}
				r.check(bad == "", fmt.Sprintf("%s:deferred-unlock#%d:%s:lock-still-held-at-return", fname(f), k, name), "no path releases the mutex explicitly before the deferred Unlock runs",
					"a path to a return unlocks "+name+" explicitly although its Unlock is also deferred: the deferred call unlocks an unlocked mutex, a fatal error that kills the process", bad)
			}
		}
	}
	r.check(n >= 20, "repo:deferred-unlocks", fmt.Sprintf("%d deferred unlocks examined", n), "too few: rule needs review", "-")
}

func ruleConditionalChannel(r *Run) {
	w := r.W
	n := 0
	for _, top := range w.RepoFuncs {
		if len(top.Blocks) == 0 || top.Parent() != nil || strings.HasSuffix(w.fposFile(top), "_test.go") || !strings.HasPrefix(relPkg(pkgPathOf(top)), "datatype/") {
			continue
		}
		for _, b := range top.Blocks {
			for _, in := range b.Instrs {
				cell, ok := in.(*ssa.Alloc)
				if !ok {
					continue
				}
				pt, ok := cell.Type().Underlying().(*types.Pointer)
				if !ok {
					continue
				}
				if _, isCh := pt.Elem().Underlying().(*types.Chan); !isCh {
					continue
				}
				// stores into the cell: exactly the conditional creation(s)
				var makes []*ssa.Store
				other := false
				for _, ref := range *cell.Referrers() {
					if st, ok := ref.(*ssa.Store); ok && st.Addr == ssa.Value(cell) {
						if _, isMk := st.Val.(*ssa.MakeChan); isMk {
							makes = append(makes, st)
						} else if !isNilConst(st.Val) {
							other = true
						}
					}
				}
				if len(makes) != 1 || other {
					continue
				}
				mk := makes[0]
				// the option guarding the creation
				var optRoots []rootVal
				guardedMake := false
				for _, gb := range top.Blocks {
					ifi, ok := gb.Instrs[len(gb.Instrs)-1].(*ssa.If)
					if !ok || !guardedByEdge(ifi, 0, mk) {
						continue
					}
					guardedMake = true
					optRoots = append(optRoots, roots(ifi.Cond, top)...)
				}
				if !guardedMake {
					continue
				}
				n++
				sameOption := func(cond ssa.Value, g *ssa.Function) bool {
					for _, a := range roots(cond, g) {
						for _, o := range optRoots {
							if a.V == o.V {
								return true
							}
						}
					}
					return false
				}
				isCell := func(v ssa.Value, g *ssa.Function) bool {
					for _, rt := range roots(v, g) {
						if rt.V == ssa.Value(cell) {
							return true
						}
						if mkc, ok := rt.V.(*ssa.MakeChan); ok && mkc == mk.Val {
							return true
						}
					}
					return false
				}
				k := 0
				for _, g := range withClosures(top) {
					for _, gb := range g.Blocks {
						for _, gi := range gb.Instrs {
							var use ssa.Instruction
							switch x := gi.(type) {
							case *ssa.Send:
								if isCell(x.Chan, g) {
									use = x
								}
							case ssa.CallInstruction:
								callee := staticCallee(x)
								if callee == nil || len(callee.Blocks) == 0 {
									continue
								}
								for i, a := range x.Common().Args {
									if i < len(callee.Params) && isCell(a, g) && sendsOn(w, callee, []ssa.Value{callee.Params[i]}, 1) {
										use = gi
									}
								}
							}
							if use == nil {
								continue
							}
							// made before the use on every path: in the same function the creation dominates the use;
							// in a closure it dominates the point where the closure is built
							at := use
							for h := g; h != top && h != nil; h = h.Parent() {
								var mc ssa.Instruction
								if p := h.Parent(); p != nil {
									for _, pb := range p.Blocks {
										for _, pi := range pb.Instrs {
											if m2, ok := pi.(*ssa.MakeClosure); ok && m2.Fn == ssa.Value(h) {
												mc = m2
											}
										}
									}
								}
								at = mc
								if at == nil {
									break
								}
							}
							if at != nil && at.Parent() == top && domInstr(mk, at) {
								continue
							}
							k++
							guarded := false
							for _, ib := range g.Blocks {
								ifi, ok := ib.Instrs[len(ib.Instrs)-1].(*ssa.If)
								if !ok {
									continue
								}
								if sameOption(ifi.Cond, g) && guardedByEdge(ifi, 0, use) {
									guarded = true
								}
								if bo, ok := ifi.Cond.(*ssa.BinOp); ok && bo.Op == token.NEQ && isNilConst(bo.Y) && isCell(bo.X, g) && guardedByEdge(ifi, 0, use) {
									guarded = true
								}
							}
							r.check(guarded, fmt.Sprintf("%s:conditional-channel:%s:use#%d", fname(top), cell.Comment, k), "the send happens under the option that creates the channel",
								"a channel that is only created when an option is set is sent on without testing that option: with the option off the channel is nil, the send blocks for ever and the request never returns (holding its locks)", w.pos(use.Pos()))
						}
					}
				}
			}
		}
	}
	r.check(n >= 1, "datatype:conditionally-created-channels", fmt.Sprintf("%d channels created under an option", n), "none found: rule needs review", "-")
}

// ---------------------------------------------------------------------------------------------
// R11.14 — a function that serialises itself with its instance's mutex writes to the store only inside it

func init() {
	register(ruleDef{ID: "R11.14", Prop: "C11", Tier: "quick", Floor: 2,
		Title: "a replacement is one critical section: a data-type method that takes its instance's own mutex performs all its store writes (deletes included, also those of the methods it calls) while holding it, none before the Lock (two concurrent replacements must not end as the union of both)",
		Fn:    ruleWritesInsideOwnLock})
}

func ruleWritesInsideOwnLock(r *Run) {
	w := r.W
	sinks := w.newSinks()
	reach := w.newReach(func(c ssa.CallInstruction) bool { return sinks.isStorageWrite(c) }, nil)
	n := 0
	for _, f := range w.RepoFuncs {
		if len(f.Blocks) == 0 || f.Parent() != nil || strings.HasSuffix(w.fposFile(f), "_test.go") || !strings.HasPrefix(relPkg(pkgPathOf(f)), "datatype/") {
			continue
		}
		rp := recvParam(f)
		if rp == nil {
			continue
		}
		// d.Lock() on the receiver's embedded mutex
		var key, name string
		for _, b := range f.Blocks {
			for _, in := range b.Instrs {
				op, ok := asLockOp(in)
				if !ok || !op.lock || !op.write {
					continue
				}
				c := in.(*ssa.Call)
				fa, ok := c.Call.Args[0].(*ssa.FieldAddr)
				if !ok {
					continue
				}
				isRecv := false
				for _, rt := range roots(fa.X, f) {
					if rt.V == ssa.Value(rp) {
						isRecv = true
					}
				}
				if nm, _, _ := fieldName(fa); isRecv && (nm == "Mutex" || nm == "RWMutex") {
					key, name = op.key, nm
				}
			}
		}
		if key == "" {
			continue
		}
		// only methods whose section is meant to cover the rest of the call: the Unlock is deferred
		// (a method that locks briefly to flip a flag serialises itself by that flag instead)
		scoped := false
		for _, b := range f.Blocks {
			for _, in := range b.Instrs {
				if d, ok := in.(*ssa.Defer); ok {
					if callee := d.Call.StaticCallee(); callee != nil && strings.HasPrefix(callee.String(), "(*sync.") && callee.Name() == "Unlock" && len(d.Call.Args) > 0 {
						if k2, _, _ := mutexKey(d.Call.Args[0]); k2 == key {
							scoped = true
						}
					}
				}
			}
		}
		if !scoped {
			continue
		}
		k := 0
		for _, c := range calls(f) {
			if _, isDefer := c.(*ssa.Defer); isDefer {
				continue
			}
			if _, isGo := c.(*ssa.Go); isGo {
				continue
			}
			writes := sinks.isStorageWrite(c)
			if !writes {
				if callee := staticCallee(c); callee != nil && strings.HasPrefix(pkgPathOf(callee), modPath) && reach.From(callee) {
					writes = true
				}
			}
			if !writes {
				continue
			}
			n++
			k++
			held, _ := heldKeyAt(f, c, key)
			r.check(held, fmt.Sprintf("%s:store-write#%d:inside-own-%s", fname(f), k, name), "the write happens with the instance's mutex held",
				"the method takes its instance's mutex but performs a store write ("+callDesc(c)+") outside it: the write is not part of the critical section, so concurrent calls interleave (e.g. delete, delete, write, write leaves the union of two replacements)", w.pos(c.Pos()))
		}
	}
	r.check(n >= 2, "datatype:self-serialised-writers", fmt.Sprintf("%d store writes in methods that take their instance's own mutex", n), "too few: rule needs review", "-")
}

// ---------------------------------------------------------------------------------------------
// R11.15 / R13.13 — sync events are not dropped

func init() {
	reg := func(id, prop string) {
		register(ruleDef{ID: id, Prop: prop, Tier: "quick", Floor: 1,
			Title: "a sync event is never dropped: events are handed to a subscriber's queue with a blocking send (a select with a default branch loses the event when the queue is full, and the derived data lags its source for good)",
			Fn:    ruleSyncSendBlocking})
	}
	reg("R11.15", "C11")
	reg("R13.13", "C13")
}

func ruleSyncSendBlocking(r *Run) {
	w := r.W
	nBlocking, bad := 0, 0
	for _, f := range w.RepoFuncs {
		if len(f.Blocks) == 0 || strings.HasSuffix(w.fposFile(f), "_test.go") {
			continue
		}
		for _, b := range f.Blocks {
			for _, in := range b.Instrs {
				switch x := in.(type) {
				case *ssa.Send:
					if isSyncSend(x) {
						nBlocking++
					}
				case *ssa.Select:
					for _, st := range x.States {
						if st.Dir != types.SendOnly {
							continue
						}
						ch, ok := st.Chan.Type().Underlying().(*types.Chan)
						if !ok || !typeIs(ch.Elem(), "datastore", "SyncMessage") {
							continue
						}
						if x.Blocking {
							nBlocking++
						} else {
							bad++
							r.violation(fmt.Sprintf("%s:sync-send#%d:non-blocking", fname(f), bad),
								"a sync message is sent with a select that has a default branch: when the subscriber's queue is full the event is dropped and the subscriber's derived data never catches up", w.pos(x.Pos()))
						}
					}
				}
			}
		}
	}
	if bad == 0 {
		r.check(nBlocking >= 1, "repo:sync-sends-blocking", fmt.Sprintf("%d sends of sync messages, all blocking", nBlocking), "no send of a sync message found: rule needs review", "-")
	}
}

// ---------------------------------------------------------------------------------------------
// R14.10 — the down-res pass of a voxel mutation runs inside the mutation's critical section

func init() {
	register(ruleDef{ID: "R14.10", Prop: "C14", Tier: "quick", Floor: 2,
		Title: "lower levels are computed from a stable level 0: a function that serialises voxel mutations with the instance's voxel mutex calls downres.Mutation.Execute while it still holds that mutex (the pass is an unlocked read-modify-write of parent blocks; two of them at once lose octants)",
		Fn:    ruleDownresUnderVoxelLock})
}

func ruleDownresUnderVoxelLock(r *Run) {
	w := r.W
	n := 0
	for _, f := range w.RepoFuncs {
		if len(f.Blocks) == 0 || f.Parent() != nil || !strings.HasPrefix(relPkg(pkgPathOf(f)), "datatype/") || strings.HasSuffix(w.fposFile(f), "_test.go") {
			continue
		}
		locks := false
		for _, b := range f.Blocks {
			for _, in := range b.Instrs {
				if op, ok := asLockOp(in); ok && op.lock && op.write && op.name == "voxelMu" {
					locks = true
				}
			}
		}
		if !locks {
			continue
		}
		k := 0
		for _, c := range calls(f) {
			if _, isDefer := c.(*ssa.Defer); isDefer {
				continue
			}
			cal := staticCallee(c)
			if cal == nil || cal.Name() != "Execute" || relPkg(pkgPathOf(cal)) != "datatype/common/downres" {
				continue
			}
			n++
			k++
			held, _ := heldAt(f, c, "voxelMu", true)
			// a release handed out as a method value (once.Do(d.voxelMu.Unlock), a helper that is given the
			// Unlock) and called on a way to the pass is a release too
			if held {
				for _, c2 := range calls(f) {
					if _, isDefer := c2.(*ssa.Defer); isDefer {
						continue
					}
					for _, a := range c2.Common().Args {
						mc, ok := a.(*ssa.MakeClosure)
						if !ok || !strings.Contains(mc.Fn.Name(), "Unlock$bound") || len(mc.Bindings) == 0 {
							continue
						}
						if fa, ok := mc.Bindings[0].(*ssa.FieldAddr); ok {
							if nm, _, _ := fieldName(fa); nm == "voxelMu" {
								if findPath(f, c2, nil, func(x ssa.Instruction) bool { return x == ssa.Instruction(c) }, nil) != nil {
									held = false
								}
							}
						}
					}
				}
			}
			r.check(held, fmt.Sprintf("%s:Execute#%d:under-voxelMu", fname(f), k), "the down-res pass runs with the voxel mutex held",
				"the function releases the voxel mutex before running the down-res pass: concurrent voxel writes to sibling blocks then rebuild the same parent blocks at once and each overwrites the other's octants, so lower levels no longer follow from level 0", w.pos(c.Pos()))
		}
	}
	r.check(n >= 2, "datatype:downres-passes-in-voxel-sections", fmt.Sprintf("%d down-res passes in functions that take the voxel mutex", n), "too few: rule needs review", "-")
}

// ---------------------------------------------------------------------------------------------
// R11.19 — work on one block always goes to the same worker

func init() {
	register(ruleDef{ID: "R11.19", Prop: "C11", Tier: "quick", Floor: 2,
		Title: "block work keeps its worker: where block operations are handed to one of several worker channels, the channel is chosen by a hash of the block's coordinate (that affinity is what serialises concurrent rewrites of one block), never by position in a list",
		Fn:    ruleWorkerAffinity})
}

func ruleWorkerAffinity(r *Run) {
	w := r.W
	n := 0
	for _, f := range w.RepoFuncs {
		if len(f.Blocks) == 0 || strings.HasSuffix(w.fposFile(f), "_test.go") || !strings.HasPrefix(relPkg(pkgPathOf(f)), "datatype/") {
			continue
		}
		k := 0
		for _, b := range f.Blocks {
			for _, in := range b.Instrs {
				snd, ok := in.(*ssa.Send)
				if !ok {
					continue
				}
				// the channel is an element of an array / slice of channels
				var idx ssa.Value
				switch x := snd.Chan.(type) {
				case *ssa.UnOp:
					if ia, ok := x.X.(*ssa.IndexAddr); ok {
						idx = ia.Index
					}
				case *ssa.Index:
					idx = x.Index
				}
				if idx == nil {
					continue
				}
				if _, isK := idx.(*ssa.Const); isK {
					continue
				}
				// only block work: the message carries a block coordinate somewhere
				n++
				k++
				hashed := false
				for d := range dataDeps(idx) {
					if c, ok := d.(*ssa.Call); ok && methodNameOf(c) == "Hash" {
						hashed = true
					}
				}
				r.check(hashed, fmt.Sprintf("%s:worker-send#%d:chosen-by-block-hash", fname(f), k), "the worker is chosen by Hash() of the block coordinate",
					"a block operation is handed to a worker chosen by something other than the hash of its block coordinate: two concurrent mutations that touch the same block can then rewrite it from two workers at once, and one rewrite is lost", w.pos(snd.Pos()))
			}
		}
	}
	r.check(n >= 2, "datatype:worker-channel-sends", fmt.Sprintf("%d sends on indexed worker channels", n), "too few: rule needs review", "-")
}
