package main

import (
	"encoding/json"
	"fmt"
	"golang.org/x/tools/go/ssa"
	"os"
	"path/filepath"
	"sort"
	"strings"
	"time"
)

type Status int

const (
	Discharged Status = iota
	Violated
	Undecided
)

func (s Status) String() string {
	return [...]string{"discharged", "VIOLATED", "UNDECIDED"}[s]
}

// Obligation is one decided instance of a rule.  Construct is the stable identity (rule +
// construct, never a position); Pos is for diagnosis only.
type Obligation struct {
	Rule       string   `json:"rule"`
	Construct  string   `json:"construct"`
	Status     string   `json:"status"`
	Detail     string   `json:"detail,omitempty"`
	Pos        string   `json:"pos,omitempty"`
	Witness    []string `json:"witness,omitempty"`
	Nontrivial bool     `json:"nontrivial"`
	st         Status
}

type Run struct {
	W          *World
	Prop       string
	Tier       string
	Seed       int
	Known      *KnownFindings
	Verbose    bool
	Obls       []*Obligation
	RuleCounts []string
	Notes      []string // free-text facts for the evidence (tables, what was enumerated)
	Assume     []string
	Exceptions []string // exception-table entries that were used on this run
	cur        ruleDef
	start      time.Time
	seen       map[string]bool
}

func (r *Run) add(st Status, construct, detail, pos string, witness []string, nontrivial bool) *Obligation {
	if r.seen == nil {
		r.seen = map[string]bool{}
	}
	key := r.cur.ID + "|" + construct
	if r.seen[key] {
		// same construct reported twice by one rule: keep the worst status
		for _, o := range r.Obls {
			if o.Rule == r.cur.ID && o.Construct == construct {
				if st > o.st {
					o.st, o.Status, o.Detail, o.Pos, o.Witness = st, st.String(), detail, pos, witness
				}
				return o
			}
		}
	}
	r.seen[key] = true
	o := &Obligation{Rule: r.cur.ID, Construct: construct, Status: st.String(), Detail: detail, Pos: pos, Witness: witness, Nontrivial: nontrivial, st: st}
	r.Obls = append(r.Obls, o)
	if r.Verbose {
		fmt.Printf("  [%s] %s %s — %s (%s)\n", o.Status, o.Rule, o.Construct, short(detail, 200), pos)
	}
	return o
}

// ok records a discharged obligation.
func (r *Run) ok(construct, detail, pos string) { r.add(Discharged, construct, detail, pos, nil, true) }

// okTrivial records a discharged obligation whose region had no branch/call of interest.
func (r *Run) okTrivial(construct, detail, pos string) {
	r.add(Discharged, construct, detail, pos, nil, false)
}

func (r *Run) violation(construct, detail, pos string, witness ...string) {
	r.add(Violated, construct, detail, pos, witness, true)
}

func (r *Run) undecided(construct, detail string) {
	r.add(Undecided, construct, detail, "", nil, true)
}

// check is the common form: cond true → discharged, else violation.
func (r *Run) check(cond bool, construct, okDetail, badDetail, pos string, witness ...string) bool {
	if cond {
		r.ok(construct, okDetail, pos)
	} else {
		r.violation(construct, badDetail, pos, witness...)
	}
	return cond
}

func (r *Run) note(format string, a ...interface{}) {
	r.Notes = append(r.Notes, fmt.Sprintf(format, a...))
}
func (r *Run) assume(s string) {
	for _, x := range r.Assume {
		if x == s {
			return
		}
	}
	r.Assume = append(r.Assume, s)
}

// exception consults the single-construct exception table (exceptions.go).
func (r *Run) exception(construct string) (string, bool) {
	return r.exceptionFor(r.cur.ID, construct)
}

// exceptionFor looks an exception up under an explicit rule id (rules shared by several
// properties keep their exceptions under the id they were written for).
func (r *Run) exceptionFor(rule, construct string) (string, bool) {
	reason, ok := exceptionTable[rule+"|"+construct]
	if !ok {
		// an exception granted to a function for what it is (the start-up loader, a test fixture) extends to an
		// unexported helper whose only caller is that function: the reason given for the caller holds for code
		// that runs nowhere else.  Two levels.
		if i := strings.Index(construct, ":"); i > 0 && r.W != nil {
			name, rest := construct[:i], construct[i:]
			for depth := 0; depth < 2 && !ok; depth++ {
				f := r.W.funcByFname(name)
				if f == nil || f.Object() == nil || f.Object().Exported() {
					break
				}
				var caller *ssa.Function
				single := true
				for _, c := range callSitesOf(r.W)[f] {
					p := c.Parent()
					for p.Parent() != nil {
						p = p.Parent()
					}
					if caller == nil {
						caller = p
					} else if caller != p {
						single = false
					}
				}
				if caller == nil || !single {
					break
				}
				name = fname(caller)
				if reason, ok = exceptionTable[rule+"|"+name+rest]; ok {
					reason = "(helper called only from " + name + ") " + reason
				}
			}
		}
	}
	if ok {
		r.Exceptions = append(r.Exceptions, fmt.Sprintf("%s %s: %s", r.cur.ID, construct, reason))
	}
	return reason, ok
}

var funcByFnameMemo = map[*World]map[string]*ssa.Function{}

func (w *World) funcByFname(name string) *ssa.Function {
	m, ok := funcByFnameMemo[w]
	if !ok {
		m = map[string]*ssa.Function{}
		for _, f := range w.RepoFuncs {
			m[fname(f)] = f
		}
		funcByFnameMemo[w] = m
	}
	return m[name]
}

// ---------------------------------------------------------------------------------------------

type KnownFinding struct {
	Property      string `json:"property"`
	Rule          string `json:"rule"`
	Construct     string `json:"construct"`
	WhatFails     string `json:"what_fails"`
	Demonstration string `json:"demonstration,omitempty"`
}
type FixedFinding struct {
	Property   string `json:"property"`
	Commit     string `json:"commit"`
	Rule       string `json:"rule,omitempty"`
	Construct  string `json:"construct,omitempty"`
	WhatFailed string `json:"what_failed"`
}
type KnownFindings struct {
	Known []KnownFinding `json:"known"`
	Fixed []FixedFinding `json:"fixed"`
}

func loadKnownFindings(path string) (*KnownFindings, error) {
	kf := &KnownFindings{}
	b, err := os.ReadFile(path)
	if err != nil {
		if os.IsNotExist(err) {
			return kf, nil
		}
		return nil, err
	}
	if err := json.Unmarshal(b, kf); err != nil {
		return nil, err
	}
	return kf, nil
}

func (k *KnownFindings) match(prop, rule, construct string) *KnownFinding {
	for i := range k.Known {
		f := &k.Known[i]
		if f.Property == prop && f.Rule == rule && f.Construct == construct {
			return f
		}
	}
	return nil
}

// ---------------------------------------------------------------------------------------------

type evidence struct {
	PropertyID  string                 `json:"property_id"`
	Tier        string                 `json:"tier"`
	Seed        int                    `json:"seed"`
	Level       string                 `json:"level"`
	Coverage    map[string]interface{} `json:"coverage"`
	Assumptions []string               `json:"assumptions"`
	WallS       float64                `json:"wall_s"`
	Violations  int                    `json:"violations"`
}

// finish prints the verdict lines, writes evidence and replay files, and returns the exit code.
func (r *Run) finish(verif string, writeEvidence bool) int {
	var viol, undec, known []*Obligation
	nontriv := map[string]bool{}
	discharged := 0
	for _, o := range r.Obls {
		switch o.st {
		case Violated:
			if kf := r.Known.match(r.Prop, o.Rule, o.Construct); kf != nil {
				known = append(known, o)
				fmt.Printf("KNOWN-FINDING: property=%s rule=%s construct=%s %s\n", r.Prop, o.Rule, o.Construct, kf.WhatFails)
			} else {
				viol = append(viol, o)
			}
		case Undecided:
			undec = append(undec, o)
		default:
			discharged++
		}
		if o.Nontrivial {
			nontriv[o.Rule+"|"+o.Construct] = true
		}
	}
	// a known finding that no longer fires is reported (informational): the list may be stale
	for _, f := range r.Known.Known {
		if f.Property != r.Prop {
			continue
		}
		found := false
		for _, o := range known {
			if o.Rule == f.Rule && o.Construct == f.Construct {
				found = true
			}
		}
		ruleRan := false
		for _, o := range r.Obls {
			if o.Rule == f.Rule {
				ruleRan = true
			}
		}
		if !found && ruleRan {
			fmt.Printf("NOTE: listed known finding no longer reported: property=%s rule=%s construct=%s\n", r.Prop, f.Rule, f.Construct)
		}
	}

	replayDir := filepath.Join(verif, "evidence", "replay")
	for i, o := range viol {
		path := filepath.Join(replayDir, fmt.Sprintf("%s-%d.json", r.Prop, i))
		if writeEvidence {
			os.MkdirAll(replayDir, 0o755)
			b, _ := json.MarshalIndent(o, "", " ")
			os.WriteFile(path, b, 0o644)
		}
		fmt.Printf("VIOLATION property=%s replay=%s\n", r.Prop, path)
		fmt.Printf("  rule=%s construct=%s at %s\n  %s\n", o.Rule, o.Construct, o.Pos, o.Detail)
		for _, w := range o.Witness {
			fmt.Printf("    %s\n", w)
		}
	}
	for _, o := range undec {
		fmt.Printf("UNDECIDED: property=%s rule=%s construct=%s %s\n", r.Prop, o.Rule, o.Construct, o.Detail)
	}

	wall := time.Since(r.start).Seconds() + r.W.LoadSeconds
	sort.Strings(r.RuleCounts)
	var titles []string
	for _, d := range rules {
		if d.Prop == r.Prop && (d.Tier != "thorough" || r.Tier == "thorough") {
			titles = append(titles, d.ID+" "+d.Title)
		}
	}
	var samples []interface{}
	// samples: the first obligations of each rule (actual obligations with their verdict)
	perRule := map[string]int{}
	for _, o := range r.Obls {
		if perRule[o.Rule] < 4 || o.st != Discharged {
			perRule[o.Rule]++
			samples = append(samples, o)
		}
	}
	if len(samples) > 120 {
		samples = samples[:120]
	}
	cov := map[string]interface{}{
		"explanation": fmt.Sprintf("Static analysis of %s (type-checked packages + SSA/CFG/call graph; nothing executed). "+
			"Decides structural necessary conditions of %s, not the behaviour itself. Rules: %s. "+
			"What is NOT decided is stated per property in /verif/DESIGN.md §2.", r.W.Repo, r.Prop, strings.Join(titles, " | ")),
		"evaluations":         len(r.Obls),
		"distinct_nontrivial": len(nontriv),
		"rule": "one evaluation = one (rule, construct) obligation decided on the current source; distinct = distinct (rule, construct) keys; " +
			"non-trivial = the obligation's region contained at least one branch, call or table entry that the rule had to examine (as flagged by the rule)",
		"samples":                 samples,
		"obligations":             len(r.Obls),
		"discharged":              discharged,
		"exhaustive":              true,
		"rules_run":               r.RuleCounts,
		"analysed":                r.W.describe(),
		"notes":                   r.Notes,
		"known_findings_reported": len(known),
		"undecided":               len(undec),
		"exceptions_used":         r.Exceptions,
		"checker_cmd":             "bin/dvidlint -prop " + r.Prop + " -tier " + r.Tier,
	}
	assume := append([]string{
		"golang.org/x/tools v0.29.0 go/packages, go/types, go/ssa, callgraph/vta are correct",
		"build analysed: tags '" + r.W.Tags + "' on linux/amd64; back ends that do not compile at this commit (kvautobus, bigtable, gcloud, clustered, lowmem) are not analysed",
		"mutex / slice aliasing is by access path (no pointer analysis available offline)",
		"reflection, encoding/gob, protobuf, JSON, badger and compression libraries are trusted",
	}, r.Assume...)
	ev := evidence{PropertyID: r.Prop, Tier: r.Tier, Seed: r.Seed, Level: "other", Coverage: cov, Assumptions: assume, WallS: wall, Violations: len(viol)}
	if writeEvidence {
		os.MkdirAll(filepath.Join(verif, "evidence"), 0o755)
		b, err := json.MarshalIndent(ev, "", " ")
		if err == nil {
			err = os.WriteFile(filepath.Join(verif, "evidence", r.Prop+".json"), b, 0o644)
		}
		if err != nil {
			fmt.Printf("ERROR: cannot write evidence: %v\n", err)
			return 2
		}
	}
	fmt.Printf("%s tier=%s: %d obligations, %d discharged, %d known findings, %d violations, %d undecided (%.1fs)\n",
		r.Prop, r.Tier, len(r.Obls), discharged, len(known), len(viol), len(undec), wall)
	for _, c := range r.RuleCounts {
		fmt.Println("  " + c)
	}
	if len(viol) > 0 {
		return 1
	}
	if len(undec) > 0 {
		return 2
	}
	return 0
}
