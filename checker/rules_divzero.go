package main

// R20.19 — an integer parsed from the request is not used as a divisor without a zero test.
//
// strconv.Atoi/ParseInt/ParseUint results in handlers are followed through conversions, into the
// parameters of statically called repository functions (two levels), to integer / and %.  Each such
// division needs a comparison of the value with a constant on some dominating branch (== 0, <= 0, < 1,
// > 0 …) in the function where it happens or in a function it passed through.

import (
	"fmt"
	"go/token"
	"go/types"
	"strings"

	"golang.org/x/tools/go/ssa"
)

func init() {
	register(ruleDef{ID: "R20.19", Prop: "C20", Tier: "quick", Floor: 3,
		Title: "no division by a number taken from the URL: an integer parsed from a query string or path element reaches an integer / or % only behind a comparison of that value with a constant (batchsize=0 must be a client error, not a recovered divide-by-zero)",
		Fn:    ruleParsedDivisor})
}

func ruleParsedDivisor(r *Run) {
	w := r.W
	type flow struct {
		v       ssa.Value
		f       *ssa.Function
		guarded bool
		via     string
	}
	testedAgainstConst := func(v ssa.Value, f *ssa.Function, at ssa.Instruction) bool {
		// any If on a comparison of v (or a conversion of it) with a constant whose block dominates `at`
		vals := map[ssa.Value]bool{v: true}
		for up := v; ; {
			cv, ok := up.(*ssa.Convert)
			if !ok {
				break
			}
			up = cv.X
			vals[up] = true
		}
		for changed := true; changed; {
			changed = false
			for x := range vals {
				if x.Referrers() == nil {
					continue
				}
				for _, ref := range *x.Referrers() {
					if cv, ok := ref.(*ssa.Convert); ok && !vals[cv] {
						vals[cv] = true
						changed = true
					}
				}
			}
		}
		for _, b := range f.Blocks {
			ifi, ok := b.Instrs[len(b.Instrs)-1].(*ssa.If)
			if !ok {
				continue
			}
			bo, ok := ifi.Cond.(*ssa.BinOp)
			if !ok {
				continue
			}
			_, kx := bo.X.(*ssa.Const)
			_, ky := bo.Y.(*ssa.Const)
			if !((vals[bo.X] && ky) || (vals[bo.Y] && kx)) {
				continue
			}
			if at == nil || (b.Dominates(at.Block()) && b != at.Block()) {
				return true
			}
		}
		return false
	}
	nParsed, nDiv := 0, 0
	for _, f := range w.RepoFuncs {
		if len(f.Blocks) == 0 || strings.HasSuffix(w.fposFile(f), "_test.go") {
			continue
		}
		p := relPkg(pkgPathOf(f))
		if !strings.HasPrefix(p, "datatype/") && p != "server" {
			continue
		}
		for _, c := range calls(f) {
			o := calleeObj(c)
			if o == nil || o.Pkg() == nil || o.Pkg().Path() != "strconv" || (o.Name() != "Atoi" && o.Name() != "ParseInt" && o.Name() != "ParseUint") {
				continue
			}
			cv, ok := c.(*ssa.Call)
			if !ok || cv.Referrers() == nil {
				continue
			}
			var parsed ssa.Value
			for _, ref := range *cv.Referrers() {
				if ex, ok := ref.(*ssa.Extract); ok && ex.Index == 0 {
					parsed = ex
				}
			}
			if parsed == nil {
				continue
			}
			nParsed++
			work := []flow{{parsed, f, false, fname(f)}}
			seen := map[ssa.Value]bool{}
			k := 0
			for depth := 0; len(work) > 0 && depth < 200; depth++ {
				fl := work[0]
				work = work[1:]
				if seen[fl.v] || fl.v.Referrers() == nil {
					continue
				}
				seen[fl.v] = true
				for _, ref := range *fl.v.Referrers() {
					switch x := ref.(type) {
					case *ssa.Convert:
						work = append(work, flow{x, fl.f, fl.guarded, fl.via})
					case *ssa.Phi:
						work = append(work, flow{x, fl.f, fl.guarded, fl.via})
					case *ssa.Store:
						// spilled local: follow the loads
						if al, ok := x.Addr.(*ssa.Alloc); ok && x.Val == fl.v {
							for _, r2 := range *al.Referrers() {
								if ld, ok := r2.(*ssa.UnOp); ok && ld.Op == token.MUL {
									work = append(work, flow{ld, fl.f, fl.guarded, fl.via})
								}
							}
						}
					case *ssa.BinOp:
						if (x.Op == token.QUO || x.Op == token.REM) && x.Y == fl.v && isIntType(x.Type()) {
							nDiv++
							k++
							ok := fl.guarded || testedAgainstConst(fl.v, fl.f, x)
							r.check(ok, fmt.Sprintf("%s:parsed#%s:divisor@%s#%d", fname(f), o.Name(), fname(fl.f), k),
								"the parsed number is compared with a constant before it divides",
								"an integer parsed from the request ("+fl.via+") is used as a divisor without any test of its value: 0 gives a run-time panic (recovered: an internal error for a request that should be a client error)", w.pos(x.Pos()))
						}
					case ssa.CallInstruction:
						callee := staticCallee(x)
						if callee == nil || len(callee.Blocks) == 0 || !strings.HasPrefix(pkgPathOf(callee), modPath) {
							continue
						}
						if strings.Count(fl.via, "→") >= 2 {
							continue
						}
						g := fl.guarded || testedAgainstConst(fl.v, fl.f, x)
						for i, a := range x.Common().Args {
							if a == fl.v && i < len(callee.Params) {
								work = append(work, flow{callee.Params[i], callee, g, fl.via + "→" + fname(callee)})
							}
						}
					}
				}
			}
		}
	}
	r.check(nParsed >= 20, "repo:parsed-integers", fmt.Sprintf("%d parsed integers followed, %d reach a division", nParsed, nDiv), "too few: rule needs review", "-")
}

// ---------------------------------------------------------------------------------------------
// R20.20 — a count read from the payload does not size an allocation unchecked

func init() {
	register(ruleDef{ID: "R20.20", Prop: "C20", Tier: "quick", Floor: 2,
		Title: "length-field inflation cannot size an allocation: a make() whose length is a count decoded from the payload (binary.Read into a local, binary.*.UintNN of payload bytes, or such a count passed in as a parameter) happens only behind a comparison of that count with something (the bytes that are left, a limit)",
		Fn:    ruleDecodedCountAlloc})
}

func ruleDecodedCountAlloc(r *Run) {
	w := r.W
	n := 0
	compared := func(v ssa.Value, f *ssa.Function, at ssa.Instruction) bool {
		// v (through conversions / arithmetic) takes part in a comparison whose block dominates at
		vals := map[ssa.Value]bool{}
		var up func(x ssa.Value, d int)
		up = func(x ssa.Value, d int) {
			if d > 6 || vals[x] {
				return
			}
			vals[x] = true
			switch y := x.(type) {
			case *ssa.Convert:
				up(y.X, d+1)
			case *ssa.BinOp:
				if y.Op == token.MUL || y.Op == token.ADD || y.Op == token.SHL {
					up(y.X, d+1)
					up(y.Y, d+1)
				}
			case *ssa.UnOp:
				if al, ok := y.X.(*ssa.Alloc); ok && y.Op == token.MUL {
					// other loads of the same local
					for _, ref := range *al.Referrers() {
						if ld, ok := ref.(*ssa.UnOp); ok && ld.Op == token.MUL {
							vals[ld] = true
						}
					}
				}
			}
		}
		up(v, 0)
		for changed := true; changed; {
			changed = false
			for x := range vals {
				if x.Referrers() == nil {
					continue
				}
				for _, ref := range *x.Referrers() {
					switch y := ref.(type) {
					case *ssa.Convert:
						if !vals[y] {
							vals[y] = true
							changed = true
						}
					case *ssa.BinOp:
						if (y.Op == token.MUL || y.Op == token.ADD) && !vals[y] {
							vals[y] = true
							changed = true
						}
					}
				}
			}
		}
		for _, b := range f.Blocks {
			ifi, ok := b.Instrs[len(b.Instrs)-1].(*ssa.If)
			if !ok {
				continue
			}
			bo, ok := ifi.Cond.(*ssa.BinOp)
			if !ok {
				continue
			}
			switch bo.Op {
			case token.LSS, token.LEQ, token.GTR, token.GEQ: // a bound, not a test for zero
			default:
				continue
			}
			if (vals[bo.X] || vals[bo.Y]) && b.Dominates(at.Block()) && b != at.Block() {
				return true
			}
		}
		return false
	}
	for _, f := range w.RepoFuncs {
		if len(f.Blocks) == 0 || strings.HasSuffix(w.fposFile(f), "_test.go") {
			continue
		}
		p := relPkg(pkgPathOf(f))
		if !strings.HasPrefix(p, "datatype/") && p != "dvid" {
			continue
		}
		// locals filled by binary.Read
		readInto := map[*ssa.Alloc]bool{}
		for _, c := range calls(f) {
			if o := calleeObj(c); o != nil && o.Pkg() != nil && o.Pkg().Path() == "encoding/binary" && o.Name() == "Read" && len(c.Common().Args) == 3 {
				a := c.Common().Args[2]
				if mi, ok := a.(*ssa.MakeInterface); ok {
					a = mi.X
				}
				if al, ok := a.(*ssa.Alloc); ok {
					readInto[al] = true
				}
			}
		}
		k := 0
		for _, b := range f.Blocks {
			for _, in := range b.Instrs {
				mk, ok := in.(*ssa.MakeSlice)
				if !ok {
					continue
				}
				// where does the length come from?
				src := ""
				var walk func(v ssa.Value, d int)
				walk = func(v ssa.Value, d int) {
					if d > 6 || src != "" {
						return
					}
					switch x := v.(type) {
					case *ssa.Convert:
						walk(x.X, d+1)
					case *ssa.BinOp:
						if x.Op == token.MUL || x.Op == token.ADD {
							walk(x.X, d+1)
							walk(x.Y, d+1)
						}
					case *ssa.UnOp:
						if al, ok := x.X.(*ssa.Alloc); ok && x.Op == token.MUL && readInto[al] {
							src = "binary.Read into " + al.Comment
						}
					case *ssa.Call:
						if o := calleeObj(x); o != nil && o.Pkg() != nil && o.Pkg().Path() == "encoding/binary" && strings.HasPrefix(o.Name(), "Uint") {
							src = "binary." + o.Name() + " of payload bytes"
						}
					case *ssa.Parameter:
						// a count handed in by a caller that decoded it (unsigned 32/64-bit count parameters of decoders)
						if bt, ok := x.Type().Underlying().(*types.Basic); ok && (bt.Kind() == types.Uint32 || bt.Kind() == types.Uint64) && strings.Contains(strings.ToLower(f.Name()), "unmarshal") {
							src = "count parameter " + x.Name()
						}
					}
				}
				walk(mk.Len, 0)
				sized := mk.Len
				if src == "" && mk.Cap != nil {
					walk(mk.Cap, 0)
					sized = mk.Cap
				}
				if src == "" {
					continue
				}
				if _, exc := r.exceptionFor("R20.20", fname(f)); exc {
					continue
				}
				n++
				k++
				r.check(compared(sized, f, mk), fmt.Sprintf("%s:make#%d:decoded-count-checked", fname(f), k), "the decoded count ("+src+") is compared with a bound before the allocation",
					"a slice is allocated with a length taken straight from the payload ("+src+") without comparing it with anything: a header that claims 2^32−1 entries makes the server allocate tens of gigabytes for a request of a few bytes", w.pos(mk.Pos()))
			}
		}
	}
	r.check(n >= 2, "repo:decoded-count-allocations", fmt.Sprintf("%d allocations sized by decoded counts", n), "too few: rule needs review", "-")
}
