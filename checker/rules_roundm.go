package main

// Rules written after mutation round m (the last round).  Each is a path or who-may-call rule whose instances are
// discovered from the code; none counts instances beyond "at least one".

import (
	"fmt"
	"go/token"
	"go/types"
	"strings"

	"golang.org/x/tools/go/ssa"
)

var _ = types.Typ
var _ = strings.Contains

func init() {
	reg := func(id, prop string) {
		register(ruleDef{ID: id, Prop: prop, Tier: "quick", Floor: 1,
			Title: "runs held back at a block's +x face are continued only by the +x neighbour: in labels.WriteRLEs every way from the arrival of a block to the call that writes its runs either flushes the pending runs, is the first block, or has passed the 'equal' edge of a test that compares the block's coordinate with the last block's coordinate stepped by one in x (a later block of the same row, or any block further along, would extend a run across voxels that do not belong to the body)",
			Fn:    rulePendingRunsOnlyIntoNeighbour})
	}
	reg("R9.23", "C09")
	reg("R8.34", "C08")
	reg("R18.24", "C18")
}

// isStepOne: v is x+1 / x-1 / 1+x for some x.
func isStepOne(v ssa.Value) bool {
	bo, ok := stripConv(v).(*ssa.BinOp)
	if !ok || (bo.Op != token.ADD && bo.Op != token.SUB) {
		return false
	}
	if k, isK := constInt(bo.Y); isK && (k == 1 || k == -1) {
		return true
	}
	if k, isK := constInt(bo.X); isK && k == 1 && bo.Op == token.ADD {
		return true
	}
	return false
}

func rulePendingRunsOnlyIntoNeighbour(r *Run) {
	w := r.W
	f := w.fn("datatype/common/labels", "WriteRLEs")
	if f == nil || len(f.Blocks) == 0 {
		r.undecided("labels.WriteRLEs", "anchor not found")
		return
	}
	var write ssa.Instruction
	var flushes []ssa.Instruction
	for _, c := range calls(f) {
		switch methodNameOf(c) {
		case "writeRLEs":
			write = c
		case "flush":
			flushes = append(flushes, c)
		}
	}
	if write == nil {
		r.undecided("labels.WriteRLEs:writeRLEs", "the call that writes a block's runs was not found")
		return
	}
	h, set, _ := innermostLoop(f, write.Block())
	if h == nil {
		r.undecided("labels.WriteRLEs:loop", "the loop over the incoming blocks was not found")
		return
	}
	inLoopFlush := false
	for _, fl := range flushes {
		if set[fl.Block()] {
			inLoopFlush = true
		}
	}
	if !inLoopFlush {
		r.undecided("labels.WriteRLEs:flush", "no flush of the pending runs inside the loop over the blocks: the decision was moved elsewhere and this rule has to be re-anchored")
		return
	}
	// the "equal" edge of an adjacency test, and the "first block" edge (rles == nil)
	pruned := map[[2]int]bool{}
	nAdj := 0
	for _, b := range f.Blocks {
		ifi, ok := b.Instrs[len(b.Instrs)-1].(*ssa.If)
		if !ok {
			continue
		}
		cond := ifi.Cond
		neg := false
		if u, ok := cond.(*ssa.UnOp); ok && u.Op == token.NOT {
			cond, neg = u.X, true
		}
		eqEdge := -1
		switch x := cond.(type) {
		case *ssa.Call:
			// expected.Equals(bcoord) with expected[0] stepped by one
			if callee := x.Call.StaticCallee(); callee != nil && callee.Name() == "Equals" {
				stepped := false
				for _, a := range x.Call.Args {
					var cells []*ssa.Alloc
					if u, ok := stripConv(a).(*ssa.UnOp); ok && u.Op == token.MUL {
						if al, ok := u.X.(*ssa.Alloc); ok {
							cells = append(cells, al)
						}
					}
					for _, rt := range roots(a, f) {
						if al, ok := rt.V.(*ssa.Alloc); ok {
							cells = append(cells, al)
						}
					}
					for _, al := range cells {
						for _, ref := range *al.Referrers() {
							ia, ok := ref.(*ssa.IndexAddr)
							if !ok {
								continue
							}
							if k, isK := constInt(ia.Index); !isK || k != 0 {
								continue
							}
							for _, r2 := range *ia.Referrers() {
								if st, ok := r2.(*ssa.Store); ok && st.Addr == ssa.Value(ia) && isStepOne(st.Val) {
									stepped = true
								}
							}
						}
					}
				}
				if stepped {
					eqEdge = 0
				}
			}
		case *ssa.BinOp:
			if x.Op == token.EQL || x.Op == token.NEQ {
				if isStepOne(x.X) || isStepOne(x.Y) {
					eqEdge = 0
					if x.Op == token.NEQ {
						eqEdge = 1
					}
				}
				// first block: the buffer's map is still nil
				if isNilConst(x.Y) || isNilConst(x.X) {
					if _, isMap := x.X.Type().Underlying().(*types.Map); isMap {
						e := 0
						if x.Op == token.NEQ {
							e = 1
						}
						if neg {
							e = 1 - e
						}
						pruned[[2]int{b.Index, e}] = true
					}
				}
			}
		}
		if eqEdge >= 0 {
			if neg {
				eqEdge = 1 - eqEdge
			}
			pruned[[2]int{b.Index, eqEdge}] = true
			nAdj++
		}
	}
	isFlush := func(x ssa.Instruction) bool {
		for _, fl := range flushes {
			if x == fl {
				return true
			}
		}
		return false
	}
	start := h.Instrs[0]
	pth := findPath(f, start, isFlush, func(x ssa.Instruction) bool { return x == write }, func(b *ssa.BasicBlock, i int) bool {
		return !pruned[[2]int{b.Index, i}] && set[b.Succs[i]]
	})
	r.check(pth == nil, "WriteRLEs:pending-runs-continue-only-into-the-+x-neighbour",
		fmt.Sprintf("every way to the run writer flushes, is the first block, or passed the equal edge of one of %d adjacency tests", nAdj),
		"a block's runs can be written with runs of an earlier block still pending although no test showed the block to be that block's +x neighbour: a body present in two blocks of one row with a gap between them gets a run drawn across the gap (voxels of other bodies) and loses the voxels it has in the later block", w.pos(write.Pos()), w.renderPath(pth)...)
}

// ---------------------------------------------------------------------------------------------
// R18.25 — two runs are on one row only if both y and z agree

func init() {
	register(ruleDef{ID: "R18.25", Prop: "C18", Tier: "quick", Floor: 1,
		Title: "two runs lie on one row only if y and z both agree: a function of package dvid that compares the y of two runs' start points (== or !=) also compares their z, and the other way round (a row test on y alone lets Excise/Split cut a run on another z-plane)",
		Fn:    ruleRunRowTestsCompareYAndZ})
}

func ruleRunRowTestsCompareYAndZ(r *Run) {
	w := r.W
	n := 0
	// the axis of a load of <RLE>.start[k]
	startAxis := func(v ssa.Value) (int, ssa.Value, bool) {
		ld, ok := stripConv(v).(*ssa.UnOp)
		if !ok || ld.Op != token.MUL {
			return 0, nil, false
		}
		ia, ok := ld.X.(*ssa.IndexAddr)
		if !ok {
			return 0, nil, false
		}
		k, isK := constInt(ia.Index)
		if !isK {
			return 0, nil, false
		}
		fa, ok := ia.X.(*ssa.FieldAddr)
		if !ok || !typeIs(fa.X.Type(), "dvid", "RLE") {
			return 0, nil, false
		}
		if nm, _, _ := fieldName(fa); nm != "start" {
			return 0, nil, false
		}
		return int(k), fa.X, true
	}
	for _, f := range w.RepoFuncs {
		if relPkg(pkgPathOf(f)) != "dvid" || len(f.Blocks) == 0 || isTestFunc(w, f) {
			continue
		}
		axes := map[int]token.Pos{}
		for _, b := range f.Blocks {
			for _, in := range b.Instrs {
				bo, ok := in.(*ssa.BinOp)
				if !ok || (bo.Op != token.EQL && bo.Op != token.NEQ) {
					continue
				}
				kx, bx, okx := startAxis(bo.X)
				ky, by, oky := startAxis(bo.Y)
				if !okx || !oky || kx != ky || bx == by {
					continue
				}
				axes[kx] = bo.Pos()
			}
		}
		_, hasY := axes[1]
		_, hasZ := axes[2]
		if !hasY && !hasZ {
			continue
		}
		n++
		pos := axes[1]
		if !hasY {
			pos = axes[2]
		}
		r.check(hasY && hasZ, fname(f)+":row-test-compares-y-and-z", "the start points' y and z are both compared",
			fmt.Sprintf("two runs are treated as lying on one row after comparing only one of y and z (y compared=%v, z compared=%v): runs on different planes (or rows) that overlap in x are intersected and cut against each other", hasY, hasZ), w.pos(pos))
	}
	r.check(n >= 1, "dvid:run-row-tests", fmt.Sprintf("%d", n), "none found: rule needs review", "-")
}

// ---------------------------------------------------------------------------------------------
// R18.26 — clipping a run set looks at every run

func init() {
	register(ruleDef{ID: "R18.26", Prop: "C18", Tier: "quick", Floor: 1,
		Title: "clipping a set of runs looks at every run: in dvid.RLEs.FitToBounds the loop over the receiver's runs is left only when the runs are exhausted (an RLEs value carries no order — Add appends — so 'past the last z' is no reason to stop; the sorted IZYXSlice may)",
		Fn:    ruleRunClipExaminesEveryRun})
}

func ruleRunClipExaminesEveryRun(r *Run) {
	w := r.W
	f := w.method("dvid", "RLEs", "FitToBounds")
	if f == nil || len(f.Blocks) == 0 || len(f.Params) == 0 {
		r.undecided("dvid.RLEs.FitToBounds", "anchor not found")
		return
	}
	recv := f.Params[0]
	n := 0
	for h, set := range naturalLoops(f) {
		ifi, ok := h.Instrs[len(h.Instrs)-1].(*ssa.If)
		if !ok {
			continue
		}
		overRuns := false
		for d := range dataDeps(ifi.Cond) {
			if c, ok := d.(*ssa.Call); ok {
				if bi, ok := c.Call.Value.(*ssa.Builtin); ok && bi.Name() == "len" && stripConv(c.Call.Args[0]) == ssa.Value(recv) {
					overRuns = true
				}
			}
		}
		if !overRuns {
			continue
		}
		n++
		var early ssa.Instruction
		for b := range set {
			if b == h {
				continue
			}
			for _, s := range b.Succs {
				if !set[s] {
					early = b.Instrs[len(b.Instrs)-1]
				}
			}
			if ret, ok := b.Instrs[len(b.Instrs)-1].(*ssa.Return); ok {
				early = ret
			}
		}
		pos := w.pos(h.Instrs[0].Pos())
		if early != nil {
			pos = w.pos(blockPos(early.Block()))
		}
		r.check(early == nil, fmt.Sprintf("FitToBounds:run-loop#%d:left-only-when-exhausted", n), "no break or return inside the loop over the runs",
			"the loop over the runs is left before all runs were looked at: the runs of an RLEs value are in no particular order (Add appends), so every run after the first one outside the bound is dropped from the clipped volume although it lies inside", pos)
	}
	r.check(n >= 1, "FitToBounds:run-loops", fmt.Sprintf("%d", n), "no loop over the receiver's runs found: rule needs review", w.fpos(f))
}

// ---------------------------------------------------------------------------------------------
// R12.25 — a stored label index raises the label counter

func init() {
	register(ruleDef{ID: "R12.25", Prop: "C12", Tier: "quick", Floor: 1,
		Title: "a label index that reaches the store raises the label counter: in every labelmap function that calls the raw index write putLabelIndex, each success return behind that call lies behind a call that folds the index's ids into the maximum (updateMaxLabel or a function named …MaxLabel…) — a body renumbered to a client-chosen label above the counter would otherwise be handed out again by nextlabel/cleave/split",
		Fn:    ruleIndexWriteRaisesCounter})
}

func ruleIndexWriteRaisesCounter(r *Run) {
	w := r.W
	n := 0
	isRaise := func(x ssa.Instruction) bool {
		c, ok := x.(ssa.CallInstruction)
		if !ok {
			return false
		}
		nm := methodNameOf(c)
		if callee := staticCallee(c); callee != nil {
			nm = callee.Name()
		}
		return strings.Contains(nm, "MaxLabel") || strings.Contains(nm, "maxLabel")
	}
	for _, f := range w.RepoFuncs {
		if relPkg(pkgPathOf(f)) != "datatype/labelmap" || len(f.Blocks) == 0 || isTestFunc(w, f) {
			continue
		}
		k := 0
		for _, c := range calls(f) {
			callee := staticCallee(c)
			if callee == nil || callee.Name() != "putLabelIndex" {
				continue
			}
			n++
			k++
			pth := findPath(f, c, isRaise, successExit, nil)
			r.check(pth == nil, fmt.Sprintf("%s:raw-index-write#%d:counter-raised-before-success", fname(f), k), "every success return behind the write lies behind the update of the label maximum",
				"a label index is written to the store and the function can succeed without folding the index's label and supervoxel ids into the label counter: an id chosen by the client (renumber, posted index) above the counter is issued again by a later allocation", w.pos(c.Pos()), w.renderPath(pth)...)
		}
	}
	r.check(n >= 1, "labelmap:raw-index-writes", fmt.Sprintf("%d", n), "no call of putLabelIndex found: rule needs review", "-")
}

// ---------------------------------------------------------------------------------------------
// R7.20 (= R12.5) — no version id is issued twice after a crash between the two id writes

func init() {
	register(ruleDef{ID: "R7.20", Prop: "C07", Tier: "quick", Floor: 2,
		Title: "(= R12.5) identifiers stay unique across a crash between the map write and the counter write: the loader raises the version-id counter above every known version id, equality included (the counter is the next id to issue)",
		Fn:    ruleR12_5})
}

// ---------------------------------------------------------------------------------------------
// R13.43 — a sync handler ends only with an empty queue

func init() {
	register(ruleDef{ID: "R13.43", Prop: "C13", Tier: "quick", Floor: 2,
		Title: "a sync handler ends only with an empty queue: in every data-type function whose loop receives from the instance's sync-message channel, each return inside that loop lies behind the 'empty' edge of a comparison of len(<that channel>) with 0 (events still queued at shutdown were acknowledged to the sender; dropping them leaves the per-label lists and counts behind the label volume for good)",
		Fn:    ruleSyncHandlerDrainsQueue})
}

func ruleSyncHandlerDrainsQueue(r *Run) {
	w := r.W
	n := 0
	isSyncChan := func(v ssa.Value) bool {
		ch, ok := v.Type().Underlying().(*types.Chan)
		return ok && typeIs(ch.Elem(), "datastore", "SyncMessage")
	}
	for _, f := range w.RepoFuncs {
		if !strings.HasPrefix(relPkg(pkgPathOf(f)), "datatype/") || len(f.Blocks) == 0 || isTestFunc(w, f) {
			continue
		}
		// receives from a sync-message channel held in a field
		var recvBlocks []*ssa.BasicBlock
		for _, b := range f.Blocks {
			for _, in := range b.Instrs {
				switch x := in.(type) {
				case *ssa.Select:
					for _, st := range x.States {
						if st.Dir == types.RecvOnly && isSyncChan(st.Chan) {
							if ld, ok := st.Chan.(*ssa.UnOp); ok {
								if _, isFA := ld.X.(*ssa.FieldAddr); isFA {
									recvBlocks = append(recvBlocks, b)
								}
							}
						}
					}
				case *ssa.UnOp:
					if x.Op == token.ARROW && isSyncChan(x.X) {
						if ld, ok := x.X.(*ssa.UnOp); ok {
							if _, isFA := ld.X.(*ssa.FieldAddr); isFA {
								recvBlocks = append(recvBlocks, b)
							}
						}
					}
				}
			}
		}
		if len(recvBlocks) == 0 {
			continue
		}
		h, set, _ := innermostLoop(f, recvBlocks[0])
		if set == nil || h == nil {
			continue
		}
		// tests of the queue length against zero, with the edge on which the queue is empty
		type emptyEdge struct {
			ifi  *ssa.If
			edge int
		}
		var tests []emptyEdge
		isQueueLen := func(v ssa.Value) bool {
			vs := map[ssa.Value]bool{v: true}
			for d := range dataDeps(v) {
				vs[d] = true
			}
			for d := range vs {
				if c, ok := d.(*ssa.Call); ok {
					if bi, ok := c.Call.Value.(*ssa.Builtin); ok && bi.Name() == "len" && isSyncChan(c.Call.Args[0]) {
						return true
					}
				}
			}
			return false
		}
		for _, b := range f.Blocks {
			ifi, ok := b.Instrs[len(b.Instrs)-1].(*ssa.If)
			if !ok {
				continue
			}
			bo, ok := ifi.Cond.(*ssa.BinOp)
			if !ok {
				continue
			}
			z, isK := constInt(bo.Y)
			if !isK || z != 0 || !isQueueLen(bo.X) {
				continue
			}
			switch bo.Op {
			case token.EQL, token.LEQ:
				tests = append(tests, emptyEdge{ifi, 0})
			case token.NEQ, token.GTR:
				tests = append(tests, emptyEdge{ifi, 1})
			}
		}
		// the returns taken out of the loop (blocks ending in a return are not part of the natural loop; with an endless
		// `for { select … }` every return the header dominates is an exit from it)
		k := 0
		for _, b := range f.Blocks {
			ret, ok := b.Instrs[len(b.Instrs)-1].(*ssa.Return)
			if !ok || set[b] || !h.Dominates(b) {
				continue
			}
			k++
			n++
			okRet := false
			for _, t := range tests {
				if guardedByEdge(t.ifi, t.edge, ret) {
					okRet = true
				}
			}
			r.check(okRet, fmt.Sprintf("%s:return-out-of-sync-loop#%d", fname(f), k), "behind the 'queue is empty' edge of a length test of the sync channel",
				"the sync handler can end while events are still queued in its channel: the senders were already told their change was taken, so the denormalised lists and counts never catch up with the label volume", w.pos(blockPos(b)))
		}
	}
	r.check(n >= 2, "datatypes:sync-loop-returns", fmt.Sprintf("%d", n), "too few found: rule needs review", "-")
}

// ---------------------------------------------------------------------------------------------
// R20.75 — a refused throttled request holds no slot

func init() {
	register(ruleDef{ID: "R20.75", Prop: "C20", Tier: "quick", Floor: 1,
		Title: "a refused throttled request holds no slot: in server.ThrottledHTTP no return that reports 'throttled' (true: the handler answers 503 and never calls ThrottledOpDone) lies behind an increment of the running-operations counter that was not taken back — one collision would otherwise wedge every throttled endpoint for good",
		Fn:    ruleRefusedThrottleHoldsNoSlot})
}

func ruleRefusedThrottleHoldsNoSlot(r *Run) {
	w := r.W
	f := w.fn("server", "ThrottledHTTP")
	if f == nil || len(f.Blocks) == 0 {
		r.undecided("server.ThrottledHTTP", "anchor not found")
		return
	}
	// stores into a package-level integer whose value is that variable ± 1
	step := func(in ssa.Instruction) (g *ssa.Global, delta int64) {
		st, ok := in.(*ssa.Store)
		if !ok {
			return nil, 0
		}
		gl, ok := st.Addr.(*ssa.Global)
		if !ok {
			return nil, 0
		}
		bo, ok := stripConv(st.Val).(*ssa.BinOp)
		if !ok || (bo.Op != token.ADD && bo.Op != token.SUB) {
			return nil, 0
		}
		ld, ok := stripConv(bo.X).(*ssa.UnOp)
		if !ok || ld.X != ssa.Value(gl) {
			return nil, 0
		}
		k, isK := constInt(bo.Y)
		if !isK {
			return nil, 0
		}
		if bo.Op == token.SUB {
			k = -k
		}
		return gl, k
	}
	n := 0
	for _, b := range f.Blocks {
		for _, in := range b.Instrs {
			g, dlt := step(in)
			if g == nil || dlt <= 0 {
				continue
			}
			n++
			isBack := func(x ssa.Instruction) bool {
				g2, d2 := step(x)
				return g2 == g && d2 < 0
			}
			refused := func(x ssa.Instruction) bool {
				ret, ok := x.(*ssa.Return)
				if !ok || len(ret.Results) != 1 {
					return false
				}
				c, ok := ret.Results[0].(*ssa.Const)
				return ok && c.Value != nil && c.Value.String() == "true"
			}
			pth := findPath(f, in, isBack, refused, nil)
			r.check(pth == nil, fmt.Sprintf("ThrottledHTTP:increment#%d:not-kept-by-a-refusal", n), "no 'throttled' return behind the increment without the decrement",
				"the counter of running throttled operations is raised and the request is then refused without the count being taken back: the refused handler never calls ThrottledOpDone, so after one collision the counter stays at the maximum and every later throttled request is answered 503", w.pos(in.Pos()), w.renderPath(pth)...)
		}
	}
	r.check(n >= 1, "ThrottledHTTP:increments", fmt.Sprintf("%d", n), "no increment of a package-level counter found: rule needs review", w.fpos(f))
}

// ---------------------------------------------------------------------------------------------
// R17.25 — a ROI iterator is built from the ROI as stored now

func init() {
	reg := func(id, prop string) {
		register(ruleDef{ID: id, Prop: prop, Tier: "quick", Floor: 1,
			Title: "a ROI iterator is built from the ROI as it is stored now: in roi.NewIterator every return that hands out an iterator lies behind a range read of the store (a process-wide memo of spans, keyed by instance and version, serves an open version's earlier ROI to later masked reads and writes)",
			Fn:    ruleIteratorReadsStore})
	}
	reg("R17.25", "C17")
	reg("R18.27", "C18")
}

func ruleIteratorReadsStore(r *Run) {
	w := r.W
	f := w.fn("datatype/roi", "NewIterator")
	if f == nil || len(f.Blocks) == 0 {
		r.undecided("roi.NewIterator", "anchor not found")
		return
	}
	isRead := func(x ssa.Instruction) bool {
		return w.performs(x, []string{"GetRange", "ProcessRange", "KeysInRange", "SendKeysInRange"}, 3)
	}
	handsOut := func(x ssa.Instruction) bool {
		ret, ok := x.(*ssa.Return)
		if !ok || len(ret.Results) == 0 {
			return false
		}
		return !isNilConst(ret.Results[0])
	}
	pth := findPath(f, nil, isRead, handsOut, nil)
	r.check(pth == nil, "roi.NewIterator:iterator-behind-a-store-read", "every return of an iterator lies behind a range read of the store",
		"an iterator can be handed out without the ROI's spans having been read from the store in this call: a ROI redefined in the same open version is not seen by later ROI-masked reads and writes (blocks outside the current ROI are overwritten, blocks inside are skipped)", w.fpos(f), w.renderPath(pth)...)
}

// ---------------------------------------------------------------------------------------------
// R10.16 / R14.21 — every supplied octant is down-sampled into the parent

func init() {
	reg := func(id, prop string) {
		register(ruleDef{ID: id, Prop: prop, Tier: "quick", Floor: 1,
			Title: "every supplied octant is written into the parent: in labels.Block.DownresSlow each way round the loop over the eight octants either takes the 'octant is nil' edge or passes the call that down-samples the octant into the result array (an octant skipped for what it holds — 'all background' — leaves the parent's old labels in place when the parent started from its stored content)",
			Fn:    ruleEverySuppliedOctantWritten})
	}
	reg("R10.16", "C10")
	reg("R14.21", "C14")
}

func ruleEverySuppliedOctantWritten(r *Run) {
	w := r.W
	f := w.method("datatype/common/labels", "Block", "DownresSlow")
	if f == nil || len(f.Blocks) == 0 {
		r.undecided("labels.Block.DownresSlow", "anchor not found")
		return
	}
	n := 0
	for _, c := range calls(f) {
		callee := staticCallee(c)
		if callee == nil || callee.Name() != "downresArray" {
			continue
		}
		h, set, _ := innermostLoop(f, c.Block())
		if h == nil || set == nil {
			continue
		}
		n++
		// nil edges of the tests of an octant against nil
		pruned := map[[2]int]bool{}
		for b := range set {
			ifi, ok := b.Instrs[len(b.Instrs)-1].(*ssa.If)
			if !ok {
				continue
			}
			bo, ok := ifi.Cond.(*ssa.BinOp)
			if !ok || (bo.Op != token.EQL && bo.Op != token.NEQ) || !(isNilConst(bo.Y) || isNilConst(bo.X)) {
				continue
			}
			x := bo.X
			if isNilConst(x) {
				x = bo.Y
			}
			if !typeIs(x.Type(), "datatype/common/labels", "Block") {
				continue
			}
			e := 0
			if bo.Op == token.NEQ {
				e = 1
			}
			pruned[[2]int{b.Index, e}] = true
		}
		isWrite := func(x ssa.Instruction) bool { return x == c.(ssa.Instruction) }
		// once round the loop: from the first instruction behind the header's test back to the header
		var pth []ssa.Instruction
		for i, s := range h.Succs {
			if !set[s] || pruned[[2]int{h.Index, i}] || len(s.Instrs) == 0 {
				continue
			}
			start := s.Instrs[0]
			if isWrite(start) {
				continue
			}
			p := findPath(f, start, isWrite, func(x ssa.Instruction) bool { return x == h.Instrs[0] }, func(b *ssa.BasicBlock, i int) bool {
				return !pruned[[2]int{b.Index, i}] && set[b.Succs[i]]
			})
			if p != nil {
				pth = p
			}
		}
		r.check(pth == nil, fmt.Sprintf("DownresSlow:octant-loop#%d:supplied-octant-is-written", n), "every way round the loop takes the nil edge or passes downresArray",
			"a supplied (non-nil) octant can be passed over without being down-sampled into the result: with a partial update the result starts from the parent's stored voxels, so the octant's region keeps its old labels — level n+1 no longer is the down-sampling of level n", w.pos(c.Pos()), w.renderPath(pth)...)
	}
	r.check(n >= 1, "DownresSlow:octant-loops", fmt.Sprintf("%d", n), "no loop around downresArray found: rule needs review", w.fpos(f))
}

// ---------------------------------------------------------------------------------------------
// R8.35 — a difference of counts is stored only where it is not zero

func init() {
	register(ruleDef{ID: "R8.35", Prop: "C08", Tier: "quick", Floor: 1,
		Title: "a difference of voxel counts is entered into an index only where it is not zero: in the labelmap and labels packages a store into a block entry's Counts map whose value is a subtraction lies behind a test that the two operands differ (or that the result is not zero) — a supervoxel with a zero count stays listed in the body's index: it is reported among the body's supervoxels and can be cleaved into a body without voxels",
		Fn:    ruleCountDifferenceNotZero})
}

func ruleCountDifferenceNotZero(r *Run) {
	w := r.W
	n := 0
	for _, f := range w.RepoFuncs {
		p := relPkg(pkgPathOf(f))
		if (p != "datatype/labelmap" && p != "datatype/common/labels") || len(f.Blocks) == 0 || isTestFunc(w, f) {
			continue
		}
		k := 0
		for _, b := range f.Blocks {
			for _, in := range b.Instrs {
				mu, ok := in.(*ssa.MapUpdate)
				if !ok || !isFieldLoad(mu.Map, "SVCount", "Counts") {
					continue
				}
				sub, ok := stripConv(mu.Value).(*ssa.BinOp)
				if !ok || sub.Op != token.SUB {
					continue
				}
				k++
				n++
				guarded := false
				for _, b2 := range f.Blocks {
					ifi, isIf := b2.Instrs[len(b2.Instrs)-1].(*ssa.If)
					if !isIf {
						continue
					}
					bo, isBo := ifi.Cond.(*ssa.BinOp)
					if !isBo {
						continue
					}
					neqEdge := -1
					switch bo.Op {
					case token.NEQ:
						neqEdge = 0
					case token.EQL:
						neqEdge = 1
					case token.GTR, token.LSS:
						neqEdge = 0
					default:
						continue
					}
					// the result against zero, or the two operands against each other
					match := false
					if z, isK := constInt(bo.Y); isK && z == 0 && stripConv(bo.X) == ssa.Value(sub) && bo.Op != token.LSS {
						match = true
					}
					a, c := stripConv(sub.X), stripConv(sub.Y)
					x, y := stripConv(bo.X), stripConv(bo.Y)
					same := func(p, q ssa.Value) bool { return p == q || coordKey(p) == coordKey(q) }
					if (same(x, a) && same(y, c)) || (same(x, c) && same(y, a)) {
						match = true
					}
					if match && guardedByEdge(ifi, neqEdge, mu) {
						guarded = true
					}
				}
				r.check(guarded, fmt.Sprintf("%s:count-difference-store#%d", fname(f), k), "stored only where the operands were found to differ",
					"a voxel count computed as a difference is entered into a block's Counts without the case 'nothing left' having been taken out: the supervoxel stays in the body's index with 0 voxels in that block — it is listed among the body's supervoxels, and cleaving it (or all the others) is accepted and leaves a body without voxels", w.pos(mu.Pos()))
			}
		}
	}
	r.check(n >= 1, "labelmap:count-difference-stores", fmt.Sprintf("%d", n), "none found: rule needs review", "-")
}
