package main

import (
	"fmt"
	"go/constant"
	"go/token"
	"go/types"
	"sort"
	"strings"

	"golang.org/x/tools/go/ssa"
)

// C18: spatial keys, packed block indices and run-length volumes preserve geometry.  Decided here:
// the fixed-width codecs (writer/reader agreement, order, bias, endianness) and the comparator that
// must agree with the key order.  The run-length algebra and ROI queries are value-level.

func init() {
	register(ruleDef{ID: "R18.1", Prop: "C18", Tier: "quick", Floor: 6,
		Title: "block-coordinate key codec: z, y, x in that order, each 4-byte big-endian of the coordinate with its sign bit flipped (c − MinInt32 modulo 2^32); the decoder reads the same regions with the inverse bias into the same components after checking the length",
		Fn:    ruleR18_1})
	register(ruleDef{ID: "R18.2", Prop: "C18", Tier: "quick", Floor: 6,
		Title: "packed block index: encoder and both decoders agree on the magnitude mask, the sign flag, the shift and the z,y,x packing order, and the constants are mutually consistent (flag = mask+1, shift = bits(mask)+1)",
		Fn:    ruleR18_2})
	register(ruleDef{ID: "R18.3", Prop: "C18", Tier: "quick", Floor: 8,
		Title: "run-length binary codecs: every writer and reader of a run uses the same field order (x, y, z, length), width and endianness; block-coordinate lists are (de)serialised in 12-byte units",
		Fn:    ruleR18_3})
	register(ruleDef{ID: "R18.4", Prop: "C18", Tier: "quick", Floor: 2,
		Title: "run order agrees with key order: the run comparator compares z, then y, then x, each ascending",
		Fn:    ruleR18_4})
}

// ---------------------------------------------------------------------------------------------
// fixed-width codec extraction

type codecEntry struct {
	lo, hi  int64
	endian  string // "big" | "little"
	bias    int64  // value added to the component on encode / to the raw value on decode
	widened bool   // bias applied in a 64-bit type
	path    string // component path ("[2]", "start[0]", "length")
	pos     token.Pos
}

func endianOf(c ssa.CallInstruction) string {
	callee := c.Common().StaticCallee()
	if callee == nil || callee.Signature.Recv() == nil {
		return ""
	}
	rt := callee.Signature.Recv().Type().String()
	switch {
	case strings.HasSuffix(rt, "binary.bigEndian"):
		return "big"
	case strings.HasSuffix(rt, "binary.littleEndian"):
		return "little"
	}
	return ""
}

func sliceRegion(v ssa.Value) (lo, hi int64, base ssa.Value, ok bool) {
	sl, isSl := v.(*ssa.Slice)
	if !isSl || sl.Low == nil || sl.High == nil {
		return 0, 0, nil, false
	}
	lo, ok1 := constInt(sl.Low)
	hi, ok2 := constInt(sl.High)
	return lo, hi, sl.X, ok1 && ok2
}

// valuePath describes an address or value as a path of field names and constant indices from its
// root object ("" for the root itself).
func valuePath(v ssa.Value) string {
	switch x := v.(type) {
	case *ssa.UnOp:
		if x.Op == token.MUL {
			return valuePath(x.X)
		}
	case *ssa.FieldAddr:
		nm, _, _ := fieldName(x)
		return joinPath(valuePath(x.X), nm)
	case *ssa.Field:
		st := derefStruct(x.X.Type())
		nm := "?"
		if st != nil {
			nm = st.Field(x.Field).Name()
		}
		return joinPath(valuePath(x.X), nm)
	case *ssa.IndexAddr:
		if k, ok := constInt(x.Index); ok {
			return valuePath(x.X) + fmt.Sprintf("[%d]", k)
		}
		return valuePath(x.X) + "[*]"
	case *ssa.Index:
		if k, ok := constInt(x.Index); ok {
			return valuePath(x.X) + fmt.Sprintf("[%d]", k)
		}
		return valuePath(x.X) + "[*]"
	case *ssa.Convert:
		return valuePath(x.X)
	case *ssa.ChangeType:
		return valuePath(x.X)
	case *ssa.MakeInterface:
		return valuePath(x.X)
	}
	return ""
}

func joinPath(a, b string) string {
	if a == "" || strings.HasSuffix(a, "[*]") && false {
		return strings.TrimPrefix(a+"."+b, ".")
	}
	return a + "." + b
}

func normPath(p string) string {
	// drop a leading element index of a slice of runs: "[*].start[0]" → "start[0]"
	p = strings.TrimPrefix(p, "[*]")
	return strings.TrimPrefix(p, ".")
}

// biasOf peels conversions and one additive constant: returns leaf, bias, widened.
func biasOf(v ssa.Value) (ssa.Value, int64, bool) {
	var bias int64
	widened := false
	for i := 0; i < 6; i++ {
		switch x := v.(type) {
		case *ssa.Convert:
			v = x.X
			continue
		case *ssa.BinOp:
			if x.Op == token.ADD || x.Op == token.SUB {
				if k, ok := constInt(x.Y); ok {
					if x.Op == token.SUB {
						k = -k
					}
					bias += k
					if b, ok := x.Type().Underlying().(*types.Basic); ok && (b.Kind() == types.Int64 || b.Kind() == types.Uint64) {
						widened = true
					}
					v = x.X
					continue
				}
			}
			if x.Op == token.XOR {
				// flipping the sign bit of a 32-bit value is adding 2^31 modulo 2^32
				if k, ok := constU64(x.Y); ok && k == 0x80000000 {
					bias += 0x80000000
					v = x.X
					continue
				}
			}
		}
		break
	}
	return v, bias, widened
}

// putEntries: PutUintN(buf[lo:hi], expr) calls of f.
func putEntries(f *ssa.Function) []codecEntry {
	var out []codecEntry
	for _, c := range calls(f) {
		nm := callName(c)
		if !strings.HasPrefix(nm, "PutUint") {
			continue
		}
		en := endianOf(c)
		if en == "" {
			continue
		}
		a := c.Common().Args
		lo, hi, _, ok := sliceRegion(a[1])
		if !ok {
			continue
		}
		leaf, bias, wid := biasOf(a[2])
		out = append(out, codecEntry{lo: lo, hi: hi, endian: en, bias: bias, widened: wid, path: normPath(valuePath(leaf)), pos: c.Pos()})
	}
	sort.Slice(out, func(i, j int) bool { return out[i].lo < out[j].lo })
	return out
}

// getEntries: UintN(buf[lo:hi]) calls of f with the place their (biased) value ends up in.
func getEntries(f *ssa.Function) []codecEntry {
	var out []codecEntry
	for _, c := range calls(f) {
		nm := callName(c)
		if !(nm == "Uint32" || nm == "Uint64" || nm == "Uint16") {
			continue
		}
		en := endianOf(c)
		if en == "" {
			continue
		}
		lo, hi, _, ok := sliceRegion(c.Common().Args[1])
		if !ok {
			continue
		}
		e := codecEntry{lo: lo, hi: hi, endian: en, pos: c.Pos()}
		var v ssa.Value = c.(*ssa.Call)
		for i := 0; i < 8 && v != nil; i++ {
			refs := v.Referrers()
			if refs == nil {
				break
			}
			var next ssa.Value
			for _, ref := range *refs {
				switch x := ref.(type) {
				case *ssa.Convert:
					next = x
				case *ssa.BinOp:
					if x.Op == token.ADD || x.Op == token.SUB {
						if k, ok := constInt(x.Y); ok {
							if x.Op == token.SUB {
								k = -k
							}
							e.bias += k
							if b, ok := x.Type().Underlying().(*types.Basic); ok && (b.Kind() == types.Int64 || b.Kind() == types.Uint64) {
								e.widened = true
							}
							next = x
						}
					}
					if x.Op == token.XOR {
						if k, ok := constU64(x.Y); ok && k == 0x80000000 {
							e.bias += 0x80000000
							next = x
						}
					}
				case *ssa.Store:
					if x.Val == v {
						e.path = normPath(destPath(x.Addr, f))
					}
				}
			}
			v = next
		}
		out = append(out, e)
	}
	sort.Slice(out, func(i, j int) bool { return out[i].lo < out[j].lo })
	return out
}

// destPath: path of a store address; when the address is inside a temporary composite literal that is
// later copied into a field, the field's path is prefixed.
func destPath(addr ssa.Value, f *ssa.Function) string {
	p := valuePath(addr)
	// root alloc of the address
	root := addr
	for {
		switch x := root.(type) {
		case *ssa.IndexAddr:
			root = x.X
			continue
		case *ssa.FieldAddr:
			root = x.X
			continue
		}
		break
	}
	if al, ok := root.(*ssa.Alloc); ok {
		// `*dst = *al` copies
		for _, ref := range *al.Referrers() {
			if ld, ok := ref.(*ssa.UnOp); ok && ld.Op == token.MUL {
				for _, r2 := range *ld.Referrers() {
					if st, ok := r2.(*ssa.Store); ok && st.Val == ssa.Value(ld) {
						pre := valuePath(st.Addr)
						if pre != "" {
							return pre + p
						}
					}
				}
			}
		}
	}
	return p
}

// signBias: the bias is 2^31 modulo 2^32, i.e. it flips exactly the sign bit of a 32-bit value.  Go's
// integer arithmetic wraps, so int32, uint32 and int64 computations of it produce the same 32 bits.
func signBias(b int64) bool { return uint32(b) == 0x80000000 }

func entriesString(es []codecEntry) string {
	var parts []string
	for _, e := range es {
		parts = append(parts, fmt.Sprintf("[%d:%d]%s %s%+d", e.lo, e.hi, e.endian, e.path, e.bias))
	}
	return strings.Join(parts, " ")
}

func ruleR18_1(r *Run) {
	w := r.W
	enc := w.method("dvid", "Point3d", "ToZYXBytes")
	dec := w.method("dvid", "Point3d", "FromZYXBytes")
	if enc == nil || dec == nil {
		r.violation("dvid.Point3d.ToZYXBytes/FromZYXBytes", "key codec not found", "-")
		return
	}
	pe, ge := putEntries(enc), getEntries(dec)
	want := []string{"[2]", "[1]", "[0]"}
	okE := len(pe) == 3
	why := ""
	for i := 0; okE && i < 3; i++ {
		e := pe[i]
		switch {
		case e.lo != int64(4*i) || e.hi != int64(4*i+4):
			okE, why = false, "regions are not three consecutive 4-byte fields"
		case e.endian != "big":
			okE, why = false, "a coordinate is not written big-endian (byte order would not equal numeric order)"
		case !signBias(e.bias):
			okE, why = false, "a coordinate is not biased by 2^31 modulo 2^32 (signed order would not map to unsigned order)"
		case e.path != want[i]:
			okE, why = false, "components are not written in z, y, x order"
		}
	}
	if len(pe) != 3 {
		why = fmt.Sprintf("%d fields written, expected 3", len(pe))
	}
	r.check(okE, "dvid.Point3d.ToZYXBytes:layout", "z,y,x × 4-byte big-endian of (c − MinInt32 mod 2^32): "+entriesString(pe),
		"block-coordinate key encoder: "+why+" — "+entriesString(pe), w.fpos(enc))
	okD := len(ge) == 3
	why = ""
	for i := 0; okD && i < 3; i++ {
		e := ge[i]
		switch {
		case e.lo != int64(4*i) || e.hi != int64(4*i+4):
			okD, why = false, "regions differ from the encoder's"
		case e.endian != "big":
			okD, why = false, "a coordinate is not read big-endian"
		case !signBias(e.bias):
			okD, why = false, "the decoder's bias is not the inverse of the encoder's (2^31 modulo 2^32)"
		case e.path != want[i]:
			okD, why = false, "a region is decoded into a different component than the one the encoder wrote there"
		}
	}
	if len(ge) != 3 {
		why = fmt.Sprintf("%d fields read, expected 3", len(ge))
	}
	r.check(okD, "dvid.Point3d.FromZYXBytes:layout", "inverse layout: "+entriesString(ge), "block-coordinate key decoder: "+why+" — "+entriesString(ge), w.fpos(dec))
	// length check before the first read
	okLen := false
	for _, b := range dec.Blocks {
		ifi, ok := b.Instrs[len(b.Instrs)-1].(*ssa.If)
		if !ok {
			continue
		}
		bo, ok := ifi.Cond.(*ssa.BinOp)
		if !ok || bo.Op != token.NEQ {
			continue
		}
		if k, ok := constInt(bo.Y); !ok || k != 12 {
			continue
		}
		p := findPath(dec, b.Succs[0].Instrs[0], func(ssa.Instruction) bool { return false }, successExit, nil)
		if p == nil && !successExit(b.Succs[0].Instrs[0]) {
			okLen = true
		}
	}
	r.check(okLen, "dvid.Point3d.FromZYXBytes:length-checked", "a length other than 12 is an error", "the key decoder no longer rejects a key of the wrong length", w.fpos(dec))
	// wrappers delegate: IndexZYX.Bytes → ToZYXBytes, IndexFromBytes → FromZYXBytes with components in place
	for _, e := range []struct{ recv, name, callee string }{{"IndexZYX", "Bytes", "ToZYXBytes"}, {"IndexZYX", "IndexFromBytes", "FromZYXBytes"}, {"IndexZYX", "ToIZYXString", "Bytes"}, {"ChunkPoint3d", "ToIZYXString", ""}} {
		f := w.method("dvid", e.recv, e.name)
		if f == nil {
			if e.callee == "" {
				continue
			}
			r.violation("dvid."+e.recv+"."+e.name, "wrapper not found", "-")
			continue
		}
		if e.callee == "" {
			continue
		}
		has := false
		for _, c := range calls(f) {
			if callName(c) == e.callee {
				has = true
			}
		}
		r.check(has, "dvid."+e.recv+"."+e.name+":delegates", "delegates to "+e.callee, "no longer delegates to "+e.callee+": a second, unchecked encoding of block coordinates", w.fpos(f))
	}
	if f := w.method("dvid", "IndexZYX", "IndexFromBytes"); f != nil {
		// *i = IndexZYX{p[0], p[1], p[2]}
		okC := true
		n := 0
		for _, b := range f.Blocks {
			for _, in := range b.Instrs {
				st, ok := in.(*ssa.Store)
				if !ok {
					continue
				}
				ia, ok := st.Addr.(*ssa.IndexAddr)
				if !ok {
					continue
				}
				k, ok := constInt(ia.Index)
				if !ok {
					continue
				}
				src := valuePath(st.Val)
				if strings.HasSuffix(src, "]") {
					n++
					if !strings.HasSuffix(src, fmt.Sprintf("[%d]", k)) {
						okC = false
					}
				}
			}
		}
		r.check(okC && n == 3, "dvid.IndexZYX.IndexFromBytes:components-in-place", "component k of the decoded point becomes component k of the index", "the index decoder permutes components", w.fpos(f))
	}
}

// ---------------------------------------------------------------------------------------------
// R18.2 packed block index

type bitProfile struct {
	and, or, shl, shr []uint64
	events            []string // ordered by source position: "&p:<name>", "&mask", "<<", ">>"
}

func constU64(v ssa.Value) (uint64, bool) {
	c, ok := v.(*ssa.Const)
	if !ok || c.Value == nil {
		return 0, false
	}
	if c.Value.Kind() != constant.Int {
		return 0, false
	}
	u, ok2 := constant.Uint64Val(c.Value)
	if ok2 {
		return u, true
	}
	i, ok3 := constant.Int64Val(c.Value)
	return uint64(i), ok3
}

func bitProfileOf(f *ssa.Function) bitProfile {
	var p bitProfile
	type ev struct {
		pos token.Pos
		s   string
	}
	var evs []ev
	for _, b := range f.Blocks {
		for _, in := range b.Instrs {
			// a per-coordinate helper of the same package (packBlockCoord(z)): its operations count at the call,
			// with the helper's parameter named after the caller's value
			if c, isCall := in.(*ssa.Call); isCall {
				if h := c.Call.StaticCallee(); h != nil && h != f && len(h.Blocks) > 0 && h.Pkg == f.Pkg && len(c.Call.Args) >= 1 && bitProfileDepth < 3 {
					bitProfileDepth++
					sub := bitProfileOf(h)
					bitProfileDepth--
					p.and = append(p.and, sub.and...)
					p.or = append(p.or, sub.or...)
					p.shl = append(p.shl, sub.shl...)
					p.shr = append(p.shr, sub.shr...)
					name := ""
					for _, rt := range roots(stripConv(c.Call.Args[0]), f) {
						if pr, ok := rt.V.(*ssa.Parameter); ok {
							name = pr.Name()
						}
					}
					for _, e := range sub.events {
						if i := strings.Index(e, ":"); i >= 0 && strings.HasPrefix(e, "&") {
							e = e[:i+1] + name
						}
						evs = append(evs, ev{c.Pos(), e})
					}
				}
				continue
			}
			bo, ok := in.(*ssa.BinOp)
			if !ok {
				continue
			}
			k, isK := constU64(bo.Y)
			if !isK {
				continue
			}
			switch bo.Op {
			case token.AND:
				p.and = append(p.and, k)
				leaf := bo.X
				for {
					if cv, ok := leaf.(*ssa.Convert); ok {
						leaf = cv.X
						continue
					}
					break
				}
				name := ""
				for _, rt := range roots(leaf, f) {
					if pr, ok := rt.V.(*ssa.Parameter); ok {
						name = pr.Name()
					}
				}
				evs = append(evs, ev{bo.Pos(), fmt.Sprintf("&%x:%s", k, name)})
			case token.OR:
				p.or = append(p.or, k)
			case token.SHL:
				p.shl = append(p.shl, k)
				evs = append(evs, ev{bo.Pos(), "<<"})
			case token.SHR:
				p.shr = append(p.shr, k)
				evs = append(evs, ev{bo.Pos(), ">>"})
			}
		}
	}
	sort.SliceStable(evs, func(i, j int) bool { return evs[i].pos < evs[j].pos })
	for _, e := range evs {
		p.events = append(p.events, e.s)
	}
	return p
}

var bitProfileDepth int

func allEq(xs []uint64, n int) (uint64, bool) {
	if len(xs) != n {
		return 0, false
	}
	for _, x := range xs {
		if x != xs[0] {
			return 0, false
		}
	}
	return xs[0], true
}

func ruleR18_2(r *Run) {
	w := r.W
	enc := w.fn("datatype/common/labels", "EncodeBlockIndex")
	if enc == nil {
		r.violation("labels.EncodeBlockIndex", "not found", "-")
		return
	}
	pe := bitProfileOf(enc)
	mask, ok1 := allEq(pe.and, 3)
	flag, ok2 := allEq(pe.or, 3)
	shift, ok3 := allEq(pe.shl, 2)
	r.check(ok1 && ok2 && ok3, "labels.EncodeBlockIndex:uniform-fields", fmt.Sprintf("three fields: mask %#x, sign flag %#x, shift %d", mask, flag, shift),
		fmt.Sprintf("the packed-index encoder does not use one mask / flag / shift for its three coordinates: and=%x or=%x shl=%d", pe.and, pe.or, pe.shl), w.fpos(enc))
	if !(ok1 && ok2 && ok3) {
		return
	}
	bits := uint64(0)
	for m := mask; m != 0; m >>= 1 {
		bits++
	}
	r.check(mask&(mask+1) == 0 && flag == mask+1 && shift == bits+1, "labels.EncodeBlockIndex:constants-consistent", "mask is 2^k−1, flag = 2^k, shift = k+1",
		fmt.Sprintf("packed-index constants are inconsistent (mask %#x, flag %#x, shift %d): magnitude, sign flag and neighbouring field overlap or leave a gap", mask, flag, shift), w.fpos(enc))
	// packing order z, y, x (z most significant)
	var encOrder []string
	for _, e := range pe.events {
		if strings.HasPrefix(e, "&") {
			encOrder = append(encOrder, e[strings.Index(e, ":")+1:])
		} else {
			encOrder = append(encOrder, e)
		}
	}
	r.check(strings.Join(encOrder, " ") == "z << y << x", "labels.EncodeBlockIndex:order", "z, shift, y, shift, x",
		"the packed-index encoder no longer packs z, y, x from most to least significant: "+strings.Join(encOrder, " "), w.fpos(enc))
	for _, name := range []string{"DecodeBlockIndex", "BlockIndexToIZYXString"} {
		dec := w.fn("datatype/common/labels", name)
		if dec == nil {
			r.violation("labels."+name, "not found", "-")
			continue
		}
		pd := bitProfileOf(dec)
		var masks, flags []uint64
		for _, a := range pd.and {
			if a == mask {
				masks = append(masks, a)
			} else {
				flags = append(flags, a)
			}
		}
		_, okm := allEq(masks, 3)
		fl, okf := allEq(flags, 3)
		sh, oks := allEq(pd.shr, 2)
		okAll := okm && okf && oks && fl == flag && sh == shift
		r.check(okAll, "labels."+name+":agrees-with-encoder", "same mask, flag and shift as the encoder",
			fmt.Sprintf("the packed-index decoder %s disagrees with the encoder (encoder mask %#x flag %#x shift %d; decoder and=%x shr=%d)", name, mask, flag, shift, pd.and, pd.shr), w.fpos(dec))
		// order: mask, flag, >>, mask, flag, >>, mask, flag
		var seq []string
		for _, e := range pd.events {
			switch {
			case e == ">>":
				seq = append(seq, ">>")
			case strings.HasPrefix(e, fmt.Sprintf("&%x:", mask)):
				seq = append(seq, "m")
			case strings.HasPrefix(e, "&"):
				seq = append(seq, "f")
			}
		}
		r.check(strings.Join(seq, " ") == "m f >> m f >> m f", "labels."+name+":order", "magnitude and sign of x, shift, of y, shift, of z",
			"the decoder's extraction sequence is not (magnitude, sign, shift)×3: "+strings.Join(seq, " "), w.fpos(dec))
		// results: DecodeBlockIndex returns (x, y, z) extracted at shift depth 0, 1, 2
		if name == "DecodeBlockIndex" {
			okR := true
			for _, b := range dec.Blocks {
				ret, ok := b.Instrs[len(b.Instrs)-1].(*ssa.Return)
				if !ok {
					continue
				}
				for i, res := range ret.Results {
					d := shiftDepth(res, 0)
					if d != i {
						okR = false
					}
				}
			}
			r.check(okR, "labels.DecodeBlockIndex:result-order", "x, y, z come from shift depth 0, 1, 2", "DecodeBlockIndex returns its coordinates from the wrong fields", w.fpos(dec))
		}
	}
}

// shiftDepth: number of SHR operations between the function's parameter and the value.
func shiftDepth(v ssa.Value, depth int) int {
	if depth > 12 {
		return -1
	}
	switch x := v.(type) {
	case *ssa.Phi:
		best := -1
		for _, e := range x.Edges {
			if d := shiftDepth(e, depth+1); d > best {
				best = d
			}
		}
		return best
	case *ssa.UnOp:
		return shiftDepth(x.X, depth+1)
	case *ssa.Convert:
		return shiftDepth(x.X, depth+1)
	case *ssa.BinOp:
		if x.Op == token.SHR {
			d := shiftDepth(x.X, depth+1)
			if d < 0 {
				return d
			}
			return d + 1
		}
		return shiftDepth(x.X, depth+1)
	case *ssa.Call:
		// a per-coordinate helper applied to the (shifted) packed value
		if h := x.Call.StaticCallee(); h != nil && inRepo(h) && len(x.Call.Args) == 1 {
			return shiftDepth(x.Call.Args[0], depth+1)
		}
		return -1
	case *ssa.Parameter:
		return 0
	}
	return -1
}

// ---------------------------------------------------------------------------------------------
// R18.3 run-length codecs

func streamSeq(f *ssa.Function, fn string) ([]string, string) {
	type ev struct {
		pos token.Pos
		s   string
	}
	var evs []ev
	endian := ""
	for _, c := range calls(f) {
		callee := c.Common().StaticCallee()
		if callee == nil || callee.Name() != fn || callee.Pkg == nil || callee.Pkg.Pkg.Path() != "encoding/binary" {
			continue
		}
		a := c.Common().Args
		if len(a) < 3 {
			continue
		}
		// order argument: a global of encoding/binary
		if mi, ok := a[1].(*ssa.MakeInterface); ok {
			if ld, ok := mi.X.(*ssa.UnOp); ok {
				if g, ok := ld.X.(*ssa.Global); ok {
					e := strings.ToLower(strings.TrimSuffix(g.Name(), "Endian"))
					if endian == "" {
						endian = e
					} else if endian != e {
						endian = "mixed"
					}
				}
			}
		}
		evs = append(evs, ev{c.Pos(), normPath(valuePath(a[2]))})
	}
	sort.Slice(evs, func(i, j int) bool { return evs[i].pos < evs[j].pos })
	var out []string
	for _, e := range evs {
		out = append(out, e.s)
	}
	return out, endian
}

func ruleR18_3(r *Run) {
	w := r.W
	want := []string{"start[0]", "start[1]", "start[2]", "length"}
	fixed := func(recv, name string, write bool) {
		f := w.method("dvid", recv, name)
		if f == nil {
			r.violation("dvid."+recv+"."+name, "not found", "-")
			return
		}
		var es []codecEntry
		if write {
			es = putEntries(f)
		} else {
			es = getEntries(f)
		}
		ok := len(es) == 4
		for i := 0; ok && i < 4; i++ {
			e := es[i]
			if e.lo != int64(4*i) || e.hi != int64(4*i+4) || e.endian != "little" || e.bias != 0 || e.path != want[i] {
				ok = false
			}
		}
		r.check(ok, "dvid."+recv+"."+name+":layout", "x, y, z, length × 4-byte little-endian: "+entriesString(es),
			"run codec "+name+" deviates from x, y, z, length × 4-byte little-endian: "+entriesString(es), w.fpos(f))
	}
	fixed("RLE", "WriteTo", true)
	fixed("RLE", "MarshalBinary", true)
	fixed("RLE", "UnmarshalBinary", false)
	stream := func(name, fn string) {
		f := w.method("dvid", "RLEs", name)
		if f == nil {
			r.violation("dvid.RLEs."+name, "not found", "-")
			return
		}
		seq, en := streamSeq(f, fn)
		if len(seq) == 0 {
			// the same layout expressed with fixed-width accessors on a 16-byte buffer
			var es []codecEntry
			if fn == "Write" {
				es = putEntries(f)
			} else {
				es = getEntries(f)
			}
			en = ""
			for i, e := range es {
				if e.lo == int64(4*i) && e.hi == int64(4*i+4) && e.bias == 0 {
					seq = append(seq, e.path)
					if en == "" || en == e.endian {
						en = e.endian
					} else {
						en = "mixed"
					}
				}
			}
		}
		r.check(strings.Join(seq, ",") == strings.Join(want, ",") && en == "little", "dvid.RLEs."+name+":sequence", "per run: "+strings.Join(seq, ",")+" "+en,
			"run stream codec "+name+" deviates from x, y, z, length little-endian: "+strings.Join(seq, ",")+" "+en, w.fpos(f))
		// element width: all four fields are int32
		for _, c := range calls(f) {
			callee := c.Common().StaticCallee()
			if callee == nil || callee.Name() != fn || callee.Pkg == nil || callee.Pkg.Pkg.Path() != "encoding/binary" {
				continue
			}
			t := c.Common().Args[2].(*ssa.MakeInterface).X.Type()
			if p, ok := t.(*types.Pointer); ok {
				t = p.Elem()
			}
			if b, ok := t.Underlying().(*types.Basic); !ok || b.Kind() != types.Int32 {
				r.violation("dvid.RLEs."+name+":width", "a run field is (de)serialised with a type other than int32: "+t.String(), w.pos(c.Pos()))
			}
		}
	}
	stream("MarshalBinary", "Write")
	stream("UnmarshalBinary", "Read")
	stream("UnmarshalBinaryReader", "Read")
	// stream decoders never call Reader.Read directly (a short read is legal): io.ReadFull / binary.Read only
	nr := 0
	for _, f := range w.RepoFuncs {
		if relPkg(pkgPathOf(f)) != "dvid" || len(f.Blocks) == 0 || strings.HasSuffix(w.fposFile(f), "_test.go") {
			continue
		}
		var rd *ssa.Parameter
		for _, p := range f.Params {
			if p.Type().String() == "io.Reader" {
				rd = p
			}
		}
		if rd == nil {
			continue
		}
		nr++
		for _, c := range calls(f) {
			if c.Common().IsInvoke() && c.Common().Method.Name() == "Read" {
				direct := false
				for _, rt := range roots(c.Common().Value, f) {
					if rt.V == ssa.Value(rd) {
						direct = true
					}
				}
				if direct {
					r.violation(fname(f)+":bare-Read", "a stream decoder calls Reader.Read directly: a reader may legally deliver fewer bytes than asked (network bodies do), so runs are decoded from partly filled buffers", w.pos(c.Pos()))
				}
			}
		}
	}
	r.check(nr >= 2, "dvid:stream-decoders", fmt.Sprintf("%d functions of package dvid decode from an io.Reader; none calls Read directly", nr), "stream decoders of package dvid not found", "-")
	// RLEs.UnmarshalBinary: run size 16 used for both the divisibility test and the count
	if f := w.method("dvid", "RLEs", "UnmarshalBinary"); f != nil {
		var ks []int64
		for _, b := range f.Blocks {
			for _, in := range b.Instrs {
				if bo, ok := in.(*ssa.BinOp); ok && (bo.Op == token.REM || bo.Op == token.QUO) {
					if k, ok := constInt(bo.Y); ok {
						ks = append(ks, k)
					}
				}
			}
		}
		ok := len(ks) >= 2
		for _, k := range ks {
			if k != 16 {
				ok = false
			}
		}
		r.check(ok, "dvid.RLEs.UnmarshalBinary:unit-16", "length test and run count both use 16 bytes per run", fmt.Sprintf("run size constants disagree: %v", ks), w.fpos(f))
	}
	// IZYXSlice: 12-byte units on both sides
	for _, name := range []string{"MarshalBinary", "UnmarshalBinary"} {
		f := w.method("dvid", "IZYXSlice", name)
		if f == nil {
			r.violation("dvid.IZYXSlice."+name, "not found", "-")
			continue
		}
		var ks []int64
		for _, b := range f.Blocks {
			for _, in := range b.Instrs {
				if bo, ok := in.(*ssa.BinOp); ok && (bo.Op == token.REM || bo.Op == token.QUO || bo.Op == token.MUL || bo.Op == token.ADD) {
					if k, ok := constInt(bo.Y); ok && k > 1 {
						ks = append(ks, k)
					}
				}
			}
		}
		ok := len(ks) >= 2
		for _, k := range ks {
			if k != 12 {
				ok = false
			}
		}
		r.check(ok, "dvid.IZYXSlice."+name+":unit-12", "all offsets/sizes are multiples of the 12-byte key", fmt.Sprintf("block-coordinate list codec uses unit sizes %v (key length is 12)", ks), w.fpos(f))
	}
}

// ---------------------------------------------------------------------------------------------
// R18.4 comparator

func ruleR18_4(r *Run) {
	w := r.W
	f := w.method("dvid", "RLE", "Less")
	if f == nil {
		r.violation("dvid.RLE.Less", "not found", "-")
		return
	}
	// sequence of comparisons by source position: (component, op)
	type ev struct {
		pos token.Pos
		s   string
	}
	var evs []ev
	for _, b := range f.Blocks {
		for _, in := range b.Instrs {
			bo, ok := in.(*ssa.BinOp)
			if !ok || !(bo.Op == token.LSS || bo.Op == token.GTR) {
				continue
			}
			px, py := normPath(valuePath(bo.X)), normPath(valuePath(bo.Y))
			if px != py {
				evs = append(evs, ev{bo.Pos(), "mismatch(" + px + "," + py + ")"})
				continue
			}
			// operand order: receiver on the left
			left := ""
			base := rootOf(bo.X)
			if al, ok := base.(*ssa.Alloc); ok {
				for _, ref := range *al.Referrers() {
					if st, ok := ref.(*ssa.Store); ok && st.Addr == ssa.Value(al) {
						if p, ok := st.Val.(*ssa.Parameter); ok {
							left = p.Name()
						}
					}
				}
			} else if p, ok := base.(*ssa.Parameter); ok {
				left = p.Name()
			}
			evs = append(evs, ev{bo.Pos(), fmt.Sprintf("%s%s:%s", px, bo.Op, left)})
		}
	}
	sort.Slice(evs, func(i, j int) bool { return evs[i].pos < evs[j].pos })
	var seq []string
	for _, e := range evs {
		seq = append(seq, e.s)
	}
	got := strings.Join(seq, " ")
	want := "start[2]<:rle start[2]>:rle start[1]<:rle start[1]>:rle start[0]<:rle"
	r.check(got == want, "dvid.RLE.Less:z-then-y-then-x", "compares z, then y, then x ascending", "the run comparator no longer orders by z, then y, then x ascending (normalisation and block partitioning assume key order): "+got, w.fpos(f))
	// RLEs.Less delegates to RLE.Less with (i, j) in order
	if g := w.method("dvid", "RLEs", "Less"); g != nil {
		ok := false
		for _, c := range calls(g) {
			if c.Common().StaticCallee() == f {
				a := c.Common().Args
				if len(a) == 2 {
					pi, pj := indexParamOf(a[0]), indexParamOf(a[1])
					ok = pi == "i" && pj == "j"
				}
			}
		}
		r.check(ok, "dvid.RLEs.Less:delegates-in-order", "Less(i, j) = rles[i].Less(rles[j])", "RLEs.Less no longer compares element i with element j in that order", w.fpos(g))
	}
}

func rootOf(v ssa.Value) ssa.Value {
	for {
		switch x := v.(type) {
		case *ssa.UnOp:
			v = x.X
		case *ssa.IndexAddr:
			v = x.X
		case *ssa.FieldAddr:
			v = x.X
		case *ssa.Field:
			v = x.X
		case *ssa.Index:
			v = x.X
		default:
			return v
		}
	}
}

func indexParamOf(v ssa.Value) string {
	if ld, ok := v.(*ssa.UnOp); ok {
		if ia, ok := ld.X.(*ssa.IndexAddr); ok {
			if p, ok := ia.Index.(*ssa.Parameter); ok {
				return p.Name()
			}
		}
	}
	return ""
}

// ---------------------------------------------------------------------------------------------
// R18.5 axis agreement

func init() {
	register(ruleDef{ID: "R18.5", Prop: "C18", Tier: "quick", Floor: 9,
		Title: "axis agreement: wherever a block-size component meets a coordinate component in one operation (division, multiplication, helper call) both refer to the same axis (span elements z, y, x0, x1 count as axes 2, 1, 0, 0)",
		Fn:    ruleR18_5})
}

// axisOf tags a value with the axis it is a component of: kind "bs" for a BlockSize component,
// "pt" for a point/index component or Value(k) call, "span" for a dvid.Span element.
func axisOf(v ssa.Value) (kind string, axis int, ok bool) {
	v = stripConv(v)
	switch x := v.(type) {
	case *ssa.UnOp:
		if x.Op != token.MUL {
			return "", 0, false
		}
		// *(b.minx): an optional voxel bound
		if inner, isLd := x.X.(*ssa.UnOp); isLd && inner.Op == token.MUL {
			if fa, isFA := inner.X.(*ssa.FieldAddr); isFA && strings.Contains(fa.X.Type().String(), "OptionalBounds") {
				nm, _, _ := fieldName(fa)
				if len(nm) == 4 && (strings.HasPrefix(nm, "min") || strings.HasPrefix(nm, "max")) {
					if ax := strings.IndexByte("xyz", nm[3]); ax >= 0 {
						return "bound", ax, true
					}
				}
			}
		}
		ia, isIA := x.X.(*ssa.IndexAddr)
		if !isIA {
			return "", 0, false
		}
		k, isK := constInt(ia.Index)
		if !isK {
			return "", 0, false
		}
		return axisOfIndexed(ia.X, int(k))
	case *ssa.Index:
		k, isK := constInt(x.Index)
		if !isK {
			return "", 0, false
		}
		return axisOfIndexed(x.X, int(k))
	case *ssa.Call:
		if x.Call.IsInvoke() && x.Call.Method.Name() == "Value" && len(x.Call.Args) == 1 {
			if k, isK := constInt(x.Call.Args[0]); isK {
				// blockSize.Value(k) of a dvid.Point parameter or local named like a block size
				recv := stripConv(x.Call.Value)
				if ld, isLd := recv.(*ssa.UnOp); isLd && ld.Op == token.MUL {
					recv = ld.X
				}
				switch y := recv.(type) {
				case *ssa.Parameter:
					if isBlockSizeName(y.Name()) {
						return "bs", int(k), true
					}
				case *ssa.Alloc:
					if isBlockSizeName(y.Comment) {
						return "bs", int(k), true
					}
				}
				return "pt", int(k), true
			}
		}
		if callee := x.Call.StaticCallee(); callee != nil && callee.Name() == "Value" && len(x.Call.Args) == 2 {
			if k, isK := constInt(x.Call.Args[1]); isK {
				return "pt", int(k), true
			}
		}
	}
	return "", 0, false
}

func isBlockSizeName(n string) bool {
	n = strings.ToLower(n)
	return strings.Contains(n, "blocksize") || strings.Contains(n, "chunksize") || n == "blksize"
}

func axisOfIndexed(base ssa.Value, k int) (string, int, bool) {
	// what is being indexed?
	t := base.Type()
	if p, ok := t.(*types.Pointer); ok {
		t = p.Elem()
	}
	// BlockSize field?
	b := base
	if ld, ok := b.(*ssa.UnOp); ok && ld.Op == token.MUL {
		b = ld.X
	}
	if fa, ok := b.(*ssa.FieldAddr); ok {
		if nm, _, _ := fieldName(fa); nm == "BlockSize" {
			return "bs", k, true
		}
	}
	if f, ok := b.(*ssa.Field); ok {
		if st := derefStruct(f.X.Type()); st != nil && st.Field(f.Field).Name() == "BlockSize" {
			return "bs", k, true
		}
	}
	// a parameter or local named like a block size (spilled parameters are allocs with the parameter's name)
	isBSName := isBlockSizeName
	switch y := b.(type) {
	case *ssa.Parameter:
		if isBSName(y.Name()) {
			return "bs", k, true
		}
	case *ssa.Alloc:
		if isBSName(y.Comment) {
			return "bs", k, true
		}
	}
	if n := namedOf(t); n != nil {
		switch n.Obj().Name() {
		case "Span":
			ax := map[int]int{0: 2, 1: 1, 2: 0, 3: 0}
			if a, ok := ax[k]; ok {
				return "span", a, true
			}
		case "Point3d", "ChunkPoint3d", "IndexZYX":
			if k >= 0 && k < 3 {
				return "pt", k, true
			}
		}
	}
	return "", 0, false
}

func ruleR18_5(r *Run) {
	w := r.W
	n := 0
	for _, f := range w.RepoFuncs {
		p := relPkg(pkgPathOf(f))
		if !(p == "datatype/roi" || p == "dvid") || len(f.Blocks) == 0 || strings.HasSuffix(w.fposFile(f), "_test.go") {
			continue
		}
		for _, b := range f.Blocks {
			for _, in := range b.Instrs {
				var ops []ssa.Value
				switch x := in.(type) {
				case *ssa.BinOp:
					ops = []ssa.Value{x.X, x.Y}
				case *ssa.Call:
					ops = x.Call.Args
				default:
					continue
				}
				bsAxis := -1
				for _, o := range ops {
					if kd, ax, ok := axisOf(o); ok && kd == "bs" {
						bsAxis = ax
					}
				}
				if bsAxis < 0 {
					continue
				}
				var others []int
				for _, o := range ops {
					if kd, ax, ok := axisOf(o); ok && kd != "bs" {
						others = append(others, ax)
					}
				}
				if len(others) == 0 {
					continue
				}
				n++
				okA := true
				for _, a := range others {
					if a != bsAxis {
						okA = false
					}
				}
				k := 0
				for _, o := range r.Obls {
					if strings.HasPrefix(o.Construct, fname(f)+":axis#") {
						k++
					}
				}
				r.check(okA, fmt.Sprintf("%s:axis#%d", fname(f), k+1), fmt.Sprintf("block size of axis %d meets coordinates of axis %d only", bsAxis, bsAxis),
					fmt.Sprintf("the block size of axis %d is combined with a coordinate of axis %v: on non-cubic block sizes voxel and block coordinates no longer correspond", bsAxis, others), w.pos(in.Pos()))
			}
		}
	}
	if n < 10 {
		r.note("R18.5: only %d block-size/coordinate operations found", n)
	}
}

// ---------------------------------------------------------------------------------------------
// R18.6 / R17.3 axis lints: component triples and stride products

func init() {
	register(ruleDef{ID: "R18.6", Prop: "C18", Tier: "quick", Floor: 20,
		Title: "axis bookkeeping: where the three components of one size/coordinate object are read on one line, they are three different axes; a stride product never contains the same axis of the same size object twice",
		Fn:    ruleR18_6})
	register(ruleDef{ID: "R17.3", Prop: "C17", Tier: "quick", Floor: 20,
		Title: "axis bookkeeping (shared with R18.6): block and volume strides multiply the sizes of different axes, and per-axis block counts are read from three different axes",
		Fn:    ruleR18_6})
}

// axisLeaf: the value is component k of some object (method Value(k) or constant index); returns a
// key for the object and the axis.
func axisLeaf(v ssa.Value) (string, int, bool) {
	v = stripConv(v)
	switch x := v.(type) {
	case *ssa.Call:
		if x.Call.IsInvoke() && x.Call.Method.Name() == "Value" && len(x.Call.Args) == 1 {
			if k, ok := constInt(x.Call.Args[0]); ok {
				return placeKey(x.Call.Value), int(k), true
			}
		}
		if callee := x.Call.StaticCallee(); callee != nil && callee.Name() == "Value" && len(x.Call.Args) == 2 {
			if k, ok := constInt(x.Call.Args[1]); ok {
				return placeKey(x.Call.Args[0]), int(k), true
			}
		}
	case *ssa.UnOp:
		if x.Op == token.MUL {
			if ia, ok := x.X.(*ssa.IndexAddr); ok {
				if k, ok := constInt(ia.Index); ok {
					if n := namedOf(derefType(ia.X.Type())); n != nil {
						switch n.Obj().Name() {
						case "Point3d", "ChunkPoint3d", "IndexZYX":
							return addrKey(ia.X), int(k), true
						}
					}
				}
			}
		}
	case *ssa.Index:
		if k, ok := constInt(x.Index); ok {
			if n := namedOf(x.X.Type()); n != nil {
				switch n.Obj().Name() {
				case "Point3d", "ChunkPoint3d", "IndexZYX":
					return placeKey(x.X), int(k), true
				}
			}
		}
	}
	return "", 0, false
}

func derefType(t types.Type) types.Type {
	if p, ok := t.(*types.Pointer); ok {
		return p.Elem()
	}
	return t
}

func ruleR18_6(r *Run) {
	w := r.W
	nLines, nProds := 0, 0
	for _, f := range w.RepoFuncs {
		p := relPkg(pkgPathOf(f))
		if !(strings.HasPrefix(p, "datatype/") || p == "dvid") || len(f.Blocks) == 0 || strings.HasSuffix(w.fposFile(f), "_test.go") {
			continue
		}
		// (a) component triples on one line
		type key struct {
			line int
			obj  string
		}
		byLine := map[key][]int{}
		posOf := map[key]token.Pos{}
		for _, b := range f.Blocks {
			for _, in := range b.Instrs {
				v, ok := in.(ssa.Value)
				if !ok {
					continue
				}
				if _, isCall := in.(*ssa.Call); !isCall {
					continue
				}
				obj, ax, ok := axisLeaf(v)
				if !ok || !in.Pos().IsValid() {
					continue
				}
				k := key{w.Fset.Position(in.Pos()).Line, obj}
				byLine[k] = append(byLine[k], ax)
				posOf[k] = in.Pos()
			}
		}
		var keys []key
		for k := range byLine {
			keys = append(keys, k)
		}
		sort.Slice(keys, func(i, j int) bool { return keys[i].line < keys[j].line })
		kidx := 0
		for _, k := range keys {
			axes := byLine[k]
			if len(axes) != 3 {
				continue
			}
			nLines++
			kidx++
			seen := map[int]bool{}
			for _, a := range axes {
				seen[a] = true
			}
			r.check(len(seen) == 3, fmt.Sprintf("%s:component-triple#%d", fname(f), kidx), "three components of one object read on one line are three different axes",
				fmt.Sprintf("three components of one size/coordinate object are read on one line but only %d different axes are used (%v): one axis is counted twice and another ignored", len(seen), axes), w.pos(posOf[k]))
		}
		// (b) stride products
		isMulOperand := map[ssa.Value]bool{}
		for _, b := range f.Blocks {
			for _, in := range b.Instrs {
				if bo, ok := in.(*ssa.BinOp); ok && bo.Op == token.MUL {
					isMulOperand[stripConv(bo.X)] = true
					isMulOperand[stripConv(bo.Y)] = true
				}
			}
		}
		pidx := 0
		for _, b := range f.Blocks {
			for _, in := range b.Instrs {
				bo, ok := in.(*ssa.BinOp)
				if !ok || bo.Op != token.MUL || isMulOperand[bo] {
					continue
				}
				// flatten
				type leaf struct {
					obj string
					ax  int
				}
				var leaves []leaf
				var walk func(v ssa.Value, d int)
				walk = func(v ssa.Value, d int) {
					if d > 6 {
						return
					}
					v = stripConv(v)
					if m, ok := v.(*ssa.BinOp); ok && m.Op == token.MUL {
						walk(m.X, d+1)
						walk(m.Y, d+1)
						return
					}
					if obj, ax, ok := axisLeaf(v); ok {
						leaves = append(leaves, leaf{obj, ax})
					}
				}
				walk(bo, 0)
				if len(leaves) < 2 {
					continue
				}
				nProds++
				pidx++
				dup := false
				seen := map[leaf]bool{}
				for _, l := range leaves {
					if seen[l] {
						dup = true
					}
					seen[l] = true
				}
				r.check(!dup, fmt.Sprintf("%s:stride-product#%d", fname(f), pidx), "the product multiplies components of different axes",
					"a product of size components contains the same axis of the same object twice (a stride computed as X·X instead of X·Y): correct only for cubic sizes", w.pos(bo.Pos()))
			}
		}
	}
	r.check(nLines+nProds >= 20, "repo:axis-bookkeeping-sites", fmt.Sprintf("%d component triples and %d stride products examined", nLines, nProds), "too few sites: rule needs review", "-")
}
