package main

import (
	"fmt"
	"go/constant"
	"go/token"
	"go/types"
	"os"
	"sort"
	"strings"

	"golang.org/x/tools/go/ssa"
)

// Round f: rules written after the fifth round of seeded changes (C01, C05, C11, C13).

func init() {
	// cross-registrations: rules that already decide the clause for another property
	register(ruleDef{ID: "R1.14", Prop: "C01", Tier: "quick", Floor: 3,
		Title: "a read at a version does not answer from a cache entry an earlier write or delete left behind (shared with R8.5): with the label-index cache enabled, every store-level write or delete of a label index is followed by the Set/Del of its cache entry on each success path",
		Fn:    ruleR8_5})
	register(ruleDef{ID: "R1.15", Prop: "C01", Tier: "quick", Floor: 2,
		Title: "a write on one lineage does not change what another lineage reads (shared with R16.6): neuronjson's in-memory metadata and compiled schema, which answer reads at the branch head, are written only behind the ctx.Head() edge",
		Fn:    ruleR16_6})
	register(ruleDef{ID: "R5.15", Prop: "C05", Tier: "quick", Floor: 8,
		Title: "the existence and point reads resolve as the range scans do (shared with R1.1): every versioned Get and Exists of each ordered back end answers through the ancestry resolver (GetBestKeyVersion) the range scans use, at the request's own version",
		Fn:    ruleR1_1})

	reg := func(id, prop string) {
		register(ruleDef{ID: id, Prop: prop, Tier: "quick", Floor: 1,
			Title: "each key of a range gets its own chunk: where a storage engine hands a key-value to the caller's chunk function inside a loop, the *storage.Chunk and the TKeyValue it points to are allocated inside that loop — chunk functions keep the chunk beyond their return (block readers start a goroutine per chunk)",
			Fn:    ruleChunkFreshPerCallback})
	}
	reg("R5.16", "C05")
	reg("R1.16", "C01")

	reg2 := func(id, prop string) {
		register(ruleDef{ID: id, Prop: prop, Tier: "quick", Floor: 2,
			Title: "a label leaves the ranking when its count changes: in labelsz, on every path from the lookup of a label's previous count (found) to the next label or the end, the ranking key built from that previous count is deleted — also when the new count is zero",
			Fn:    ruleRankKeyDeletedWhenFound})
	}
	reg2("R5.17", "C05")
	reg2("R13.19", "C13")

	reg3 := func(id, prop string) {
		register(ruleDef{ID: id, Prop: prop, Tier: "quick", Floor: 3,
			Title: "versioned ranges are not bounded by unversioned extents: in the roi package no key handed to a storage range operation (DeleteRange, ProcessRange, GetRange, KeysInRange, SendKeysInRange) depends on the instance's MinZ/MaxZ, which are one pair per instance whatever the version",
			Fn:    ruleRangeBoundsNotFromExtents})
	}
	reg3("R5.18", "C05")
	reg3("R1.17", "C01")

	register(ruleDef{ID: "R11.25", Prop: "C11", Tier: "quick", Floor: 2,
		Title: "an admission guard tests what it marks: in the labels package, every label that a ...Start function marks as being split (Incr) was tested against the merges in progress (IsDirty, refusing on true) earlier in the same function",
		Fn:    ruleAdmissionTestsWhatItMarks})
	register(ruleDef{ID: "R11.26", Prop: "C11", Tier: "quick", Floor: 3,
		Title: "an index is validated under the lock that rewrites it: a labelmap function that takes the index shard mutex selected by a label for writing reads that label's index only with the mutex held (no check-then-act over two critical sections)",
		Fn:    ruleIndexReadUnderItsLock})

	reg4 := func(id, prop string) {
		register(ruleDef{ID: id, Prop: prop, Tier: "quick", Floor: 2,
			Title: "the branch head cache is keyed by the child's branch: in newVersion every key stored into branchToUUID is built from the very value stored into the new node's branch field (\"master\" only on the edge where that value is empty)",
			Fn:    ruleHeadKeyFromChildBranch})
	}
	reg4("R1.18", "C01")
	reg4("R7.16", "C07")

	register(ruleDef{ID: "R1.19", Prop: "C01", Tier: "quick", Floor: 2,
		Title: "a version's distance table comes from its own ancestry: every entry stored into VCache.mappedVersions under key k holds getDistFromRoot of GetAncestry(k) or of the ancestry slice that starts at k",
		Fn:    ruleDistTableOwnAncestry})

	register(ruleDef{ID: "R13.20", Prop: "C13", Tier: "quick", Floor: 2,
		Title: "a map entry is updated in place: where a struct-valued map entry is looked up (v, found := m[k]), changed and stored back, v is replaced as a whole only on the not-found edge — otherwise the fields set by an earlier update of that key are lost",
		Fn:    ruleMapEntryUpdatedInPlace})
	register(ruleDef{ID: "R13.21", Prop: "C13", Tier: "quick", Floor: 1,
		Title: "a merge visits every merged label: in every function of the annotation and labelsz packages that takes a MergeOp and ranges over its Merged set, no success exit is reached without passing that range",
		Fn:    ruleMergeVisitsEveryMerged})
	register(ruleDef{ID: "R13.22", Prop: "C13", Tier: "quick", Floor: 4,
		Title: "a field-by-field copy copies every field: the annotation package's Copy and Normalize methods that build an element field by field store every field of the element struct",
		Fn:    ruleFieldwiseCopyComplete})
	register(ruleDef{ID: "R13.23", Prop: "C13", Tier: "quick", Floor: 1,
		Title: "a changed sync forgets the cached block size: every annotation function that changes the instance's syncs (SetSyncByJSON / SetSyncData) clears cachedBlockSize on each success path after it",
		Fn:    ruleSyncChangeResetsBlockSize})
}

func isTestFunc(w *World, f *ssa.Function) bool {
	return strings.HasSuffix(w.fposFile(f), "_test.go")
}

// ---------------------------------------------------------------------------------------------

func ruleChunkFreshPerCallback(r *Run) {
	w := r.W
	n := 0
	for _, f := range w.RepoFuncs {
		if !strings.HasPrefix(relPkg(pkgPathOf(f)), "storage") || len(f.Blocks) == 0 || isTestFunc(w, f) {
			continue
		}
		for _, c := range calls(f) {
			cc := c.Common()
			if cc.IsInvoke() || len(cc.Args) != 1 || !typeIs(cc.Value.Type(), "storage", "ChunkFunc") {
				continue
			}
			switch cc.Value.(type) {
			case *ssa.Parameter, *ssa.FreeVar:
			default:
				continue
			}
			_, set, _ := innermostLoop(f, c.Block())
			if set == nil {
				continue
			}
			n++
			bad := ""
			for _, rv := range roots(cc.Args[0], f) {
				al, ok := rv.V.(*ssa.Alloc)
				if !ok {
					continue
				}
				if !set[al.Block()] {
					bad = "the chunk allocated at " + w.pos(al.Pos()) + " is shared by all iterations"
					continue
				}
				// the key-value the chunk points to
				for _, ref := range *al.Referrers() {
					fa, ok := ref.(*ssa.FieldAddr)
					if !ok {
						continue
					}
					if nm, _, _ := fieldName(fa); nm != "TKeyValue" {
						continue
					}
					for _, ref2 := range *fa.Referrers() {
						st, ok := ref2.(*ssa.Store)
						if !ok || st.Addr != ssa.Value(fa) {
							continue
						}
						for _, rv2 := range roots(st.Val, f) {
							if al2, ok := rv2.V.(*ssa.Alloc); ok && al2.Parent() == f && !set[al2.Block()] {
								bad = "the key-value allocated at " + w.pos(al2.Pos()) + " is shared by all iterations"
							}
						}
					}
				}
			}
			r.check(bad == "", fname(f)+":chunk-per-key", "the chunk and its key-value are allocated per iteration",
				bad+": a chunk function that is still working on a key when the next one is read (one goroutine per block) sees the later key's value — the range read returns for a key another key's value while the point read is right", w.pos(c.Pos()))
		}
	}
	r.check(n >= 1, "storage:chunk-callbacks-in-loops", fmt.Sprintf("%d", n), "no chunk function called in a loop was found: rule needs review", "-")
}

// ---------------------------------------------------------------------------------------------

func ruleRankKeyDeletedWhenFound(r *Run) {
	w := r.W
	n := 0
	for _, f := range w.RepoFuncs {
		if relPkg(pkgPathOf(f)) != "datatype/labelsz" || len(f.Blocks) == 0 || isTestFunc(w, f) {
			continue
		}
		for _, b := range f.Blocks {
			for _, in := range b.Instrs {
				lk, ok := in.(*ssa.Lookup)
				if !ok || !lk.CommaOk {
					continue
				}
				var count, found ssa.Value
				for _, ref := range *lk.Referrers() {
					if ex, ok := ref.(*ssa.Extract); ok {
						if ex.Index == 0 {
							count = ex
						} else {
							found = ex
						}
					}
				}
				if count == nil || found == nil {
					continue
				}
				// the previous count is used to build a ranking key that is deleted
				isOldRankDelete := func(x ssa.Instruction) bool {
					c, ok := x.(ssa.CallInstruction)
					if !ok || methodNameOf(c) != "Delete" {
						return false
					}
					for _, a := range c.Common().Args {
						for _, rv := range roots(a, f) {
							kc, ok := rv.V.(*ssa.Call)
							if !ok {
								continue
							}
							callee := kc.Call.StaticCallee()
							if callee == nil || callee.Name() != "NewTypeSizeLabelTKey" {
								continue
							}
							for _, ka := range kc.Call.Args {
								if stripConv(ka) == count {
									return true
								}
							}
						}
					}
					return false
				}
				uses := false
				for _, b2 := range f.Blocks {
					for _, x := range b2.Instrs {
						if isOldRankDelete(x) {
							uses = true
						}
					}
				}
				if !uses {
					// the lookup may not be about ranking at all — unless the function builds ranking keys
					buildsRank := false
					for _, c := range calls(f) {
						if callee := staticCallee(c); callee != nil && callee.Name() == "NewTypeSizeLabelTKey" {
							buildsRank = true
						}
					}
					if !buildsRank || !types.Identical(count.Type().Underlying(), types.Typ[types.Uint32]) {
						continue
					}
				}
				n++
				h, set, _ := innermostLoop(f, lk.Block())
				target := func(x ssa.Instruction) bool {
					if _, isRet := x.(*ssa.Return); isRet {
						return true
					}
					return h != nil && x.Block() == h && x == h.Instrs[0]
				}
				_ = set
				onlyFound := func(b *ssa.BasicBlock, i int) bool {
					ifi, ok := b.Instrs[len(b.Instrs)-1].(*ssa.If)
					if ok && ifi.Cond == found {
						return i == 0
					}
					return true
				}
				p := findPath(f, lk, isOldRankDelete, target, onlyFound)
				r.check(p == nil, fname(f)+":previous-rank-key-deleted", "with a previous count found, its ranking key is deleted before the next label is handled",
					"a label whose previous count was found can be handled without deleting the ranking key of that count: top/threshold listings keep returning the label with its old size while count returns the new one", w.pos(lk.Pos()), w.renderPath(p)...)
			}
		}
	}
	r.check(n >= 1, "labelsz:previous-count-lookups", fmt.Sprintf("%d", n), "no lookup of a previous count found: rule needs review", "-")
}

// ---------------------------------------------------------------------------------------------

func ruleRangeBoundsNotFromExtents(r *Run) {
	w := r.W
	n := 0
	isExtent := func(v ssa.Value) bool {
		u, ok := v.(*ssa.UnOp)
		if !ok {
			return false
		}
		fa, ok := u.X.(*ssa.FieldAddr)
		if !ok {
			return false
		}
		nm, _, _ := fieldName(fa)
		return (nm == "MinZ" || nm == "MaxZ") && strings.Contains(fa.X.Type().String(), "datatype/roi.")
	}
	for _, f := range w.RepoFuncs {
		if relPkg(pkgPathOf(f)) != "datatype/roi" || len(f.Blocks) == 0 || isTestFunc(w, f) {
			continue
		}
		for _, c := range calls(f) {
			switch methodNameOf(c) {
			case "DeleteRange", "ProcessRange", "GetRange", "KeysInRange", "SendKeysInRange", "RawRangeQuery":
			default:
				continue
			}
			if !c.Common().IsInvoke() {
				continue
			}
			n++
			bad := ""
			for _, a := range c.Common().Args {
				if !typeIs(a.Type(), "storage", "TKey") {
					continue
				}
				for d := range interDeps(a, f) {
					if isExtent(d) {
						bad = w.pos(d.Pos())
					}
				}
			}
			k := 0
			for _, c2 := range calls(f) {
				if methodNameOf(c2) == methodNameOf(c) && c2.Pos() <= c.Pos() {
					k++
				}
			}
			r.check(bad == "", fmt.Sprintf("%s:%s#%d:bounds-versionless-free", fname(f), methodNameOf(c), k), "the range keys do not depend on the instance's MinZ/MaxZ",
				"a versioned range is bounded by the instance's MinZ/MaxZ (read at "+bad+"), which hold whatever the last writer on any branch left: on a sibling branch the range misses the spans visible at this version", w.pos(c.Pos()))
		}
	}
	r.check(n >= 3, "roi:range-operations", fmt.Sprintf("%d", n), "fewer storage range operations in roi than expected: rule needs review", "-")
}

// interDeps: data dependences of v, following values spilled into locals (stores into an Alloc)
// and struct literals built in locals.
func interDeps(v ssa.Value, f *ssa.Function) map[ssa.Value]bool {
	out := map[ssa.Value]bool{}
	var rec func(v ssa.Value)
	rec = func(v ssa.Value) {
		if v == nil || out[v] {
			return
		}
		out[v] = true
		switch x := v.(type) {
		case *ssa.Alloc:
			var walk func(addr ssa.Value)
			walk = func(addr ssa.Value) {
				refs := addr.Referrers()
				if refs == nil {
					return
				}
				for _, ref := range *refs {
					switch y := ref.(type) {
					case *ssa.Store:
						if y.Addr == addr {
							rec(y.Val)
						}
					case *ssa.FieldAddr:
						walk(y)
					case *ssa.IndexAddr:
						walk(y)
					}
				}
			}
			walk(x)
		case *ssa.Call:
			for _, a := range x.Call.Args {
				rec(a)
			}
			if x.Call.IsInvoke() {
				rec(x.Call.Value)
			}
		default:
			var ops []*ssa.Value
			if in, ok := v.(ssa.Instruction); ok {
				for _, o := range in.Operands(ops) {
					if *o != nil {
						rec(*o)
					}
				}
			}
		}
	}
	rec(v)
	return out
}

// ---------------------------------------------------------------------------------------------

// fieldSel names the field a value selects from a struct parameter or local (x.F as a value).
func fieldSel(v ssa.Value) (string, bool) {
	switch x := stripConv(v).(type) {
	case *ssa.Field:
		if st, ok := x.X.Type().Underlying().(*types.Struct); ok {
			return st.Field(x.Field).Name(), true
		}
	case *ssa.UnOp:
		if fa, ok := x.X.(*ssa.FieldAddr); ok {
			nm, _, ok2 := fieldName(fa)
			return nm, ok2
		}
	}
	return "", false
}

func ruleAdmissionTestsWhatItMarks(r *Run) {
	w := r.W
	n := 0
	for _, f := range w.RepoFuncs {
		if relPkg(pkgPathOf(f)) != "datatype/common/labels" || len(f.Blocks) == 0 || isTestFunc(w, f) || !strings.HasSuffix(f.Name(), "Start") {
			continue
		}
		// fields tested: IsDirty(iv, op.F) deciding an error return
		tested := map[string]ssa.Instruction{}
		for _, b := range f.Blocks {
			ifi, ok := b.Instrs[len(b.Instrs)-1].(*ssa.If)
			if !ok {
				continue
			}
			c, ok := ifi.Cond.(*ssa.Call)
			if !ok || methodNameOf(c) != "IsDirty" {
				continue
			}
			// refusing on true: the true successor reaches an error return without passing the false one
			refuses := false
			for _, x := range b.Succs[0].Instrs {
				if ret, ok := x.(*ssa.Return); ok && isErrorExit(ret) {
					refuses = true
				}
			}
			if !refuses {
				continue
			}
			args := c.Call.Args
			if nm, ok := fieldSel(args[len(args)-1]); ok {
				tested[nm] = ifi
			}
		}
		for _, c := range calls(f) {
			if methodNameOf(c) != "Incr" {
				continue
			}
			args := c.Common().Args
			nm, ok := fieldSel(args[len(args)-1])
			if !ok {
				continue
			}
			n++
			t, isTested := tested[nm]
			r.check(isTested && t.Block().Dominates(c.Block()), fname(f)+":"+nm+":tested-before-marked", "the label is tested against the merges in progress before it is marked",
				"the label "+nm+" is marked as being split without having been tested against the merges in progress: a split of a body that is being merged is admitted and rewrites the blocks and indices the merge is rewriting", w.pos(c.Pos()))
		}
	}
	r.check(n >= 2, "labels:marked-labels", fmt.Sprintf("%d", n), "fewer marked labels than expected: rule needs review", "-")
}

// ---------------------------------------------------------------------------------------------

func ruleIndexReadUnderItsLock(r *Run) {
	w := r.W
	n := 0
	for _, f := range w.RepoFuncs {
		if relPkg(pkgPathOf(f)) != "datatype/labelmap" || len(f.Blocks) == 0 || isTestFunc(w, f) {
			continue
		}
		// labels that select a write-locked shard
		var sel []ssa.Value
		for _, b := range f.Blocks {
			for _, in := range b.Instrs {
				op, ok := asLockOp(in)
				if !ok || !op.lock || !op.write || op.name != "indexMu" || op.shard == nil {
					continue
				}
				sel = append(sel, shardSelectors(op, f)...)
			}
		}
		if len(sel) == 0 {
			continue
		}
		k := 0
		for _, c := range calls(f) {
			callee := staticCallee(c)
			if callee == nil || relPkg(pkgPathOf(callee)) != "datatype/labelmap" {
				continue
			}
			switch callee.Name() {
			case "getCachedLabelIndex", "getLabelIndex", "GetLabelIndex":
			default:
				continue
			}
			var label ssa.Value
			for _, a := range c.Common().Args {
				if a.Type().String() == "uint64" {
					label = a
					break
				}
			}
			if label == nil {
				continue
			}
			mine := false
			for _, s := range sel {
				if sameRoots(s, label, f) {
					mine = true
				}
			}
			if !mine {
				continue
			}
			n++
			k++
			held, _ := heldAt(f, c, "indexMu", true)
			r.check(held, fmt.Sprintf("%s:index-read#%d(%s):under-its-shard-lock", fname(f), k, valueLabel(label)), "read with the shard mutex write-held",
				"the index of the label whose shard the function locks for writing is also read without that lock: what is decided from the unlocked read (the body exists, holds the supervoxels) need not hold when the index is rewritten — of two concurrent requests both pass the test", w.pos(c.Pos()))
		}
	}
	r.check(n >= 3, "labelmap:index-reads-in-locking-functions", fmt.Sprintf("%d", n), "fewer index reads than expected: rule needs review", "-")
}

// ---------------------------------------------------------------------------------------------

// newVersionIntact: newVersion still holds both halves its rules are anchored on — the scans of other nodes' branches
// and the insertion of the child into the DAG's node map.  When one of them was moved into another function the
// rules cannot follow (they are path rules inside one function), they say so instead of reporting a violation.
func newVersionIntact(r *Run, f *ssa.Function) bool {
	insert, cmp := false, false
	for _, b := range f.Blocks {
		for _, in := range b.Instrs {
			if mu, ok := in.(*ssa.MapUpdate); ok && isFieldLoad(mu.Map, "dagT", "nodes") {
				insert = true
			}
			if bo, ok := in.(*ssa.BinOp); ok && (bo.Op == token.EQL || bo.Op == token.NEQ) {
				for _, op := range []ssa.Value{bo.X, bo.Y} {
					if isFieldLoad(stripConv(op), "nodeT", "branch") {
						cmp = true
					}
				}
			}
		}
	}
	if insert && cmp {
		return true
	}
	r.undecided("newVersion:shape", fmt.Sprintf("newVersion no longer holds both the branch scans (found=%v) and the insertion into the DAG's node map (found=%v): they were moved into another function, and this rule, which follows paths inside newVersion, has to be re-anchored before it can decide", cmp, insert))
	return false
}

// branchCheckHelper: the call in newVersion of an unexported function of the package that compares other nodes'
// branches inside a loop and returns an error (r.availableChildBranch(node, name) (string, error)) — the branch
// checks of newVersion moved into a validating helper.
func branchCheckHelper(f *ssa.Function) (*ssa.Call, *ssa.Function) {
	for _, c := range calls(f) {
		cc, ok := c.(*ssa.Call)
		g := staticCallee(c)
		if !ok || g == nil || g == f || g.Pkg != f.Pkg || len(g.Blocks) == 0 || g.Object() == nil || g.Object().Exported() || errResultIndex(g) < 0 {
			continue
		}
		// a function that also inserts into the DAG is not a validating helper but the moved body of newVersion:
		// that shape stays undecided (newVersionIntact)
		inserts := false
		for _, b := range g.Blocks {
			for _, in := range b.Instrs {
				if mu, ok := in.(*ssa.MapUpdate); ok && isFieldLoad(mu.Map, "dagT", "nodes") {
					inserts = true
				}
			}
		}
		if inserts {
			continue
		}
		for _, b := range g.Blocks {
			if _, set, _ := innermostLoop(g, b); set == nil {
				continue
			}
			for _, in := range b.Instrs {
				if bo, ok := in.(*ssa.BinOp); ok && (bo.Op == token.EQL || bo.Op == token.NEQ) {
					if isFieldLoad(stripConv(bo.X), "nodeT", "branch") || isFieldLoad(stripConv(bo.Y), "nodeT", "branch") {
						return cc, g
					}
				}
			}
		}
	}
	return nil, nil
}

func ruleHeadKeyFromChildBranch(r *Run) {
	w := r.W
	f := w.method("datastore", "repoManager", "newVersion")
	if f == nil {
		r.undecided("datastore.repoManager.newVersion", "anchor not found")
		return
	}
	if hc, _ := branchCheckHelper(f); hc == nil && !newVersionIntact(r, f) {
		return
	}
	// the value stored into the new node's branch
	var branch ssa.Value
	for _, st := range fieldStores(f, "nodeT", "branch") {
		fa := st.Addr.(*ssa.FieldAddr)
		for _, rv := range roots(fa.X, f) {
			if c, ok := rv.V.(*ssa.Call); ok {
				if callee := c.Call.StaticCallee(); callee != nil && callee.Name() == "newNode" {
					branch = st.Val
				}
			}
		}
	}
	if !r.check(branch != nil, "newVersion:child-branch-store", "found", "the store into the new node's branch was not found: rule needs review", w.fpos(f)) {
		return
	}
	n := 0
	for _, b := range f.Blocks {
		for _, in := range b.Instrs {
			mu, ok := in.(*ssa.MapUpdate)
			if !ok || !isFieldLoad(mu.Map, "repoManager", "branchToUUID") {
				continue
			}
			n++
			bad := ""
			for _, rv := range roots(mu.Key, f) {
				bo, ok := rv.V.(*ssa.BinOp)
				if !ok || bo.Op != token.ADD {
					bad = "the key is not a concatenation"
					continue
				}
				if c, isC := bo.Y.(*ssa.Const); isC {
					if c.Value == nil || c.Value.Kind() != constant.String || constant.StringVal(c.Value) != "master" {
						bad = "the key ends in a constant other than \"master\""
						continue
					}
					// only where the child's branch is empty
					ok2 := false
					for _, b2 := range f.Blocks {
						ifi, isIf := b2.Instrs[len(b2.Instrs)-1].(*ssa.If)
						if !isIf {
							continue
						}
						cmp, isCmp := ifi.Cond.(*ssa.BinOp)
						if !isCmp || cmp.Op != token.EQL || cmp.X != branch {
							continue
						}
						if cy, isCy := cmp.Y.(*ssa.Const); isCy && cy.Value != nil && cy.Value.Kind() == constant.String && constant.StringVal(cy.Value) == "" {
							var at ssa.Instruction = bo
							if guardedByEdge(ifi, 0, at) {
								ok2 = true
							}
						}
					}
					if !ok2 {
						bad = "\"master\" is used without the child's branch having been tested empty"
					}
					continue
				}
				// through a local: head := branch; if head == "" { head = "master" }; key = root + head
				if phi, isPhi := stripConv(bo.Y).(*ssa.Phi); isPhi && stripConv(bo.Y) != branch {
					okPhi := true
					for i, e := range phi.Edges {
						if stripConv(e) == branch {
							continue
						}
						c, isC := e.(*ssa.Const)
						if !isC || c.Value == nil || c.Value.Kind() != constant.String || constant.StringVal(c.Value) != "master" {
							okPhi = false
							continue
						}
						pred := phi.Block().Preds[i]
						fromEmpty := false
						for _, b2 := range f.Blocks {
							ifi, isIf := b2.Instrs[len(b2.Instrs)-1].(*ssa.If)
							if !isIf {
								continue
							}
							cmp, isCmp := ifi.Cond.(*ssa.BinOp)
							if !isCmp || (cmp.Op != token.EQL && cmp.Op != token.NEQ) || stripConv(cmp.X) != branch {
								continue
							}
							cy, isCy := cmp.Y.(*ssa.Const)
							if !isCy || cy.Value == nil || cy.Value.Kind() != constant.String || constant.StringVal(cy.Value) != "" {
								continue
							}
							e0 := 0
							if cmp.Op == token.NEQ {
								e0 = 1
							}
							s := b2.Succs[e0]
							if (s == pred && len(s.Preds) == 1) || (b2 == pred && s == phi.Block() && b2.Succs[1-e0] != phi.Block()) {
								fromEmpty = true
							}
						}
						if !fromEmpty {
							okPhi = false
						}
					}
					if !okPhi {
						bad = "the key's suffix is chosen between values other than the child's branch and \"master\" for the empty branch"
					}
					continue
				}
				if stripConv(bo.Y) != branch {
					bad = "the key is built from " + bo.Y.Name() + ", not from the value stored into the child's branch"
				}
			}
			r.check(bad == "", fmt.Sprintf("newVersion:head-key#%d", n), "the key names the branch stored in the child",
				bad+": a plain new version on a side branch is recorded as the head of another branch — a read addressed through \"<uuid>:master\" is answered at a version of the other lineage", w.pos(mu.Pos()))
		}
	}
	r.check(n >= 1, "newVersion:head-cache-stores", fmt.Sprintf("%d", n), "no store into branchToUUID found: rule needs review", w.fpos(f))
}

// ---------------------------------------------------------------------------------------------

func ruleDistTableOwnAncestry(r *Run) {
	w := r.W
	n := 0
	for _, f := range w.RepoFuncs {
		if relPkg(pkgPathOf(f)) != "datatype/labelmap" || len(f.Blocks) == 0 || isTestFunc(w, f) {
			continue
		}
		for _, b := range f.Blocks {
			for _, in := range b.Instrs {
				mu, ok := in.(*ssa.MapUpdate)
				if !ok || !isFieldLoad(mu.Map, "VCache", "mappedVersions") {
					continue
				}
				n++
				key := stripConv(mu.Key)
				good := true
				why := ""
				rs := roots(mu.Value, f)
				if len(rs) == 0 {
					good, why = false, "value not resolved"
				}
				for _, rv := range rs {
					c, ok := rv.V.(*ssa.Call)
					if !ok || c.Call.StaticCallee() == nil || c.Call.StaticCallee().Name() != "getDistFromRoot" {
						good, why = false, "the value is not a getDistFromRoot result"
						continue
					}
					arg := c.Call.Args[0]
					okArg := false
					if sl, isSl := arg.(*ssa.Slice); isSl && sl.Low != nil {
						// key is sl.X[sl.Low]
						if u, isU := key.(*ssa.UnOp); isU {
							if ia, isIA := u.X.(*ssa.IndexAddr); isIA && ia.X == sl.X && ia.Index == sl.Low {
								okArg = true
							}
						}
					}
					for _, ra := range roots(arg, f) {
						if ex, isEx := ra.V.(*ssa.Extract); isEx && ex.Index == 0 {
							if gc, isC := ex.Tuple.(*ssa.Call); isC && gc.Call.StaticCallee() != nil && gc.Call.StaticCallee().Name() == "GetAncestry" && stripConv(gc.Call.Args[0]) == key {
								if _, isSl := arg.(*ssa.Slice); !isSl {
									okArg = true
								}
							}
						}
					}
					// a helper handed the ancestry that starts at the version: table of anc, stored under anc[0]
					if prm, isP := arg.(*ssa.Parameter); isP {
						if u, isU := key.(*ssa.UnOp); isU {
							if ia, isIA := u.X.(*ssa.IndexAddr); isIA && ia.X == ssa.Value(prm) {
								if k0, isK := constInt(ia.Index); isK && k0 == 0 {
									okArg = true
								}
							}
						}
					}
					if !okArg {
						good, why = false, "the ancestry given to getDistFromRoot does not start at the version the entry is stored under"
					}
				}
				r.check(good, fmt.Sprintf("%s:mappedVersions-store#%d", fname(f), n), "the table is computed from the key's own ancestry",
					why+": mapping lookups at that version rank the versions of another (longer or shorter) lineage — a supervoxel's body at an ancestor is answered from a descendant's entry", w.pos(mu.Pos()))
			}
		}
	}
	r.check(n >= 2, "labelmap:mappedVersions-stores", fmt.Sprintf("%d", n), "fewer stores than expected: rule needs review", "-")
}

// ---------------------------------------------------------------------------------------------

func ruleMapEntryUpdatedInPlace(r *Run) {
	w := r.W
	n := 0
	for _, f := range w.RepoFuncs {
		p := relPkg(pkgPathOf(f))
		if !(strings.HasPrefix(p, "datatype/annotation") || strings.HasPrefix(p, "datatype/labelsz")) || len(f.Blocks) == 0 || isTestFunc(w, f) {
			continue
		}
		for _, b := range f.Blocks {
			for _, in := range b.Instrs {
				lk, ok := in.(*ssa.Lookup)
				if !ok || !lk.CommaOk {
					continue
				}
				mt, ok := lk.X.Type().Underlying().(*types.Map)
				if !ok {
					continue
				}
				st, ok := mt.Elem().Underlying().(*types.Struct)
				if !ok || st.NumFields() < 2 {
					continue
				}
				var val, found ssa.Value
				for _, ref := range *lk.Referrers() {
					if ex, ok := ref.(*ssa.Extract); ok {
						if ex.Index == 0 {
							val = ex
						} else {
							found = ex
						}
					}
				}
				if val == nil || found == nil {
					continue
				}
				// the local the entry is kept in
				var cell *ssa.Alloc
				for _, ref := range *val.Referrers() {
					if s, ok := ref.(*ssa.Store); ok && s.Val == val {
						cell, _ = s.Addr.(*ssa.Alloc)
					}
				}
				if cell == nil {
					continue
				}
				// stored back into the same map
				back := false
				for _, b2 := range f.Blocks {
					for _, x := range b2.Instrs {
						if mu, ok := x.(*ssa.MapUpdate); ok && mu.Map == lk.X {
							if u, ok := mu.Value.(*ssa.UnOp); ok && u.X == ssa.Value(cell) {
								back = true
							}
						}
					}
				}
				if !back {
					continue
				}
				n++
				bad := ""
				for _, ref := range *cell.Referrers() {
					s, ok := ref.(*ssa.Store)
					if !ok || s.Addr != ssa.Value(cell) || s.Val == val {
						continue
					}
					guarded := false
					for _, b2 := range f.Blocks {
						ifi, isIf := b2.Instrs[len(b2.Instrs)-1].(*ssa.If)
						if isIf && ifi.Cond == found && guardedByEdge(ifi, 1, s) {
							guarded = true
						}
					}
					if !guarded {
						bad = w.pos(s.Pos())
					}
				}
				r.check(bad == "", fmt.Sprintf("%s:entry#%d:updated-in-place", fname(f), n), "the entry is replaced as a whole only where it was not found",
					"the looked-up entry is replaced as a whole (at "+bad+") on a path where it was found: what an earlier update of the same key put into its other fields is dropped — an element both added under a tag and erased from it in one request loses one of the two", w.pos(lk.Pos()))
			}
		}
	}
	r.check(n >= 2, "annotation:struct-entry-updates", fmt.Sprintf("%d", n), "fewer in-place entry updates than expected: rule needs review", "-")
}

// ---------------------------------------------------------------------------------------------

func ruleMergeVisitsEveryMerged(r *Run) {
	w := r.W
	n := 0
	for _, f := range w.RepoFuncs {
		p := relPkg(pkgPathOf(f))
		if !(p == "datatype/annotation" || p == "datatype/labelsz") || len(f.Blocks) == 0 || isTestFunc(w, f) || f.Parent() != nil {
			continue
		}
		hasOp := false
		for _, prm := range f.Params {
			if typeIs(prm.Type(), "datatype/common/labels", "MergeOp") {
				hasOp = true
			}
		}
		if !hasOp {
			continue
		}
		var rng ssa.Instruction
		for _, b := range f.Blocks {
			for _, in := range b.Instrs {
				if rg, ok := in.(*ssa.Range); ok {
					if nm, ok := fieldSel(rg.X); ok && nm == "Merged" {
						rng = rg
					}
				}
			}
		}
		if rng == nil {
			continue
		}
		n++
		pth := findPath(f, nil, func(x ssa.Instruction) bool { return x == rng }, successExit, nil)
		r.check(pth == nil, fname(f)+":every-merged-label-visited", "every success exit lies behind the range over the merged labels",
			"the function can report success without having gone through the merged labels: what is kept per merged label (its elements, its index) stays under a label that no longer exists", w.fpos(f), w.renderPath(pth)...)
	}
	r.check(n >= 1, "datatype:merge-functions", fmt.Sprintf("%d", n), "no function ranging over MergeOp.Merged found: rule needs review", "-")
}

// ---------------------------------------------------------------------------------------------

func ruleFieldwiseCopyComplete(r *Run) {
	w := r.W
	n := 0
	for _, f := range w.RepoFuncs {
		if relPkg(pkgPathOf(f)) != "datatype/annotation" || len(f.Blocks) == 0 || isTestFunc(w, f) || f.Signature.Recv() == nil {
			continue
		}
		if f.Name() != "Copy" && f.Name() != "Normalize" {
			continue
		}
		// struct type → fields touched (stored, or used as the base of a nested field store)
		touched := map[*types.Named]map[string]bool{}
		var mark func(fa *ssa.FieldAddr)
		mark = func(fa *ssa.FieldAddr) {
			pt, ok := fa.X.Type().Underlying().(*types.Pointer)
			if !ok {
				return
			}
			nt := namedOf(pt.Elem())
			if nt == nil {
				return
			}
			nm, _, _ := fieldName(fa)
			if touched[nt] == nil {
				touched[nt] = map[string]bool{}
			}
			touched[nt][nm] = true
			if outer, ok := fa.X.(*ssa.FieldAddr); ok {
				mark(outer)
			}
		}
		for _, b := range f.Blocks {
			for _, in := range b.Instrs {
				if st, ok := in.(*ssa.Store); ok {
					if fa, ok := st.Addr.(*ssa.FieldAddr); ok {
						mark(fa)
					}
				}
			}
		}
		for nt, set := range touched {
			st, ok := nt.Underlying().(*types.Struct)
			if !ok || len(set) < 2 && st.NumFields() > 2 {
				continue
			}
			n++
			missing := ""
			for i := 0; i < st.NumFields(); i++ {
				if !set[st.Field(i).Name()] {
					missing += " " + st.Field(i).Name()
				}
			}
			r.check(missing == "", fname(f)+":"+nt.Obj().Name()+":every-field-copied", "every field of the struct is stored",
				"the field-by-field copy leaves out"+missing+": the copy compares and sorts as a different element (the reload check sees no difference between kinds, or reports one where there is none)", w.fpos(f))
		}
	}
	r.check(n >= 4, "annotation:fieldwise-copies", fmt.Sprintf("%d", n), "fewer field-by-field copies than expected: rule needs review", "-")
}

// ---------------------------------------------------------------------------------------------

func ruleSyncChangeResetsBlockSize(r *Run) {
	w := r.W
	n := 0
	for _, f := range w.RepoFuncs {
		if relPkg(pkgPathOf(f)) != "datatype/annotation" || len(f.Blocks) == 0 || isTestFunc(w, f) {
			continue
		}
		for _, c := range calls(f) {
			callee := staticCallee(c)
			if callee == nil || relPkg(pkgPathOf(callee)) != "datastore" || (callee.Name() != "SetSyncByJSON" && callee.Name() != "SetSyncData") {
				continue
			}
			n++
			cv, _ := c.(ssa.Value)
			resets := func(x ssa.Instruction) bool {
				st, ok := x.(*ssa.Store)
				if !ok {
					return false
				}
				fa, ok := st.Addr.(*ssa.FieldAddr)
				if !ok {
					return false
				}
				nm, _, _ := fieldName(fa)
				return nm == "cachedBlockSize" && isNilConst(st.Val)
			}
			okEdge := func(b *ssa.BasicBlock, i int) bool {
				ifi, ok := b.Instrs[len(b.Instrs)-1].(*ssa.If)
				if !ok {
					return true
				}
				bo, ok := ifi.Cond.(*ssa.BinOp)
				if !ok || cv == nil || bo.X != cv || !isNilConst(bo.Y) {
					return true
				}
				if bo.Op == token.NEQ {
					return i == 1
				}
				return i == 0
			}
			p := findPath(f, c, resets, func(x ssa.Instruction) bool { _, isRet := x.(*ssa.Return); return isRet }, okEdge)
			r.check(p == nil, fname(f)+":"+callee.Name()+":block-size-forgotten", "after the syncs changed, the cached block size is cleared before the function returns",
				"the syncs of the instance change while the block size computed from the old syncs stays cached: elements posted afterwards are filed under block keys of the old block size and the synced label instance's block events look for them under the new one", w.pos(c.Pos()), w.renderPath(p)...)
		}
	}
	r.check(n >= 1, "annotation:sync-changes", fmt.Sprintf("%d", n), "no call changing the syncs found: rule needs review", "-")
}

// ---------------------------------------------------------------------------------------------
// Round f, C20

func init() {
	register(ruleDef{ID: "R20.38", Prop: "C20", Tier: "quick", Floor: 3,
		Title: "a list consumed k at a time has a length that is a multiple of k: where a loop steps an index by a constant k ≥ 2 up to len(s) and reads s[i+j] (0 < j < k) or s[i:i+k], a test of len(s) % k lies on every way into the loop",
		Fn:    ruleStrideLoopLengthTested})
	register(ruleDef{ID: "R20.39", Prop: "C20", Tier: "quick", Floor: 1,
		Title: "an index received as a parameter is compared with the length before it is used: where a slice parameter is indexed by a value that starts as an int parameter, a test index >= len (leaving) or index < len (staying) lies on every way to the first use",
		Fn:    ruleParamIndexTested})
	register(ruleDef{ID: "R20.40", Prop: "C20", Tier: "quick", Floor: 1,
		Title: "a posted index goes to the label the URL names: in labelmap's index handler the store of the index decoded from the body lies behind a comparison of the body's Label with the label parsed from the URL",
		Fn:    rulePostedIndexNamesURLLabel})
}

func lenOf(v ssa.Value) ssa.Value {
	c, ok := v.(*ssa.Call)
	if !ok {
		return nil
	}
	if bi, ok := c.Call.Value.(*ssa.Builtin); ok && bi.Name() == "len" && len(c.Call.Args) == 1 {
		return c.Call.Args[0]
	}
	return nil
}

func ruleStrideLoopLengthTested(r *Run) {
	w := r.W
	n := 0
	for _, f := range w.RepoFuncs {
		if !inRepo(f) || len(f.Blocks) == 0 || isTestFunc(w, f) || strings.HasPrefix(relPkg(pkgPathOf(f)), "cmd/") {
			continue
		}
		k := 0
		for _, b := range f.Blocks {
			for _, in := range b.Instrs {
				phi, ok := in.(*ssa.Phi)
				if !ok {
					continue
				}
				var stride int64
				for _, e := range phi.Edges {
					if bo, ok := e.(*ssa.BinOp); ok && bo.Op == token.ADD && bo.X == ssa.Value(phi) {
						if c, ok := constInt(bo.Y); ok && c >= 2 {
							stride = c
						}
					}
				}
				if stride == 0 {
					continue
				}
				// loop condition i < len(s)
				var s ssa.Value
				for _, ref := range *phi.Referrers() {
					if bo, ok := ref.(*ssa.BinOp); ok && bo.Op == token.LSS && bo.X == ssa.Value(phi) {
						if x := lenOf(bo.Y); x != nil {
							s = x
						}
					}
				}
				if s == nil {
					continue
				}
				// reads beyond i within the group
				reads := false
				for _, ref := range *phi.Referrers() {
					bo, ok := ref.(*ssa.BinOp)
					if !ok || bo.Op != token.ADD || bo.X != ssa.Value(phi) {
						continue
					}
					j, ok := constInt(bo.Y)
					if !ok || j < 1 || j > stride {
						continue
					}
					for _, ref2 := range *bo.Referrers() {
						switch x := ref2.(type) {
						case *ssa.IndexAddr:
							if x.Index == ssa.Value(bo) && j < stride && sameRoots(x.X, s, f) {
								reads = true
							}
						case *ssa.Slice:
							if x.High == ssa.Value(bo) && sameRoots(x.X, s, f) {
								reads = true
							}
						}
					}
				}
				if !reads {
					continue
				}
				// a slice a repository function built has the length that function gave it; the rule is
				// about lists that arrive from outside (parameters, decoded request bodies, split strings)
				external := false
				for _, rv := range roots(s, f) {
					v := rv.V
					if ex, ok := v.(*ssa.Extract); ok {
						v = ex.Tuple
					}
					if c, ok := v.(*ssa.Call); ok {
						if callee := c.Call.StaticCallee(); callee != nil && inRepo(callee) {
							continue
						}
					}
					external = true
				}
				if !external {
					continue
				}
				n++
				k++
				tested := false
				for _, b2 := range f.Blocks {
					ifi, isIf := b2.Instrs[len(b2.Instrs)-1].(*ssa.If)
					if !isIf || !b2.Dominates(b) || b2 == b {
						continue
					}
					for d := range dataDeps(ifi.Cond) {
						if bo, ok := d.(*ssa.BinOp); ok && bo.Op == token.REM {
							if c, ok := constInt(bo.Y); ok && c == stride {
								if x := lenOf(bo.X); x != nil && sameRoots(x, s, f) {
									tested = true
								}
							}
						}
					}
				}
				r.check(tested, fmt.Sprintf("%s:stride-%d-loop#%d:length-tested", fname(f), stride, k), "len % stride is tested before the loop",
					fmt.Sprintf("the loop reads %d entries at a time without the length having been tested to be a multiple of %d: a list with a trailing partial group is read past its end (panic → 500, after the complete groups were already applied)", stride, stride), w.pos(phi.Pos()))
			}
		}
	}
	r.check(n >= 3, "repo:stride-loops", fmt.Sprintf("%d", n), "fewer stride loops than expected: rule needs review", "-")
}

func ruleParamIndexTested(r *Run) {
	w := r.W
	n := 0
	for _, f := range w.RepoFuncs {
		if !inRepo(f) || len(f.Blocks) == 0 || isTestFunc(w, f) || strings.HasPrefix(relPkg(pkgPathOf(f)), "cmd/") {
			continue
		}
		k := 0
		seen := map[string]bool{}
		for _, b := range f.Blocks {
			for _, in := range b.Instrs {
				ia, ok := in.(*ssa.IndexAddr)
				if !ok {
					continue
				}
				sp, ok := ia.X.(*ssa.Parameter)
				if !ok {
					continue
				}
				if _, isSlice := sp.Type().Underlying().(*types.Slice); !isSlice {
					continue
				}
				phi, ok := ia.Index.(*ssa.Phi)
				if !ok {
					continue
				}
				var ip *ssa.Parameter
				for _, e := range phi.Edges {
					if p, ok := e.(*ssa.Parameter); ok {
						ip = p
					}
				}
				if ip == nil || seen[sp.Name()+"/"+ip.Name()] {
					continue
				}
				seen[sp.Name()+"/"+ip.Name()] = true
				n++
				k++
				tested := false
				for _, b2 := range f.Blocks {
					ifi, isIf := b2.Instrs[len(b2.Instrs)-1].(*ssa.If)
					if !isIf {
						continue
					}
					bo, isBo := ifi.Cond.(*ssa.BinOp)
					// the test is on the parameter as received, or on the index value itself (loop header test)
					if !isBo || (bo.X != ssa.Value(ip) && bo.X != ssa.Value(phi)) {
						continue
					}
					x := lenOf(bo.Y)
					if x == nil || x != ssa.Value(sp) {
						continue
					}
					if bo.Op == token.GEQ && guardedByEdge(ifi, 1, ia) || bo.Op == token.LSS && guardedByEdge(ifi, 0, ia) {
						tested = true
					}
				}
				r.check(tested, fmt.Sprintf("%s:%s[%s]:tested-against-length", fname(f), sp.Name(), ip.Name()), "the index is compared with the length before its first use",
					"the slice "+sp.Name()+" is indexed by "+ip.Name()+" as received, with no test that excludes "+ip.Name()+" == len("+sp.Name()+"): a query past the last entry (or on an empty list) panics", w.pos(ia.Pos()))
			}
		}
	}
	r.check(n >= 1, "repo:parameter-indexed-slices", fmt.Sprintf("%d", n), "no slice parameter indexed by an int parameter found: rule needs review", "-")
}

func rulePostedIndexNamesURLLabel(r *Run) {
	w := r.W
	f := w.method("datatype/labelmap", "Data", "handleIndex")
	if f == nil {
		r.undecided("labelmap.Data.handleIndex", "anchor not found")
		return
	}
	n := 0
	for _, c := range calls(f) {
		callee := staticCallee(c)
		if callee == nil || callee.Name() != "putCachedLabelIndex" {
			continue
		}
		n++
		args := c.Common().Args
		idx := args[len(args)-1]
		ok := false
		for _, b := range f.Blocks {
			ifi, isIf := b.Instrs[len(b.Instrs)-1].(*ssa.If)
			if !isIf {
				continue
			}
			bo, isBo := ifi.Cond.(*ssa.BinOp)
			if !isBo || (bo.Op != token.NEQ && bo.Op != token.EQL) {
				continue
			}
			isBodyLabel := func(v ssa.Value) bool {
				u, ok := v.(*ssa.UnOp)
				if !ok {
					return false
				}
				fa, ok := u.X.(*ssa.FieldAddr)
				if !ok {
					return false
				}
				nm, _, _ := fieldName(fa)
				if nm != "Label" {
					return false
				}
				for d := range dataDeps(fa.X) {
					if d == idx {
						return true
					}
				}
				return sameRoots(fa.X, idx, f)
			}
			isURLLabel := func(v ssa.Value) bool {
				for _, rv := range roots(v, f) {
					if ex, ok := rv.V.(*ssa.Extract); ok {
						if pc, ok := ex.Tuple.(*ssa.Call); ok && pc.Call.StaticCallee() != nil && pc.Call.StaticCallee().Name() == "ParseUint" {
							return true
						}
					}
				}
				return false
			}
			if !(isBodyLabel(bo.X) && isURLLabel(bo.Y) || isBodyLabel(bo.Y) && isURLLabel(bo.X)) {
				continue
			}
			succ := 1
			if bo.Op == token.EQL {
				succ = 0
			}
			if guardedByEdge(ifi, succ, c) {
				ok = true
			}
		}
		r.check(ok, fmt.Sprintf("handleIndex:store#%d:label-agrees-with-url", n), "the store lies behind body.Label == URL label",
			"an index whose Label differs from the label in the URL is stored (under its own Label): a POST to index/<a> overwrites the index of another body, which the request did not name", w.pos(c.Pos()))
	}
	r.check(n >= 1, "handleIndex:index-stores", fmt.Sprintf("%d", n), "no index store found: rule needs review", w.fpos(f))
}

// ---------------------------------------------------------------------------------------------
// Declared guards (R20.41 / R11.27): the guard of each map below is the one its declaration names
// ("Mutex for concurrent use of all maps and ids below") or the one every locked access uses;
// confirmed by reading and frozen here.

type declaredGuard struct {
	pkg, typ, field, mutex, why string
}

var declaredGuards = []declaredGuard{
	{"datastore", "repoManager", "repos", "repoMutex", "declared next to the map"},
	{"datastore", "repoManager", "repoToUUID", "idMutex", "\"Mutex for concurrent use of all maps and ids below\""},
	{"datastore", "repoManager", "versionToUUID", "idMutex", "\"all maps and ids below\""},
	{"datastore", "repoManager", "uuidToVersion", "idMutex", "\"all maps and ids below\""},
	{"datastore", "repoManager", "iids", "idMutex", "\"all maps and ids below\""},
	{"datastore", "repoManager", "dataByUUID", "idMutex", "\"all maps and ids below\""},
	{"datastore", "repoManager", "branchToUUID", "branchMutex", "declared next to the map"},
	{"datatype/labelmap", "Data", "MaxLabel", "mlMu", "declared next to the counters"},
	{"datatype/labelarray", "Data", "MaxLabel", "mlMu", "declared next to the counters"},
	{"datatype/neuronjson", "Data", "metadata", "metadataMu", "declared next to the map"},
	{"datatype/labelmap", "instanceMaps", "maps", "RWMutex", "embedded in the same struct; the only writer (initMapping) holds it"},
}

func init() {
	reg := func(id, prop string) {
		register(ruleDef{ID: id, Prop: prop, Tier: "quick", Floor: 30,
			Title: "a map is touched only under the mutex its declaration names: every lookup, range, len, store and delete on the repo manager's id maps (idMutex), its repo map (repoMutex) and branch heads (branchMutex), on the label counters (mlMu) and on neuronjson's metadata (metadataMu) happens with that mutex held — write-held for stores — in the function or at every one of its call sites; start-up loaders and constructors of a not yet published object are listed exceptions (the Go runtime ends the process on a concurrent map read and write)",
			Fn:    ruleDeclaredGuards})
	}
	reg("R20.41", "C20")
	reg("R11.27", "C11")
}

func ruleDeclaredGuards(r *Run) {
	w := r.W
	guardOf := map[mapField]declaredGuard{}
	for _, g := range declaredGuards {
		guardOf[mapField{g.pkg, g.typ, g.field}] = g
	}
	sites := callSitesOf(w)
	var heldHere func(f *ssa.Function, at ssa.Instruction, mutex string, needWrite bool, depth int, seen map[*ssa.Function]bool) bool
	heldHere = func(f *ssa.Function, at ssa.Instruction, mutex string, needWrite bool, depth int, seen map[*ssa.Function]bool) bool {
		if h, _ := heldAt(f, at, mutex, needWrite); h {
			return true
		}
		if depth >= 3 || seen[f] {
			return false
		}
		seen[f] = true
		// closures run where they are created (deferred and immediately called function literals)
		if f.Parent() != nil {
			for _, b := range f.Parent().Blocks {
				for _, in := range b.Instrs {
					if mc, ok := in.(*ssa.MakeClosure); ok && mc.Fn == ssa.Value(f) {
						for _, ref := range *mc.Referrers() {
							if c, ok := ref.(*ssa.Call); ok && c.Call.Value == ssa.Value(mc) {
								return heldHere(f.Parent(), c, mutex, needWrite, depth+1, seen)
							}
						}
					}
				}
			}
			return false
		}
		cs := sites[f]
		if len(cs) == 0 {
			return false
		}
		for _, c := range cs {
			if strings.HasSuffix(w.fposFile(c.Parent()), "_test.go") {
				continue
			}
			if !heldHere(c.Parent(), c, mutex, needWrite, depth+1, seen) {
				return false
			}
		}
		return true
	}
	n := 0
	perField := map[string]int{}
	for _, f := range w.RepoFuncs {
		if len(f.Blocks) == 0 || isTestFunc(w, f) {
			continue
		}
		k := map[string]int{}
		for _, b := range f.Blocks {
			for _, in := range b.Instrs {
				var m ssa.Value
				what, write := "", false
				switch x := in.(type) {
				case *ssa.Lookup:
					m, what = x.X, "looked up"
				case *ssa.Range:
					m, what = x.X, "ranged over"
				case *ssa.MapUpdate:
					m, what, write = x.Map, "stored into", true
				case *ssa.Call:
					if bi, ok := x.Call.Value.(*ssa.Builtin); ok {
						if bi.Name() == "len" {
							m, what = x.Call.Args[0], "measured"
						} else if bi.Name() == "delete" {
							m, what, write = x.Call.Args[0], "deleted from", true
						}
					}
				}
				if m == nil {
					continue
				}
				mf, fa, ok := mapFieldOf(m)
				if !ok {
					continue
				}
				g, ok := guardOf[mf]
				if !ok {
					continue
				}
				if isFreshObject(fa.X, f) {
					continue
				}
				k[mf.field]++
				construct := fmt.Sprintf("%s:%s.%s#%d:under-%s", fname(f), mf.typ, mf.field, k[mf.field], g.mutex)
				n++
				perField[mf.typ+"."+mf.field]++
				if reason, exc := r.exceptionFor("R20.41", fmt.Sprintf("%s:%s.%s", fname(f), mf.typ, mf.field)); exc {
					r.check(true, construct, "exception: "+reason, "", w.pos(in.Pos()))
					continue
				}
				held := false
				for _, h := range heldMutexesOfObject(f, in, fa.X, write) {
					if h == g.mutex {
						held = true
					}
				}
				if !held {
					held = heldHere(f, in, g.mutex, write, 0, map[*ssa.Function]bool{})
				}
				r.check(held, construct, "accessed with "+g.mutex+" held (here or at every call site)",
					fmt.Sprintf("the map %s.%s is %s without %s (%s): a request that changes the map at the same time ends the whole process (`fatal error: concurrent map read and map write` cannot be recovered) or the access sees a half-updated map", mf.typ, mf.field, what, g.mutex, g.why), w.pos(in.Pos()))
			}
		}
	}
	for _, g := range declaredGuards {
		key := g.typ + "." + g.field
		if g.pkg == "datatype/labelarray" {
			continue
		}
		r.check(perField[key] >= 1, "guard-table:"+g.pkg+"."+key, fmt.Sprintf("%d accesses", perField[key]), "no access of this map was found: the table entry is stale", "-")
	}
	r.check(n >= 30, "repo:declared-guard-accesses", fmt.Sprintf("%d", n), "too few: rule needs review", "-")
}

// ---------------------------------------------------------------------------------------------
// R11.28 / R20.42 — one order for the repo manager's two big mutexes

func init() {
	reg := func(id, prop string) {
		register(ruleDef{ID: id, Prop: prop, Tier: "quick", Floor: 3,
			Title: "idMutex before repoMutex: the repo manager's id mutex is never acquired — directly or through a datastore function that acquires it — while the manager's repo mutex is held (listing the repos and deleting one take idMutex first and repoMutex inside it; the opposite order deadlocks against them and wedges every later request)",
			Fn:    ruleIDMutexBeforeRepoMutex})
	}
	reg("R11.28", "C11")
	reg("R20.42", "C20")
}

func ruleIDMutexBeforeRepoMutex(r *Run) {
	w := r.W
	acquires := func(f *ssa.Function, name string) bool {
		for _, b := range f.Blocks {
			for _, in := range b.Instrs {
				if op, ok := asLockOp(in); ok && op.lock && op.name == name {
					return true
				}
			}
		}
		return false
	}
	takesID := map[*ssa.Function]bool{}
	for _, f := range w.RepoFuncs {
		if relPkg(pkgPathOf(f)) == "datastore" && len(f.Blocks) > 0 && !isTestFunc(w, f) && acquires(f, "idMutex") {
			takesID[f] = true
		}
	}
	nested, bad := 0, 0
	for _, f := range w.RepoFuncs {
		if relPkg(pkgPathOf(f)) != "datastore" || len(f.Blocks) == 0 || isTestFunc(w, f) {
			continue
		}
		for _, b := range f.Blocks {
			for _, in := range b.Instrs {
				if op, ok := asLockOp(in); ok && op.lock {
					if op.name == "repoMutex" {
						if h, _ := heldAt(f, in, "idMutex", false); h {
							nested++
						}
					}
					if op.name == "idMutex" {
						if h, _ := heldAt(f, in, "repoMutex", false); h {
							bad++
							r.violation(fmt.Sprintf("%s:idMutex-under-repoMutex#%d", fname(f), bad),
								"idMutex is acquired while repoMutex is held: MarshalJSON and deleteRepo take them in the other order — with a writer waiting on either, the two requests block each other for good and every later request that needs the maps hangs", w.pos(in.Pos()))
						}
					}
					continue
				}
				c, ok := in.(ssa.CallInstruction)
				if !ok {
					continue
				}
				if _, isGo := in.(*ssa.Go); isGo {
					continue
				}
				callee := staticCallee(c)
				if callee == nil || !takesID[callee] {
					continue
				}
				if h, _ := heldAt(f, in, "repoMutex", false); h {
					bad++
					r.violation(fmt.Sprintf("%s:%s-under-repoMutex#%d", fname(f), callee.Name(), bad),
						"a function that acquires idMutex ("+callee.Name()+") is called while repoMutex is held: the order is the opposite of MarshalJSON's and deleteRepo's and can deadlock against them", w.pos(in.Pos()))
				}
			}
		}
	}
	r.check(nested >= 2, "datastore:repoMutex-inside-idMutex", fmt.Sprintf("%d nested acquisitions in the reference order, %d in the opposite order", nested, bad), "the reference order (repoMutex inside idMutex) was found fewer than twice: rule needs review", "-")
	r.check(true, "datastore:scanned", fmt.Sprintf("%d functions acquire idMutex", len(takesID)), "", "-")
	r.check(len(takesID) >= 10, "datastore:idMutex-users", fmt.Sprintf("%d", len(takesID)), "too few: rule needs review", "-")
}

// ---------------------------------------------------------------------------------------------
// R20.43 / R11.29 — the node map of a DAG

func init() {
	reg := func(id, prop string) {
		register(ruleDef{ID: id, Prop: prop, Tier: "quick", Floor: 10,
			Title: "the node map of a DAG changes under both locks and is read under one: every store into or delete from dagT.nodes happens with the repo's lock and the DAG's lock write-held (as newVersion does), every lookup, range or len of it with the repo's or the DAG's lock held — in the function or at every call site; loaders of a not yet published repo are listed exceptions (readers take only one of the two locks, so a writer that holds only one of them races the readers that hold the other: `fatal error: concurrent map iteration and map write`)",
			Fn:    ruleDagNodesLocks})
	}
	reg("R20.43", "C20")
	reg("R11.29", "C11")
}

func ruleDagNodesLocks(r *Run) {
	w := r.W
	sites := callSitesOf(w)
	lockBase := func(in ssa.Instruction) string {
		c, ok := in.(*ssa.Call)
		if !ok || len(c.Call.Args) == 0 {
			return ""
		}
		fa, ok := c.Call.Args[0].(*ssa.FieldAddr)
		if !ok {
			return ""
		}
		if nm := namedOf(fa.X.Type()); nm != nil {
			return nm.Obj().Name()
		}
		return ""
	}
	// which of the two locks are held at `at` (read or write)
	type heldT struct{ repoR, repoW, dagR, dagW bool }
	var heldAtSite func(f *ssa.Function, at ssa.Instruction, depth int, seen map[*ssa.Function]bool) heldT
	heldAtSite = func(f *ssa.Function, at ssa.Instruction, depth int, seen map[*ssa.Function]bool) heldT {
		var h heldT
		done := map[string]bool{}
		for _, b := range f.Blocks {
			for _, in := range b.Instrs {
				op, ok := asLockOp(in)
				if !ok || !op.lock || done[op.key] {
					continue
				}
				bt := lockBase(in)
				if bt != "repoT" && bt != "dagT" {
					continue
				}
				done[op.key] = true
				held, write := heldKeyAt(f, at, op.key)
				if !held {
					continue
				}
				if bt == "repoT" {
					h.repoR = true
					h.repoW = h.repoW || write
				} else {
					h.dagR = true
					h.dagW = h.dagW || write
				}
			}
		}
		if depth >= 3 || seen[f] {
			return h
		}
		seen[f] = true
		var cs []ssa.Instruction
		if f.Parent() != nil {
			for _, b := range f.Parent().Blocks {
				for _, in := range b.Instrs {
					if mc, ok := in.(*ssa.MakeClosure); ok && mc.Fn == ssa.Value(f) {
						for _, ref := range *mc.Referrers() {
							if c, ok := ref.(*ssa.Call); ok && c.Call.Value == ssa.Value(mc) {
								cs = append(cs, c)
							}
						}
					}
				}
			}
		} else {
			for _, c := range sites[f] {
				if strings.HasSuffix(w.fposFile(c.Parent()), "_test.go") {
					continue
				}
				if _, exc := r.exceptionFor("R20.43", fname(c.Parent())+":calls:"+f.Name()); exc {
					continue
				}
				cs = append(cs, c)
			}
		}
		if len(cs) == 0 {
			return h
		}
		all := heldT{true, true, true, true}
		for _, c := range cs {
			x := heldAtSite(c.Parent(), c, depth+1, seen)
			all.repoR = all.repoR && x.repoR
			all.repoW = all.repoW && x.repoW
			all.dagR = all.dagR && x.dagR
			all.dagW = all.dagW && x.dagW
		}
		h.repoR = h.repoR || all.repoR
		h.repoW = h.repoW || all.repoW
		h.dagR = h.dagR || all.dagR
		h.dagW = h.dagW || all.dagW
		return h
	}
	n := 0
	for _, f := range w.RepoFuncs {
		if relPkg(pkgPathOf(f)) != "datastore" || len(f.Blocks) == 0 || isTestFunc(w, f) {
			continue
		}
		if f.Name() == "GobDecode" || f.Name() == "GobEncode" {
			continue
		}
		k := 0
		for _, b := range f.Blocks {
			for _, in := range b.Instrs {
				var m ssa.Value
				what, write := "", false
				switch x := in.(type) {
				case *ssa.Lookup:
					m, what = x.X, "looked up"
				case *ssa.Range:
					m, what = x.X, "ranged over"
				case *ssa.MapUpdate:
					m, what, write = x.Map, "stored into", true
				case *ssa.Call:
					if bi, ok := x.Call.Value.(*ssa.Builtin); ok {
						if bi.Name() == "len" {
							m, what = x.Call.Args[0], "measured"
						} else if bi.Name() == "delete" {
							m, what, write = x.Call.Args[0], "deleted from", true
						}
					}
				}
				if m == nil {
					continue
				}
				mf, fa, ok := mapFieldOf(m)
				if !ok || mf.typ != "dagT" || mf.field != "nodes" {
					continue
				}
				if isFreshObject(fa.X, f) {
					continue
				}
				k++
				n++
				construct := fmt.Sprintf("%s:dag.nodes#%d", fname(f), k)
				if reason, exc := r.exceptionFor("R20.43", construct); exc {
					r.check(true, construct, "exception: "+reason, "", w.pos(in.Pos()))
					continue
				}
				h := heldAtSite(f, in, 0, map[*ssa.Function]bool{})
				if write {
					r.check(h.repoW && h.dagW, construct+":both-locks-write-held", "the repo's and the DAG's locks are write-held",
						fmt.Sprintf("the DAG's node map is %s with repo lock write-held=%v, DAG lock write-held=%v: readers hold only one of the two (branch-versions iterates under the DAG's lock, repo info under the repo's), so the one not held lets them run at the same time — `fatal error: concurrent map iteration and map write` ends the process", what, h.repoW, h.dagW), w.pos(in.Pos()))
				} else {
					r.check(h.repoR || h.dagR, construct+":one-lock-held", "the repo's or the DAG's lock is held",
						"the DAG's node map is "+what+" with neither the repo's nor the DAG's lock held: a new version or merge at the same time ends the process (`fatal error: concurrent map read and map write`)", w.pos(in.Pos()))
				}
			}
		}
	}
	r.check(n >= 10, "datastore:dag-node-map-accesses", fmt.Sprintf("%d", n), "too few: rule needs review", "-")
}

// ---------------------------------------------------------------------------------------------
// R20.44 — a map handed out by a getter is not changed in place

func init() {
	register(ruleDef{ID: "R20.44", Prop: "C20", Tier: "quick", Floor: 2,
		Title: "a map handed out by a getter is not changed in place: where a method returns a map field of its receiver as it is (no copy), no caller in the datastore, server or datatype packages stores into or deletes from the returned map — readers (the JSON encoders of /info and /tags) iterate that very map with no lock, and a concurrent store ends the process; a changed map is built aside and swapped in",
		Fn:    ruleLiveMapNotWrittenInPlace})
}

func ruleLiveMapNotWrittenInPlace(r *Run) {
	w := r.W
	// getters: every return yields a load of a map-typed field of the receiver
	getters := map[*ssa.Function]string{}
	for _, f := range w.RepoFuncs {
		if len(f.Blocks) != 1 || f.Signature.Recv() == nil || isTestFunc(w, f) || f.Signature.Results().Len() != 1 {
			continue
		}
		if _, ok := f.Signature.Results().At(0).Type().Underlying().(*types.Map); !ok {
			continue
		}
		ret, ok := f.Blocks[0].Instrs[len(f.Blocks[0].Instrs)-1].(*ssa.Return)
		if !ok || len(ret.Results) != 1 {
			continue
		}
		if mf, _, ok := mapFieldOf(ret.Results[0]); ok {
			getters[f] = mf.typ + "." + mf.field
		}
	}
	n, sitesN := 0, 0
	for _, f := range w.RepoFuncs {
		p := relPkg(pkgPathOf(f))
		if !(p == "datastore" || p == "server" || strings.HasPrefix(p, "datatype/")) || len(f.Blocks) == 0 || isTestFunc(w, f) {
			continue
		}
		k := 0
		for _, c := range calls(f) {
			cv, ok := c.(*ssa.Call)
			if !ok {
				continue
			}
			field := ""
			for _, callee := range w.Callees(c) {
				if g, ok := getters[callee]; ok {
					field = g
				}
				// promoted through an embedded *datastore.Data: the wrapper calls the getter
				if callee.Synthetic != "" {
					for _, c2 := range calls(callee) {
						if g, ok := getters[staticCallee(c2)]; ok {
							field = g
						}
					}
				}
			}
			if field == "" {
				continue
			}
			sitesN++
			// stores into the returned map (followed through locals and phis)
			for _, b := range f.Blocks {
				for _, in := range b.Instrs {
					var m ssa.Value
					switch x := in.(type) {
					case *ssa.MapUpdate:
						m = x.Map
					case *ssa.Call:
						if bi, ok := x.Call.Value.(*ssa.Builtin); ok && bi.Name() == "delete" {
							m = x.Call.Args[0]
						}
					}
					if m == nil {
						continue
					}
					from := false
					var walk func(v ssa.Value, depth int)
					walk = func(v ssa.Value, depth int) {
						if depth > 8 || from {
							return
						}
						switch x := v.(type) {
						case *ssa.Call:
							if x == cv {
								from = true
							}
						case *ssa.Phi:
							for _, e := range x.Edges {
								walk(e, depth+1)
							}
						case *ssa.ChangeType:
							walk(x.X, depth+1)
						case *ssa.UnOp:
							if al, ok := x.X.(*ssa.Alloc); ok {
								for _, ref := range *al.Referrers() {
									if st, ok := ref.(*ssa.Store); ok && st.Addr == ssa.Value(al) {
										walk(st.Val, depth+1)
									}
								}
							}
						}
					}
					walk(m, 0)
					if !from {
						continue
					}
					k++
					n++
					r.violation(fmt.Sprintf("%s:%s:written-in-place#%d", fname(f), field, k),
						"the map returned by the getter of "+field+" — the live map of the object — is changed in place: a request that lists it at the same time (GET info / tags encode it with no lock) ends the process with `fatal error: concurrent map iteration and map write`", w.pos(in.Pos()))
				}
			}
		}
	}
	r.check(len(getters) >= 2, "repo:live-map-getters", fmt.Sprintf("%d getters, %d call sites, %d in-place writes", len(getters), sitesN, n), "fewer getters than expected: rule needs review", "-")
	r.check(sitesN >= 2, "repo:live-map-getter-calls", fmt.Sprintf("%d", sitesN), "fewer call sites than expected: rule needs review", "-")
}

// ---------------------------------------------------------------------------------------------
// R20.45 — a consumer that ends on a nil sentinel ends on it on every path

func init() {
	register(ruleDef{ID: "R20.45", Prop: "C20", Tier: "quick", Floor: 10,
		Title: "a consumer that ends on a nil sentinel ends on every path: where a loop receives from a channel and returns when the received pointer is nil, no path on which the pointer is nil leads back to the receive (the producer has finished and never closes the channel: the consumer would block for ever, and with it the request that waits for it)",
		Fn:    ruleSentinelEndsLoop})
}

func ruleSentinelEndsLoop(r *Run) {
	w := r.W
	n := 0
	for _, f := range w.RepoFuncs {
		if !inRepo(f) || len(f.Blocks) == 0 || isTestFunc(w, f) || strings.HasPrefix(relPkg(pkgPathOf(f)), "cmd/") {
			continue
		}
		k := 0
		for _, b := range f.Blocks {
			for _, in := range b.Instrs {
				rcv, ok := in.(*ssa.UnOp)
				if !ok || rcv.Op != token.ARROW || rcv.CommaOk {
					continue
				}
				if _, isPtr := rcv.Type().Underlying().(*types.Pointer); !isPtr {
					continue
				}
				_, set, _ := innermostLoop(f, b)
				if set == nil {
					continue
				}
				// the sentinel idiom: a test of the received value against nil inside the loop, one side of
				// which returns (or leaves the loop) at once
				isNilTest := func(ifi *ssa.If) (eq bool, ok bool) {
					bo, ok2 := ifi.Cond.(*ssa.BinOp)
					if !ok2 || (bo.Op != token.EQL && bo.Op != token.NEQ) || bo.X != ssa.Value(rcv) || !isNilConst(bo.Y) {
						return false, false
					}
					return bo.Op == token.EQL, true
				}
				sentinel := false
				for blk := range set {
					ifi, isIf := blk.Instrs[len(blk.Instrs)-1].(*ssa.If)
					if !isIf {
						continue
					}
					eq, ok2 := isNilTest(ifi)
					if !ok2 {
						continue
					}
					nilSucc := blk.Succs[0]
					if !eq {
						nilSucc = blk.Succs[1]
					}
					if !set[nilSucc] {
						sentinel = true
						continue
					}
					if _, isRet := nilSucc.Instrs[len(nilSucc.Instrs)-1].(*ssa.Return); isRet {
						sentinel = true
					}
				}
				if !sentinel {
					continue
				}
				n++
				k++
				assumeNil := func(blk *ssa.BasicBlock, i int) bool {
					ifi, isIf := blk.Instrs[len(blk.Instrs)-1].(*ssa.If)
					if !isIf {
						return true
					}
					eq, ok2 := isNilTest(ifi)
					if !ok2 {
						return true
					}
					if eq {
						return i == 0
					}
					return i == 1
				}
				p := findPath(f, rcv, nil, func(x ssa.Instruction) bool { return x == ssa.Instruction(rcv) }, assumeNil)
				r.check(p == nil, fmt.Sprintf("%s:sentinel-loop#%d", fname(f), k), "with the sentinel received, every path leaves the loop",
					"with the nil sentinel received there is a path back to the receive: the producer has finished and the channel is never closed, so the consumer blocks for ever — and the request that waits for it never answers", w.pos(rcv.Pos()), w.renderPath(p)...)
			}
		}
	}
	r.check(n >= 10, "repo:sentinel-loops", fmt.Sprintf("%d", n), "fewer sentinel loops than expected: rule needs review", "-")
}

// ---------------------------------------------------------------------------------------------
// R20.46 — the producer of a ranged-over channel closes it on every exit

func init() {
	register(ruleDef{ID: "R20.46", Prop: "C20", Tier: "quick", Floor: 3,
		Title: "the producer of a ranged-over channel closes it on every exit: where a function starts a goroutine with a channel and then ranges over that channel, every return of the goroutine's function is behind a close of the channel (explicit on the path, or deferred) — a producer that returns early on an error leaves the request ranging for ever, with its throttle slot and locks",
		Fn:    ruleProducerClosesChannel})
}

func ruleProducerClosesChannel(r *Run) {
	w := r.W
	n := 0
	for _, f := range w.RepoFuncs {
		if !inRepo(f) || len(f.Blocks) == 0 || isTestFunc(w, f) || strings.HasPrefix(relPkg(pkgPathOf(f)), "cmd/") {
			continue
		}
		// channels this function ranges over: `for x := range ch` is a comma-ok receive whose ok decides the loop
		ranged := map[ssa.Value]bool{}
		for _, b := range f.Blocks {
			for _, in := range b.Instrs {
				rcv, ok := in.(*ssa.UnOp)
				if !ok || rcv.Op != token.ARROW || !rcv.CommaOk {
					continue
				}
				if _, set, _ := innermostLoop(f, b); set != nil {
					ranged[rcv.X] = true
				}
			}
		}
		if len(ranged) == 0 {
			continue
		}
		k := 0
		for _, c := range calls(f) {
			g, isGo := c.(*ssa.Go)
			if !isGo {
				continue
			}
			var callee *ssa.Function
			var inner []ssa.Value // the channel as seen inside the callee
			if sc := g.Call.StaticCallee(); sc != nil && len(sc.Blocks) > 0 {
				callee = sc
				for i, a := range g.Call.Args {
					if ranged[a] && i < len(sc.Params) {
						inner = append(inner, sc.Params[i])
					}
				}
				if mc, ok := g.Call.Value.(*ssa.MakeClosure); ok {
					for i, bnd := range mc.Bindings {
						if ranged[bnd] && i < len(sc.FreeVars) {
							inner = append(inner, sc.FreeVars[i])
						}
						// captured by reference: the binding is the address of the local holding the channel
						for ch := range ranged {
							if u, ok := ch.(*ssa.UnOp); ok && u.X == bnd && i < len(sc.FreeVars) {
								inner = append(inner, sc.FreeVars[i])
							}
						}
					}
				}
			}
			if callee == nil || len(inner) == 0 {
				continue
			}
			// other senders? the rule is about the single producer the function waits for
			for _, ch := range inner {
				isClose := func(x ssa.Instruction) bool {
					cc, ok := x.(ssa.CallInstruction)
					if !ok {
						return false
					}
					bi, ok := cc.Common().Value.(*ssa.Builtin)
					if !ok || bi.Name() != "close" {
						return false
					}
					a := cc.Common().Args[0]
					if a == ch {
						return true
					}
					if u, ok := a.(*ssa.UnOp); ok && u.X == ch {
						return true
					}
					return false
				}
				closes := false
				for _, b := range callee.Blocks {
					for _, x := range b.Instrs {
						if isClose(x) {
							closes = true
						}
					}
				}
				if !closes {
					continue // closed elsewhere (e.g. by the launcher after a WaitGroup): another idiom
				}
				n++
				k++
				p := findPath(callee, nil, isClose, func(x ssa.Instruction) bool { _, isRet := x.(*ssa.Return); return isRet }, nil)
				r.check(p == nil, fmt.Sprintf("%s:go-%s#%d:closes-on-every-exit", fname(f), callee.Name(), k), "every return of the producer is behind the close",
					"the goroutine "+callee.Name()+" can return without closing the channel its starter ranges over: the request never finishes (and keeps its throttle slot: with throttling on, every later throttled request gets 503)", w.pos(g.Pos()), w.renderPath(p)...)
			}
		}
	}
	r.check(n >= 3, "repo:ranged-producers", fmt.Sprintf("%d", n), "fewer producers than expected: rule needs review", "-")
}

// ---------------------------------------------------------------------------------------------
// R20.47 — stored or posted text is never a format string

func init() {
	register(ruleDef{ID: "R20.47", Prop: "C20", Tier: "quick", Floor: 1,
		Title: "stored or posted text is never a format string: in the server, datastore and datatype packages every call of fmt.Fprintf, fmt.Sprintf, fmt.Errorf and of the repository's own printf-style helpers (BadRequest, the dvid log functions) that passes no arguments after the format passes a constant format (text that came from a request or the store, used as the format, turns every % into garbage — a note \"100%\" reads back as broken JSON)",
		Fn:    ruleNoDataAsFormat})
}

func ruleNoDataAsFormat(r *Run) {
	w := r.W
	n := 0
	for _, f := range w.RepoFuncs {
		p := relPkg(pkgPathOf(f))
		if !(p == "server" || p == "datastore" || strings.HasPrefix(p, "datatype/")) || len(f.Blocks) == 0 || isTestFunc(w, f) {
			continue
		}
		k := 0
		for _, c := range calls(f) {
			callee := staticCallee(c)
			if callee == nil || callee.Pkg == nil || callee.Pkg.Pkg.Path() != "fmt" {
				continue
			}
			fi := -1
			switch callee.Name() {
			case "Fprintf":
				fi = 1
			case "Sprintf", "Errorf", "Printf":
				fi = 0
			}
			args := c.Common().Args
			if fi < 0 || fi+1 >= len(args) {
				continue
			}
			// Fprintf to an http.ResponseWriter or any writer alike
			n++
			format := args[fi]
			if _, isConst := format.(*ssa.Const); isConst {
				continue
			}
			// arguments after the format?
			va := args[fi+1]
			noArgs := false
			if cst, ok := va.(*ssa.Const); ok && cst.IsNil() {
				noArgs = true
			}
			if !noArgs {
				continue // a computed format with arguments is a (rare) deliberate format
			}
			// constant pieces joined at run time with data are still data
			k++
			r.violation(fmt.Sprintf("%s:%s#%d:constant-format", fname(f), callee.Name(), k),
				"a run-time string is used as the format of "+callee.Name()+" with no arguments: a % in it (a note, alias, description or log line a client posted) is expanded into %!d(MISSING)-style text — what is read back is not what was stored, and JSON built this way does not parse", w.pos(c.Pos()))
		}
	}
	r.check(n >= 20, "repo:printf-calls", fmt.Sprintf("%d", n), "too few: rule needs review", "-")
}

// ---------------------------------------------------------------------------------------------
// R20.48 — an index by a parameter under an explicitly released lock
// R20.49 — a length computed in 8- or 16-bit arithmetic
// R20.50 — a loop counter of a narrow unsigned type with an inclusive bound

func init() {
	register(ruleDef{ID: "R20.48", Prop: "C20", Tier: "quick", Floor: 1,
		Title: "an index that can be out of range does not run under a lock only an explicit Unlock releases: in the datastore, server and datatype packages a slice indexed by a value that comes from a parameter, with no comparison of that value with the slice's length before it, is not indexed between a Lock and its explicit, non-deferred Unlock (the HTTP layer recovers the panic, the lock stays held, every later request on the object blocks)",
		Fn:    ruleParamIndexUnderLock})
	register(ruleDef{ID: "R20.49", Prop: "C20", Tier: "quick", Floor: 1,
		Title: "a length is not computed in 8- or 16-bit arithmetic: no make() in the datastore, server and datatype packages takes a length or capacity that is the result of an addition or multiplication carried out in uint8, int8, uint16 or int16 (MaxDownresLevel 255 + 1 wraps to 0: the table of per-scale counters is empty and the first write panics with the instance's mutex held)",
		Fn:    ruleNoNarrowLength})
	register(ruleDef{ID: "R20.50", Prop: "C20", Tier: "quick", Floor: 1,
		Title: "a loop over scales ends: no loop in the data types counts a uint8 or uint16 variable up to and including a bound of the same type that is not a constant below the type's maximum (i <= max never becomes false when max is 255: the loop spins for ever, with the lock it holds)",
		Fn:    ruleNarrowInclusiveLoop})
}

func inHandlerPkgs(f *ssa.Function) bool {
	p := relPkg(pkgPathOf(f))
	return strings.HasPrefix(p, "datatype/") || p == "datastore" || p == "server"
}

func ruleParamIndexUnderLock(r *Run) {
	w := r.W
	nLocked, nIdx := 0, 0
	for _, f := range w.RepoFuncs {
		if len(f.Blocks) == 0 || isTestFunc(w, f) || !inHandlerPkgs(f) {
			continue
		}
		keys := map[string]string{}
		deferred := map[string]bool{}
		for _, b := range f.Blocks {
			for _, in := range b.Instrs {
				if op, ok := asLockOp(in); ok && op.lock {
					keys[op.key] = op.name
				}
				if d, ok := in.(*ssa.Defer); ok {
					if callee := d.Call.StaticCallee(); callee != nil && strings.HasPrefix(callee.String(), "(*sync.") && (callee.Name() == "Unlock" || callee.Name() == "RUnlock") && len(d.Call.Args) > 0 {
						k, _, _ := mutexKey(d.Call.Args[0])
						deferred[k] = true
					}
				}
			}
		}
		if len(keys) == 0 {
			continue
		}
		nLocked++
		k := 0
		seen := map[string]bool{}
		for _, b := range f.Blocks {
			for _, in := range b.Instrs {
				ia, ok := in.(*ssa.IndexAddr)
				if !ok {
					continue
				}
				if _, isSlice := ia.X.Type().Underlying().(*types.Slice); !isSlice {
					continue
				}
				idx := stripConv(ia.Index)
				prm, ok := idx.(*ssa.Parameter)
				if !ok {
					continue
				}
				for key, name := range keys {
					if deferred[key] {
						continue
					}
					held, _ := heldKeyAt(f, in, key)
					if !held {
						continue
					}
					id := prm.Name() + "/" + name + "/" + placeKey(ia.X)
					if seen[id] {
						continue
					}
					seen[id] = true
					nIdx++
					k++
					// a comparison of the parameter with the slice's length before the index
					safe := false
					for _, b2 := range f.Blocks {
						ifi, isIf := b2.Instrs[len(b2.Instrs)-1].(*ssa.If)
						if !isIf || !b2.Dominates(b) {
							continue
						}
						bo, isBo := ifi.Cond.(*ssa.BinOp)
						if !isBo {
							continue
						}
						if stripConv(bo.X) == ssa.Value(prm) && lenOf(stripConv(bo.Y)) != nil || stripConv(bo.Y) == ssa.Value(prm) && lenOf(stripConv(bo.X)) != nil {
							safe = true
						}
					}
					r.check(safe, fmt.Sprintf("%s:index-by-%s#%d:under-%s", fname(f), prm.Name(), k, name), "the index is compared with the length first",
						"a slice is indexed by the parameter "+prm.Name()+", unchecked, while "+name+" is held and only an explicit Unlock releases it: an index past the end panics, the HTTP layer recovers, the lock is never released — the next request that needs it hangs", w.pos(ia.Pos()))
				}
			}
		}
	}
	r.check(nLocked >= 20, "repo:locking-functions-indexing", fmt.Sprintf("%d locking functions examined, %d parameter indexes inside explicitly released sections", nLocked, nIdx), "too few: rule needs review", "-")
}

func isNarrowInt(t types.Type) bool {
	b, ok := t.Underlying().(*types.Basic)
	if !ok {
		return false
	}
	switch b.Kind() {
	case types.Uint8, types.Int8, types.Uint16, types.Int16:
		return true
	}
	return false
}

func ruleNoNarrowLength(r *Run) {
	w := r.W
	n := 0
	for _, f := range w.RepoFuncs {
		if len(f.Blocks) == 0 || isTestFunc(w, f) || !inHandlerPkgs(f) {
			continue
		}
		k := 0
		for _, b := range f.Blocks {
			for _, in := range b.Instrs {
				ms, ok := in.(*ssa.MakeSlice)
				if !ok {
					continue
				}
				n++
				for _, lv := range []ssa.Value{ms.Len, ms.Cap} {
					if lv == nil {
						continue
					}
					v := lv
					for {
						if cv, ok := v.(*ssa.Convert); ok {
							v = cv.X
							continue
						}
						break
					}
					bo, ok := v.(*ssa.BinOp)
					if !ok || !(bo.Op == token.ADD || bo.Op == token.MUL || bo.Op == token.SHL) || !isNarrowInt(bo.Type()) {
						continue
					}
					if _, isC := bo.X.(*ssa.Const); isC {
						if _, isC2 := bo.Y.(*ssa.Const); isC2 {
							continue
						}
					}
					k++
					r.violation(fmt.Sprintf("%s:make#%d:length-in-%s", fname(f), k, bo.Type().String()),
						"the length of a make() is computed in "+bo.Type().String()+" arithmetic: at the top of the type's range it wraps (255+1 = 0) and the slice is far too short — the first index into it panics", w.pos(ms.Pos()))
				}
			}
		}
	}
	r.check(n >= 100, "repo:make-slices", fmt.Sprintf("%d make() examined", n), "too few: rule needs review", "-")
}

func ruleNarrowInclusiveLoop(r *Run) {
	w := r.W
	n, loops := 0, 0
	for _, f := range w.RepoFuncs {
		if len(f.Blocks) == 0 || isTestFunc(w, f) || !inHandlerPkgs(f) {
			continue
		}
		k := 0
		for _, b := range f.Blocks {
			for _, in := range b.Instrs {
				phi, ok := in.(*ssa.Phi)
				if !ok || !isNarrowInt(phi.Type()) {
					continue
				}
				bt := phi.Type().Underlying().(*types.Basic)
				if bt.Kind() != types.Uint8 && bt.Kind() != types.Uint16 {
					continue
				}
				counts := false
				for _, e := range phi.Edges {
					if bo, ok := e.(*ssa.BinOp); ok && bo.Op == token.ADD && bo.X == ssa.Value(phi) {
						if c, ok := constInt(bo.Y); ok && c == 1 {
							counts = true
						}
					}
				}
				if !counts {
					continue
				}
				loops++
				for _, ref := range *phi.Referrers() {
					bo, ok := ref.(*ssa.BinOp)
					if !ok || bo.Op != token.LEQ || bo.X != ssa.Value(phi) {
						continue
					}
					// decides the loop?
					decides := false
					for _, ref2 := range *bo.Referrers() {
						if _, isIf := ref2.(*ssa.If); isIf {
							decides = true
						}
					}
					if !decides {
						continue
					}
					n++
					k++
					max := int64(255)
					if bt.Kind() == types.Uint16 {
						max = 65535
					}
					c, isConst := constInt(bo.Y)
					r.check(isConst && c < max, fmt.Sprintf("%s:counter-%s#%d:bound-below-type-max", fname(f), phi.Comment, k), "the inclusive bound is a constant below the type's maximum",
						"the loop counts a "+bt.Name()+" up to and including a bound that can be the type's maximum: the condition is then always true, the counter wraps to 0 and the loop never ends (with the locks it holds)", w.pos(bo.Pos()))
				}
			}
		}
	}
	r.check(loops >= 3, "repo:narrow-counters", fmt.Sprintf("%d narrow unsigned loop counters, %d with an inclusive bound", loops, n), "too few: rule needs review", "-")
}

// ---------------------------------------------------------------------------------------------
// Round f, second batch (C13)

func init() {
	register(ruleDef{ID: "R13.24", Prop: "C13", Tier: "quick", Floor: 1,
		Title: "the by-position table holds every new element: in the annotation package, where a loop over the posted elements fills a local map that a later comma-ok lookup consults (which stored elements were replaced?), the store into the map lies on every path through the loop body — an element skipped there is taken for not replaced, and the tags it lost keep listing it",
		Fn:    rulePositionTableComplete})
	register(ruleDef{ID: "R13.25", Prop: "C13", Tier: "quick", Floor: 1,
		Title: "the block view of a move is committed before the partner pass re-reads it: in MoveElement every path to the call that moves the references held by partner elements (moveElementInRelationships, which reads the partners' blocks from the store) passes a Commit of the batch that holds the moved element's blocks",
		Fn:    ruleMoveCommitsBeforePartners})
	register(ruleDef{ID: "R13.26", Prop: "C13", Tier: "quick", Floor: 2,
		Title: "a move is reported with the position it left and the position it took: in annotation functions that take the two positions of a move, every element appended to the Del list of the delta sent to subscribers carries the first position (from), every element appended to Add the second — a subscriber that filters by position (labelsz with a ROI) counts by them",
		Fn:    ruleMoveDeltaPositions})
}

func rulePositionTableComplete(r *Run) {
	w := r.W
	n := 0
	for _, f := range w.RepoFuncs {
		if relPkg(pkgPathOf(f)) != "datatype/annotation" || len(f.Blocks) == 0 || isTestFunc(w, f) {
			continue
		}
		k := 0
		for _, b := range f.Blocks {
			for _, in := range b.Instrs {
				mu, ok := in.(*ssa.MapUpdate)
				if !ok {
					continue
				}
				mk, ok := mu.Map.(*ssa.MakeMap)
				if !ok {
					continue
				}
				h, set, _ := innermostLoop(f, b)
				if set == nil {
					continue
				}
				// the loop ranges over a parameter (the posted elements)
				overParam := false
				for _, x := range h.Instrs {
					if nx, ok := x.(*ssa.Next); ok {
						_ = nx
					}
				}
				for blk := range set {
					for _, x := range blk.Instrs {
						if ia, ok := x.(*ssa.IndexAddr); ok {
							if _, isP := ia.X.(*ssa.Parameter); isP {
								overParam = true
							}
						}
					}
				}
				if !overParam {
					continue
				}
				// consulted later with a comma-ok lookup outside this loop
				consulted := false
				for _, ref := range *mk.Referrers() {
					if lk, ok := ref.(*ssa.Lookup); ok && lk.CommaOk && !set[lk.Block()] {
						consulted = true
					}
				}
				if !consulted {
					continue
				}
				n++
				k++
				inLoop := func(blk *ssa.BasicBlock, i int) bool { return set[blk.Succs[i]] }
				var from ssa.Instruction
				for _, x := range h.Instrs {
					if _, isPhi := x.(*ssa.Phi); !isPhi {
						from = x
						break
					}
				}
				p := findPath(f, from, func(x ssa.Instruction) bool { return x == ssa.Instruction(mu) }, func(x ssa.Instruction) bool { return x == from }, inLoop)
				r.check(p == nil, fmt.Sprintf("%s:position-table#%d:filled-for-every-element", fname(f), k), "every pass through the loop body stores the element into the table",
					"the loop can go on to the next posted element without entering the current one into the by-position table: a stored element it replaces is then not compared with it, and the tags the replacement dropped keep listing the element", w.pos(mu.Pos()), w.renderPath(p)...)
			}
		}
	}
	r.check(n >= 1, "annotation:position-tables", fmt.Sprintf("%d", n), "no by-position table found: rule needs review", "-")
}

func ruleMoveCommitsBeforePartners(r *Run) {
	w := r.W
	f := w.method("datatype/annotation", "Data", "MoveElement")
	if f == nil {
		r.undecided("annotation.Data.MoveElement", "anchor not found")
		return
	}
	var partners ssa.Instruction
	for _, c := range calls(f) {
		if callee := staticCallee(c); callee != nil && callee.Name() == "moveElementInRelationships" {
			partners = c
		}
	}
	if !r.check(partners != nil, "MoveElement:partner-pass", "found", "the call of moveElementInRelationships was not found: rule needs review", w.fpos(f)) {
		return
	}
	isCommit := func(x ssa.Instruction) bool {
		c, ok := x.(ssa.CallInstruction)
		return ok && c.Common().IsInvoke() && c.Common().Method.Name() == "Commit"
	}
	p := findPath(f, nil, isCommit, func(x ssa.Instruction) bool { return x == partners }, nil)
	r.check(p == nil, "MoveElement:blocks-committed-before-partner-pass", "every path to the partner pass commits the block batch first",
		"the partner pass can start with the moved element's blocks still queued in the batch: it re-reads the destination block from the store without the moved element and queues it again, so the later Put overrides the earlier — an element moved into the block of a related partner disappears from the block view while tags and partners still point at it", w.pos(partners.Pos()), w.renderPath(p)...)
}

func ruleMoveDeltaPositions(r *Run) {
	w := r.W
	n := 0
	for _, f := range w.RepoFuncs {
		if relPkg(pkgPathOf(f)) != "datatype/annotation" || len(f.Blocks) == 0 || isTestFunc(w, f) {
			continue
		}
		var pts []*ssa.Parameter
		for _, p := range f.Params {
			if typeIs(p.Type(), "dvid", "Point3d") {
				pts = append(pts, p)
			}
		}
		if len(pts) != 2 {
			continue
		}
		k := 0
		for _, c := range calls(f) {
			cv, ok := c.(*ssa.Call)
			if !ok {
				continue
			}
			bi, ok := cv.Call.Value.(*ssa.Builtin)
			if !ok || bi.Name() != "append" || len(cv.Call.Args) != 2 {
				continue
			}
			// which list
			list := ""
			for _, ref := range *cv.Referrers() {
				if st, ok := ref.(*ssa.Store); ok {
					if fa, ok := st.Addr.(*ssa.FieldAddr); ok {
						if nm, _, _ := fieldName(fa); nm == "Del" || nm == "Add" {
							list = nm
						}
					}
				}
			}
			if list == "" {
				continue
			}
			// the appended element's Pos
			var posVals []ssa.Value
			sl, ok := cv.Call.Args[1].(*ssa.Slice)
			if !ok {
				continue
			}
			arr, ok := sl.X.(*ssa.Alloc)
			if !ok {
				continue
			}
			for _, ref := range *arr.Referrers() {
				ia, ok := ref.(*ssa.IndexAddr)
				if !ok {
					continue
				}
				for _, ref2 := range *ia.Referrers() {
					switch x := ref2.(type) {
					case *ssa.FieldAddr:
						if nm, _, _ := fieldName(x); nm == "Pos" {
							for _, ref3 := range *x.Referrers() {
								if st, ok := ref3.(*ssa.Store); ok && st.Addr == ssa.Value(x) {
									posVals = append(posVals, st.Val)
								}
							}
						}
					case *ssa.Store:
						if x.Addr != ssa.Value(ia) {
							continue
						}
						// whole struct stored: a load of a local ElementPos
						if u, ok := x.Val.(*ssa.UnOp); ok {
							if al, ok := u.X.(*ssa.Alloc); ok {
								for _, ref3 := range *al.Referrers() {
									if fa, ok := ref3.(*ssa.FieldAddr); ok {
										if nm, _, _ := fieldName(fa); nm == "Pos" {
											for _, ref4 := range *fa.Referrers() {
												if st, ok := ref4.(*ssa.Store); ok && st.Addr == ssa.Value(fa) {
													posVals = append(posVals, st.Val)
												}
											}
										}
									}
								}
							}
						}
					}
				}
			}
			if len(posVals) == 0 {
				continue
			}
			n++
			k++
			want := pts[0]
			other := pts[1]
			if list == "Add" {
				want, other = pts[1], pts[0]
			}
			good := true
			for _, pv := range posVals {
				v := stripConv(pv)
				if v == ssa.Value(other) {
					good = false
				}
				if list == "Del" && v != ssa.Value(want) {
					good = false
				}
			}
			r.check(good, fmt.Sprintf("%s:delta.%s#%d:position", fname(f), list, k), "the entry carries the "+want.Name()+" position",
				"an entry appended to delta."+list+" does not carry the position "+want.Name()+": a subscriber that filters by position (labelsz restricted to a ROI) subtracts or adds the element on the wrong side of its boundary, and its counts drift from the label view", w.pos(cv.Pos()))
		}
	}
	r.check(n >= 2, "annotation:move-delta-entries", fmt.Sprintf("%d", n), "fewer entries than expected: rule needs review", "-")
}

// ---------------------------------------------------------------------------------------------
// R16.25 — both query paths match against the query they were given
// R5.19 / R1.20 — every stored version of a key reaches the resolver

func init() {
	register(ruleDef{ID: "R16.25", Prop: "C16", Tier: "quick", Floor: 2,
		Title: "both query paths match against the query they were given: in neuronjson every call of queryMatch passes the ListQueryJSON parameter of the enclosing query function itself (directly or captured by the closure), never a list computed from it — the in-memory head and the store answer the same query",
		Fn:    ruleQueryListUnfiltered})
	reg := func(id, prop string) {
		register(ruleDef{ID: id, Prop: prop, Tier: "quick", Floor: 1,
			Title: "every stored version of a key reaches the resolver: in an ordered back end's versioned scan, a key-value read from the iterator is appended to the pending group on every path that goes on to the next key — also tombstones and also in keys-only mode (a deletion left out of the group lets the ancestor's value answer the listing while the point read finds the key deleted)",
			Fn:    ruleScanKeepsEveryVersion})
	}
	reg("R5.19", "C05")
	reg("R1.20", "C01")
}

func ruleQueryListUnfiltered(r *Run) {
	w := r.W
	n := 0
	for _, f := range w.RepoFuncs {
		if relPkg(pkgPathOf(f)) != "datatype/neuronjson" || len(f.Blocks) == 0 || isTestFunc(w, f) {
			continue
		}
		k := 0
		for _, c := range calls(f) {
			callee := staticCallee(c)
			if callee == nil || callee.Name() != "queryMatch" {
				continue
			}
			n++
			k++
			a := stripConv(c.Common().Args[0])
			if u, ok := a.(*ssa.UnOp); ok && u.Op == token.MUL {
				if fv, ok := u.X.(*ssa.FreeVar); ok {
					a = fv
				}
			}
			good := false
			switch x := a.(type) {
			case *ssa.Parameter:
				good = typeIs(x.Type(), "datatype/neuronjson", "ListQueryJSON")
			case *ssa.FreeVar:
				// bound to the parent's parameter
				if p := f.Parent(); p != nil {
					for _, b := range p.Blocks {
						for _, in := range b.Instrs {
							mc, ok := in.(*ssa.MakeClosure)
							if !ok || mc.Fn != ssa.Value(f) {
								continue
							}
							for i, fv := range f.FreeVars {
								if fv == x && i < len(mc.Bindings) {
									if bp, ok := stripConv(mc.Bindings[i]).(*ssa.Parameter); ok && typeIs(bp.Type(), "datatype/neuronjson", "ListQueryJSON") {
										good = true
									}
									// captured by reference: the cell holds the parameter and nothing else is stored into it
									if cell, ok := mc.Bindings[i].(*ssa.Alloc); ok {
										stores, fromParam := 0, 0
										for _, ref := range *cell.Referrers() {
											if st, ok := ref.(*ssa.Store); ok && st.Addr == ssa.Value(cell) {
												stores++
												if bp, ok := stripConv(st.Val).(*ssa.Parameter); ok && typeIs(bp.Type(), "datatype/neuronjson", "ListQueryJSON") {
													fromParam++
												}
											}
										}
										if stores == 1 && fromParam == 1 {
											good = true
										}
									}
								}
							}
						}
					}
				}
			}
			r.check(good, fmt.Sprintf("%s:queryMatch#%d:the-query-as-given", fname(f), k), "the matcher gets the query list the function was given",
				"the matcher is handed a list computed from the query instead of the query itself: one of the two paths (in-memory head, store) answers a narrowed or altered query — a condition such as exists/0 on a field no annotation holds matches everything in the store and nothing in memory", w.pos(c.Pos()))
		}
	}
	r.check(n >= 2, "neuronjson:queryMatch-calls", fmt.Sprintf("%d", n), "fewer calls than expected: rule needs review", "-")
}

func ruleScanKeepsEveryVersion(r *Run) {
	w := r.W
	n := 0
	for _, f := range w.RepoFuncs {
		if !strings.HasPrefix(relPkg(pkgPathOf(f)), "storage/") || len(f.Blocks) == 0 || isTestFunc(w, f) {
			continue
		}
		// a scan that groups versions: it appends freshly allocated *storage.KeyValue to a slice and hands
		// such slices to the resolver (a function that calls VersionedKeyValue)
		root := f
		for root.Parent() != nil {
			root = root.Parent()
		}
		if !strings.Contains(strings.ToLower(root.Name()), "versioned") {
			continue
		}
		k := 0
		for _, b := range f.Blocks {
			for _, in := range b.Instrs {
				al, ok := in.(*ssa.Alloc)
				if !ok || !al.Heap || !typeIs(al.Type().(*types.Pointer).Elem(), "storage", "KeyValue") {
					continue
				}
				h, set, _ := innermostLoop(f, b)
				if set == nil {
					continue
				}
				// is it appended somewhere in the loop?
				var appends []ssa.Instruction
				for blk := range set {
					for _, x := range blk.Instrs {
						c, ok := x.(*ssa.Call)
						if !ok {
							continue
						}
						bi, ok := c.Call.Value.(*ssa.Builtin)
						if !ok || bi.Name() != "append" || len(c.Call.Args) != 2 {
							continue
						}
						for d := range dataDeps(c.Call.Args[1]) {
							if d == ssa.Value(al) {
								appends = append(appends, c)
							}
						}
						if sl, ok := c.Call.Args[1].(*ssa.Slice); ok {
							if arr, ok := sl.X.(*ssa.Alloc); ok {
								for _, ref := range *arr.Referrers() {
									if ia, ok := ref.(*ssa.IndexAddr); ok {
										for _, ref2 := range *ia.Referrers() {
											if st, ok := ref2.(*ssa.Store); ok && st.Val == ssa.Value(al) {
												appends = append(appends, c)
											}
										}
									}
								}
							}
						}
					}
				}
				if len(appends) == 0 {
					continue
				}
				n++
				k++
				isAppend := func(x ssa.Instruction) bool {
					for _, a := range appends {
						if a == x {
							return true
						}
					}
					return false
				}
				inLoop := func(blk *ssa.BasicBlock, i int) bool { return set[blk.Succs[i]] }
				var head ssa.Instruction
				for _, x := range h.Instrs {
					if _, isPhi := x.(*ssa.Phi); !isPhi {
						head = x
						break
					}
				}
				p := findPath(f, al, isAppend, func(x ssa.Instruction) bool { return x == head }, inLoop)
				r.check(p == nil, fmt.Sprintf("%s:scan#%d:every-version-joins-its-group", fname(f), k), "a key read from the iterator is appended to the group before the next key is read",
					"the scan can go on to the next key without appending the one just read to the pending group: the resolver decides from an incomplete set of versions — with a deletion left out, the listing returns a key the point read reports deleted", w.pos(al.Pos()), w.renderPath(p)...)
			}
		}
	}
	r.check(n >= 1, "storage:versioned-scans", fmt.Sprintf("%d", n), "no versioned scan found: rule needs review", "-")
}

// ---------------------------------------------------------------------------------------------
// R11.30 / R20.51 — one acquisition order per pair of lock classes

func init() {
	reg := func(id, prop string) {
		register(ruleDef{ID: id, Prop: prop, Tier: "quick", Floor: 5,
			Title: "one acquisition order per pair of mutexes: over the datastore, server, storage and datatype packages, if some function acquires mutex class B (owner type and field, or package-level mutex) while it holds class A — directly or through calls followed three levels deep — then no function acquires A while it holds B (two requests taking the pair in opposite orders block each other for ever, and with them every later request that needs either)",
			Fn:    ruleLockOrderPairs})
	}
	reg("R11.30", "C11")
	reg("R20.51", "C20")
}

func lockClassOf(in ssa.Instruction, op lockOp) string {
	c, ok := in.(*ssa.Call)
	if !ok || len(c.Call.Args) == 0 {
		return ""
	}
	a := c.Call.Args[0]
	if ia, ok := a.(*ssa.IndexAddr); ok {
		a = ia.X
		if g, ok := a.(*ssa.Global); ok {
			return relPkg(g.Pkg.Pkg.Path()) + "." + g.Name() + "[]"
		}
	}
	switch x := a.(type) {
	case *ssa.FieldAddr:
		if nm := namedOf(x.X.Type()); nm != nil && nm.Obj().Pkg() != nil {
			return relPkg(nm.Obj().Pkg().Path()) + "." + nm.Obj().Name() + "." + op.name
		}
	case *ssa.Global:
		return relPkg(x.Pkg.Pkg.Path()) + "." + x.Name()
	case *ssa.UnOp:
		if fa, ok := x.X.(*ssa.FieldAddr); ok {
			if nm := namedOf(fa.X.Type()); nm != nil && nm.Obj().Pkg() != nil {
				return relPkg(nm.Obj().Pkg().Path()) + "." + nm.Obj().Name() + "." + op.name
			}
		}
	}
	return ""
}

func ruleLockOrderPairs(r *Run) {
	w := r.W
	inScope := func(f *ssa.Function) bool {
		if len(f.Blocks) == 0 || isTestFunc(w, f) {
			return false
		}
		p := relPkg(pkgPathOf(f))
		return strings.HasPrefix(p, "datatype/") || p == "datastore" || p == "server" || strings.HasPrefix(p, "storage")
	}
	// classes a function acquires, transitively (depth-limited)
	direct := map[*ssa.Function]map[string]bool{}
	for _, f := range w.RepoFuncs {
		if !inScope(f) {
			continue
		}
		for _, b := range f.Blocks {
			for _, in := range b.Instrs {
				if op, ok := asLockOp(in); ok && op.lock {
					if cl := lockClassOf(in, op); cl != "" {
						if direct[f] == nil {
							direct[f] = map[string]bool{}
						}
						direct[f][cl] = true
					}
				}
			}
		}
	}
	memo := map[*ssa.Function]map[string]bool{}
	var acquired func(f *ssa.Function, depth int) map[string]bool
	acquired = func(f *ssa.Function, depth int) map[string]bool {
		if m, ok := memo[f]; ok && depth == 0 {
			return m
		}
		out := map[string]bool{}
		for cl := range direct[f] {
			out[cl] = true
		}
		if depth < 3 && inScope(f) {
			for _, c := range calls(f) {
				if _, isGo := c.(*ssa.Go); isGo {
					continue
				}
				if callee := staticCallee(c); callee != nil && callee != f && inScope(callee) {
					for cl := range acquired(callee, depth+1) {
						out[cl] = true
					}
				}
			}
		}
		if depth == 0 {
			memo[f] = out
		}
		return out
	}
	type edge struct{ a, b string }
	where := map[edge]string{}
	for _, f := range w.RepoFuncs {
		if !inScope(f) {
			continue
		}
		// lock ops of f by class
		type acq struct {
			in ssa.Instruction
			op lockOp
			cl string
		}
		var acqs []acq
		for _, b := range f.Blocks {
			for _, in := range b.Instrs {
				if op, ok := asLockOp(in); ok && op.lock {
					if cl := lockClassOf(in, op); cl != "" {
						acqs = append(acqs, acq{in, op, cl})
					}
				}
			}
		}
		if len(acqs) == 0 {
			continue
		}
		heldClasses := func(at ssa.Instruction) []string {
			var out []string
			seen := map[string]bool{}
			for _, a := range acqs {
				if seen[a.op.key] {
					continue
				}
				seen[a.op.key] = true
				if h, _ := heldKeyAt(f, at, a.op.key); h {
					out = append(out, a.cl)
				}
			}
			return out
		}
		for _, a := range acqs {
			for _, h := range heldClasses(a.in) {
				if h != a.cl {
					e := edge{h, a.cl}
					if _, ok := where[e]; !ok {
						where[e] = fname(f) + " at " + w.pos(a.in.Pos())
					}
				}
			}
		}
		for _, c := range calls(f) {
			if _, isGo := c.(*ssa.Go); isGo {
				continue
			}
			if _, isDefer := c.(*ssa.Defer); isDefer {
				continue
			}
			callee := staticCallee(c)
			if callee == nil || !inScope(callee) {
				continue
			}
			inner := acquired(callee, 1)
			if len(inner) == 0 {
				continue
			}
			for _, h := range heldClasses(c) {
				for cl := range inner {
					if cl != h {
						e := edge{h, cl}
						if _, ok := where[e]; !ok {
							where[e] = fname(f) + " (calling " + callee.Name() + ") at " + w.pos(c.Pos())
						}
					}
				}
			}
		}
	}
	var edges []edge
	for e := range where {
		edges = append(edges, e)
	}
	sort.Slice(edges, func(i, j int) bool { return edges[i].a+edges[i].b < edges[j].a+edges[j].b })
	n := 0
	for _, e := range edges {
		if e.a > e.b {
			continue
		}
		rev, ok := where[edge{e.b, e.a}]
		if !ok {
			continue
		}
		n++
		construct := "pair:" + e.a + "<>" + e.b
		if reason, exc := r.exceptionFor("R11.30", construct); exc {
			r.check(true, construct, "exception: "+reason, "", "-")
			continue
		}
		r.violation(construct, "the two mutexes are acquired in both orders: "+e.a+" then "+e.b+" in "+where[e]+"; "+e.b+" then "+e.a+" in "+rev+" — two requests on these paths at once can block each other for ever", "-")
	}
	r.check(len(edges) >= 5, "repo:nested-acquisition-orders", fmt.Sprintf("%d ordered pairs of lock classes observed, %d in both orders", len(edges), n), "too few nested acquisitions: rule needs review", "-")
	for _, e := range edges {
		r.check(true, "order:"+e.a+"->"+e.b, where[e], "", "-")
	}
}

// ---------------------------------------------------------------------------------------------
// Round f, third batch (C03, C04, C08)

func init() {
	reg := func(id, prop string) {
		register(ruleDef{ID: id, Prop: prop, Tier: "quick", Floor: 1,
			Title: "a record that ends exactly at the end of the file is complete: in the file log's tail repair (the function that truncates a log), the end of a record — computed from its decoded length — is compared with the file size strictly (end > size means torn); a non-strict comparison cuts the last complete record at the next open",
			Fn:    ruleTornTailStrict})
	}
	reg("R4.15", "C04")
	reg("R3.25", "C03")
	register(ruleDef{ID: "R3.26", Prop: "C03", Tier: "quick", Floor: 1,
		Title: "a mapping is handed out only after its log was replayed: labelmap's initMapping (which creates the in-memory mapping without reading the log) is called by getMapping alone; every other reader goes through getMapping, which replays the logs of the version and its ancestors first",
		Fn:    ruleInitMappingOnlyFromGetMapping})
	reg2 := func(id, prop string) {
		register(ruleDef{ID: id, Prop: prop, Tier: "quick", Floor: 2,
			Title: "the log says what memory says: in labelmap functions that set the in-memory mapping of a supervoxel (setMapping) and log a MappingOp naming that supervoxel in a set built there, the logged Mapped label is the very value given to setMapping — replay after a restart rebuilds the same mapping",
			Fn:    ruleLoggedMappingEqualsSet})
	}
	reg2("R8.18", "C08")
	reg2("R3.27", "C03")
	register(ruleDef{ID: "R8.19", Prop: "C08", Tier: "quick", Floor: 1,
		Title: "no supervoxel stays in an index with zero voxels: in labels.Index.ModifyBlocks a count computed from a delta is stored into SVCount.Counts only behind the edge on which it is not zero (the zero case deletes the entry) — a ghost entry keeps the supervoxel in the body's supervoxel set",
		Fn:    ruleNoZeroCountStored})
	register(ruleDef{ID: "R8.20", Prop: "C08", Tier: "quick", Floor: 1,
		Title: "a merge removes the merged bodies' indices only after the target's index took them: in labelmap MergeLabels every DeleteLabelIndex lies behind the no-error edge of addToLabelIndex, the last step that can refuse the merge",
		Fn:    ruleMergeDeletesAfterAdd})
}

func ruleTornTailStrict(r *Run) {
	w := r.W
	n := 0
	for _, f := range w.RepoFuncs {
		if relPkg(pkgPathOf(f)) != "storage/filelog" || len(f.Blocks) == 0 || isTestFunc(w, f) {
			continue
		}
		truncates := false
		for _, c := range calls(f) {
			if callee := staticCallee(c); callee != nil && callee.Name() == "Truncate" && callee.Pkg != nil && callee.Pkg.Pkg.Path() == "os" {
				truncates = true
			}
		}
		if !truncates {
			continue
		}
		isSize := func(v ssa.Value) bool {
			for d := range dataDeps(v) {
				if c, ok := d.(*ssa.Call); ok && c.Call.IsInvoke() && c.Call.Method.Name() == "Size" {
					return true
				}
			}
			return false
		}
		isDecodedLen := func(v ssa.Value) bool {
			for d := range dataDeps(v) {
				if c, ok := d.(*ssa.Call); ok {
					if c.Call.IsInvoke() && strings.HasPrefix(c.Call.Method.Name(), "Uint") {
						return true
					}
					if callee := c.Call.StaticCallee(); callee != nil && strings.HasPrefix(callee.Name(), "Uint") {
						return true
					}
				}
			}
			return false
		}
		k := 0
		for _, b := range f.Blocks {
			for _, in := range b.Instrs {
				bo, ok := in.(*ssa.BinOp)
				if !ok {
					continue
				}
				switch bo.Op {
				case token.GTR, token.GEQ, token.LSS, token.LEQ:
				default:
					continue
				}
				// inside the record loop (the comparison after it asks another question: is anything left?)
				if _, set, _ := innermostLoop(f, b); set == nil {
					continue
				}
				var strict bool
				switch {
				case isDecodedLen(bo.X) && isSize(bo.Y) && !isDecodedLen(bo.Y):
					strict = bo.Op == token.GTR || bo.Op == token.LEQ // end > size (torn) or end <= size (complete)
				case isSize(bo.X) && isDecodedLen(bo.Y) && !isDecodedLen(bo.X):
					strict = bo.Op == token.LSS || bo.Op == token.GEQ
				default:
					continue
				}
				n++
				k++
				r.check(strict, fmt.Sprintf("%s:record-end-vs-size#%d", fname(f), k), "a record is torn only when it ends beyond the file size",
					"the end of a record is compared with the file size so that a record ending exactly at the end of the file counts as torn: reopening a cleanly closed log for append cuts its last complete record — the mutation is gone after the next restart", w.pos(bo.Pos()))
			}
		}
	}
	r.check(n >= 1, "filelog:record-end-comparisons", fmt.Sprintf("%d", n), "no comparison of a record end with the file size found: rule needs review", "-")
}

func ruleInitMappingOnlyFromGetMapping(r *Run) {
	w := r.W
	target := w.fn("datatype/labelmap", "initMapping")
	if target == nil {
		r.undecided("labelmap.initMapping", "anchor not found")
		return
	}
	n := 0
	for _, c := range callSitesOf(w)[target] {
		p := c.Parent()
		if isTestFunc(w, p) {
			continue
		}
		n++
		r.check(p.Name() == "getMapping", fmt.Sprintf("%s:calls-initMapping", fname(p)), "called by getMapping",
			"initMapping is called outside getMapping: the mapping is handed out (and the version marked as loaded) without its mutation log having been replayed — after a restart every read and mutation at that version sees the mappings of the root only", w.pos(c.Pos()))
	}
	r.check(n >= 1, "labelmap:initMapping-call-sites", fmt.Sprintf("%d", n), "no call site found: rule needs review", "-")
}

func ruleLoggedMappingEqualsSet(r *Run) {
	w := r.W
	n := 0
	for _, f := range w.RepoFuncs {
		if relPkg(pkgPathOf(f)) != "datatype/labelmap" || len(f.Blocks) == 0 || isTestFunc(w, f) {
			continue
		}
		// setMapping(v, key, label)
		type setT struct {
			key, label ssa.Value
			call       ssa.Instruction
		}
		var sets []setT
		var logCalls []ssa.Instruction
		for _, c := range calls(f) {
			if callee := staticCallee(c); callee != nil && callee.Name() == "setMapping" {
				a := c.Common().Args
				if len(a) >= 4 {
					sets = append(sets, setT{a[len(a)-2], a[len(a)-1], c})
				}
			}
			if callee := staticCallee(c); callee != nil && callee.Name() == "LogMapping" {
				logCalls = append(logCalls, c)
			}
		}
		if len(sets) == 0 {
			continue
		}
		k := 0
		// the literal may be built by a helper that logs it (logMappedSet(d, v, mutID, label, set)): the helper's
		// parameters stored into Mapped and Original stand for the literal's fields at each call
		for _, c := range calls(f) {
			g := staticCallee(c)
			if g == nil || g == f || len(g.Blocks) == 0 || relPkg(pkgPathOf(g)) != "datatype/labelmap" {
				continue
			}
			pm, po := -1, -1
			logs := false
			for _, gc := range calls(g) {
				if callee := staticCallee(gc); callee != nil && callee.Name() == "LogMapping" {
					logs = true
				}
			}
			if !logs {
				continue
			}
			for _, gb := range g.Blocks {
				for _, gin := range gb.Instrs {
					st, ok := gin.(*ssa.Store)
					if !ok {
						continue
					}
					fa, ok := st.Addr.(*ssa.FieldAddr)
					if !ok || !typeIs(fa.X.Type(), "datatype/common/labels", "MappingOp") {
						continue
					}
					nm, _, _ := fieldName(fa)
					for i, prm := range g.Params {
						if stripConv(st.Val) == ssa.Value(prm) {
							if nm == "Mapped" {
								pm = i
							}
							if nm == "Original" {
								po = i
							}
						}
					}
				}
			}
			if pm < 0 || po < 0 || len(c.Common().Args) != len(g.Params) {
				continue
			}
			mapped := c.Common().Args[pm]
			var keys []ssa.Value
			for _, rv := range roots(c.Common().Args[po], f) {
				mk, ok := rv.V.(*ssa.MakeMap)
				if !ok {
					continue
				}
				for _, ref3 := range *mk.Referrers() {
					if mu, ok := ref3.(*ssa.MapUpdate); ok && mu.Map == ssa.Value(mk) {
						keys = append(keys, mu.Key)
					}
				}
			}
			for _, key := range keys {
				for _, s := range sets {
					sameKey := stripConv(s.key) == stripConv(key)
					if n1, ok1 := fieldSel(s.key); ok1 {
						if n2, ok2 := fieldSel(key); ok2 && n1 == n2 {
							sameKey = true
						}
					}
					if !sameKey {
						continue
					}
					n++
					k++
					same := stripConv(s.label) == stripConv(mapped) || sameRoots(s.label, mapped, f)
					r.check(same, fmt.Sprintf("%s:logged-mapping#%d", fname(f), k), "the logged label is the label set in memory",
						"a supervoxel is mapped to one label in memory and logged with another: the mapping is right until the next restart and wrong after it (replay follows the log)", w.pos(c.Pos()))
					logCall := c.(ssa.Instruction)
					pth := findPath(f, s.call, func(x ssa.Instruction) bool { return x == logCall }, successExit, nil)
					r.check(pth == nil, fmt.Sprintf("%s:logged-mapping#%d:on-every-success-path", fname(f), k), "every success return behind the in-memory mapping lies behind its log entry",
						"a success return can be reached from the in-memory mapping of this supervoxel without the call that logs it: the running server answers with the mapping, the restarted one — which rebuilds the mapping from the log — does not", w.pos(s.call.Pos()), w.renderPath(pth)...)
				}
			}
		}
		// MappingOp literals: stores into the Mapped field of a local MappingOp, with the set stored into Original
		for _, b := range f.Blocks {
			for _, in := range b.Instrs {
				st, ok := in.(*ssa.Store)
				if !ok {
					continue
				}
				fa, ok := st.Addr.(*ssa.FieldAddr)
				if !ok || !typeIs(fa.X.Type(), "datatype/common/labels", "MappingOp") {
					continue
				}
				if nm, _, _ := fieldName(fa); nm != "Mapped" {
					continue
				}
				mapped := st.Val
				// the Original stored into the same literal
				var keys []ssa.Value
				for _, ref := range *fa.X.Referrers() {
					fa2, ok := ref.(*ssa.FieldAddr)
					if !ok {
						continue
					}
					if nm, _, _ := fieldName(fa2); nm != "Original" {
						continue
					}
					for _, ref2 := range *fa2.Referrers() {
						st2, ok := ref2.(*ssa.Store)
						if !ok || st2.Addr != ssa.Value(fa2) {
							continue
						}
						// a variable assigned several literals is built in place: the Original that belongs to
						// this Mapped is the one stored next to it (same block, no other Mapped store between)
						if st2.Block() != st.Block() || !adjacentFieldStores(st, st2, "Mapped") {
							continue
						}
						for _, rv := range roots(st2.Val, f) {
							mk, ok := rv.V.(*ssa.MakeMap)
							if !ok {
								continue
							}
							for _, ref3 := range *mk.Referrers() {
								if mu, ok := ref3.(*ssa.MapUpdate); ok && mu.Map == ssa.Value(mk) {
									keys = append(keys, mu.Key)
								}
							}
						}
					}
				}
				for _, key := range keys {
					for _, s := range sets {
						sameKey := stripConv(s.key) == stripConv(key)
						if n1, ok1 := fieldSel(s.key); ok1 {
							if n2, ok2 := fieldSel(key); ok2 && n1 == n2 {
								sameKey = true
							}
						}
						if !sameKey {
							continue
						}
						n++
						k++
						same := stripConv(s.label) == stripConv(mapped) || sameRoots(s.label, mapped, f)
						r.check(same, fmt.Sprintf("%s:logged-mapping#%d", fname(f), k), "the logged label is the label set in memory",
							"a supervoxel is mapped to one label in memory and logged with another: the mapping is right until the next restart and wrong after it (replay follows the log)", w.pos(st.Pos()))
						// the call that logs this literal: the LogMapping behind this Mapped store with no other
						// Mapped store of the same variable in between
						var logCall ssa.Instruction
						for _, lc := range logCalls {
							if !domInstr(st, lc) {
								continue
							}
							shadowed := false
							for _, ref := range *fa.X.Referrers() {
								fa3, ok := ref.(*ssa.FieldAddr)
								if !ok {
									continue
								}
								if nm, _, _ := fieldName(fa3); nm != "Mapped" {
									continue
								}
								for _, ref2 := range *fa3.Referrers() {
									if st3, ok := ref2.(*ssa.Store); ok && st3 != st && domInstr(st, st3) && domInstr(st3, lc) {
										shadowed = true
									}
								}
							}
							if !shadowed {
								logCall = lc
							}
						}
						if logCall != nil {
							pth := findPath(f, s.call, func(x ssa.Instruction) bool { return x == logCall }, successExit, nil)
							r.check(pth == nil, fmt.Sprintf("%s:logged-mapping#%d:on-every-success-path", fname(f), k), "every success return behind the in-memory mapping lies behind its log entry",
								"a success return can be reached from the in-memory mapping of this supervoxel without the call that logs it: the running server answers with the mapping, the restarted one — which rebuilds the mapping from the log — does not", w.pos(s.call.Pos()), w.renderPath(pth)...)
						}
					}
				}
			}
		}
	}
	r.check(n >= 2, "labelmap:logged-mappings-with-literal-sets", fmt.Sprintf("%d", n), "fewer than expected: rule needs review", "-")
}

func ruleNoZeroCountStored(r *Run) {
	w := r.W
	f := w.method("datatype/common/labels", "Index", "ModifyBlocks")
	if f == nil {
		r.undecided("labels.Index.ModifyBlocks", "anchor not found")
		return
	}
	n := 0
	top := f
	for _, f := range withHelpers(top) {
		for _, b := range f.Blocks {
			for _, in := range b.Instrs {
				mu, ok := in.(*ssa.MapUpdate)
				if !ok || !isFieldLoad(mu.Map, "SVCount", "Counts") {
					continue
				}
				// a count computed by arithmetic (old + delta)
				computed := false
				for d := range dataDeps(mu.Value) {
					if bo, ok := d.(*ssa.BinOp); ok && (bo.Op == token.ADD || bo.Op == token.SUB) {
						computed = true
					}
				}
				if !computed {
					continue
				}
				n++
				guarded := false
				for _, b2 := range f.Blocks {
					ifi, isIf := b2.Instrs[len(b2.Instrs)-1].(*ssa.If)
					if !isIf {
						continue
					}
					bo, isBo := ifi.Cond.(*ssa.BinOp)
					if !isBo || stripConv(bo.X) != stripConv(mu.Value) {
						continue
					}
					if z, ok := constInt(bo.Y); !ok || z != 0 {
						continue
					}
					if bo.Op == token.EQL && guardedByEdge(ifi, 1, mu) || bo.Op == token.NEQ && guardedByEdge(ifi, 0, mu) || bo.Op == token.GTR && guardedByEdge(ifi, 0, mu) {
						guarded = true
					}
				}
				r.check(guarded, fmt.Sprintf("ModifyBlocks:computed-count-store#%d", n), "stored only where it is not zero",
					"a count computed from a delta is stored without the zero case having been taken out: a supervoxel whose last voxel in the block was overwritten stays in the body's index with count 0 — it is still listed among the body's supervoxels and can be cleaved into a body of no voxels", w.pos(mu.Pos()))
			}
		}
	}
	r.check(n >= 1, "ModifyBlocks:computed-count-stores", fmt.Sprintf("%d", n), "no computed count store found: rule needs review", w.fpos(f))
}

func ruleMergeDeletesAfterAdd(r *Run) {
	w := r.W
	f := w.method("datatype/labelmap", "Data", "MergeLabels")
	if f == nil {
		r.undecided("labelmap.Data.MergeLabels", "anchor not found")
		return
	}
	var add ssa.Instruction
	for _, c := range calls(f) {
		if callee := staticCallee(c); callee != nil && callee.Name() == "addToLabelIndex" {
			add = c
		}
	}
	if !r.check(add != nil, "MergeLabels:addToLabelIndex", "found", "the call of addToLabelIndex was not found: rule needs review", w.fpos(f)) {
		return
	}
	ifi, _ := add.Block().Instrs[len(add.Block().Instrs)-1].(*ssa.If)
	n := 0
	for _, c := range calls(f) {
		callee := staticCallee(c)
		if callee == nil || (callee.Name() != "DeleteLabelIndex" && callee.Name() != "deleteCachedLabelIndex" && callee.Name() != "deleteLabelIndex") {
			continue
		}
		n++
		ok := false
		if ifi != nil {
			if bo, isBo := ifi.Cond.(*ssa.BinOp); isBo && isNilConst(bo.Y) {
				succ := 1
				if bo.Op == token.EQL {
					succ = 0
				}
				ok = guardedByEdge(ifi, succ, c)
			}
		}
		r.check(ok, fmt.Sprintf("MergeLabels:delete-index#%d:after-target-took-them", n), "behind the no-error edge of addToLabelIndex",
			"a merged body's index is deleted before the target's index has taken its blocks: when that step refuses the merge (the target among the merged labels, a supervoxel already in the target) the request answers 400 and the merged bodies' indices are gone while their voxels are still there", w.pos(c.Pos()))
	}
	r.check(n >= 1, "MergeLabels:index-deletions", fmt.Sprintf("%d", n), "no index deletion found: rule needs review", w.fpos(f))
}

// adjacentFieldStores: a and b are in one block and no store into a field named `field` lies between them.
func adjacentFieldStores(a, b *ssa.Store, field string) bool {
	blk := a.Block()
	ia, ib := -1, -1
	for i, in := range blk.Instrs {
		if in == ssa.Instruction(a) {
			ia = i
		}
		if in == ssa.Instruction(b) {
			ib = i
		}
	}
	if ia < 0 || ib < 0 {
		return false
	}
	lo, hi := ia, ib
	if lo > hi {
		lo, hi = hi, lo
	}
	for i := lo + 1; i < hi; i++ {
		if st, ok := blk.Instrs[i].(*ssa.Store); ok {
			if fa, ok := st.Addr.(*ssa.FieldAddr); ok {
				if nm, _, _ := fieldName(fa); nm == field {
					return false
				}
			}
		}
	}
	return true
}

func init() {
	register(ruleDef{ID: "R3.28", Prop: "C03", Tier: "quick", Floor: 2,
		Title: "the head's id list is in the same order after a restart as before it (shared with R16.7): the in-memory database filled from the store by plain appends is sorted numerically before it is used, and searched with a monotone predicate — the store returns decimal keys in string order",
		Fn:    ruleR16_7})
}

// ---------------------------------------------------------------------------------------------
// R8.21 / R20.52 — a merge whose target is among the merged labels is refused before anything changes

func init() {
	reg := func(id, prop string) {
		register(ruleDef{ID: id, Prop: prop, Tier: "quick", Floor: 1,
			Title: "a merge of a body into itself is refused before anything changes: in labelmap MergeLabels the first step that changes state (the mapping, an index, the log) lies behind a lookup of the target in the set of merged labels that leaves with an error when it is found — the index step refuses such a merge only after the supervoxels were already remapped",
			Fn:    ruleSelfMergeRefusedFirst})
	}
	reg("R8.21", "C08")
	reg("R20.52", "C20")
}

func ruleSelfMergeRefusedFirst(r *Run) {
	w := r.W
	f := w.method("datatype/labelmap", "Data", "MergeLabels")
	if f == nil {
		r.undecided("labelmap.Data.MergeLabels", "anchor not found")
		return
	}
	var firstChange ssa.Instruction
	for _, c := range calls(f) {
		callee := staticCallee(c)
		if callee == nil {
			continue
		}
		switch callee.Name() {
		case "addMergeToMapping", "addToLabelIndex", "DeleteLabelIndex", "LogMerge":
			if firstChange == nil || c.Pos() < firstChange.Pos() {
				firstChange = c
			}
		}
	}
	if !r.check(firstChange != nil, "MergeLabels:first-change", "found", "no state-changing step found: rule needs review", w.fpos(f)) {
		return
	}
	ok := false
	for _, b := range f.Blocks {
		for _, in := range b.Instrs {
			lk, isLk := in.(*ssa.Lookup)
			if !isLk || !lk.CommaOk {
				continue
			}
			if nm, ok2 := fieldSel(lk.X); !ok2 || nm != "Merged" {
				continue
			}
			if nm, ok2 := fieldSel(lk.Index); !ok2 || nm != "Target" {
				continue
			}
			var found ssa.Value
			for _, ref := range *lk.Referrers() {
				if ex, isEx := ref.(*ssa.Extract); isEx && ex.Index == 1 {
					found = ex
				}
			}
			if found == nil {
				continue
			}
			for _, b2 := range f.Blocks {
				ifi, isIf := b2.Instrs[len(b2.Instrs)-1].(*ssa.If)
				if isIf && ifi.Cond == found && guardedByEdge(ifi, 1, firstChange) {
					// the found edge leaves with an error
					for _, x := range b2.Succs[0].Instrs {
						if ret, isRet := x.(*ssa.Return); isRet && isErrorExit(ret) {
							ok = true
						}
					}
				}
			}
		}
	}
	r.check(ok, "MergeLabels:target-among-merged-refused-first", "the target is looked up in the merged set, and refused, before the first change",
		"a merge request that names its target among the merged labels reaches the remapping of the supervoxels before anything refuses it: the index step then answers 400, but the merged body's supervoxels are already mapped to the target while its index still stands — voxels, mapping and indices disagree", w.pos(firstChange.Pos()))
}

// ---------------------------------------------------------------------------------------------
// R20.53 — a path element is read only where the path is known to be long enough

func init() {
	register(ruleDef{ID: "R20.53", Prop: "C20", Tier: "quick", Floor: 1,
		Title: "a path element is read only where the path is known to be long enough: in the data types' request handlers every constant index parts[k] into the URL's path elements (the result of strings.Split, or a parameter that call sites fill with it) is dominated by a comparison of len(parts) with a constant that guarantees k+1 elements — in the function or at every call site (a URL that stops short must be a 400, not a recovered index panic)",
		Fn:    rulePathElementGuarded})
}

// lenGuarantee: the least length of slice value s that is guaranteed at instruction `at` of f by
// dominating comparisons of len(s) with constants.
func lenGuarantee(f *ssa.Function, s ssa.Value, at ssa.Instruction) int64 {
	best := int64(0)
	same := func(v ssa.Value) bool {
		x := lenOf(stripConv(v))
		if x == nil {
			return false
		}
		return x == s || sameRoots(x, s, f)
	}
	for _, b := range f.Blocks {
		ifi, ok := b.Instrs[len(b.Instrs)-1].(*ssa.If)
		if !ok {
			continue
		}
		bo, ok := ifi.Cond.(*ssa.BinOp)
		if !ok {
			continue
		}
		var c int64
		var op token.Token
		if k, isC := constInt(bo.Y); isC && same(bo.X) {
			c, op = k, bo.Op
		} else if k, isC := constInt(bo.X); isC && same(bo.Y) {
			c = k
			switch bo.Op { // c OP len  ==  len OP' c
			case token.LSS:
				op = token.GTR
			case token.LEQ:
				op = token.GEQ
			case token.GTR:
				op = token.LSS
			case token.GEQ:
				op = token.LEQ
			default:
				op = bo.Op
			}
		} else {
			continue
		}
		// guarantee on the true edge / false edge
		var onTrue, onFalse int64
		switch op {
		case token.LSS: // len < c : false edge ⇒ len ≥ c
			onFalse = c
		case token.LEQ: // len <= c : false ⇒ len ≥ c+1
			onFalse = c + 1
		case token.GTR: // len > c : true ⇒ len ≥ c+1
			onTrue = c + 1
		case token.GEQ:
			onTrue = c
		case token.EQL:
			onTrue = c
		case token.NEQ:
			onFalse = c
		}
		if onTrue > best && guardedByEdge(ifi, 0, at) {
			best = onTrue
		}
		if onFalse > best && guardedByEdge(ifi, 1, at) {
			best = onFalse
		}
	}
	return best
}

func rulePathElementGuarded(r *Run) {
	w := r.W
	sites := callSitesOf(w)
	isSplit := func(v ssa.Value) bool {
		c, ok := v.(*ssa.Call)
		if !ok {
			return false
		}
		callee := c.Call.StaticCallee()
		return callee != nil && callee.Pkg != nil && callee.Pkg.Pkg.Path() == "strings" && callee.Name() == "Split"
	}
	var guaranteed func(f *ssa.Function, s ssa.Value, at ssa.Instruction, depth int) int64
	guaranteed = func(f *ssa.Function, s ssa.Value, at ssa.Instruction, depth int) int64 {
		g := lenGuarantee(f, s, at)
		prm, isParam := s.(*ssa.Parameter)
		if !isParam || depth >= 2 {
			return g
		}
		// the least guarantee over the call sites
		idx := -1
		for i, p := range f.Params {
			if p == prm {
				idx = i
			}
		}
		cs := sites[f]
		if idx < 0 || len(cs) == 0 {
			return g
		}
		least := int64(1 << 30)
		for _, c := range cs {
			cc, ok := c.(ssa.CallInstruction)
			if !ok {
				continue
			}
			args := cc.Common().Args
			if idx >= len(args) {
				least = 0
				continue
			}
			a := args[idx]
			x := guaranteed(c.Parent(), a, c, depth+1)
			// a re-slicing parts[k:] passes on the rest
			if x < least {
				least = x
			}
		}
		if least == 1<<30 {
			least = 0
		}
		if least > g {
			g = least
		}
		return g
	}
	n := 0
	for _, f := range w.RepoFuncs {
		if !strings.HasPrefix(relPkg(pkgPathOf(f)), "datatype/") || len(f.Blocks) == 0 || isTestFunc(w, f) {
			continue
		}
		k := 0
		seen := map[string]bool{}
		for _, b := range f.Blocks {
			for _, in := range b.Instrs {
				ia, ok := in.(*ssa.IndexAddr)
				if !ok {
					continue
				}
				ci, ok := constInt(ia.Index)
				if !ok {
					continue
				}
				if t, ok := ia.X.Type().Underlying().(*types.Slice); !ok || !types.Identical(t.Elem(), types.Typ[types.String]) {
					continue
				}
				// the slice: a Split result, or a parameter named parts
				s := ia.X
				isPath := false
				if prm, ok := s.(*ssa.Parameter); ok && prm.Name() == "parts" {
					isPath = true
				}
				for _, rv := range roots(s, f) {
					if isSplit(rv.V) {
						if c := rv.V.(*ssa.Call); len(c.Call.Args) == 2 {
							if sep, ok := c.Call.Args[1].(*ssa.Const); ok && sep.Value != nil && constant.StringVal(sep.Value) == "/" {
								isPath = true
							}
						}
					}
				}
				if !isPath {
					continue
				}
				id := fmt.Sprintf("%s[%d]", placeKey(s), ci)
				if seen[id] {
					continue
				}
				n++
				g := guaranteed(f, s, ia, 0)
				if g >= ci+1 {
					seen[id] = true
					continue
				}
				// every read of this element in the function is reported once, at its first unguarded use
				seen[id] = true
				k++
				r.violation(fmt.Sprintf("%s:parts[%d]:length-known", fname(f), ci),
					fmt.Sprintf("path element %d is read where only %d elements are guaranteed: a URL that stops short ends in a recovered index panic (500) instead of a 400", ci, g), w.pos(ia.Pos()))
			}
		}
	}
	r.check(n >= 50, "datatype:path-element-reads", fmt.Sprintf("%d", n), "too few: rule needs review", "-")
}

// ---------------------------------------------------------------------------------------------
// R5.20 / R6.18 / R20.54 — the key constructor refuses what the key decoder refuses

func init() {
	reg := func(id, prop string) {
		register(ruleDef{ID: id, Prop: prop, Tier: "quick", Floor: 1,
			Title: "the key constructor refuses what the key decoder refuses: keyvalue's DecodeTKey answers an error for a stored key of no bytes, so NewTKey leaves with an error for the empty string (a test of the key against \"\" or of its length against 0) — an empty key once stored makes every listing of the instance fail until it is deleted",
			Fn:    ruleEmptyKeyRefused})
	}
	reg("R5.20", "C05")
	reg("R6.18", "C06")
	reg("R20.54", "C20")
}

func ruleEmptyKeyRefused(r *Run) {
	w := r.W
	dec := w.fn("datatype/keyvalue", "DecodeTKey")
	enc := w.fn("datatype/keyvalue", "NewTKey")
	if dec == nil || enc == nil || len(enc.Params) != 1 {
		r.undecided("keyvalue.NewTKey/DecodeTKey", "anchors not found")
		return
	}
	// the decoder refuses an empty key: a comparison of a length (minus one) with 0 leading to an error exit
	decRefuses := false
	for _, b := range dec.Blocks {
		ifi, ok := b.Instrs[len(b.Instrs)-1].(*ssa.If)
		if !ok {
			continue
		}
		bo, ok := ifi.Cond.(*ssa.BinOp)
		if !ok {
			continue
		}
		if z, isC := constInt(bo.Y); isC && z == 0 && (bo.Op == token.LEQ || bo.Op == token.EQL || bo.Op == token.LSS) {
			for _, x := range b.Succs[0].Instrs {
				if ret, isRet := x.(*ssa.Return); isRet && isErrorExit(ret) {
					decRefuses = true
				}
			}
		}
	}
	if !decRefuses {
		r.check(true, "keyvalue.DecodeTKey:accepts-empty", "the decoder accepts an empty key: nothing to agree on", "", w.fpos(dec))
		return
	}
	key := enc.Params[0]
	encRefuses := false
	for _, b := range enc.Blocks {
		ifi, ok := b.Instrs[len(b.Instrs)-1].(*ssa.If)
		if !ok {
			continue
		}
		bo, ok := ifi.Cond.(*ssa.BinOp)
		if !ok {
			continue
		}
		emptyOn := -1 // successor taken for the empty key
		if bo.X == ssa.Value(key) {
			if c, isC := bo.Y.(*ssa.Const); isC && c.Value != nil && c.Value.Kind() == constant.String && constant.StringVal(c.Value) == "" {
				if bo.Op == token.EQL {
					emptyOn = 0
				} else if bo.Op == token.NEQ {
					emptyOn = 1
				}
			}
		}
		if x := lenOf(bo.X); x != nil && x == ssa.Value(key) {
			if z, isC := constInt(bo.Y); isC {
				switch {
				case z == 0 && (bo.Op == token.EQL || bo.Op == token.LEQ):
					emptyOn = 0
				case z == 1 && bo.Op == token.LSS:
					emptyOn = 0
				case z == 0 && (bo.Op == token.NEQ || bo.Op == token.GTR):
					emptyOn = 1
				}
			}
		}
		if emptyOn < 0 {
			continue
		}
		for _, x := range b.Succs[emptyOn].Instrs {
			if ret, isRet := x.(*ssa.Return); isRet && isErrorExit(ret) {
				encRefuses = true
			}
		}
	}
	r.check(encRefuses, "keyvalue.NewTKey:refuses-the-empty-key", "the constructor leaves with an error for the empty key, as the decoder does",
		"the constructor accepts the empty key and the decoder refuses it: POST key// (or a batch entry with key \"\") is acknowledged, and from then on every listing that decodes the stored keys (GET keys, keyrange) answers 400 \"empty key\" until that key is deleted", w.fpos(enc))
}

// ---------------------------------------------------------------------------------------------
// Round f, fourth batch (C07, C11, C04)

func init() {
	register(ruleDef{ID: "R7.17", Prop: "C07", Tier: "quick", Floor: 4,
		Title: "one UUID names one node (shared with R11.3, and with its one listed exception): the membership test that guards an insertion into the id maps and the insertion are in one critical section; values returned by allocators are read under the allocator's lock",
		Fn: func(r *Run) {
			sub := &Run{W: r.W, Prop: r.Prop, Known: r.Known, cur: ruleDef{ID: "R11.3"}}
			ruleR11_3(sub)
			for _, o := range sub.Obls {
				r.add(o.st, o.Construct, o.Detail, o.Pos, o.Witness, true)
			}
			r.Exceptions = append(r.Exceptions, sub.Exceptions...)
		}})
	reg := func(id, prop string) {
		register(ruleDef{ID: id, Prop: prop, Tier: "quick", Floor: 2,
			Title: "one child per branch, also under concurrent requests: in newVersion some write lock that is held where the parent's existing children are compared with the new branch name is still held — with no release on any path in between — where the child is entered into the parent's children and into the DAG's node map",
			Fn:    ruleChildCheckAndInsertOneSection})
	}
	reg("R11.31", "C11")
	reg("R7.18", "C07")
	register(ruleDef{ID: "R4.16", Prop: "C04", Tier: "quick", Floor: 1,
		Title: "whatever follows the last complete record is cut: in the file log's tail repair every return without error that did not truncate lies behind a comparison, made after the scan, which found the scan position at the end of the file — a torn header of fewer bytes than a header (which the scan loop never looks at) is cut too, or the next append is glued onto it",
		Fn:    ruleTailRepairCutsFragments})
}

func ruleChildCheckAndInsertOneSection(r *Run) {
	w := r.W
	f := w.method("datastore", "repoManager", "newVersion")
	if f == nil {
		r.undecided("datastore.repoManager.newVersion", "anchor not found")
		return
	}
	hcall, _ := branchCheckHelper(f)
	if hcall == nil && !newVersionIntact(r, f) {
		return
	}
	// the comparisons of a sister's branch with the new name (or the call of the helper that makes them)
	var cmps []ssa.Instruction
	if hcall != nil {
		cmps = append(cmps, hcall)
	}
	for _, b := range f.Blocks {
		for _, in := range b.Instrs {
			bo, ok := in.(*ssa.BinOp)
			if !ok || bo.Op != token.EQL {
				continue
			}
			if isFieldLoad(bo.X, "nodeT", "branch") || isFieldLoad(bo.Y, "nodeT", "branch") {
				if _, set, _ := innermostLoop(f, b); set != nil {
					cmps = append(cmps, bo)
				}
			}
		}
	}
	// the insertions
	var inserts []ssa.Instruction
	for _, st := range fieldStores(f, "nodeT", "children") {
		inserts = append(inserts, st)
	}
	for _, b := range f.Blocks {
		for _, in := range b.Instrs {
			if mu, ok := in.(*ssa.MapUpdate); ok && isFieldLoad(mu.Map, "dagT", "nodes") {
				inserts = append(inserts, mu)
			}
		}
	}
	if !r.check(len(cmps) >= 1 && len(inserts) >= 2, "newVersion:checks-and-insertions", fmt.Sprintf("%d branch comparisons, %d insertions", len(cmps), len(inserts)), "the sibling comparison or the insertions were not found: rule needs review", w.fpos(f)) {
		return
	}
	type lk struct {
		key     string
		unlocks []ssa.Instruction
	}
	locks := map[string]*lk{}
	for _, b := range f.Blocks {
		for _, in := range b.Instrs {
			op, ok := asLockOp(in)
			if !ok || !op.write {
				continue
			}
			if locks[op.key] == nil {
				locks[op.key] = &lk{key: op.key}
			}
			if !op.lock {
				locks[op.key].unlocks = append(locks[op.key].unlocks, in)
			}
		}
	}
	for i, ins := range inserts {
		ok := false
		for _, l := range locks {
			hI, wI := heldKeyAt(f, ins, l.key)
			if !hI || !wI {
				continue
			}
			all := true
			for _, c := range cmps {
				hC, wC := heldKeyAt(f, c, l.key)
				if !hC || !wC {
					all = false
					break
				}
				for _, u := range l.unlocks {
					toU := findPath(f, c, nil, func(x ssa.Instruction) bool { return x == u }, nil)
					if toU == nil {
						continue
					}
					fromU := findPath(f, u, nil, func(x ssa.Instruction) bool { return x == ins }, nil)
					if fromU != nil {
						all = false
					}
				}
			}
			if all {
				ok = true
			}
		}
		r.check(ok, fmt.Sprintf("newVersion:insertion#%d:same-critical-section-as-the-sibling-check", i+1), "a write lock is held from the sibling check to the insertion without a release in between",
			"every write lock held at the sibling check is released (and taken again) before the child is inserted: of several simultaneous newversion requests on one committed parent more than one passes the check, all are acknowledged, and the parent ends up with several children on one branch", w.pos(ins.Pos()))
	}
}

func ruleTailRepairCutsFragments(r *Run) {
	w := r.W
	n := 0
	for _, f := range w.RepoFuncs {
		if relPkg(pkgPathOf(f)) != "storage/filelog" || len(f.Blocks) == 0 || isTestFunc(w, f) {
			continue
		}
		var truncs []ssa.Instruction
		for _, c := range calls(f) {
			if callee := staticCallee(c); callee != nil && callee.Name() == "Truncate" && callee.Pkg != nil && callee.Pkg.Pkg.Path() == "os" {
				truncs = append(truncs, c)
			}
		}
		if len(truncs) == 0 {
			continue
		}
		isSize := func(v ssa.Value) bool {
			for d := range dataDeps(v) {
				if c, ok := d.(*ssa.Call); ok && c.Call.IsInvoke() && c.Call.Method.Name() == "Size" {
					return true
				}
			}
			return false
		}
		k := 0
		for _, b := range f.Blocks {
			ret, ok := b.Instrs[len(b.Instrs)-1].(*ssa.Return)
			if !ok || isErrorExit(ret) {
				continue
			}
			// returns the result of Truncate itself?
			viaTrunc := false
			for _, res := range ret.Results {
				for _, rv := range roots(res, f) {
					for _, t := range truncs {
						if rv.V == t.(ssa.Value) {
							viaTrunc = true
						}
					}
				}
			}
			if viaTrunc {
				continue
			}
			n++
			k++
			guarded := false
			for _, b2 := range f.Blocks {
				ifi, isIf := b2.Instrs[len(b2.Instrs)-1].(*ssa.If)
				if !isIf {
					continue
				}
				if _, set, _ := innermostLoop(f, b2); set != nil {
					continue
				}
				bo, isBo := ifi.Cond.(*ssa.BinOp)
				if !isBo {
					continue
				}
				// pos < size  (false edge: nothing left) / pos >= size, pos == size (true edge)
				var doneEdge = -1
				switch {
				case isSize(bo.Y) && !isSize(bo.X) && bo.Op == token.LSS:
					doneEdge = 1
				case isSize(bo.Y) && !isSize(bo.X) && (bo.Op == token.GEQ || bo.Op == token.EQL):
					doneEdge = 0
				case isSize(bo.X) && !isSize(bo.Y) && bo.Op == token.GTR:
					doneEdge = 1
				case isSize(bo.X) && !isSize(bo.Y) && (bo.Op == token.LEQ || bo.Op == token.EQL):
					doneEdge = 0
				}
				if doneEdge >= 0 && guardedByEdge(ifi, doneEdge, ret) {
					guarded = true
				}
			}
			r.check(guarded, fmt.Sprintf("%s:untruncated-return#%d:position-at-end", fname(f), k), "returns without truncating only where the scan position was found at the end of the file",
				"the tail repair can return without truncating although bytes may follow the last complete record: a header torn after 1–5 bytes stays in the file, the next record is appended behind it, and every reader stops at the fragment — the record acknowledged after the restart is lost", w.pos(ret.Pos()))
		}
	}
	r.check(n >= 1, "filelog:tail-repair-returns", fmt.Sprintf("%d", n), "no untruncated success return found: rule needs review", "-")
}

// ---------------------------------------------------------------------------------------------
// R20.55 — a slice between two search results is taken only when they are in order
// R20.56 / R8.22 — no write into the map of a decoded message that was not tested for nil

func init() {
	register(ruleDef{ID: "R20.55", Prop: "C20", Tier: "quick", Floor: 1,
		Title: "a slice between two search results is taken only when they are in order: in the data types, s[lo:hi] with lo and hi both results of sort.Search calls is dominated by a comparison of lo with hi (a reversed range — beg > end in the URL — gives lo > hi, and the slice expression panics, in neuronjson inside a goroutine no recover covers)",
		Fn:    ruleSearchBoundsOrdered})
	reg := func(id, prop string) {
		register(ruleDef{ID: id, Prop: prop, Tier: "quick", Floor: 1,
			Title: "no write into a map field of a decoded message that was not tested for nil: in the labels package, a store into the map field (Counts) of a message fetched by pointer from a map of an index (Blocks) is dominated by a test of that field against nil or by its initialisation — a block entry without counts, which a posted index can contain, decodes to a nil map",
			Fn:    ruleDecodedMapFieldTested})
	}
	reg("R20.56", "C20")
	reg("R8.22", "C08")
}

func ruleSearchBoundsOrdered(r *Run) {
	w := r.W
	n := 0
	isSearch := func(v ssa.Value) bool {
		c, ok := v.(*ssa.Call)
		if !ok {
			return false
		}
		callee := c.Call.StaticCallee()
		return callee != nil && callee.Pkg != nil && callee.Pkg.Pkg.Path() == "sort" && strings.HasPrefix(callee.Name(), "Search")
	}
	for _, f := range w.RepoFuncs {
		if !strings.HasPrefix(relPkg(pkgPathOf(f)), "datatype/") || len(f.Blocks) == 0 || isTestFunc(w, f) {
			continue
		}
		k := 0
		for _, b := range f.Blocks {
			for _, in := range b.Instrs {
				sl, ok := in.(*ssa.Slice)
				if !ok || sl.Low == nil || sl.High == nil || !isSearch(sl.Low) || !isSearch(sl.High) {
					continue
				}
				n++
				k++
				ordered := false
				for _, b2 := range f.Blocks {
					ifi, isIf := b2.Instrs[len(b2.Instrs)-1].(*ssa.If)
					if !isIf || !b2.Dominates(b) || b2 == b {
						continue
					}
					bo, isBo := ifi.Cond.(*ssa.BinOp)
					if !isBo {
						continue
					}
					var succ = -1
					// the difference form: d := hi - lo; if d <= 0 { return } (or lo - hi with the mirrored tests)
					if z, isK := constInt(bo.Y); isK && z == 0 {
						if sub, isSub := bo.X.(*ssa.BinOp); isSub && sub.Op == token.SUB {
							switch {
							case sub.X == sl.High && sub.Y == sl.Low && (bo.Op == token.GTR || bo.Op == token.GEQ):
								succ = 0
							case sub.X == sl.High && sub.Y == sl.Low && (bo.Op == token.LSS || bo.Op == token.LEQ):
								succ = 1
							case sub.X == sl.Low && sub.Y == sl.High && (bo.Op == token.LSS || bo.Op == token.LEQ):
								succ = 0
							case sub.X == sl.Low && sub.Y == sl.High && (bo.Op == token.GTR || bo.Op == token.GEQ):
								succ = 1
							}
						}
					}
					switch {
					case succ >= 0:
					case bo.X == sl.Low && bo.Y == sl.High && (bo.Op == token.LSS || bo.Op == token.LEQ):
						succ = 0
					case bo.X == sl.Low && bo.Y == sl.High && (bo.Op == token.GTR || bo.Op == token.GEQ):
						succ = 1
					case bo.X == sl.High && bo.Y == sl.Low && (bo.Op == token.GTR || bo.Op == token.GEQ):
						succ = 0
					case bo.X == sl.High && bo.Y == sl.Low && (bo.Op == token.LSS || bo.Op == token.LEQ):
						succ = 1
					}
					if succ >= 0 && guardedByEdge(ifi, succ, sl) {
						ordered = true
					}
				}
				r.check(ordered, fmt.Sprintf("%s:slice-between-searches#%d", fname(f), k), "taken behind a comparison that puts the lower bound first",
					"a slice is taken between two independent search results with no test of their order: for a reversed range the lower index exceeds the upper one and the slice expression panics — in a goroutine that no recover handler covers the whole process ends", w.pos(sl.Pos()))
			}
		}
	}
	r.check(n >= 1, "datatype:slices-between-searches", fmt.Sprintf("%d", n), "none found: rule needs review", "-")
}

func ruleDecodedMapFieldTested(r *Run) {
	w := r.W
	n := 0
	for _, f := range w.RepoFuncs {
		if relPkg(pkgPathOf(f)) != "datatype/common/labels" || len(f.Blocks) == 0 || isTestFunc(w, f) {
			continue
		}
		k := 0
		for _, b := range f.Blocks {
			for _, in := range b.Instrs {
				mu, ok := in.(*ssa.MapUpdate)
				if !ok {
					continue
				}
				ld, ok := mu.Map.(*ssa.UnOp)
				if !ok {
					continue
				}
				fa, ok := ld.X.(*ssa.FieldAddr)
				if !ok {
					continue
				}
				// the message was fetched by pointer out of a map
				fetched := false
				for _, rv := range roots(fa.X, f) {
					if ex, ok := rv.V.(*ssa.Extract); ok {
						if lk, ok := ex.Tuple.(*ssa.Lookup); ok && lk.CommaOk {
							fetched = true
						}
					}
					if lk, ok := rv.V.(*ssa.Lookup); ok && !lk.CommaOk {
						fetched = true
					}
				}
				if !fetched {
					continue
				}
				n++
				k++
				nm, _, _ := fieldName(fa)
				safe := false
				for _, b2 := range f.Blocks {
					for _, x := range b2.Instrs {
						// initialisation of the field on the way
						if st, ok := x.(*ssa.Store); ok {
							if fa2, ok := st.Addr.(*ssa.FieldAddr); ok && fa2.Field == fa.Field && sameRoots(fa2.X, fa.X, f) && b2.Dominates(b) {
								if _, isMk := st.Val.(*ssa.MakeMap); isMk {
									safe = true
								}
							}
						}
					}
					ifi, isIf := b2.Instrs[len(b2.Instrs)-1].(*ssa.If)
					if !isIf {
						continue
					}
					// conditions reachable through || chains: any dominating If whose condition tests the field against nil
					bo, isBo := ifi.Cond.(*ssa.BinOp)
					if !isBo || !isNilConst(bo.Y) {
						continue
					}
					l2, ok := bo.X.(*ssa.UnOp)
					if !ok {
						continue
					}
					fa2, ok := l2.X.(*ssa.FieldAddr)
					if !ok || fa2.Field != fa.Field || !sameRoots(fa2.X, fa.X, f) {
						continue
					}
					succ := 1 // field == nil: the write must be on the false edge
					if bo.Op == token.NEQ {
						succ = 0
					}
					if guardedByEdge(ifi, succ, mu) {
						safe = true
					}
					// or: on the nil edge the field is made before the paths join again
					if b2.Dominates(b) && b2 != b {
						nilBlk := b2.Succs[1-succ]
						isInit := func(x ssa.Instruction) bool {
							st, ok := x.(*ssa.Store)
							if !ok {
								return false
							}
							fa3, ok := st.Addr.(*ssa.FieldAddr)
							if !ok || fa3.Field != fa.Field || !sameRoots(fa3.X, fa.X, f) {
								return false
							}
							_, isMk := st.Val.(*ssa.MakeMap)
							return isMk
						}
						reaches := false
						if len(nilBlk.Instrs) > 0 {
							first := nilBlk.Instrs[0]
							if isInit(first) {
								reaches = false
							} else if first == ssa.Instruction(mu) {
								reaches = true
							} else {
								reaches = findPath(f, first, isInit, func(x ssa.Instruction) bool { return x == ssa.Instruction(mu) }, nil) != nil
							}
						}
						if !reaches {
							safe = true
						}
					}
				}
				r.check(safe, fmt.Sprintf("%s:%s-write#%d:tested-for-nil", fname(f), nm, k), "the map field is tested against nil (or made) before the write",
					"the map "+nm+" of a message fetched from the index is written without having been tested for nil: a block entry without counts (a posted index can hold one; it decodes to a nil map) makes the write panic — 'assignment to entry in nil map'", w.pos(mu.Pos()))
			}
		}
	}
	r.check(n >= 1, "labels:decoded-map-field-writes", fmt.Sprintf("%d", n), "none found: rule needs review", "-")
}

// ---------------------------------------------------------------------------------------------
// R4.17 / R3.29 — the start-up load does not depend on the manager it is building

func init() {
	reg := func(id, prop string) {
		register(ruleDef{ID: id, Prop: prop, Tier: "quick", Floor: 1,
			Title: "the start-up load does not depend on the manager it is building: no function reached synchronously from repoManager.loadMetadata calls repoT.save, which answers an error until the package-level manager is set — that happens only after the load returned; the load persists through saveToStore(m.store).  (The deletions interrupted by a crash are resumed from the load: a resume that goes through save() fails at every start, and the half-deleted instance stays)",
			Fn:    ruleLoadDoesNotUsePackageManager})
	}
	reg("R4.17", "C04")
	reg("R3.29", "C03")
}

func ruleLoadDoesNotUsePackageManager(r *Run) {
	w := r.W
	root := w.method("datastore", "repoManager", "loadMetadata")
	save := w.method("datastore", "repoT", "save")
	if root == nil || save == nil {
		r.undecided("datastore.loadMetadata/repoT.save", "anchors not found")
		return
	}
	type item struct {
		f    *ssa.Function
		path []string
	}
	seen := map[*ssa.Function]bool{root: true}
	queue := []item{{root, []string{root.Name()}}}
	n := 0
	var bad []string
	for len(queue) > 0 {
		it := queue[0]
		queue = queue[1:]
		n++
		if len(it.path) > 8 {
			continue
		}
		for _, c := range calls(it.f) {
			if _, isGo := c.(*ssa.Go); isGo {
				continue
			}
			var callees []*ssa.Function
			if sc := staticCallee(c); sc != nil {
				callees = append(callees, sc)
			}
			for _, callee := range callees {
				if callee == save {
					bad = append(bad, strings.Join(append(it.path, "save"), " → ")+" at "+w.pos(c.Pos()))
					continue
				}
				if seen[callee] || !inRepo(callee) || relPkg(pkgPathOf(callee)) != "datastore" || len(callee.Blocks) == 0 {
					continue
				}
				seen[callee] = true
				queue = append(queue, item{callee, append(append([]string{}, it.path...), callee.Name())})
			}
		}
	}
	for i, b := range bad {
		r.violation(fmt.Sprintf("loadMetadata:reaches-repoT.save#%d", i+1), "the start-up load reaches repoT.save ("+b+"): the package-level manager is not set yet, save answers 'cannot use repo.save() before manager is initialized', and what the load wanted to persist or resume — the deletion of an instance interrupted by a crash — fails at every start", "-")
	}
	r.check(n >= 5, "loadMetadata:functions-reached", fmt.Sprintf("%d datastore functions reached synchronously from the load, %d paths to repoT.save", n, len(bad)), "too few: rule needs review", w.fpos(root))
}

// ---------------------------------------------------------------------------------------------
// R12.21 / R20.57 — a label counter is not incremented past the end of the label space

func init() {
	reg := func(id, prop string) {
		register(ruleDef{ID: id, Prop: prop, Tier: "quick", Floor: 2,
			Title: "a label counter does not wrap: in labelmap every store that advances NextLabel or MaxRepoLabel by a value added to the loaded counter is dominated by a test that involves the largest 64-bit value and can leave with an error (newLabels refuses a request that would wrap; newLabel, used by cleave and split, must as well — after POST maxlabel/18446744073709551615 the next cleave would otherwise create body 0, the background)",
			Fn:    ruleLabelCounterDoesNotWrap})
	}
	reg("R12.21", "C12")
	reg("R20.57", "C20")
}

func ruleLabelCounterDoesNotWrap(r *Run) {
	w := r.W
	n := 0
	for _, f := range w.RepoFuncs {
		if relPkg(pkgPathOf(f)) != "datatype/labelmap" || len(f.Blocks) == 0 || isTestFunc(w, f) {
			continue
		}
		k := 0
		for _, field := range []string{"NextLabel", "MaxRepoLabel"} {
			for _, st := range fieldStores(f, "Data", field) {
				bo, ok := st.Val.(*ssa.BinOp)
				if !ok || bo.Op != token.ADD {
					continue
				}
				if !(isFieldLoad(bo.X, "Data", field) || isFieldLoad(bo.Y, "Data", field)) {
					continue
				}
				n++
				k++
				guarded := false
				for _, b2 := range f.Blocks {
					ifi, isIf := b2.Instrs[len(b2.Instrs)-1].(*ssa.If)
					if !isIf || !b2.Dominates(st.Block()) || b2 == st.Block() {
						continue
					}
					usesMax := false
					for d := range dataDeps(ifi.Cond) {
						if c, ok := d.(*ssa.Const); ok && c.Value != nil && c.Value.Kind() == constant.Int {
							if u, exact := constant.Uint64Val(c.Value); exact && u == ^uint64(0) {
								usesMax = true
							}
						}
					}
					if !usesMax {
						continue
					}
					for _, succ := range b2.Succs {
						for _, x := range succ.Instrs {
							if ret, isRet := x.(*ssa.Return); isRet && isErrorExit(ret) {
								guarded = true
							}
						}
					}
				}
				r.check(guarded, fmt.Sprintf("%s:%s-advance#%d:end-of-label-space-tested", fname(f), field, k), "a test against the largest 64-bit label, with an error exit, dominates the advance",
					"the counter "+field+" is advanced with no test against the end of the 64-bit label space: at the maximum it wraps to 0, and the next label handed out is the background label (a cleave then maps a supervoxel to body 0)", w.pos(st.Pos()))
			}
		}
	}
	r.check(n >= 2, "labelmap:counter-advances", fmt.Sprintf("%d", n), "fewer than expected: rule needs review", "-")
}

// ---------------------------------------------------------------------------------------------
// R15.8 — bounds on decoded sizes are computed in 64 bits

func init() {
	register(ruleDef{ID: "R15.8", Prop: "C15", Tier: "quick", Floor: 1,
		Title: "bounds on decoded sizes are computed in 64 bits: in the dvid package's deserializer no multiplication whose operand is a buffer length converted to a 32-bit integer feeds a comparison (255 × len wraps above 16.8 MB in uint32, and a valid large value is rejected as implausible)",
		Fn:    ruleSizeBoundsIn64Bits})
}

func ruleSizeBoundsIn64Bits(r *Run) {
	w := r.W
	n := 0
	for _, f := range w.RepoFuncs {
		if relPkg(pkgPathOf(f)) != "dvid" || len(f.Blocks) == 0 || isTestFunc(w, f) || !strings.Contains(w.fposFile(f), "serialize") {
			continue
		}
		k := 0
		for _, b := range f.Blocks {
			for _, in := range b.Instrs {
				bo, ok := in.(*ssa.BinOp)
				if !ok || bo.Op != token.MUL {
					continue
				}
				fromLen := false
				for _, o := range []ssa.Value{bo.X, bo.Y} {
					if cv, ok := o.(*ssa.Convert); ok && lenOf(cv.X) != nil {
						fromLen = true
					}
					if lenOf(o) != nil {
						fromLen = true
					}
				}
				if !fromLen {
					continue
				}
				// feeds a comparison?
				cmp := false
				for _, ref := range *bo.Referrers() {
					if b2, ok := ref.(*ssa.BinOp); ok {
						switch b2.Op {
						case token.LSS, token.LEQ, token.GTR, token.GEQ:
							cmp = true
						}
					}
				}
				if !cmp {
					continue
				}
				n++
				k++
				bt, _ := bo.Type().Underlying().(*types.Basic)
				wide := bt != nil && (bt.Kind() == types.Int64 || bt.Kind() == types.Uint64 || bt.Kind() == types.Int || bt.Kind() == types.Uint)
				// LZ4 expands a value by at most 255: a tighter factor refuses valid, highly compressible values
				factor := int64(-1)
				for _, o := range []ssa.Value{bo.X, bo.Y} {
					if c, ok := constInt(stripConv(o)); ok {
						factor = c
					}
				}
				if factor >= 0 {
					r.check(factor >= 255, fmt.Sprintf("%s:length-product#%d:factor-at-least-the-format-maximum", fname(f), k), "the factor is at least LZ4's maximum expansion (255)",
						fmt.Sprintf("a decoded size is refused when it exceeds %d times the stored length, but LZ4 can expand by 255: a valid, highly compressible value (a block of one value) no longer deserializes", factor), w.pos(bo.Pos()))
				}
				r.check(wide, fmt.Sprintf("%s:length-product#%d:64-bit", fname(f), k), "the product is computed in a 64-bit type",
					"a buffer length is multiplied in "+bo.Type().String()+": for buffers above 2^32/255 bytes the product wraps and the plausibility test rejects a valid value", w.pos(bo.Pos()))
			}
		}
	}
	r.check(n >= 1, "dvid:length-products-in-comparisons", fmt.Sprintf("%d", n), "none found: rule needs review", "-")
}

// ---------------------------------------------------------------------------------------------
// Round f, fifth batch (C09, C17, C18)

func init() {
	register(ruleDef{ID: "R9.12", Prop: "C09", Tier: "quick", Floor: 3,
		Title: "each header field holds the sub-block count of its own axis: in the labels package, a 32-bit value written at byte offset 4·k (k = 0, 1, 2) of a block's data that is computed from a component of the block size is computed from component k",
		Fn:    ruleHeaderFieldOwnAxis})
	register(ruleDef{ID: "R9.13", Prop: "C09", Tier: "quick", Floor: 2,
		Title: "a cursor into the sub-block index list passes the whole list of a sub-block: in the labels package, a loop that advances a cursor used to index SBIndices by one per iteration is left only through its own counting condition (a break on a match would leave the cursor inside the list, and every later sub-block is read from the wrong place)",
		Fn:    ruleIndexCursorPassesWholeList})
	register(ruleDef{ID: "R17.12", Prop: "C17", Tier: "quick", Floor: 2,
		Title: "every term of a byte offset is in bytes: in imageblk functions that ask for the bytes per voxel, each additive term of an offset used to slice a byte buffer depends on the bytes-per-voxel value or on the buffer's byte stride — a bare voxel coordinate in the sum addresses the wrong bytes for every type wider than one byte",
		Fn:    ruleByteOffsetTermsInBytes})
	register(ruleDef{ID: "R17.13", Prop: "C17", Tier: "quick", Floor: 1,
		Title: "an ROI that was asked for is never silently dropped: roi.NewIterator hands out a nil iterator only together with a non-nil error (the voxel readers and writers take a nil iterator for 'no ROI given' and then touch everything)",
		Fn:    ruleNoNilIteratorWithoutError})
	register(ruleDef{ID: "R18.16", Prop: "C18", Tier: "quick", Floor: 1,
		Title: "every run that was announced is read: in the dvid package's run-length readers the loop over the runs is bounded by the decoded count itself, not by a value that was clamped to the pre-allocation limit",
		Fn:    ruleRunLoopBoundIsDecodedCount})
	register(ruleDef{ID: "R18.17", Prop: "C18", Tier: "quick", Floor: 1,
		Title: "a clipped run is clipped from its current start: in RLEs.FitToBounds no value loaded from the run's start or length before a store into that same component is used after that store",
		Fn:    ruleNoStaleComponentAfterStore})
}

func ruleHeaderFieldOwnAxis(r *Run) {
	w := r.W
	n := 0
	for _, f := range w.RepoFuncs {
		if relPkg(pkgPathOf(f)) != "datatype/common/labels" || len(f.Blocks) == 0 || isTestFunc(w, f) {
			continue
		}
		for _, c := range calls(f) {
			cc := c.Common()
			if !(cc.IsInvoke() && cc.Method.Name() == "PutUint32") {
				if callee := staticCallee(c); callee == nil || callee.Name() != "PutUint32" {
					continue
				}
			}
			args := cc.Args
			if len(args) < 2 {
				continue
			}
			sl, ok := args[len(args)-2].(*ssa.Slice)
			if !ok || sl.Low == nil && sl.High == nil {
				continue
			}
			var lo int64
			if sl.Low != nil {
				l, ok := constInt(sl.Low)
				if !ok {
					continue
				}
				lo = l
			}
			if lo != 0 && lo != 4 && lo != 8 {
				continue
			}
			// the component of a Point3d the value is computed from
			axis := int64(-1)
			multi := false
			for d := range dataDeps(args[len(args)-1]) {
				var idx ssa.Value
				var base ssa.Value
				switch x := d.(type) {
				case *ssa.Index:
					idx, base = x.Index, x.X
				case *ssa.UnOp:
					if ia, ok := x.X.(*ssa.IndexAddr); ok {
						idx, base = ia.Index, ia.X
					}
				}
				if idx == nil || !strings.Contains(base.Type().String(), "Point3d") {
					continue
				}
				if k, ok := constInt(idx); ok {
					if axis >= 0 && axis != k {
						multi = true
					}
					axis = k
				}
			}
			if axis < 0 || multi {
				continue
			}
			n++
			r.check(axis == lo/4, fmt.Sprintf("%s:header-field@%d:own-axis", fname(f), lo), "computed from the block size's component of the same axis",
				fmt.Sprintf("the header field at byte %d (axis %d) is computed from component %d of the block size: the serialised block of a non-cubic solid block re-parses with the wrong shape", lo, lo/4, axis), w.pos(c.Pos()))
		}
	}
	r.check(n >= 3, "labels:header-fields-from-block-size", fmt.Sprintf("%d", n), "fewer than expected: rule needs review", "-")
}

func ruleIndexCursorPassesWholeList(r *Run) {
	w := r.W
	n := 0
	for _, f := range w.RepoFuncs {
		if relPkg(pkgPathOf(f)) != "datatype/common/labels" || len(f.Blocks) == 0 || isTestFunc(w, f) {
			continue
		}
		loops := naturalLoops(f)
		k := 0
		done := map[*ssa.BasicBlock]bool{}
		for _, b := range f.Blocks {
			for _, in := range b.Instrs {
				ia, ok := in.(*ssa.IndexAddr)
				if !ok || !isFieldLoad(ia.X, "Block", "SBIndices") {
					continue
				}
				// the innermost loop containing the access in which the cursor advances by one
				h, set, _ := innermostLoop(f, b)
				if set == nil || done[h] {
					continue
				}
				cursor := ia.Index
				advances := false
				for blk := range set {
					for _, x := range blk.Instrs {
						// cursor kept in a local: *c = *c + 1
						if st, ok := x.(*ssa.Store); ok {
							if bo, ok := st.Val.(*ssa.BinOp); ok && bo.Op == token.ADD {
								if one, ok := constInt(bo.Y); ok && one == 1 {
									if u, ok := bo.X.(*ssa.UnOp); ok && u.X == st.Addr {
										if cu, ok := cursor.(*ssa.UnOp); ok && cu.X == st.Addr {
											advances = true
										}
									}
								}
							}
						}
						if phi, ok := x.(*ssa.Phi); ok && ssa.Value(phi) == cursor {
							for _, e := range phi.Edges {
								if bo, ok := e.(*ssa.BinOp); ok && bo.Op == token.ADD && bo.X == ssa.Value(phi) {
									if one, ok := constInt(bo.Y); ok && one == 1 {
										advances = true
									}
								}
							}
						}
					}
				}
				if !advances {
					continue
				}
				// the loop counts something else (i < numSBLabels): the cursor is not the loop's own counter
				ownCounter := false
				if ifi, ok := h.Instrs[len(h.Instrs)-1].(*ssa.If); ok {
					if bo, ok := ifi.Cond.(*ssa.BinOp); ok && (bo.X == cursor) {
						ownCounter = true
					}
				}
				if ownCounter {
					continue
				}
				done[h] = true
				n++
				k++
				exits := 0
				where := ""
				for blk := range set {
					for _, s := range blk.Succs {
						if !set[s] && blk != h {
							exits++
							where = w.pos(blk.Instrs[len(blk.Instrs)-1].Pos())
						}
					}
				}
				_ = loops
				r.check(exits == 0, fmt.Sprintf("%s:index-cursor-loop#%d:single-exit", fname(f), k), "the loop is left only through its counting condition",
					"the loop that walks a sub-block's index list can be left from its body ("+where+"): the cursor stops inside the list, and the indices and packed values of every later sub-block are read from the wrong position — per-label voxel counts come out wrong", w.pos(ia.Pos()))
			}
		}
	}
	r.check(n >= 2, "labels:index-cursor-loops", fmt.Sprintf("%d", n), "fewer than expected: rule needs review", "-")
}

func addLeaves(v ssa.Value, seen map[ssa.Value]bool, out *[]ssa.Value) {
	if seen[v] {
		return
	}
	seen[v] = true
	switch x := v.(type) {
	case *ssa.BinOp:
		if x.Op == token.ADD {
			addLeaves(x.X, seen, out)
			addLeaves(x.Y, seen, out)
			return
		}
	case *ssa.Phi:
		for _, e := range x.Edges {
			addLeaves(e, seen, out)
		}
		return
	}
	*out = append(*out, v)
}

// returnsStruct: the function's first result is a struct (or a pointer to one).
func returnsStruct(g *ssa.Function) bool {
	res := g.Signature.Results()
	if res.Len() == 0 {
		return false
	}
	t := res.At(0).Type()
	if p, ok := t.Underlying().(*types.Pointer); ok {
		t = p.Elem()
	}
	_, ok := t.Underlying().(*types.Struct)
	return ok
}

func ruleByteOffsetTermsInBytes(r *Run) {
	w := r.W
	n := 0
	for _, f := range w.RepoFuncs {
		if relPkg(pkgPathOf(f)) != "datatype/imageblk" || len(f.Blocks) == 0 || isTestFunc(w, f) {
			continue
		}
		var unit []ssa.Value
		for _, c := range calls(f) {
			nm := methodNameOf(c)
			if nm == "BytesPerElement" || nm == "Stride" {
				if v, ok := c.(ssa.Value); ok {
					unit = append(unit, v)
				}
			}
			// the geometry may be computed by a helper of the package that asks for the element size / stride and hands
			// the values back (v.blockTransfer(...) returning a struct): what is taken from its result is in bytes
			if g := staticCallee(c); g != nil && g != f && g.Pkg == f.Pkg && len(g.Blocks) > 0 && g.Object() != nil && !g.Object().Exported() && returnsStruct(g) {
				// (a helper that computes byte strides; one that only sizes a buffer by the element size, like the
				// interpolating reader's neighbourhood, does not make its caller a byte-offset computation)
				asks := false
				for _, gc := range calls(g) {
					if gn := methodNameOf(gc); gn == "Stride" {
						asks = true
					}
				}
				if v, ok := c.(ssa.Value); ok && asks {
					unit = append(unit, v)
				}
			}
		}
		if len(unit) == 0 {
			continue
		}
		inBytes := func(v ssa.Value) bool {
			if c, ok := v.(*ssa.Const); ok {
				_ = c
				return true
			}
			for d := range dataDeps(v) {
				for _, u := range unit {
					if d == u {
						return true
					}
				}
			}
			return false
		}
		k := 0
		seenLow := map[ssa.Value]bool{}
		for _, b := range f.Blocks {
			for _, in := range b.Instrs {
				sl, ok := in.(*ssa.Slice)
				if !ok || sl.Low == nil || seenLow[sl.Low] {
					continue
				}
				st, ok := sl.X.Type().Underlying().(*types.Slice)
				if !ok || !types.Identical(st.Elem(), types.Typ[types.Uint8]) {
					continue
				}
				seenLow[sl.Low] = true
				var leaves []ssa.Value
				addLeaves(sl.Low, map[ssa.Value]bool{}, &leaves)
				if len(leaves) < 2 {
					continue
				}
				n++
				k++
				bad := ""
				for _, lf := range leaves {
					if !inBytes(lf) {
						bad = lf.Name() + " (" + w.pos(lf.Pos()) + ")"
					}
				}
				r.check(bad == "", fmt.Sprintf("%s:byte-offset#%d:terms-in-bytes", fname(f), k), "every additive term depends on the bytes per voxel or the byte stride",
					"the byte offset has a term "+bad+" that is a voxel count, not a byte count: for 16-bit and wider voxels the slice addresses the wrong bytes (8-bit data hides it)", w.pos(sl.Pos()))
			}
		}
	}
	r.check(n >= 1, "imageblk:byte-offsets", fmt.Sprintf("%d", n), "none found: rule needs review", "-")
}

func ruleNoNilIteratorWithoutError(r *Run) {
	w := r.W
	f := w.fn("datatype/roi", "NewIterator")
	if f == nil {
		r.undecided("roi.NewIterator", "anchor not found")
		return
	}
	n := 0
	for _, b := range f.Blocks {
		ret, ok := b.Instrs[len(b.Instrs)-1].(*ssa.Return)
		if !ok || len(ret.Results) != 2 {
			continue
		}
		n++
		if !isNilConst(ret.Results[0]) {
			r.check(true, fmt.Sprintf("NewIterator:return#%d", n), "hands out an iterator", "", w.pos(ret.Pos()))
			continue
		}
		errv := ret.Results[1]
		good := false
		if _, isCall := errv.(*ssa.Call); isCall {
			good = true // a freshly made error
		}
		if mi, isMI := errv.(*ssa.MakeInterface); isMI {
			_ = mi
			good = true
		}
		for _, b2 := range f.Blocks {
			ifi, isIf := b2.Instrs[len(b2.Instrs)-1].(*ssa.If)
			if !isIf {
				continue
			}
			bo, isBo := ifi.Cond.(*ssa.BinOp)
			if !isBo || !isNilConst(bo.Y) || !sameRoots(bo.X, errv, f) && bo.X != errv {
				continue
			}
			succ := 0
			if bo.Op == token.EQL {
				succ = 1
			}
			if guardedByEdge(ifi, succ, ret) {
				good = true
			}
		}
		r.check(good, fmt.Sprintf("NewIterator:return#%d:nil-iterator-only-with-error", n), "a nil iterator is returned only with an error known to be non-nil",
			"NewIterator can return a nil iterator with a nil error: PutVoxels and GetVoxels take a nil iterator for 'no ROI was given' — a write restricted to an ROI whose spans do not reach the request's Z range then changes every voxel of the box", w.pos(ret.Pos()))
	}
	r.check(n >= 1, "NewIterator:returns", fmt.Sprintf("%d", n), "no return found: rule needs review", w.fpos(f))
}

func ruleRunLoopBoundIsDecodedCount(r *Run) {
	w := r.W
	n := 0
	for _, f := range w.RepoFuncs {
		if relPkg(pkgPathOf(f)) != "dvid" || len(f.Blocks) == 0 || isTestFunc(w, f) || !strings.HasPrefix(f.Name(), "UnmarshalBinary") {
			continue
		}
		if f.Signature.Recv() == nil || !strings.Contains(f.Signature.Recv().Type().String(), "RLEs") {
			continue
		}
		for _, b := range f.Blocks {
			ifi, ok := b.Instrs[len(b.Instrs)-1].(*ssa.If)
			if !ok {
				continue
			}
			bo, ok := ifi.Cond.(*ssa.BinOp)
			if !ok || bo.Op != token.LSS {
				continue
			}
			if _, isPhi := bo.X.(*ssa.Phi); !isPhi {
				continue
			}
			if _, set, _ := innermostLoop(f, b); set == nil {
				continue
			}
			n++
			clamped := false
			var walk func(v ssa.Value, d int)
			walk = func(v ssa.Value, d int) {
				if d > 6 {
					return
				}
				switch x := v.(type) {
				case *ssa.Phi:
					for _, e := range x.Edges {
						if _, isC := e.(*ssa.Const); isC {
							clamped = true
						}
						walk(e, d+1)
					}
				case *ssa.Convert:
					walk(x.X, d+1)
				}
			}
			walk(bo.Y, 0)
			r.check(!clamped, fmt.Sprintf("%s:run-loop-bound", fname(f)), "the loop runs up to the decoded count",
				"the loop over the runs is bounded by a value that can be a constant limit instead of the decoded count: a sparse volume with more runs than the limit is silently cut short, with no error", w.pos(bo.Pos()))
		}
	}
	r.check(n >= 1, "dvid:run-loops", fmt.Sprintf("%d", n), "none found: rule needs review", "-")
}

func ruleNoStaleComponentAfterStore(r *Run) {
	w := r.W
	f := w.method("dvid", "RLEs", "FitToBounds")
	if f == nil {
		r.undecided("dvid.RLEs.FitToBounds", "anchor not found")
		return
	}
	n := 0
	bad := ""
	top := f
	for _, f := range withHelpers(top) { // the per-run clipping may sit in a helper (RLE.clipToBounds)
		for _, b := range f.Blocks {
			for _, in := range b.Instrs {
				ld, ok := in.(*ssa.UnOp)
				if !ok || ld.Op != token.MUL {
					continue
				}
				key := componentKey(ld.X)
				if !strings.Contains(key, "start") && !strings.Contains(key, "length") {
					continue
				}
				// stores to the same place after the load
				for _, b2 := range f.Blocks {
					for _, x := range b2.Instrs {
						st, ok := x.(*ssa.Store)
						if !ok || componentKey(st.Addr) != key {
							continue
						}
						if findPath(f, ld, nil, func(y ssa.Instruction) bool { return y == ssa.Instruction(st) }, nil) == nil {
							continue
						}
						n++
						// a use of the loaded value reachable from the store (other than the store's own operand)
						for _, ref := range *ld.Referrers() {
							if ref == ssa.Instruction(st) {
								continue
							}
							// the value feeding the store itself (x - (min - x)) is computed before it
							if rv, ok := ref.(ssa.Value); ok && dataDeps(st.Val)[rv] {
								continue
							}
							if findPath(f, st, nil, func(y ssa.Instruction) bool { return y == ref }, nil) != nil {
								// in a loop every instruction reaches every other through the back edge: demand that the
								// use is reached without passing the load again
								p := findPath(f, st, func(y ssa.Instruction) bool { return y == ssa.Instruction(ld) }, func(y ssa.Instruction) bool { return y == ref }, nil)
								if p != nil {
									bad = fmt.Sprintf("%s loaded at %s, stored at %s, used at %s", key, w.pos(ld.Pos()), w.pos(st.Pos()), w.pos(ref.Pos()))
								}
							}
						}
					}
				}
			}
		}
	}
	r.check(bad == "", "FitToBounds:no-stale-component", fmt.Sprintf("%d load/store pairs examined", n),
		"a component of the run read before it was changed is used after the change ("+bad+"): a run clipped on both X bounds keeps a length computed from its old start and reaches past the upper bound", w.fpos(f))
	r.check(n >= 1, "FitToBounds:load-store-pairs", fmt.Sprintf("%d", n), "none found: rule needs review", w.fpos(f))
}

// componentKey: access path of an address, with constant array indexes spelled out.
func componentKey(v ssa.Value) string {
	if ia, ok := v.(*ssa.IndexAddr); ok {
		if k, isC := constInt(ia.Index); isC {
			return fmt.Sprintf("%s[%d]", componentKey(ia.X), k)
		}
	}
	return addrKey(v)
}

// ---------------------------------------------------------------------------------------------
// R9.14 / R20.58 — the block parser refuses what its readers would index outside the tables

func init() {
	reg := func(id, prop string) {
		register(ruleDef{ID: id, Prop: prop, Tier: "quick", Floor: 4,
			Title: "the block parser refuses what the readers would index outside the tables: labels.Block.setExportedVars leaves with an error (a) when a sub-block index is not below the number of labels, (b) when a sub-block claims more labels than it has voxels, (c) when the packed values are shorter than the per-sub-block label counts require (the need is computed with bitsFor), and (d) when a dimension has no sub-block — every reader of a block (CalcNumLabels, MakeLabelVolume, the RLE writers) indexes by these tables with no further test, most of them in goroutines no recover handler covers",
			Fn:    ruleBlockParserValidatesTables})
	}
	reg("R9.14", "C09")
	reg("R20.58", "C20")
}

func ruleBlockParserValidatesTables(r *Run) {
	w := r.W
	f := w.method("datatype/common/labels", "Block", "setExportedVars")
	if f == nil {
		r.undecided("labels.Block.setExportedVars", "anchor not found")
		return
	}
	// values aliased onto the two tables
	elemOf := func(v ssa.Value, conv string) bool {
		// v (or something it depends on) is a load of an element of the result of dvid.AliasByteTo<conv>
		for d := range dataDeps(v) {
			u, ok := d.(*ssa.UnOp)
			if !ok {
				continue
			}
			ia, ok := u.X.(*ssa.IndexAddr)
			if !ok {
				continue
			}
			for _, rv := range roots(ia.X, f) {
				x := rv.V
				if ex, ok := x.(*ssa.Extract); ok {
					x = ex.Tuple
				}
				if c, ok := x.(*ssa.Call); ok {
					if callee := c.Call.StaticCallee(); callee != nil && callee.Name() == "AliasByteTo"+conv {
						return true
					}
				}
				if isFieldLoad(x, "Block", map[string]string{"Uint32": "SBIndices", "Uint16": "NumSBLabels"}[conv]) {
					return true
				}
			}
		}
		return false
	}
	var haveIdx, haveCount, haveValues, haveDims, countOff, idxExact bool
	for _, b := range f.Blocks {
		ifi, ok := b.Instrs[len(b.Instrs)-1].(*ssa.If)
		if !ok {
			continue
		}
		// one side leaves with an error
		leaves := false
		for _, s := range b.Succs {
			for _, x := range s.Instrs {
				if ret, isRet := x.(*ssa.Return); isRet && isErrorExit(ret) {
					leaves = true
				}
			}
		}
		if !leaves {
			continue
		}
		bo, ok := ifi.Cond.(*ssa.BinOp)
		if !ok {
			continue
		}
		switch bo.Op {
		case token.GEQ, token.GTR, token.LSS, token.LEQ:
			if elemOf(bo.X, "Uint32") || elemOf(bo.Y, "Uint32") {
				haveIdx = true
				// the refusal includes index == number of labels: on the edge that leaves with the error the
				// relation is index >= N
				op := bo.Op
				if !elemOf(bo.X, "Uint32") {
					switch op {
					case token.LSS:
						op = token.GTR
					case token.GTR:
						op = token.LSS
					case token.LEQ:
						op = token.GEQ
					case token.GEQ:
						op = token.LEQ
					}
				}
				refuse := -1
				for i, s := range b.Succs {
					for _, x := range s.Instrs {
						if ret, isRet := x.(*ssa.Return); isRet && isErrorExit(ret) {
							refuse = i
						}
					}
				}
				if refuse == 1 {
					switch op {
					case token.LSS:
						op = token.GEQ
					case token.GTR:
						op = token.LEQ
					case token.LEQ:
						op = token.GTR
					case token.GEQ:
						op = token.LSS
					}
				}
				if op == token.GEQ {
					idxExact = true
				}
			}
			if elemOf(bo.X, "Uint16") || elemOf(bo.Y, "Uint16") {
				// a sub-block of 8x8x8 voxels can hold 512 different labels, and the encoder emits such sub-blocks:
				// the refusal starts above 512
				const full = 512
				if c, isC := constInt(bo.Y); isC {
					if bo.Op == token.GTR && c == full || bo.Op == token.GEQ && c == full+1 {
						haveCount = true
					} else {
						countOff = true
					}
				}
				if c, isC := constInt(bo.X); isC {
					if bo.Op == token.LSS && c == full || bo.Op == token.LEQ && c == full+1 {
						haveCount = true
					} else {
						countOff = true
					}
				}
			}
			for d := range dataDeps(ifi.Cond) {
				if c, ok := d.(*ssa.Call); ok {
					if callee := c.Call.StaticCallee(); callee != nil && callee.Name() == "bitsFor" {
						haveValues = true
					}
				}
			}
		case token.EQL:
			if z, isC := constInt(bo.Y); isC && z == 0 {
				for d := range dataDeps(bo.X) {
					if c, ok := d.(*ssa.Call); ok && methodNameOf(c) == "Uint32" {
						if sl, ok := c.Common().Args[len(c.Common().Args)-1].(*ssa.Slice); ok {
							if hi, ok := constInt(sl.High); ok && hi <= 12 {
								haveDims = true
							}
						}
					}
				}
			}
		}
	}
	r.check(haveIdx, "setExportedVars:sub-block-index-below-number-of-labels", "refused", "the parser accepts a block whose sub-block indices point outside its label table: POST blocks with such a block kills the process in the indexing goroutine (index out of range in CalcNumLabels), or — with noindexing — is stored and kills it at the next 2-D read", w.fpos(f))
	r.check(idxExact, "setExportedVars:sub-block-index-equal-to-number-of-labels-refused", "the refusal starts at index == number of labels", "the parser's bound on a sub-block index lets index == number of labels through (or is missing): the table has entries 0 … N−1, so the readers index one past its end — in POST blocks this happens in the indexing goroutine, outside any recover", w.fpos(f))
	r.check(haveCount && !countOff, "setExportedVars:sub-block-label-count-bounded", "refused above 512 labels, accepted up to 512", "the parser's bound on the labels of a sub-block is missing or not 'more than 512': either a sub-block that claims more labels than it has voxels is accepted (MakeLabelVolume indexes its 512-entry table past the end), or a full sub-block of 512 labels, which the encoder emits, is refused on re-parse", w.fpos(f))
	r.check(haveValues, "setExportedVars:packed-values-long-enough", "refused", "the parser accepts a block whose packed values are shorter than its sub-blocks need: the readers run past the end of the value bytes", w.fpos(f))
	r.check(haveDims, "setExportedVars:no-empty-dimension", "refused", "the parser accepts a block with a dimension of 0 sub-blocks and a label table: the table aliasing indexes an empty slice", w.fpos(f))
}

// ---------------------------------------------------------------------------------------------
// R20.59 / R17.14 — a streamed block has the instance's block size before it is stored

func init() {
	reg := func(id, prop string) {
		register(ruleDef{ID: id, Prop: prop, Tier: "quick", Floor: 2,
			Title: "a streamed block has the instance's block size before it is stored: in every labelmap function that takes blocks from a request stream (readStreamedBlock), each path from the read to the serialisation of the block for the store passes a comparison of the block's Size with the instance's block size — the readers address stored blocks by the instance's size, and a 32³ block stored in a 64³ instance makes the next 2-D read slice out of range in a goroutine no recover covers",
			Fn:    ruleStreamedBlockSizeChecked})
	}
	reg("R20.59", "C20")
	reg("R17.14", "C17")
}

func ruleStreamedBlockSizeChecked(r *Run) {
	w := r.W
	n := 0
	for _, f := range w.RepoFuncs {
		if relPkg(pkgPathOf(f)) != "datatype/labelmap" || len(f.Blocks) == 0 || isTestFunc(w, f) {
			continue
		}
		var read ssa.Instruction
		for _, c := range calls(f) {
			if callee := staticCallee(c); callee != nil && callee.Name() == "readStreamedBlock" {
				read = c
			}
		}
		if read == nil {
			continue
		}
		isSizeCheck := func(x ssa.Instruction) bool {
			c, ok := x.(ssa.CallInstruction)
			if !ok || methodNameOf(c) != "Equals" {
				return false
			}
			for _, a := range c.Common().Args {
				for d := range dataDeps(a) {
					if u, ok := d.(*ssa.UnOp); ok {
						if fa, ok := u.X.(*ssa.FieldAddr); ok {
							if nm, _, _ := fieldName(fa); nm == "Size" && typeIs(fa.X.Type(), "datatype/common/labels", "Block") {
								return true
							}
						}
					}
				}
			}
			return false
		}
		k := 0
		for _, c := range calls(f) {
			callee := staticCallee(c)
			if callee == nil || callee.Name() != "SerializePrecompressedData" {
				continue
			}
			n++
			k++
			p := findPath(f, read, isSizeCheck, func(x ssa.Instruction) bool { return x == ssa.Instruction(c) }, nil)
			r.check(p == nil, fmt.Sprintf("%s:stored-block#%d:size-compared-with-instance", fname(f), k), "the block's size is compared with the instance's before it is serialised for the store",
				"a block read from the request stream is stored without its size having been compared with the instance's block size: a well-formed block of another size is acknowledged, and the next read that assumes the instance's size slices it out of range (in the 2-D readers' goroutines: the process ends)", w.pos(c.Pos()), w.renderPath(p)...)
		}
	}
	r.check(n >= 2, "labelmap:streamed-block-stores", fmt.Sprintf("%d", n), "fewer than expected: rule needs review", "-")
}

// ---------------------------------------------------------------------------------------------
// R13.27 / R20.60 — what is stored as a body's element list was decoded as one

func init() {
	reg := func(id, prop string) {
		register(ruleDef{ID: id, Prop: prop, Tier: "quick", Floor: 2,
			Title: "what is stored as a body's element list is one: in the annotation package, every Put under a label key (NewLabelTKey) stores bytes produced by json.Marshal, or bytes that came in with the request and lie behind a json.Unmarshal into the element-list type on every path from the function's entry — a posted string that is not a list of elements makes every later read and update of that body fail until the lists are reloaded",
			Fn:    ruleLabelListStoredIsAList})
	}
	reg("R13.27", "C13")
	reg("R20.60", "C20")
}

func ruleLabelListStoredIsAList(r *Run) {
	w := r.W
	n := 0
	isJSON := func(c ssa.CallInstruction, name string) bool {
		callee := staticCallee(c)
		return callee != nil && callee.Pkg != nil && callee.Pkg.Pkg.Path() == "encoding/json" && callee.Name() == name
	}
	for _, f := range w.RepoFuncs {
		if relPkg(pkgPathOf(f)) != "datatype/annotation" || len(f.Blocks) == 0 || isTestFunc(w, f) {
			continue
		}
		k := 0
		for _, c := range calls(f) {
			if methodNameOf(c) != "Put" || !c.Common().IsInvoke() {
				continue
			}
			args := c.Common().Args
			if len(args) < 2 {
				continue
			}
			key, val := args[len(args)-2], args[len(args)-1]
			labelKey := false
			for _, rv := range roots(key, f) {
				if kc, ok := rv.V.(*ssa.Call); ok {
					if callee := kc.Call.StaticCallee(); callee != nil && callee.Name() == "NewLabelTKey" {
						labelKey = true
					}
				}
			}
			if !labelKey {
				continue
			}
			n++
			k++
			marshalled := false
			for d := range dataDeps(val) {
				if dc, ok := d.(*ssa.Call); ok && isJSON(dc, "Marshal") {
					marshalled = true
				}
				if ex, ok := d.(*ssa.Extract); ok {
					if dc, ok := ex.Tuple.(*ssa.Call); ok && isJSON(dc, "Marshal") {
						marshalled = true
					}
				}
			}
			if marshalled {
				r.check(true, fmt.Sprintf("%s:label-list-put#%d", fname(f), k), "stores the output of json.Marshal", "", w.pos(c.Pos()))
				continue
			}
			// a parameter handed on as it is (the caller marshalled it)
			onlyParam := true
			for _, rv := range roots(val, f) {
				if _, ok := rv.V.(*ssa.Parameter); !ok {
					onlyParam = false
				}
			}
			if onlyParam && len(roots(val, f)) > 0 {
				r.check(true, fmt.Sprintf("%s:label-list-put#%d", fname(f), k), "stores a value its caller built", "", w.pos(c.Pos()))
				continue
			}
			// otherwise: every path to the Put passes a decode into the element-list type
			isDecode := func(x ssa.Instruction) bool {
				dc, ok := x.(ssa.CallInstruction)
				if !ok || !isJSON(dc, "Unmarshal") {
					return false
				}
				dst := dc.Common().Args[1]
				return strings.Contains(dst.Type().String(), "Elements") || func() bool {
					if mi, ok := dst.(*ssa.MakeInterface); ok {
						return strings.Contains(mi.X.Type().String(), "Elements")
					}
					return false
				}()
			}
			// the points at which the bytes are accepted: the Put itself, or — when the value is taken out of a
			// local table filled earlier in the function — the stores into that table
			points := []ssa.Instruction{c}
			for d := range dataDeps(val) {
				nx, ok := d.(*ssa.Next)
				if !ok {
					continue
				}
				rg, ok := nx.Iter.(*ssa.Range)
				if !ok {
					continue
				}
				if mk, ok := rg.X.(*ssa.MakeMap); ok {
					var ups []ssa.Instruction
					for _, ref := range *mk.Referrers() {
						if mu, ok := ref.(*ssa.MapUpdate); ok && mu.Map == ssa.Value(mk) {
							ups = append(ups, mu)
						}
					}
					if len(ups) > 0 {
						points = ups
					}
				}
			}
			var p []ssa.Instruction
			for _, pt := range points {
				dominated := false
				for _, b2 := range f.Blocks {
					for _, x := range b2.Instrs {
						if isDecode(x) && domInstr(x, pt) {
							dominated = true
						}
					}
				}
				if !dominated {
					p = []ssa.Instruction{pt}
				}
			}
			r.check(p == nil, fmt.Sprintf("%s:label-list-put#%d:decoded-first", fname(f), k), "the bytes are accepted for storing only behind their decoding as a list of elements",
				"bytes taken from the request are stored under a label key without having been decoded as a list of elements: POST labels {\"100\":\"garbage\"} is acknowledged, and from then on GET label/100 and every element POST or DELETE that touches body 100 fail", w.pos(c.Pos()), w.renderPath(p)...)
		}
	}
	r.check(n >= 2, "annotation:label-list-puts", fmt.Sprintf("%d", n), "fewer than expected: rule needs review", "-")
}

// ---------------------------------------------------------------------------------------------
// R6.19 / R20.61 — an instance gets only a name a URL can spell

func init() {
	reg := func(id, prop string) {
		register(ruleDef{ID: id, Prop: prop, Tier: "quick", Floor: 2,
			Title: "an instance gets only a name a URL can spell: in repoManager.newData the entry into the repo's data map lies behind a refusal of the empty name and behind a refusal of a name that contains a path separator (strings.Contains…/Index… on the name) — an instance named \"\" or \"a/b\" is created and persisted but can never be addressed, read or deleted through the API",
			Fn:    ruleInstanceNameAddressable})
	}
	reg("R6.19", "C06")
	reg("R20.61", "C20")
}

func ruleInstanceNameAddressable(r *Run) {
	w := r.W
	f := w.method("datastore", "repoManager", "newData")
	if f == nil {
		r.undecided("datastore.repoManager.newData", "anchor not found")
		return
	}
	var name *ssa.Parameter
	for _, p := range f.Params {
		if typeIs(p.Type(), "dvid", "InstanceName") {
			name = p
		}
	}
	var insert ssa.Instruction
	for _, b := range f.Blocks {
		for _, in := range b.Instrs {
			if mu, ok := in.(*ssa.MapUpdate); ok && isFieldLoad(mu.Map, "repoT", "data") {
				insert = mu
			}
		}
	}
	if name == nil || insert == nil {
		r.undecided("newData:name-and-insertion", "the name parameter or the insertion into the data map was not found")
		return
	}
	fromName := func(v ssa.Value) bool {
		if stripConv(v) == ssa.Value(name) {
			return true
		}
		for d := range dataDeps(v) {
			if d == ssa.Value(name) {
				return true
			}
		}
		return false
	}
	emptyRefused, sepRefused := false, false
	for _, b := range f.Blocks {
		ifi, ok := b.Instrs[len(b.Instrs)-1].(*ssa.If)
		if !ok || !b.Dominates(insert.Block()) {
			continue
		}
		switch c := ifi.Cond.(type) {
		case *ssa.BinOp:
			if cst, ok := c.Y.(*ssa.Const); ok && cst.Value != nil && cst.Value.Kind() == constant.String && constant.StringVal(cst.Value) == "" && fromName(c.X) && (c.Op == token.EQL || c.Op == token.NEQ) {
				emptyRefused = true
			}
			if x := lenOf(c.X); x != nil && fromName(x) {
				emptyRefused = true
			}
		case *ssa.Call:
			callee := c.Call.StaticCallee()
			if callee != nil && callee.Pkg != nil && callee.Pkg.Pkg.Path() == "strings" && (strings.HasPrefix(callee.Name(), "Contains") || strings.HasPrefix(callee.Name(), "Index")) && len(c.Call.Args) > 0 && fromName(c.Call.Args[0]) {
				sepRefused = true
			}
		}
		if bo, ok := ifi.Cond.(*ssa.BinOp); ok {
			for _, o := range []ssa.Value{bo.X, bo.Y} {
				if c, ok := o.(*ssa.Call); ok {
					callee := c.Call.StaticCallee()
					if callee != nil && callee.Pkg != nil && callee.Pkg.Pkg.Path() == "strings" && strings.HasPrefix(callee.Name(), "Index") && len(c.Call.Args) > 0 && fromName(c.Call.Args[0]) {
						sepRefused = true
					}
				}
			}
		}
	}
	r.check(emptyRefused, "newData:empty-name-refused", "the empty name is tested before the instance is entered", "newData enters an instance under the empty name: POST repo/<uuid>/instance with dataname \"\" is acknowledged, and the instance can never be addressed or deleted", w.pos(insert.Pos()))
	r.check(sepRefused, "newData:name-with-path-separator-refused", "the name is searched for a path separator before the instance is entered", "newData enters an instance whose name contains '/': every URL for it is parsed as another instance plus extra path elements, so it can never be addressed or deleted", w.pos(insert.Pos()))
}

// ---------------------------------------------------------------------------------------------
// R5.21 / R20.62 — a key request names exactly one key

func init() {
	reg := func(id, prop string) {
		register(ruleDef{ID: id, Prop: prop, Tier: "quick", Floor: 1,
			Title: "a key request names exactly one key: in keyvalue's handler the path element used as the key of a single-key read, write or delete (PutData, DeleteData, GetData, KeyExists) is taken only behind a test that the path has no further elements (len(parts) > 5 or != 5 leaves) — the path is split at every '/', so POST key/a/b would otherwise silently overwrite key \"a\"",
			Fn:    ruleKeyRequestNamesOneKey})
	}
	reg("R5.21", "C05")
	reg("R20.62", "C20")
}

func ruleKeyRequestNamesOneKey(r *Run) {
	w := r.W
	f := w.method("datatype/keyvalue", "Data", "ServeHTTP")
	if f == nil {
		r.undecided("keyvalue.Data.ServeHTTP", "anchor not found")
		return
	}
	n := 0
	seen := map[ssa.Value]bool{}
	for _, c := range calls(f) {
		callee := staticCallee(c)
		if callee == nil {
			continue
		}
		switch callee.Name() {
		case "PutData", "DeleteData", "GetData", "KeyExists":
		default:
			continue
		}
		for _, a := range c.Common().Args {
			u, ok := a.(*ssa.UnOp)
			if !ok {
				continue
			}
			ia, ok := u.X.(*ssa.IndexAddr)
			if !ok || seen[u] {
				continue
			}
			k, ok := constInt(ia.Index)
			if !ok {
				continue
			}
			seen[u] = true
			n++
			bounded := false
			for _, b := range f.Blocks {
				ifi, isIf := b.Instrs[len(b.Instrs)-1].(*ssa.If)
				if !isIf {
					continue
				}
				bo, isBo := ifi.Cond.(*ssa.BinOp)
				if !isBo {
					continue
				}
				x := lenOf(bo.X)
				cst, isC := constInt(bo.Y)
				if x == nil || !isC || !(x == ia.X || sameRoots(x, ia.X, f)) {
					continue
				}
				switch {
				case bo.Op == token.GTR && cst == k+1 && guardedByEdge(ifi, 1, ia):
					bounded = true
				case bo.Op == token.GEQ && cst == k+2 && guardedByEdge(ifi, 1, ia):
					bounded = true
				case bo.Op == token.NEQ && cst == k+1 && guardedByEdge(ifi, 1, ia):
					bounded = true
				case bo.Op == token.EQL && cst == k+1 && guardedByEdge(ifi, 0, ia):
					bounded = true
				case bo.Op == token.LEQ && cst == k+1 && guardedByEdge(ifi, 0, ia):
					bounded = true
				}
			}
			r.check(bounded, fmt.Sprintf("ServeHTTP:key-from-path-element-%d:no-further-elements", k), "taken behind a test that nothing follows it in the path",
				"the key is the path element after 'key' and whatever follows it is ignored: POST key/a/b/c (or key/a%2Fb) is acknowledged and overwrites key \"a\", a key the request did not name", w.pos(ia.Pos()))
		}
	}
	r.check(n >= 1, "keyvalue:single-key-path-elements", fmt.Sprintf("%d", n), "none found: rule needs review", w.fpos(f))
}

// ---------------------------------------------------------------------------------------------
// R20.63 — a channel is closed at most once on every path

func init() {
	register(ruleDef{ID: "R20.63", Prop: "C20", Tier: "quick", Floor: 1,
		Title: "a channel is closed at most once: in the datastore, server, storage and datatype packages no path leads from one close of a channel to a close of the same channel (the same variable, not reassigned in between) — a second close panics, and in the block receivers it does so after part of the stream was stored",
		Fn:    ruleChannelClosedOnce})
}

func ruleChannelClosedOnce(r *Run) {
	w := r.W
	n, multi := 0, 0
	for _, f := range w.RepoFuncs {
		if len(f.Blocks) == 0 || isTestFunc(w, f) {
			continue
		}
		p := relPkg(pkgPathOf(f))
		if !(strings.HasPrefix(p, "datatype/") || p == "datastore" || p == "server" || strings.HasPrefix(p, "storage")) {
			continue
		}
		byKey := map[string][]ssa.Instruction{}
		for _, c := range calls(f) {
			bi, ok := c.Common().Value.(*ssa.Builtin)
			if !ok || bi.Name() != "close" {
				continue
			}
			if _, isDefer := c.(*ssa.Defer); isDefer {
				continue
			}
			// one of several channels, picked by a computed index: each pass of a loop closes another one
			if u, ok := c.Common().Args[0].(*ssa.UnOp); ok {
				if ia, ok := u.X.(*ssa.IndexAddr); ok {
					if _, isC := constInt(ia.Index); !isC {
						continue
					}
				}
			}
			n++
			byKey[placeKey(c.Common().Args[0])] = append(byKey[placeKey(c.Common().Args[0])], c)
		}
		k := 0
		for key, cs := range byKey {
			if key == "" {
				continue
			}
			// a reassignment of the variable holding the channel
			reassigned := func(x ssa.Instruction) bool {
				st, ok := x.(*ssa.Store)
				if !ok {
					return false
				}
				return "load("+addrKey(st.Addr)+")" == key
			}
			for _, c1 := range cs {
				for _, c2 := range cs {
					multi++
					pth := findPath(f, c1, reassigned, func(x ssa.Instruction) bool { return x == c2 }, nil)
					if pth == nil {
						continue
					}
					k++
					r.violation(fmt.Sprintf("%s:channel-closed-twice#%d", fname(f), k),
						"a path leads from one close of the channel to another close of it: the second close panics ('close of closed channel'); where the first close sits on an error path inside a receive loop, a bad stream ends in a panic after part of it was stored, and senders still running panic on their next send", w.pos(c2.Pos()), w.renderPath(pth)...)
				}
			}
		}
	}
	r.check(n >= 10, "repo:channel-closes", fmt.Sprintf("%d closes, %d ordered pairs on one channel examined", n, multi), "too few: rule needs review", "-")
}

// ---------------------------------------------------------------------------------------------
// Round f, sixth batch: seeds still missed after the full detection (C08, C13, C18)

func init() {
	register(ruleDef{ID: "R8.23", Prop: "C08", Tier: "quick", Floor: 2,
		Title: "a supervoxel split changes the mapping only after its blocks were rewritten, and undoes the blocks when that fails: in SplitSupervoxel the call of addSupervoxelSplitToMapping lies behind the no-error edge of the test of the block phase's error, and the error edge of that test calls restoreOldBlocks",
		Fn:    ruleSplitMappingAfterBlocks})
	register(ruleDef{ID: "R13.28", Prop: "C13", Tier: "quick", Floor: 1,
		Title: "a body's list loses what left the body before it gains what entered it: in annotation functions that apply per-label deletions and additions to one element list (ElementsNR.delete, ElementsNR.add on the same list), every add lies behind the delete loop — an element that moved within the body (same position deleted and added in one event) must end up present",
		Fn:    ruleDeletionsBeforeAdditions})
	register(ruleDef{ID: "R18.18", Prop: "C18", Tier: "quick", Floor: 2,
		Title: "point and mask queries of an ROI answer from the spans alone: in roi.PointQuery and roi.GetMask no branch depends on the instance's MinZ/MaxZ (one pair for all versions, moved by whichever version wrote last)",
		Fn:    ruleROIQueriesIgnoreExtents})
}

func ruleSplitMappingAfterBlocks(r *Run) {
	w := r.W
	f := w.method("datatype/labelmap", "Data", "SplitSupervoxel")
	if f == nil {
		r.undecided("labelmap.Data.SplitSupervoxel", "anchor not found")
		return
	}
	var mapping ssa.Instruction
	var restores []ssa.Instruction
	for _, c := range calls(f) {
		callee := staticCallee(c)
		if callee == nil {
			continue
		}
		if callee.Name() == "addSupervoxelSplitToMapping" {
			mapping = c
		}
		if callee.Name() == "restoreOldBlocks" {
			restores = append(restores, c)
		}
	}
	if !r.check(mapping != nil, "SplitSupervoxel:mapping-step", "found", "the call of addSupervoxelSplitToMapping was not found: rule needs review", w.fpos(f)) {
		return
	}
	// the test of the block phase: the If after the close of the block channel
	var closeCh ssa.Instruction
	for _, c := range calls(f) {
		if bi, ok := c.Common().Value.(*ssa.Builtin); ok && bi.Name() == "close" {
			if _, isDefer := c.(*ssa.Defer); !isDefer {
				closeCh = c
			}
		}
	}
	okOrder, okUndo := false, false
	if closeCh != nil {
		if ifi, ok := closeCh.Block().Instrs[len(closeCh.Block().Instrs)-1].(*ssa.If); ok {
			if bo, ok := ifi.Cond.(*ssa.BinOp); ok && isNilConst(bo.Y) {
				errEdge, okEdge := 0, 1
				if bo.Op == token.EQL {
					errEdge, okEdge = 1, 0
				}
				okOrder = guardedByEdge(ifi, okEdge, mapping)
				for _, rs := range restores {
					if guardedByEdge(ifi, errEdge, rs) {
						okUndo = true
					}
				}
			}
		}
	}
	r.check(okOrder, "SplitSupervoxel:mapping-after-the-block-phase-succeeded", "behind the no-error edge of the block phase's test",
		"the mapping (and the mutation log) are changed before the blocks were rewritten without error: when a block fails, the request answers an error and the blocks are restored, but the supervoxel is already mapped away and the split is in the log — replayed at every restart", w.pos(mapping.Pos()))
	r.check(okUndo, "SplitSupervoxel:failed-block-phase-restores-blocks", "the error edge of the block phase's test calls restoreOldBlocks",
		"when a block of the split fails, the blocks already rewritten are not restored: part of the supervoxel carries the new ids while index and mapping still describe the old one", w.fpos(f))
}

func ruleDeletionsBeforeAdditions(r *Run) {
	w := r.W
	n := 0
	for _, f := range w.RepoFuncs {
		if relPkg(pkgPathOf(f)) != "datatype/annotation" || len(f.Blocks) == 0 || isTestFunc(w, f) {
			continue
		}
		var dels, adds []ssa.CallInstruction
		for _, c := range calls(f) {
			callee := staticCallee(c)
			if callee == nil || callee.Signature.Recv() == nil || !strings.Contains(callee.Signature.Recv().Type().String(), "ElementsNR") {
				continue
			}
			switch callee.Name() {
			case "delete":
				dels = append(dels, c)
			case "add":
				adds = append(adds, c)
			}
		}
		k := 0
		for _, a := range adds {
			for _, d := range dels {
				if placeKey(a.Common().Args[0]) != placeKey(d.Common().Args[0]) {
					continue
				}
				// both in one pass over the labels: the same enclosing loop
				ha, _, _ := innermostLoop(f, a.Block())
				_, setD, _ := innermostLoop(f, d.Block())
				if ha == nil || setD == nil {
					continue
				}
				n++
				k++
				// the add must not be able to reach the delete within one pass (i.e. without going through the outer header)
				_, outer, _ := innermostLoop(f, a.Block())
				var head ssa.Instruction
				for _, x := range ha.Instrs {
					if _, isPhi := x.(*ssa.Phi); !isPhi {
						head = x
						break
					}
				}
				_ = outer
				p := findPath(f, a, func(x ssa.Instruction) bool { return x == head }, func(x ssa.Instruction) bool { return x == ssa.Instruction(d) }, nil)
				r.check(p == nil, fmt.Sprintf("%s:list#%d:deletions-before-additions", fname(f), k), "no path inside one pass leads from the addition to the deletions",
					"the additions are applied to a body's element list before the deletions of the same event: an element whose position is both deleted and added (it stayed in the body while the block was relabelled) is added and then removed — the body's list loses it while blocks and tags still have it", w.pos(a.Pos()))
			}
		}
	}
	r.check(n >= 1, "annotation:lists-with-deletions-and-additions", fmt.Sprintf("%d", n), "none found: rule needs review", "-")
}

func ruleROIQueriesIgnoreExtents(r *Run) {
	w := r.W
	n := 0
	for _, name := range []string{"PointQuery", "GetMask"} {
		f := w.method("datatype/roi", "Data", name)
		if f == nil {
			r.undecided("roi.Data."+name, "anchor not found")
			continue
		}
		n++
		bad := ""
		for _, b := range f.Blocks {
			ifi, ok := b.Instrs[len(b.Instrs)-1].(*ssa.If)
			if !ok {
				continue
			}
			for d := range dataDeps(ifi.Cond) {
				u, ok := d.(*ssa.UnOp)
				if !ok {
					continue
				}
				fa, ok := u.X.(*ssa.FieldAddr)
				if !ok {
					continue
				}
				if nm, _, _ := fieldName(fa); nm == "MinZ" || nm == "MaxZ" {
					bad = w.pos(ifi.Pos())
				}
			}
		}
		r.check(bad == "", "roi."+name+":no-branch-on-MinZ-MaxZ", "no branch depends on the instance's extents",
			"a branch of the query depends on the instance's MinZ/MaxZ ("+bad+"): these are not versioned — after another branch shrank or moved its ROI, points inside this version's ROI are answered as outside", w.fpos(f))
	}
	r.check(n >= 2, "roi:query-functions", fmt.Sprintf("%d", n), "fewer than expected: rule needs review", "-")
}

// ---------------------------------------------------------------------------------------------
// R9.15 — the row stride of a sub-block number is the X count; R8.24 — only the emptied supervoxel leaves a block entry

func init() {
	register(ruleDef{ID: "R9.15", Prop: "C09", Tier: "quick", Floor: 3,
		Title: "sub-blocks are numbered x-fastest: in the labels package, in every sum of the shape a·g·g' + b·g'' + c whose g, g' are the sub-block counts of two axes, g and g' are the counts of the X and Y axes and g'' is the count of the X axis (the layout every reader and the encoder share)",
		Fn:    ruleSubBlockNumberStrides})
	register(ruleDef{ID: "R8.24", Prop: "C08", Tier: "quick", Floor: 1,
		Title: "a supervoxel that leaves a block takes only its own count with it: in Index.ModifyBlocks a block entry is deleted from idx.Blocks only behind a test that the entry is nil or has no counts left — not when one supervoxel's count reaches zero (the other supervoxels of the body in that block would vanish from the index)",
		Fn:    ruleBlockEntryDeletedOnlyWhenEmpty})
}

// dimAxis: the axis (0,1,2) of the block dimension a value is derived from: a component of a Point3d, or
// the header word at byte 4·axis.  -1 when none or several.
func dimAxis(v ssa.Value) int {
	axis := -1
	for d := range dataDeps(v) {
		k := int64(-1)
		switch x := d.(type) {
		case *ssa.Index:
			if strings.Contains(x.X.Type().String(), "Point3d") {
				if c, ok := constInt(x.Index); ok {
					k = c
				}
			}
		case *ssa.UnOp:
			if ia, ok := x.X.(*ssa.IndexAddr); ok && strings.Contains(ia.X.Type().String(), "Point3d") {
				if c, ok := constInt(ia.Index); ok {
					k = c
				}
			}
		case *ssa.Call:
			if methodNameOf(x) == "Uint32" && len(x.Call.Args) > 0 {
				if sl, ok := x.Call.Args[len(x.Call.Args)-1].(*ssa.Slice); ok {
					lo := int64(0)
					if sl.Low != nil {
						if c, ok := constInt(sl.Low); ok {
							lo = c
						} else {
							lo = -1
						}
					}
					if lo == 0 || lo == 4 || lo == 8 {
						k = lo / 4
					}
				}
			}
		}
		if k < 0 || k > 2 {
			continue
		}
		if axis >= 0 && axis != int(k) {
			return -1
		}
		axis = int(k)
	}
	return axis
}

func mulFactors(v ssa.Value, out *[]ssa.Value) {
	v = stripConv(v)
	if bo, ok := v.(*ssa.BinOp); ok && bo.Op == token.MUL {
		mulFactors(bo.X, out)
		mulFactors(bo.Y, out)
		return
	}
	*out = append(*out, v)
}

func ruleSubBlockNumberStrides(r *Run) {
	w := r.W
	n := 0
	for _, f := range w.RepoFuncs {
		if relPkg(pkgPathOf(f)) != "datatype/common/labels" || len(f.Blocks) == 0 || isTestFunc(w, f) {
			continue
		}
		k := 0
		seen := map[ssa.Value]bool{}
		for _, b := range f.Blocks {
			for _, in := range b.Instrs {
				bo, ok := in.(*ssa.BinOp)
				if !ok || bo.Op != token.ADD || seen[bo] {
					continue
				}
				// a maximal sum: not itself an operand of another addition
				inner := false
				for _, ref := range *bo.Referrers() {
					if p, ok := ref.(*ssa.BinOp); ok && p.Op == token.ADD {
						inner = true
					}
				}
				if inner {
					continue
				}
				var leaves []ssa.Value
				var flat func(v ssa.Value)
				flat = func(v ssa.Value) {
					if x, ok := v.(*ssa.BinOp); ok && x.Op == token.ADD {
						seen[x] = true
						flat(x.X)
						flat(x.Y)
						return
					}
					leaves = append(leaves, v)
				}
				flat(bo)
				var plane, row []int // axes of the dimension factors of the 3-factor and 2-factor terms
				havePlane, haveRow := false, false
				for _, lf := range leaves {
					var fs []ssa.Value
					mulFactors(lf, &fs)
					var axes []int
					for _, fct := range fs {
						if a := dimAxis(fct); a >= 0 {
							// a dimension count, not a coordinate: derived from the block size by a division or read from the header
							isDim := false
							for d := range dataDeps(fct) {
								if q, ok := d.(*ssa.BinOp); ok && (q.Op == token.QUO || q.Op == token.SHR) {
									isDim = true
								}
								if c, ok := d.(*ssa.Call); ok && methodNameOf(c) == "Uint32" {
									isDim = true
								}
							}
							if isDim {
								axes = append(axes, a)
							}
						}
					}
					switch len(axes) {
					case 2:
						plane, havePlane = axes, true
					case 1:
						row, haveRow = axes, true
					}
				}
				if !havePlane || !haveRow {
					continue
				}
				n++
				k++
				okPlane := (plane[0] == 0 && plane[1] == 1) || (plane[0] == 1 && plane[1] == 0)
				r.check(okPlane && row[0] == 0, fmt.Sprintf("%s:sub-block-number#%d:x-fastest", fname(f), k), "plane stride gx·gy, row stride gx",
					fmt.Sprintf("the sub-block number is computed with plane stride over axes %v and row stride over axis %v instead of gx·gy and gx: for blocks that are not cubes the point is looked up in the wrong sub-block", plane, row), w.pos(bo.Pos()))
			}
		}
	}
	r.check(n >= 3, "labels:sub-block-numbers", fmt.Sprintf("%d", n), "fewer than expected: rule needs review", "-")
}

func ruleBlockEntryDeletedOnlyWhenEmpty(r *Run) {
	w := r.W
	f := w.method("datatype/common/labels", "Index", "ModifyBlocks")
	if f == nil {
		r.undecided("labels.Index.ModifyBlocks", "anchor not found")
		return
	}
	n := 0
	for _, c := range calls(f) {
		cv, ok := c.(*ssa.Call)
		if !ok {
			continue
		}
		bi, ok := cv.Call.Value.(*ssa.Builtin)
		if !ok || bi.Name() != "delete" || !isFieldLoad(cv.Call.Args[0], "LabelIndex", "Blocks") && !isFieldLoad(cv.Call.Args[0], "Index", "Blocks") {
			continue
		}
		n++
		// every way into the deleting block is decided by a test of the entry itself: it is nil, or it has no counts
		guarded := len(cv.Block().Preds) > 0
		for _, b := range cv.Block().Preds {
			ifi, isIf := b.Instrs[len(b.Instrs)-1].(*ssa.If)
			if !isIf {
				guarded = false
				continue
			}
			about := false
			for d := range dataDeps(ifi.Cond) {
				if x := lenOf(d); x != nil {
					if u, ok := x.(*ssa.UnOp); ok {
						if fa, ok := u.X.(*ssa.FieldAddr); ok {
							if nm, _, _ := fieldName(fa); nm == "Counts" {
								about = true
							}
						}
					}
				}
			}
			if bo, ok := ifi.Cond.(*ssa.BinOp); ok && isNilConst(bo.Y) && strings.Contains(bo.X.Type().String(), "SVCount") {
				about = true
			}
			if !about {
				guarded = false
			}
		}
		r.check(guarded, fmt.Sprintf("ModifyBlocks:block-entry-delete#%d:only-when-no-counts-left", n), "behind a test of the number of counts left in the entry",
			"a whole block entry is deleted from the index without a test that no supervoxel is left in it: when one supervoxel's count in a block reaches zero, the other supervoxels of the body in that block vanish from the index as well", w.pos(cv.Pos()))
	}
	r.check(n >= 1, "ModifyBlocks:block-entry-deletes", fmt.Sprintf("%d", n), "none found: rule needs review", w.fpos(f))
}

// ---------------------------------------------------------------------------------------------
// R20.64 / R8.25 — a loop that fills a slice advances its index

func init() {
	reg := func(id, prop string) {
		register(ruleDef{ID: id, Prop: prop, Tier: "quick", Floor: 1,
			Title: "a loop that fills a slice advances its index: in the datastore, server, storage and datatype packages, a store of the loop's current element into s[i] inside a range loop has an index that changes with the iteration — an index defined before the loop and never advanced puts every element into the same slot (labelmap's mutation history then asks for the mappings of supervoxel 0 instead of the body's supervoxels)",
			Fn:    ruleFillLoopAdvancesIndex})
	}
	reg("R20.64", "C20")
	reg("R8.25", "C08")
}

func ruleFillLoopAdvancesIndex(r *Run) {
	w := r.W
	n := 0
	for _, f := range w.RepoFuncs {
		if len(f.Blocks) == 0 || isTestFunc(w, f) {
			continue
		}
		p := relPkg(pkgPathOf(f))
		if !(strings.HasPrefix(p, "datatype/") || p == "datastore" || p == "server" || strings.HasPrefix(p, "storage")) {
			continue
		}
		k := 0
		for _, b := range f.Blocks {
			for _, in := range b.Instrs {
				st, ok := in.(*ssa.Store)
				if !ok {
					continue
				}
				ia, ok := st.Addr.(*ssa.IndexAddr)
				if !ok {
					continue
				}
				if _, isSlice := ia.X.Type().Underlying().(*types.Slice); !isSlice {
					continue
				}
				h, set, _ := innermostLoop(f, b)
				if set == nil {
					continue
				}
				// the stored value is the loop's current element: it depends on a Next of a range in this loop's header
				fromIter := false
				for d := range dataDeps(st.Val) {
					if ex, ok := d.(*ssa.Extract); ok {
						if nx, ok := ex.Tuple.(*ssa.Next); ok && set[nx.Block()] {
							fromIter = true
						}
					}
				}
				if !fromIter {
					continue
				}
				// the slice is not made inside the loop (a per-iteration buffer)
				madeInside := false
				for _, rv := range roots(ia.X, f) {
					if mk, ok := rv.V.(*ssa.MakeSlice); ok && set[mk.Block()] {
						madeInside = true
					}
				}
				if madeInside {
					continue
				}
				n++
				k++
				// does the index change with the iteration?
				varies := false
				idx := ia.Index
				if _, isConst := idx.(*ssa.Const); isConst {
					// a slot of a record that the same iteration goes on to use is another idiom; a constant slot of
					// a slice that the loop otherwise never touches is an index that was meant to advance
					usedInLoop := false
					for _, rv := range roots(ia.X, f) {
						if refs := rv.V.Referrers(); refs != nil {
							for _, ref := range *refs {
								if ref != ssa.Instruction(ia) && set[ref.Block()] {
									usedInLoop = true
								}
							}
						}
					}
					if refs := ia.X.Referrers(); refs != nil {
						for _, ref := range *refs {
							if ref != ssa.Instruction(ia) && set[ref.Block()] {
								usedInLoop = true
							}
						}
					}
					if usedInLoop {
						continue
					}
				}
				for d := range dataDeps(idx) {
					switch x := d.(type) {
					case *ssa.Phi:
						if set[x.Block()] {
							varies = true
						}
					case *ssa.Extract:
						if nx, ok := x.Tuple.(*ssa.Next); ok && set[nx.Block()] {
							varies = true
						}
					case *ssa.UnOp:
						// a counter kept in a local that the loop stores into
						if al, ok := x.X.(*ssa.Alloc); ok {
							for _, ref := range *al.Referrers() {
								if s2, ok := ref.(*ssa.Store); ok && s2.Addr == ssa.Value(al) && set[s2.Block()] {
									varies = true
								}
							}
						}
					case *ssa.Call:
						if set[x.Block()] {
							varies = true
						}
					}
				}
				_ = h
				r.check(varies, fmt.Sprintf("%s:fill#%d:index-advances", fname(f), k), "the index changes with the iteration",
					"every element of the loop is stored into the same slot: the index is defined before the loop and nothing in the loop changes it — the slice ends up holding one element and zeros", w.pos(st.Pos()))
			}
		}
	}
	r.check(n >= 8, "repo:fill-loops", fmt.Sprintf("%d", n), "too few: rule needs review", "-")
}

// ---------------------------------------------------------------------------------------------
// R18.19 — the partitioners advance as many layers as the gap in Z needs

func init() {
	register(ruleDef{ID: "R18.19", Prop: "C18", Tier: "quick", Floor: 2,
		Title: "a span is filed under the layer that contains its Z: in the roi partitioners, the step that starts the next layer (newLayer inside the span callback) is the body of a loop on `z > layerEndZ`, not of a single test — with a gap in Z wider than one layer a single step files the span under a layer that ends below it, and the subvolumes returned do not cover the block",
		Fn:    ruleLayerAdvanceIsALoop})
}

func ruleLayerAdvanceIsALoop(r *Run) {
	w := r.W
	n := 0
	for _, f := range w.RepoFuncs {
		if relPkg(pkgPathOf(f)) != "datatype/roi" || len(f.Blocks) == 0 || isTestFunc(w, f) || f.Parent() == nil {
			continue
		}
		k := 0
		for _, c := range calls(f) {
			callee := staticCallee(c)
			if callee == nil || callee.Name() != "newLayer" {
				continue
			}
			n++
			k++
			h, set, _ := innermostLoop(f, c.Block())
			loops := false
			if set != nil {
				if ifi, ok := h.Instrs[len(h.Instrs)-1].(*ssa.If); ok {
					if bo, ok := ifi.Cond.(*ssa.BinOp); ok && (bo.Op == token.GTR || bo.Op == token.LSS || bo.Op == token.GEQ || bo.Op == token.LEQ) {
						loops = true
					}
				}
			}
			r.check(loops, fmt.Sprintf("%s:next-layer#%d:advanced-in-a-loop", fname(f), k), "the next layer is started inside a loop on the span's Z against the layer's end",
				"the next layer is started by a single test of the span's Z against the current layer's end: when the ROI has a gap in Z wider than the batch size, the span lands in a layer that ends below it and no returned subvolume covers its blocks", w.pos(c.Pos()))
		}
	}
	r.check(n >= 2, "roi:layer-advances", fmt.Sprintf("%d", n), "fewer than expected: rule needs review", "-")
}

// ---------------------------------------------------------------------------------------------
// R16.26 — imported bytes are decoded before they are stored

func init() {
	register(ruleDef{ID: "R16.26", Prop: "C16", Tier: "quick", Floor: 1,
		Title: "what the store gets, memory can read: in a neuronjson function that both stores a value's bytes (Put) and decodes the same bytes for the in-memory database (json.Unmarshal), the decoding comes first — bytes that fail to decode are skipped for memory, so storing them first leaves the store holding an annotation the in-memory head does not have",
		Fn:    ruleDecodeBeforeStore})
}

func ruleDecodeBeforeStore(r *Run) {
	w := r.W
	n := 0
	for _, f := range njFuncs(w) {
		if len(f.Blocks) == 0 || isTestFunc(w, f) {
			continue
		}
		k := 0
		for _, c := range calls(f) {
			if !c.Common().IsInvoke() || c.Common().Method.Name() != "Put" {
				continue
			}
			args := c.Common().Args
			val := args[len(args)-1]
			for _, c2 := range calls(f) {
				callee := staticCallee(c2)
				if callee == nil || callee.Pkg == nil || callee.Pkg.Pkg.Path() != "encoding/json" || callee.Name() != "Unmarshal" {
					continue
				}
				src := c2.Common().Args[0]
				if !(src == val || sameRoots(src, val, f)) {
					continue
				}
				n++
				k++
				r.check(domInstr(c2, c), fmt.Sprintf("%s:put#%d:decoded-first", fname(f), k), "the bytes are decoded before they are stored",
					"the bytes are stored before they are decoded for the in-memory database: a value that does not decode is skipped for memory but is already in the store — after the next restart the head lists an annotation it did not have before", w.pos(c.Pos()))
			}
		}
	}
	r.check(n >= 1, "neuronjson:stored-and-decoded-bytes", fmt.Sprintf("%d", n), "none found: rule needs review", "-")
}

// ---------------------------------------------------------------------------------------------
// R20.65 — a worker signs off once

func init() {
	register(ruleDef{ID: "R20.65", Prop: "C20", Tier: "quick", Floor: 1,
		Title: "a worker signs off once: in the datastore, server, storage and datatype packages, in a function that receives a *sync.WaitGroup as a parameter no path leads from one Done() on it to another Done() on it (without an Add in between) — the second Done drives the counter negative, which panics in the worker's goroutine and ends the process, and the first one already let the waiting request go on before the work was finished",
		Fn:    ruleWorkerSignsOffOnce})
}

func ruleWorkerSignsOffOnce(r *Run) {
	w := r.W
	n := 0
	for _, f := range w.RepoFuncs {
		if len(f.Blocks) == 0 || isTestFunc(w, f) {
			continue
		}
		p := relPkg(pkgPathOf(f))
		if !(strings.HasPrefix(p, "datatype/") || p == "datastore" || p == "server" || strings.HasPrefix(p, "storage")) {
			continue
		}
		for _, prm := range f.Params {
			if prm.Type().String() != "*sync.WaitGroup" {
				continue
			}
			var dones []ssa.Instruction
			for _, c := range calls(f) {
				if _, isDefer := c.(*ssa.Defer); isDefer {
					continue
				}
				callee := staticCallee(c)
				if callee == nil || callee.Name() != "Done" || callee.Pkg == nil || callee.Pkg.Pkg.Path() != "sync" {
					continue
				}
				if len(c.Common().Args) > 0 && c.Common().Args[0] == ssa.Value(prm) {
					dones = append(dones, c)
				}
			}
			if len(dones) == 0 {
				continue
			}
			n++
			isAdd := func(x ssa.Instruction) bool {
				c, ok := x.(ssa.CallInstruction)
				if !ok {
					return false
				}
				callee := staticCallee(c)
				return callee != nil && callee.Name() == "Add" && callee.Pkg != nil && callee.Pkg.Pkg.Path() == "sync" && len(c.Common().Args) > 0 && c.Common().Args[0] == ssa.Value(prm)
			}
			// a worker that signs off per item does so inside its receive loop, once per pass, and never after
			// it; a worker that signs off per stream does so once after the loop.  Mixing the two — or two
			// sign-offs outside loops on one path — is the defect.
			var inLoop, outLoop []ssa.Instruction
			for _, d := range dones {
				if _, set, _ := innermostLoop(f, d.Block()); set != nil {
					inLoop = append(inLoop, d)
				} else {
					outLoop = append(outLoop, d)
				}
			}
			var wit []ssa.Instruction
			for _, d1 := range dones {
				for _, d2 := range outLoop {
					if d1 == d2 && len(inLoop) == 0 {
						continue
					}
					if pth := findPath(f, d1, isAdd, func(x ssa.Instruction) bool { return x == d2 }, nil); pth != nil && wit == nil {
						wit = pth
					}
				}
			}
			pos := w.fpos(f)
			if len(dones) > 0 {
				pos = w.pos(dones[0].Pos())
			}
			r.check(wit == nil, fname(f)+":"+prm.Name()+":done-once", "no path passes two Done() on the group",
				"a path through the function calls Done() on the caller's WaitGroup twice: the first lets the waiting request continue while this worker still runs, the second drives the counter negative — a panic in the worker's goroutine, outside any recover", pos, w.renderPath(wit)...)
		}
	}
	r.check(n >= 10, "repo:workers-with-a-waitgroup", fmt.Sprintf("%d", n), "too few: rule needs review", "-")
}

// ---------------------------------------------------------------------------------------------
// R20.66 — a worker signs off on every exit

func init() {
	register(ruleDef{ID: "R20.66", Prop: "C20", Tier: "quick", Floor: 1,
		Title: "a worker signs off on every exit: in the datastore, server, storage and datatype packages, a function that receives a *sync.WaitGroup and signs off on it once per call (a Done outside every loop, or a deferred one) passes a Done on every path to a return — a worker that returns early on an error leaves the request (or the start-up) that waits for it blocked for ever",
		Fn:    ruleWorkerSignsOffOnEveryExit})
}

func ruleWorkerSignsOffOnEveryExit(r *Run) {
	w := r.W
	n := 0
	for _, f := range w.RepoFuncs {
		if len(f.Blocks) == 0 || isTestFunc(w, f) {
			continue
		}
		p := relPkg(pkgPathOf(f))
		if !(strings.HasPrefix(p, "datatype/") || p == "datastore" || p == "server" || strings.HasPrefix(p, "storage")) {
			continue
		}
		for _, prm := range f.Params {
			if prm.Type().String() != "*sync.WaitGroup" {
				continue
			}
			deferred := false
			var outLoop []ssa.Instruction
			isDone := func(x ssa.Instruction) bool {
				c, ok := x.(ssa.CallInstruction)
				if !ok {
					return false
				}
				callee := staticCallee(c)
				return callee != nil && callee.Name() == "Done" && callee.Pkg != nil && callee.Pkg.Pkg.Path() == "sync" && len(c.Common().Args) > 0 && c.Common().Args[0] == ssa.Value(prm)
			}
			for _, c := range calls(f) {
				if !isDone(c) {
					continue
				}
				if _, isDefer := c.(*ssa.Defer); isDefer {
					deferred = true
					continue
				}
				if _, set, _ := innermostLoop(f, c.Block()); set == nil {
					outLoop = append(outLoop, c)
				}
			}
			// deferred closures that call Done
			for _, c := range calls(f) {
				if d, isDefer := c.(*ssa.Defer); isDefer {
					if mc, ok := d.Call.Value.(*ssa.MakeClosure); ok {
						if cl, ok := mc.Fn.(*ssa.Function); ok {
							for _, c2 := range calls(cl) {
								if callee := staticCallee(c2); callee != nil && callee.Name() == "Done" && callee.Pkg != nil && callee.Pkg.Pkg.Path() == "sync" {
									deferred = true
								}
							}
						}
					}
				}
			}
			if deferred || len(outLoop) == 0 {
				continue
			}
			n++
			pth := findPath(f, nil, isDone, func(x ssa.Instruction) bool { _, isRet := x.(*ssa.Return); return isRet }, nil)
			r.check(pth == nil, fname(f)+":"+prm.Name()+":done-on-every-exit", "every path to a return passes the Done",
				"the worker can return without calling Done() on the WaitGroup its starter waits on: after an early error return the waiting request — or the server's start-up — blocks for ever", w.fpos(f), w.renderPath(pth)...)
		}
	}
	r.check(n >= 5, "repo:per-call-workers", fmt.Sprintf("%d", n), "too few: rule needs review", "-")
}

// ---------------------------------------------------------------------------------------------
// R17.15 — a block is inside an ROI span only when the span brackets it

func init() {
	register(ruleDef{ID: "R17.15", Prop: "C17", Tier: "quick", Floor: 2,
		Title: "a block is inside an ROI only when a span brackets it: in roi.Iterator.InsideFast the answer true lies behind comparisons of the current span's z, y, x0 and x1 with the block's z, y, x and x; and from the point where the span ends before the block every way back to the top of the loop moves on to the next span (writes and reads restricted to an ROI are masked by this answer)",
		Fn:    ruleInsideFastBrackets})
}

func ruleInsideFastBrackets(r *Run) {
	w := r.W
	f := w.method("datatype/roi", "Iterator", "InsideFast")
	if f == nil || len(f.Params) < 2 {
		r.undecided("roi.Iterator.InsideFast", "anchor not found")
		return
	}
	idxParam := f.Params[1]
	comp := func(v ssa.Value) (int64, bool, bool) { // component index, is-span, ok
		v = stripConv(v)
		var base ssa.Value
		var k int64 = -1
		switch x := v.(type) {
		case *ssa.Index:
			base = x.X
			if c, ok := constInt(x.Index); ok {
				k = c
			}
		case *ssa.UnOp:
			if ia, ok := x.X.(*ssa.IndexAddr); ok {
				base = ia.X
				if c, ok := constInt(ia.Index); ok {
					k = c
				}
			}
		}
		if base == nil || k < 0 {
			return 0, false, false
		}
		if base == ssa.Value(idxParam) {
			return k, false, true
		}
		if al, ok := base.(*ssa.Alloc); ok {
			for _, ref := range *al.Referrers() {
				if st, ok := ref.(*ssa.Store); ok && st.Addr == ssa.Value(al) && st.Val == ssa.Value(idxParam) {
					return k, false, true
				}
			}
		}
		for _, rv := range roots(base, f) {
			if rv.V == ssa.Value(idxParam) {
				return k, false, true
			}
		}
		if strings.Contains(base.Type().String(), "Span") || strings.Contains(base.Type().String(), "[4]int32") {
			return k, true, true
		}
		return 0, false, false
	}
	// the return of true
	var yes []*ssa.Return
	for _, b := range f.Blocks {
		if ret, ok := b.Instrs[len(b.Instrs)-1].(*ssa.Return); ok && len(ret.Results) == 1 {
			if c, ok := ret.Results[0].(*ssa.Const); ok && c.Value != nil && c.Value.Kind() == constant.Bool && constant.BoolVal(c.Value) {
				yes = append(yes, ret)
			}
		}
	}
	if !r.check(len(yes) >= 1, "InsideFast:true-return", fmt.Sprintf("%d", len(yes)), "no return of true found: rule needs review", w.fpos(f)) {
		return
	}
	want := map[[2]int64]string{{0, 2}: "z", {1, 1}: "y", {2, 0}: "x0", {3, 0}: "x1"}
	var x1If *ssa.If
	for _, ret := range yes {
		have := map[[2]int64]bool{}
		for _, b := range f.Blocks {
			ifi, ok := b.Instrs[len(b.Instrs)-1].(*ssa.If)
			if !ok || !b.Dominates(ret.Block()) {
				continue
			}
			bo, ok := ifi.Cond.(*ssa.BinOp)
			if !ok {
				continue
			}
			kx, sx, okx := comp(bo.X)
			ky, sy, oky := comp(bo.Y)
			if !okx || !oky || sx == sy {
				continue
			}
			pair := [2]int64{kx, ky}
			if !sx {
				pair = [2]int64{ky, kx}
			}
			have[pair] = true
			if pair == [2]int64{3, 0} {
				x1If = ifi
			}
		}
		for pr, nm := range want {
			r.check(have[pr], "InsideFast:true-behind-"+nm+"-comparison", "the answer true lies behind a comparison of the span's "+nm+" with the block",
				"the answer 'inside' is given without the span's "+nm+" having been compared with the block: blocks beside the span count as inside, and a write restricted to the ROI changes voxels outside it", w.pos(ret.Pos()))
		}
		// what the edges taken to the answer establish: span.z == z, span.y == y, span.x0 <= x, span.x1 >= x
		le, ge := map[[2]int64]bool{}, map[[2]int64]bool{}
		for _, b := range f.Blocks {
			ifi, ok := b.Instrs[len(b.Instrs)-1].(*ssa.If)
			if !ok {
				continue
			}
			bo, ok := ifi.Cond.(*ssa.BinOp)
			if !ok {
				continue
			}
			kx, sx, okx := comp(bo.X)
			ky, sy, oky := comp(bo.Y)
			if !okx || !oky || sx == sy {
				continue
			}
			op := bo.Op
			pair := [2]int64{kx, ky}
			if !sx { // put the span on the left
				pair = [2]int64{ky, kx}
				switch op {
				case token.LSS:
					op = token.GTR
				case token.GTR:
					op = token.LSS
				case token.LEQ:
					op = token.GEQ
				case token.GEQ:
					op = token.LEQ
				}
			}
			var taken int = -1
			if guardedByEdge(ifi, 0, ret) {
				taken = 0
			} else if guardedByEdge(ifi, 1, ret) {
				taken = 1
			}
			if taken < 0 {
				continue
			}
			if taken == 1 { // the condition is false on the way to the answer
				switch op {
				case token.LSS:
					op = token.GEQ
				case token.GTR:
					op = token.LEQ
				case token.LEQ:
					op = token.GTR
				case token.GEQ:
					op = token.LSS
				case token.EQL:
					op = token.NEQ
				case token.NEQ:
					op = token.EQL
				}
			}
			switch op {
			case token.EQL:
				le[pair], ge[pair] = true, true
			case token.LEQ, token.LSS:
				le[pair] = true
			case token.GEQ, token.GTR:
				ge[pair] = true
			}
		}
		need := []struct {
			pr     [2]int64
			nm     string
			le, ge bool
		}{{[2]int64{0, 2}, "z-equal", true, true}, {[2]int64{1, 1}, "y-equal", true, true}, {[2]int64{2, 0}, "x0-not-after-the-block", true, false}, {[2]int64{3, 0}, "x1-not-before-the-block", false, true}}
		for _, nd := range need {
			ok := (!nd.le || le[nd.pr]) && (!nd.ge || ge[nd.pr])
			r.check(ok, "InsideFast:true-implies-"+nd.nm, "the edges taken to the answer true establish it",
				"the tests passed on the way to the answer 'inside' do not establish "+nd.nm+": a block in another row (or beside the span) is judged against this span's x range, and a write restricted to the ROI changes blocks outside it or skips blocks inside it", w.pos(ret.Pos()))
		}
	}
	// progress: from the x1 test's other edge back to the loop head only through an advance of curSpan
	if x1If != nil {
		h, set, _ := innermostLoop(f, x1If.Block())
		adv := func(x ssa.Instruction) bool {
			st, ok := x.(*ssa.Store)
			if !ok {
				return false
			}
			fa, ok := st.Addr.(*ssa.FieldAddr)
			if !ok {
				return false
			}
			nm, _, _ := fieldName(fa)
			return nm == "curSpan"
		}
		progress := false
		if set != nil {
			var head ssa.Instruction
			for _, x := range h.Instrs {
				if _, isPhi := x.(*ssa.Phi); !isPhi {
					head = x
					break
				}
			}
			// successor not leading to the true return
			for i, s := range x1If.Block().Succs {
				leadsYes := false
				for _, ret := range yes {
					if s == ret.Block() || s.Dominates(ret.Block()) {
						leadsYes = true
					}
				}
				if leadsYes {
					continue
				}
				_ = i
				if len(s.Instrs) == 0 {
					continue
				}
				first := s.Instrs[0]
				if adv(first) {
					progress = true
					continue
				}
				p := findPath(f, first, adv, func(x ssa.Instruction) bool { return x == head }, nil)
				progress = p == nil && set[s]
			}
		}
		r.check(progress, "InsideFast:span-before-block-moves-on", "every way back to the top of the loop advances to the next span",
			"when the current span ends before the block the iterator does not move on to the next span (or leaves the loop): a later span of the same row is never consulted and its blocks count as outside the ROI", w.pos(x1If.Pos()))
	}
}

// ---------------------------------------------------------------------------------------------
// Round g (C03, C13)

func init() {
	reg := func(id, prop string) {
		register(ruleDef{ID: id, Prop: prop, Tier: "quick", Floor: 1,
			Title: "the start-up load takes the stored next label as it is: in labelmap's loadLabelIDs the store of the decoded value into NextLabel is decided by the stored bytes alone (present, 8 bytes), not by a comparison with another counter — a rule the running server does not enforce would make the value differ across a restart",
			Fn:    ruleNextLabelLoadedAsStored})
	}
	reg("R3.30", "C03")
	reg("R12.22", "C12")
	register(ruleDef{ID: "R13.29", Prop: "C13", Tier: "quick", Floor: 1,
		Title: "a cleave that empties the target's element list deletes the target's list: in annotation.cleaveLabels the label key deleted when a body is left without elements is the key of op.Target, the body that lost them",
		Fn:    ruleCleaveDeletesTargetList})
	register(ruleDef{ID: "R13.30", Prop: "C13", Tier: "quick", Floor: 2,
		Title: "all-synapse counts move only for synaptic elements: in labelsz.modifyElements every change of the AllSyn entry of the modification table lies behind Kind.IsSynaptic() — for additions and for deletions alike",
		Fn:    ruleAllSynOnlyForSynaptic})
}

func ruleNextLabelLoadedAsStored(r *Run) {
	w := r.W
	f := w.method("datatype/labelmap", "Data", "loadLabelIDs")
	if f == nil {
		r.undecided("labelmap.Data.loadLabelIDs", "anchor not found")
		return
	}
	// the load may sit in a helper of the loader (d.loadNextLabel(store, ctx))
	for _, g := range withHelpers(f) {
		if len(fieldStores(g, "Data", "NextLabel")) > 0 {
			f = g
			break
		}
	}
	n := 0
	for _, st := range fieldStores(f, "Data", "NextLabel") {
		n++
		bad := ""
		for _, b := range f.Blocks {
			ifi, ok := b.Instrs[len(b.Instrs)-1].(*ssa.If)
			if !ok || !(guardedByEdge(ifi, 0, st) || guardedByEdge(ifi, 1, st)) {
				continue
			}
			for d := range dataDeps(ifi.Cond) {
				if u, ok := d.(*ssa.UnOp); ok {
					if fa, ok := u.X.(*ssa.FieldAddr); ok && typeIs(fa.X.Type(), "datatype/labelmap", "Data") {
						nm, _, _ := fieldName(fa)
						bad = nm + " at " + w.pos(ifi.Pos())
					}
				}
			}
		}
		r.check(bad == "", fmt.Sprintf("loadLabelIDs:NextLabel-store#%d:as-stored", n), "the store depends on the stored bytes only",
			"the stored next label is taken over only under a condition on "+bad+": the running server accepts any next label, so a value it served before the restart is dropped after it — labels are then issued from another counter", w.pos(st.Pos()))
	}
	r.check(n >= 1, "loadLabelIDs:NextLabel-stores", fmt.Sprintf("%d", n), "no store found: rule needs review", w.fpos(f))
}

func ruleCleaveDeletesTargetList(r *Run) {
	w := r.W
	f := w.method("datatype/annotation", "Data", "cleaveLabels")
	if f == nil {
		r.undecided("annotation.Data.cleaveLabels", "anchor not found")
		return
	}
	n := 0
	for _, c := range calls(f) {
		if methodNameOf(c) != "Delete" || !c.Common().IsInvoke() {
			continue
		}
		args := c.Common().Args
		key := args[len(args)-1]
		var kc *ssa.Call
		for _, rv := range roots(key, f) {
			if x, ok := rv.V.(*ssa.Call); ok {
				if callee := x.Call.StaticCallee(); callee != nil && callee.Name() == "NewLabelTKey" {
					kc = x
				}
			}
		}
		if kc == nil {
			continue
		}
		n++
		nm, ok := fieldSel(kc.Call.Args[0])
		r.check(ok && nm == "Target", fmt.Sprintf("cleaveLabels:emptied-list-delete#%d", n), "deletes the list of op.Target",
			"the list deleted when a cleave leaves a body without elements is not the target's: label/<target> keeps listing elements that now belong to the cleaved body", w.pos(c.Pos()))
	}
	r.check(n >= 1, "cleaveLabels:list-deletes", fmt.Sprintf("%d", n), "no delete of a label list found: rule needs review", w.fpos(f))
}

func ruleAllSynOnlyForSynaptic(r *Run) {
	w := r.W
	f := w.method("datatype/labelsz", "Data", "modifyElements")
	if f == nil {
		r.undecided("labelsz.Data.modifyElements", "anchor not found")
		return
	}
	n := 0
	top := f
	for _, f := range withHelpers(top) { // the tally may be built by a helper (d.countChanges(delta))
		for _, b := range f.Blocks {
			for _, in := range b.Instrs {
				mu, ok := in.(*ssa.MapUpdate)
				if !ok {
					continue
				}
				// the key comes from newIndexedLabel(AllSyn, …)
				all := false
				for _, rv := range roots(mu.Key, f) {
					if kc, ok := rv.V.(*ssa.Call); ok {
						if callee := kc.Call.StaticCallee(); callee != nil && callee.Name() == "newIndexedLabel" {
							if c, ok := kc.Call.Args[0].(*ssa.Const); ok {
								if v, ok := constInt(c); ok && w.pkgScopeConst("datatype/labelsz", "AllSyn") != nil {
									if want, ok2 := constant.Int64Val(w.pkgScopeConst("datatype/labelsz", "AllSyn")); ok2 && want == v {
										all = true
									}
								}
							}
						}
					}
				}
				if !all {
					continue
				}
				n++
				guarded := false
				for _, b2 := range f.Blocks {
					ifi, isIf := b2.Instrs[len(b2.Instrs)-1].(*ssa.If)
					if !isIf {
						continue
					}
					if c, ok := ifi.Cond.(*ssa.Call); ok && methodNameOf(c) == "IsSynaptic" && guardedByEdge(ifi, 0, mu) {
						guarded = true
					}
				}
				r.check(guarded, fmt.Sprintf("modifyElements:AllSyn-change#%d:only-for-synaptic-kinds", n), "behind Kind.IsSynaptic()",
					"the all-synapse count of a body is changed for an element of any kind: deleting or moving a Note takes one off the body's AllSyn count, which then disagrees with the body's list of synaptic elements", w.pos(mu.Pos()))
			}
		}
	}
	r.check(n >= 2, "modifyElements:AllSyn-changes", fmt.Sprintf("%d", n), "fewer than expected: rule needs review", w.fpos(f))
}

// ---------------------------------------------------------------------------------------------
// R18.20 / R20.67 — a run filed under a block ends inside that block

func init() {
	reg := func(id, prop string) {
		register(ruleDef{ID: id, Prop: prop, Tier: "quick", Floor: 2,
			Title: "a run filed under a block ends inside that block: in RLEs.Partition the length handed to appendBlockRLE is the distance from the run's x to the block's end, or a remaining length that a comparison found smaller than that distance — the per-block split workers index the block's voxel array by these runs, unchecked, in goroutines no recover covers",
			Fn:    rulePartitionClipsRuns})
	}
	reg("R18.20", "C18")
	reg("R20.67", "C20")
}

func rulePartitionClipsRuns(r *Run) {
	w := r.W
	f := w.method("dvid", "RLEs", "Partition")
	if f == nil || len(f.Params) < 2 {
		r.undecided("dvid.RLEs.Partition", "anchor not found")
		return
	}
	bsz := f.Params[1]
	toBlockEnd := func(v ssa.Value) bool {
		bo, ok := stripConv(v).(*ssa.BinOp)
		if !ok || bo.Op != token.SUB {
			return false
		}
		for d := range dataDeps(bo.X) {
			switch x := d.(type) {
			case *ssa.Index:
				if x.X == ssa.Value(bsz) {
					return true
				}
			case *ssa.UnOp:
				if ia, ok := x.X.(*ssa.IndexAddr); ok {
					if al, ok := ia.X.(*ssa.Alloc); ok {
						for _, ref := range *al.Referrers() {
							if st, ok := ref.(*ssa.Store); ok && st.Addr == ssa.Value(al) && st.Val == ssa.Value(bsz) {
								return true
							}
						}
					}
				}
			}
		}
		return false
	}
	n := 0
	for _, c := range calls(f) {
		callee := staticCallee(c)
		if callee == nil || callee.Name() != "appendBlockRLE" {
			continue
		}
		n++
		args := c.Common().Args
		length := args[len(args)-1]
		ok := toBlockEnd(length)
		// one call with the smaller of the two (n := dx; if remain < dx { n = remain }): every incoming value is the
		// distance to the block's end, or enters from the edge on which it was found smaller than that distance
		if phi, isPhi := stripConv(length).(*ssa.Phi); isPhi && !ok {
			all := len(phi.Edges) > 0
			for i, e := range phi.Edges {
				if toBlockEnd(e) {
					continue
				}
				pred := phi.Block().Preds[i]
				smaller := false
				for _, b := range f.Blocks {
					ifi, isIf := b.Instrs[len(b.Instrs)-1].(*ssa.If)
					if !isIf {
						continue
					}
					bo, isBo := ifi.Cond.(*ssa.BinOp)
					if !isBo {
						continue
					}
					edge := -1
					switch {
					case (bo.Op == token.LSS || bo.Op == token.LEQ) && stripConv(bo.X) == stripConv(e) && toBlockEnd(bo.Y):
						edge = 0
					case (bo.Op == token.GTR || bo.Op == token.GEQ) && stripConv(bo.Y) == stripConv(e) && toBlockEnd(bo.X):
						edge = 0
					case bo.Op == token.GEQ && stripConv(bo.X) == stripConv(e) && toBlockEnd(bo.Y):
						edge = 1
					case bo.Op == token.LEQ && stripConv(bo.Y) == stripConv(e) && toBlockEnd(bo.X):
						edge = 1
					}
					if edge < 0 {
						continue
					}
					s := b.Succs[edge]
					// the edge's target is the predecessor itself (a then-block) or, when the assignment block was
					// merged away, the phi's own block entered directly from the test
					if (s == pred && len(s.Preds) == 1) || (b == pred && s == phi.Block() && b.Succs[1-edge] != phi.Block()) {
						smaller = true
					}
				}
				if !smaller {
					all = false
				}
			}
			ok = all
		}
		if !ok {
			for _, b := range f.Blocks {
				ifi, isIf := b.Instrs[len(b.Instrs)-1].(*ssa.If)
				if !isIf {
					continue
				}
				bo, isBo := ifi.Cond.(*ssa.BinOp)
				if !isBo {
					continue
				}
				switch {
				case bo.Op == token.LSS && stripConv(bo.X) == stripConv(length) && toBlockEnd(bo.Y) && guardedByEdge(ifi, 0, c):
					ok = true
				case bo.Op == token.LEQ && stripConv(bo.X) == stripConv(length) && toBlockEnd(bo.Y) && guardedByEdge(ifi, 0, c):
					ok = true
				case bo.Op == token.GTR && stripConv(bo.Y) == stripConv(length) && toBlockEnd(bo.X) && guardedByEdge(ifi, 0, c):
					ok = true
				case bo.Op == token.GEQ && stripConv(bo.X) == stripConv(length) && toBlockEnd(bo.Y) && guardedByEdge(ifi, 1, c):
					ok = true
				}
			}
		}
		r.check(ok, fmt.Sprintf("Partition:filed-run#%d:clipped-to-its-block", n), "the length is the distance to the block's end or was found smaller than it",
			"a run is filed under a block with a length that was not clipped to the block: a run that crosses the block's X boundary is handed whole to the worker of its first block, which indexes past the end of the block's voxels (in the split workers' goroutines: the process ends) or spills into the next row", w.pos(c.Pos()))
	}
	r.check(n >= 1, "Partition:filed-runs", fmt.Sprintf("%d", n), "none found: rule needs review", w.fpos(f))
}

// ---------------------------------------------------------------------------------------------
// R14.17 — the down-sampled voxel is chosen by the comparison over the complete vote

func init() {
	register(ruleDef{ID: "R14.17", Prop: "C14", Tier: "quick", Floor: 1,
		Title: "the down-sampled voxel is chosen over the complete vote: in labels.downresArray the label written to the lower-resolution array is a key of the vote table picked in the loop over that table (or the background constant) — never a label fixed while the eight votes were still being counted, which cannot know about a tie with a smaller label",
		Fn:    ruleWinnerFromCompleteVote})
}

// winnerFromVote: "" when val is a key picked in a loop over a vote table (or a constant) and enters that loop afresh;
// otherwise what is wrong with it.
func winnerFromVote(w *World, val ssa.Value, f *ssa.Function, depth int) string {
	bad := ""
	for _, rv := range roots(val, f) {
		switch x := rv.V.(type) {
		case *ssa.Const:
			continue
		case *ssa.Extract:
			if nx, ok := x.Tuple.(*ssa.Next); ok {
				if rg, ok := nx.Iter.(*ssa.Range); ok {
					if _, isMap := rg.X.Type().Underlying().(*types.Map); isMap {
						continue
					}
				}
			}
			bad = x.Name() + " at " + w.pos(x.Pos())
		case *ssa.Call:
			// the winner is picked by a helper of the package (tallyVotes(votemap)): what the helper returns is
			// judged the same way
			g := x.Call.StaticCallee()
			if g != nil && g != f && len(g.Blocks) > 0 && g.Pkg == f.Pkg && depth < 2 {
				for _, gb := range g.Blocks {
					if ret, ok := gb.Instrs[len(gb.Instrs)-1].(*ssa.Return); ok && len(ret.Results) == 1 {
						if b2 := winnerFromVote(w, ret.Results[0], g, depth+1); b2 != "" {
							bad = b2
						}
					}
				}
				continue
			}
			bad = rv.V.Name() + " at " + w.pos(rv.V.Pos())
		default:
			bad = rv.V.Name() + " at " + w.pos(rv.V.Pos())
		}
	}
	// the winner starts afresh for every 2x2x2 cell: where the written value enters the loop over the vote table
	// from outside, it is a constant, not a winner carried over from the previous cell
	if bad == "" {
		loops := naturalLoops(f)
		seenPhi := map[ssa.Value]bool{}
		var walk func(v ssa.Value)
		walk = func(v ssa.Value) {
			phi, ok := v.(*ssa.Phi)
			if !ok || seenPhi[v] {
				return
			}
			seenPhi[v] = true
			// is this phi at the header of a loop that ranges over the vote table?
			set := loops[phi.Block()]
			voteLoop := false
			for b := range set {
				for _, in := range b.Instrs {
					if nx, ok := in.(*ssa.Next); ok {
						if rg, ok := nx.Iter.(*ssa.Range); ok {
							if _, isMap := rg.X.Type().Underlying().(*types.Map); isMap {
								voteLoop = true
							}
						}
					}
				}
			}
			for i, e := range phi.Edges {
				pred := phi.Block().Preds[i]
				if voteLoop && set != nil && !set[pred] {
					if _, isK := e.(*ssa.Const); !isK {
						bad = "the winner enters the loop over the vote table with a value carried from the previous cell (" + w.pos(phi.Pos()) + ")"
					}
					continue
				}
				walk(e)
			}
		}
		walk(val)
	}
	return bad
}

func ruleWinnerFromCompleteVote(r *Run) {
	w := r.W
	f := w.fn("datatype/common/labels", "downresArray")
	if f == nil {
		r.undecided("labels.downresArray", "anchor not found")
		return
	}
	n := 0
	for _, c := range calls(f) {
		if methodNameOf(c) != "PutUint64" {
			continue
		}
		n++
		args := c.Common().Args
		bad := winnerFromVote(w, args[len(args)-1], f, 0)
		r.check(bad == "", fmt.Sprintf("downresArray:written-label#%d:picked-over-the-vote-table", n), "the written label is a key picked in the loop over the vote table",
			"the label written for a 2x2x2 cell can be one fixed outside the loop over the vote table ("+bad+"): with two labels at four votes each the documented tie-break (the smaller label) is skipped, and the stored lower-resolution block differs from the specified down-sampling", w.pos(c.Pos()))
	}
	r.check(n >= 1, "downresArray:label-writes", fmt.Sprintf("%d", n), "no write found: rule needs review", w.fpos(f))
}

// ---------------------------------------------------------------------------------------------
// R20.68 — every item handed to a per-item drain has been counted

func init() {
	register(ruleDef{ID: "R20.68", Prop: "C20", Tier: "quick", Floor: 1,
		Title: "every item handed to a per-item drain has been counted: where a goroutine started by a function receives from a channel in a loop and calls Done() on a WaitGroup once per received item, every send on that channel — in the function or in a closure it starts — has, in the same loop pass, an Add() on that WaitGroup before it (in the closure or before the closure is started), and no path leads from one send to another without an Add in between; an uncounted item drives the counter negative in the drain goroutine (a panic outside any recover) or lets Wait return and the channel be closed under a sender",
		Fn:    ruleDrainItemsCounted})
}

// captureRoot follows loads and closure captures back to the cell (Alloc, parameter or other value) in the
// outermost enclosing function.
func captureRoot(v ssa.Value) ssa.Value {
	for i := 0; i < 20; i++ {
		switch x := v.(type) {
		case *ssa.UnOp:
			if x.Op == token.MUL {
				v = x.X
				continue
			}
			return v
		case *ssa.FreeVar:
			g := x.Parent()
			p := g.Parent()
			if p == nil {
				return v
			}
			idx := -1
			for k, fv := range g.FreeVars {
				if fv == x {
					idx = k
				}
			}
			var found ssa.Value
			for _, b := range p.Blocks {
				for _, in := range b.Instrs {
					if mc, ok := in.(*ssa.MakeClosure); ok && mc.Fn == ssa.Value(g) && idx >= 0 && idx < len(mc.Bindings) {
						found = mc.Bindings[idx]
					}
				}
			}
			if found == nil {
				return v
			}
			v = found
			continue
		}
		return v
	}
	return v
}

// paramCellOf: the parameter a cell holds when the cell is the spill slot of a captured parameter (go/ssa stores
// the parameter into a fresh Alloc in the entry block); nil otherwise.  Used instead of the parameter's name.
func paramCellOf(v ssa.Value) *ssa.Parameter {
	al, ok := v.(*ssa.Alloc)
	if !ok || al.Parent() == nil || len(al.Parent().Blocks) == 0 {
		return nil
	}
	for _, in := range al.Parent().Blocks[0].Instrs {
		if st, ok := in.(*ssa.Store); ok && st.Addr == ssa.Value(al) {
			if p, ok := st.Val.(*ssa.Parameter); ok {
				return p
			}
			return nil
		}
	}
	return nil
}

// withHelpers: f and the unexported functions of f's package that f calls statically (two levels): the shape a
// rule looks for may have been moved into a helper of the anchor function.
func withHelpers(f *ssa.Function) []*ssa.Function {
	out := []*ssa.Function{f}
	seen := map[*ssa.Function]bool{f: true}
	frontier := []*ssa.Function{f}
	for depth := 0; depth < 2; depth++ {
		var next []*ssa.Function
		for _, g := range frontier {
			for _, c := range calls(g) {
				h := staticCallee(c)
				if h == nil || seen[h] || len(h.Blocks) == 0 || h.Pkg == nil || h.Pkg != f.Pkg || h.Object() == nil || h.Object().Exported() {
					continue
				}
				seen[h] = true
				out = append(out, h)
				next = append(next, h)
			}
		}
		frontier = next
	}
	return out
}

func closureTree(f *ssa.Function) []*ssa.Function {
	out := []*ssa.Function{f}
	for _, a := range f.AnonFuncs {
		out = append(out, closureTree(a)...)
	}
	return out
}

func ruleDrainItemsCounted(r *Run) {
	w := r.W
	nDrains, nSends := 0, 0
	isWG := func(c ssa.CallInstruction, name string) (ssa.Value, bool) {
		callee := staticCallee(c)
		if callee == nil || callee.Name() != name || callee.Pkg == nil || callee.Pkg.Pkg.Path() != "sync" || len(c.Common().Args) == 0 {
			return nil, false
		}
		if !strings.Contains(c.Common().Args[0].Type().String(), "sync.WaitGroup") {
			return nil, false
		}
		return captureRoot(c.Common().Args[0]), true
	}
	for _, f := range w.RepoFuncs {
		if len(f.Blocks) == 0 || isTestFunc(w, f) || f.Parent() != nil || len(f.AnonFuncs) == 0 {
			continue
		}
		p := relPkg(pkgPathOf(f))
		if !(strings.HasPrefix(p, "datatype/") || p == "datastore" || p == "server" || strings.HasPrefix(p, "storage")) {
			continue
		}
		tree := closureTree(f)
		// drains: closures started with go that receive in a loop and call Done in that loop
		type drain struct {
			g      *ssa.Function
			ch, wg ssa.Value
		}
		var drains []drain
		for _, g := range tree {
			if g == f {
				continue
			}
			for _, b := range g.Blocks {
				for _, in := range b.Instrs {
					u, ok := in.(*ssa.UnOp)
					if !ok || u.Op != token.ARROW {
						continue
					}
					_, set, _ := innermostLoop(g, b)
					if set == nil {
						continue
					}
					ch := captureRoot(u.X)
					if ch.Parent() != f {
						continue
					}
					// every Done in this loop on a captured group
					var wg ssa.Value
					for _, c := range calls(g) {
						if _, isDefer := c.(*ssa.Defer); isDefer || !set[c.Block()] {
							continue
						}
						if root, ok := isWG(c, "Done"); ok && root.Parent() == f {
							wg = root
						}
					}
					if wg == nil {
						continue
					}
					dup := false
					for _, d := range drains {
						if d.ch == ch && d.wg == wg {
							dup = true
						}
					}
					if !dup {
						drains = append(drains, drain{g, ch, wg})
					}
				}
			}
		}
		for _, d := range drains {
			nDrains++
			counted := func(x *ssa.Function, site ssa.Instruction) bool {
				// an Add covers the site when it comes before it on every path and the site is in no loop the Add
				// is outside of (a send on the way out of the loop — an error return — is still in the Add's pass)
				for _, c := range calls(x) {
					if root, ok := isWG(c, "Add"); ok && root == d.wg && domInstr(c, site) {
						inside := true
						for _, set := range naturalLoops(x) {
							if set[site.Block()] && !set[c.Block()] {
								inside = false
							}
						}
						if inside {
							return true
						}
					}
				}
				return false
			}
			isAddIn := func(in ssa.Instruction) bool {
				c, ok := in.(ssa.CallInstruction)
				if !ok {
					return false
				}
				root, ok := isWG(c, "Add")
				return ok && root == d.wg
			}
			k := 0
			for _, x := range tree {
				if x == d.g {
					continue
				}
				var sends []ssa.Instruction
				for _, b := range x.Blocks {
					for _, in := range b.Instrs {
						if s, ok := in.(*ssa.Send); ok && captureRoot(s.Chan) == d.ch {
							sends = append(sends, in)
						}
					}
				}
				for _, s := range sends {
					k++
					nSends++
					// walk outwards until an Add covers the site
					ok := false
					cx, site := x, s
					for {
						if counted(cx, site) {
							ok = true
							break
						}
						par := cx.Parent()
						if par == nil {
							break
						}
						var use ssa.Instruction
						for _, b := range par.Blocks {
							for _, in := range b.Instrs {
								if mc, isMC := in.(*ssa.MakeClosure); isMC && mc.Fn == ssa.Value(cx) {
									use = in
									for _, ref := range *mc.Referrers() {
										if _, isCall := ref.(ssa.CallInstruction); isCall {
											use = ref
										}
									}
								}
							}
						}
						if use == nil {
							break
						}
						cx, site = par, use
					}
					r.check(ok, fmt.Sprintf("%s:drain:%s:send#%d:counted", fname(f), fname(d.g), k), "an Add() on the drain's WaitGroup comes before the send in the same loop pass",
						"an item is sent to the goroutine that calls Done() once per received item without an Add() before it in the same pass: the counter goes negative in the drain goroutine — a panic outside any recover that ends the process — or Wait returns early and the channel is closed under a sender still transcoding", w.pos(s.Pos()))
					for _, s2 := range sends {
						pth := findPath(x, s, isAddIn, func(in ssa.Instruction) bool { return in == s2 }, nil)
						if pth != nil {
							r.violation(fmt.Sprintf("%s:drain:%s:send#%d:one-item-per-count", fname(f), fname(d.g), k),
								"a path leads from one send to the drain to another without an Add() in between: two items are handed over for one count, the second Done() drives the counter negative", w.pos(s.Pos()), w.renderPath(pth)...)
						}
					}
				}
			}
			r.check(k >= 1, fmt.Sprintf("%s:drain:%s:senders", fname(f), fname(d.g)), fmt.Sprintf("%d", k), "no sender found for the drained channel: rule needs review", w.fpos(f))
		}
	}
	r.check(nDrains >= 2 && nSends >= 4, "repo:per-item-drains", fmt.Sprintf("%d drains, %d sends", nDrains, nSends), "too few: rule needs review", "-")
}

// ---------------------------------------------------------------------------------------------
// R17.16 — a request that did not ask for isotropy gets the geometry it asked for

func init() {
	register(ruleDef{ID: "R17.16", Prop: "C17", Tier: "quick", Floor: 1,
		Title: "a slice request that did not ask for isotropic scaling is read with the geometry it named: in dvid.Isotropy2D, with the isotropic flag false, every return that can be reached hands back the geometry parameter itself (the raw 2-D handlers of imageblk read exactly the geometry this function returns)",
		Fn:    ruleRawSliceKeepsGeometry})
}

func ruleRawSliceKeepsGeometry(r *Run) {
	w := r.W
	f := w.fn("dvid", "Isotropy2D")
	if f == nil || len(f.Blocks) == 0 {
		r.undecided("dvid.Isotropy2D", "anchor not found")
		return
	}
	var geom, iso *ssa.Parameter
	for _, p := range f.Params {
		if strings.HasSuffix(p.Type().String(), "dvid.Geometry") {
			geom = p
		}
		if p.Type().String() == "bool" {
			iso = p
		}
	}
	if geom == nil || iso == nil {
		r.undecided("dvid.Isotropy2D", "geometry / flag parameters not found")
		return
	}
	s := runSCCP(f, &AEnv{Params: map[*ssa.Parameter]AVal{iso: aBool(false)}})
	n := 0
	bad := findPath(f, nil, nil, func(in ssa.Instruction) bool {
		ret, ok := in.(*ssa.Return)
		if !ok || len(ret.Results) == 0 {
			return false
		}
		n++
		return ret.Results[0] != ssa.Value(geom)
	}, s.EdgeFeasible)
	r.check(bad == nil, "dvid.Isotropy2D:flag-off:returns-the-given-geometry", "with the flag off only the given geometry is returned",
		"with the isotropic flag off a return other than the given geometry can be reached: a raw slice request on an instance whose two in-plane resolutions differ is read with a rescaled (smaller) geometry, and the voxels outside it are missing from the reply", w.fpos(f), w.renderPath(bad)...)
	// the callers whose read geometry is this result
	k := 0
	for _, cs := range callSitesOf(w)[f] {
		if strings.HasPrefix(relPkg(pkgPathOf(cs.Parent())), "datatype/") {
			k++
		}
	}
	r.check(k >= 2, "dvid.Isotropy2D:datatype-callers", fmt.Sprintf("%d", k), "too few callers: rule needs review", w.fpos(f))
}

// ---------------------------------------------------------------------------------------------
// R19.10 — every ancestor of the last transferred version is on the path

func init() {
	register(ruleDef{ID: "R19.10", Prop: "C19", Tier: "quick", Floor: 3,
		Title: "every ancestor of the last transferred version is on the version path: in datastore.calcVersionPath the loop over the result of GetAncestry is left only when the list is exhausted or with an error, and every pass that goes round again has put the loop's version into versionsOnPath (a key-value written in an ancestor older than the first listed version is inherited by every listed version and must be folded into the first one)",
		Fn:    ruleEveryAncestorOnPath})
}

func ruleEveryAncestorOnPath(r *Run) {
	w := r.W
	f := w.fn("datastore", "calcVersionPath")
	if f == nil || len(f.Blocks) == 0 {
		r.undecided("datastore.calcVersionPath", "anchor not found")
		return
	}
	// the ancestry list
	var anc ssa.Value
	for _, c := range calls(f) {
		if callee := staticCallee(c); callee != nil && callee.Name() == "GetAncestry" {
			anc = c.Value()
		}
	}
	if anc == nil {
		r.undecided("datastore.calcVersionPath", "GetAncestry call not found")
		return
	}
	// the loop whose element is read from the ancestry list
	var elem ssa.Value
	var loopSet map[*ssa.BasicBlock]bool
	var header *ssa.BasicBlock
	for _, b := range f.Blocks {
		for _, in := range b.Instrs {
			u, ok := in.(*ssa.UnOp)
			if !ok || u.Op != token.MUL {
				continue
			}
			ia, ok := u.X.(*ssa.IndexAddr)
			if !ok {
				continue
			}
			from := false
			for _, rv := range roots(ia.X, f) {
				if ex, ok := rv.V.(*ssa.Extract); ok && ex.Tuple == anc {
					from = true
				}
				if rv.V == anc {
					from = true
				}
			}
			if !from {
				continue
			}
			if h, set, _ := innermostLoop(f, b); set != nil {
				elem, loopSet, header = u, set, h
			}
		}
	}
	if elem == nil {
		r.undecided("datastore.calcVersionPath", "loop over the ancestry not found")
		return
	}
	isPut := func(in ssa.Instruction) bool {
		mu, ok := in.(*ssa.MapUpdate)
		return ok && stripConv(mu.Key) == elem
	}
	// (a) exits: from a block of the loop other than the header, an edge out of the loop leads only to error returns
	nExit := 0
	for b := range loopSet {
		if b == header {
			continue
		}
		for _, s := range b.Succs {
			if loopSet[s] {
				continue
			}
			nExit++
			first := s.Instrs[0]
			var pth []ssa.Instruction
			if successExit(first) {
				pth = []ssa.Instruction{first}
			} else {
				pth = findPath(f, first, nil, successExit, nil)
			}
			r.check(pth == nil, fmt.Sprintf("calcVersionPath:ancestor-loop:early-exit#%d:error-only", nExit), "the early exit ends in an error",
				"the loop over the ancestors is left early on a path that returns success: ancestors after that point are not on the version path, and what the transferred versions inherit from them is missing at the destination", w.pos(b.Instrs[len(b.Instrs)-1].Pos()), w.renderPath(pth)...)
		}
	}
	// (b) a pass that goes round again has recorded its version
	var pth []ssa.Instruction
	for _, b := range f.Blocks {
		if !loopSet[b] {
			continue
		}
		for _, in := range b.Instrs {
			if in == elem.(ssa.Instruction) {
				pth = findPath(f, in, isPut, func(x ssa.Instruction) bool { return x.Block() == header && x == header.Instrs[0] }, func(bb *ssa.BasicBlock, i int) bool { return loopSet[bb.Succs[i]] })
			}
		}
	}
	r.check(pth == nil, "calcVersionPath:ancestor-loop:every-pass-records", "each pass puts its version on the path",
		"a pass of the loop over the ancestors can go round again without putting its version on the version path: what the transferred versions inherit from that ancestor is missing at the destination", w.pos(elem.Pos()), w.renderPath(pth)...)
	r.check(nExit >= 1, "calcVersionPath:ancestor-loop:exits", fmt.Sprintf("%d", nExit), "no early exit found: rule needs review", w.fpos(f))
}

// ---------------------------------------------------------------------------------------------
// R8.26 — the split's index surgery consults the split map for every supervoxel it did not split in the block

func init() {
	register(ruleDef{ID: "R8.26", Prop: "C08", Tier: "quick", Floor: 2,
		Title: "the index surgery of a body split looks at every supervoxel of every block: in labelmap.Data.splitIndex a pass of the loop over a block's supervoxel counts goes round again only after it has either replaced the supervoxel by its split/remain pair (the delete of the old id) or looked it up in op.SplitMap — a supervoxel split elsewhere is renamed to its remain id in every block, because the voxels and the mapping are",
		Fn:    ruleSplitIndexEverySupervoxel})
}

func ruleSplitIndexEverySupervoxel(r *Run) {
	w := r.W
	f := w.method("datatype/labelmap", "Data", "splitIndex")
	if f == nil || len(f.Blocks) == 0 {
		r.undecided("labelmap.Data.splitIndex", "anchor not found")
		return
	}
	n := 0
	for _, b := range f.Blocks {
		for _, in := range b.Instrs {
			nx, ok := in.(*ssa.Next)
			if !ok {
				continue
			}
			rg, ok := nx.Iter.(*ssa.Range)
			if !ok || !isFieldLoad(rg.X, "SVCount", "Counts") {
				continue
			}
			var key ssa.Value
			for _, ref := range *nx.Referrers() {
				if ex, ok := ref.(*ssa.Extract); ok && ex.Index == 1 {
					key = ex
				}
			}
			if key == nil {
				continue
			}
			n++
			handled := func(x ssa.Instruction) bool {
				if lk, ok := x.(*ssa.Lookup); ok {
					if u, ok := lk.X.(*ssa.UnOp); ok {
						if fa, ok := u.X.(*ssa.FieldAddr); ok {
							if name, _, _ := fieldName(fa); name == "SplitMap" {
								return stripConv(lk.Index) == key
							}
						}
					}
					if fld, ok := lk.X.(*ssa.Field); ok {
						if st, ok := fld.X.Type().Underlying().(*types.Struct); ok && st.Field(fld.Field).Name() == "SplitMap" {
							return stripConv(lk.Index) == key
						}
					}
				}
				if c, ok := x.(*ssa.Call); ok {
					if bi, ok := c.Call.Value.(*ssa.Builtin); ok && bi.Name() == "delete" && len(c.Call.Args) == 2 && stripConv(c.Call.Args[1]) == key {
						return true
					}
				}
				return false
			}
			pth := findPath2(f, key.(ssa.Instruction), handled, func(x ssa.Instruction) bool { return x == ssa.Instruction(nx) }, nil, phiConstBranch)
			r.check(pth == nil, fmt.Sprintf("splitIndex:supervoxel-loop#%d:every-supervoxel-replaced-or-looked-up", n), "each pass replaces the supervoxel or looks it up in the split map",
				"a pass over a block's supervoxels can go round again without replacing the supervoxel and without looking it up in op.SplitMap: a supervoxel that is split in another block keeps its old id in this block's index entry while its voxels are relabelled to the remain id — the index and the voxels disagree after the split", w.pos(nx.Pos()), w.renderPath(pth)...)
		}
	}
	r.check(n >= 1, "splitIndex:supervoxel-loops", fmt.Sprintf("%d", n), "no loop over a block's counts found: rule needs review", w.fpos(f))
}

// ---------------------------------------------------------------------------------------------
// R9.16 — a block is declared all-foreground only after its whole label list was looked at

func init() {
	register(ruleDef{ID: "R9.16", Prop: "C09", Tier: "quick", Floor: 2,
		Title: "a block is sent as all-foreground only when its whole label list was looked at: in labels.WriteBinaryBlocks the hasBackground argument of WriteBinaryBlock is, on every way out of the scan of the block's labels other than the end of the list, the constant true (an early stop taken before a non-target label was met would report a block that also holds background as solid)",
		Fn:    ruleBackgroundKnownAtEarlyStop})
}

func ruleBackgroundKnownAtEarlyStop(r *Run) {
	w := r.W
	f := w.fn("datatype/common/labels", "WriteBinaryBlocks")
	if f == nil || len(f.Blocks) == 0 {
		r.undecided("labels.WriteBinaryBlocks", "anchor not found")
		return
	}
	n := 0
	for _, c := range calls(f) {
		if methodNameOf(c) != "WriteBinaryBlock" {
			continue
		}
		args := c.Common().Args
		var flag ssa.Value
		for _, a := range args {
			if a.Type().String() == "bool" {
				flag = a
			}
		}
		if flag == nil {
			continue
		}
		n++
		loops := naturalLoops(f)
		bad := ""
		seen := map[ssa.Value]bool{}
		var visit func(v ssa.Value)
		visit = func(v ssa.Value) {
			if seen[v] {
				return
			}
			seen[v] = true
			phi, ok := v.(*ssa.Phi)
			if !ok {
				return
			}
			for i, e := range phi.Edges {
				pred := phi.Block().Preds[i]
				// an early way out: pred lies in a loop that the phi's block is outside of, and is not that loop's header
				early := false
				for h, set := range loops {
					if set[pred] && !set[phi.Block()] && pred != h {
						early = true
					}
				}
				if early {
					if k, ok := e.(*ssa.Const); !ok || k.Value == nil || k.Value.String() != "true" {
						bad = "from " + w.pos(pred.Instrs[len(pred.Instrs)-1].Pos())
						if bad == "from -" {
							bad = "from block " + pred.String()
						}
					}
					continue
				}
				visit(e)
			}
		}
		visit(flag)
		r.check(bad == "", fmt.Sprintf("WriteBinaryBlocks:WriteBinaryBlock#%d:background-known-at-early-stop", n), "every early stop of the label scan carries hasBackground = true",
			"the scan of the block's label list can stop early ("+bad+") while hasBackground is still undecided: a block whose remaining labels are not the requested ones is written with content flag 'all foreground', and the reader fills the whole block", w.pos(c.Pos()))
	}
	r.check(n >= 1, "WriteBinaryBlocks:WriteBinaryBlock-calls", fmt.Sprintf("%d", n), "no call found: rule needs review", w.fpos(f))
}

// ---------------------------------------------------------------------------------------------
// R9.17 — the remembered block is one that held the label

func init() {
	register(ruleDef{ID: "R9.17", Prop: "C09", Tier: "quick", Floor: 2,
		Title: "runs are carried only from the last block that held the label: in labels.WriteRLEs every store to the run buffer's block coordinate lies behind the 'block holds a requested label' test (a coordinate remembered from a block without the label makes the next block look adjacent and joins runs across a gap)",
		Fn:    ruleCarryFromLabelBlocksOnly})
	register(ruleDef{ID: "R18.21", Prop: "C18", Tier: "quick", Floor: 2,
		Title: "(= R9.17) runs are carried only from the last block that held the label (labels.WriteRLEs)",
		Fn:    ruleCarryFromLabelBlocksOnly})
}

func ruleCarryFromLabelBlocksOnly(r *Run) {
	w := r.W
	f := w.fn("datatype/common/labels", "WriteRLEs")
	if f == nil || len(f.Blocks) == 0 {
		r.undecided("labels.WriteRLEs", "anchor not found")
		return
	}
	// the 'holds the label' test: an If on a bool phi all of whose roots are constants
	type test struct {
		ifi  *ssa.If
		succ int
	}
	var tests []test
	for _, b := range f.Blocks {
		ifi, ok := b.Instrs[len(b.Instrs)-1].(*ssa.If)
		if !ok {
			continue
		}
		cond, succ := ifi.Cond, 0
		if u, ok := cond.(*ssa.UnOp); ok && u.Op == token.NOT {
			cond, succ = u.X, 1
		}
		if _, ok := cond.(*ssa.Phi); !ok {
			continue
		}
		allConst, hasTrue := true, false
		for _, rv := range roots(cond, f) {
			k, ok := rv.V.(*ssa.Const)
			if !ok {
				allConst = false
				continue
			}
			if k.Value != nil && k.Value.String() == "true" {
				hasTrue = true
			}
		}
		if allConst && hasTrue {
			tests = append(tests, test{ifi, succ})
		}
	}
	n := 0
	for _, b := range f.Blocks {
		for _, in := range b.Instrs {
			st, ok := in.(*ssa.Store)
			if !ok {
				continue
			}
			fa, ok := st.Addr.(*ssa.FieldAddr)
			if !ok {
				continue
			}
			if name, _, _ := fieldName(fa); name != "coord" || !strings.Contains(fa.X.Type().String(), "rleBuffer") {
				continue
			}
			n++
			ok2 := false
			for _, t := range tests {
				if guardedByEdge(t.ifi, t.succ, st) {
					ok2 = true
				}
			}
			r.check(ok2, fmt.Sprintf("WriteRLEs:coord-store#%d:behind-holds-label-test", n), "the coordinate is remembered only for a block that holds the label",
				"the run buffer's block coordinate is stored for a block that may not hold the label: the next block with the label then looks like its +X neighbour, pending runs are not flushed, and runs are joined across the gap — voxels of other labels are reported as the body's", w.pos(st.Pos()))
		}
	}
	r.check(n >= 1 && len(tests) >= 1, "WriteRLEs:coord-stores", fmt.Sprintf("%d stores, %d tests", n, len(tests)), "anchor not found: rule needs review", w.fpos(f))
}

// phiConstBranch is a predFilter: a block that ends in a test of a bool phi of its own, entered by an edge on
// which that phi is a constant (or the condition its predecessor has just
// branched on), is left only by the matching successor.
func phiConstBranch(pred, b *ssa.BasicBlock, succIdx int) bool {
	if pred == nil || len(b.Instrs) == 0 {
		return true
	}
	ifi, ok := b.Instrs[len(b.Instrs)-1].(*ssa.If)
	if !ok {
		return true
	}
	cond, neg := ifi.Cond, false
	if u, ok := cond.(*ssa.UnOp); ok && u.Op == token.NOT && u.Block() == b {
		cond, neg = u.X, true
	}
	phi, ok := cond.(*ssa.Phi)
	if !ok || phi.Block() != b {
		return true
	}
	for i, p := range b.Preds {
		if p != pred {
			continue
		}
		var val bool
		if k, ok := phi.Edges[i].(*ssa.Const); ok && k.Value != nil {
			val = k.Value.String() == "true"
		} else if pif, ok := pred.Instrs[len(pred.Instrs)-1].(*ssa.If); ok && pif.Cond == phi.Edges[i] && pred.Succs[0] != pred.Succs[1] {
			// the phi is the very condition the predecessor has just branched on
			val = pred.Succs[0] == b
		} else {
			return true
		}
		if neg {
			val = !val
		}
		if val {
			return succIdx == 0
		}
		return succIdx == 1
	}
	return true
}

// ---------------------------------------------------------------------------------------------
// R9.18 — the set of requested label positions is asked about block-level positions only

func init() {
	register(ruleDef{ID: "R9.18", Prop: "C09", Tier: "quick", Floor: 6,
		Title: "the set of requested label positions is asked about block-level positions only: in the labels-package writers that receive the set 'indices' of positions in the block's label table (PositionedBlock.writeRLEs, PositionedBlock.WriteBinaryBlock) every lookup in that set, and every comparison with its single member, is made with an element read from the block's SBIndices (directly or through the local copy filled from it) — a sub-block-local packed value is a position in the sub-block's own table, not in the block's",
		Fn:    ruleBlockLevelIndexOnly})
	register(ruleDef{ID: "R18.22", Prop: "C18", Tier: "quick", Floor: 6,
		Title: "(= R9.18) the sparse-volume writers ask the set of requested label positions about block-level positions only",
		Fn:    ruleBlockLevelIndexOnly})
}

func ruleBlockLevelIndexOnly(r *Run) {
	w := r.W
	total := 0
	for _, f := range w.RepoFuncs {
		if len(f.Blocks) == 0 || relPkg(pkgPathOf(f)) != "datatype/common/labels" || isTestFunc(w, f) {
			continue
		}
		var set *ssa.Parameter
		for _, p := range f.Params {
			if p.Name() == "indices" && p.Type().String() == "map[uint32]struct{}" {
				set = p
			}
		}
		if set == nil {
			continue
		}
		fromSBIndices := func(v ssa.Value) bool {
			u, ok := stripConv(v).(*ssa.UnOp)
			if !ok || u.Op != token.MUL {
				return false
			}
			ia, ok := u.X.(*ssa.IndexAddr)
			return ok && isFieldLoad(ia.X, "Block", "SBIndices")
		}
		blockLevel := func(v ssa.Value) bool {
			if fromSBIndices(v) {
				return true
			}
			u, ok := stripConv(v).(*ssa.UnOp)
			if !ok || u.Op != token.MUL {
				return false
			}
			ia, ok := u.X.(*ssa.IndexAddr)
			if !ok {
				return false
			}
			// a local slice every element store of which is an element of SBIndices
			stores, good := 0, true
			for _, b := range f.Blocks {
				for _, in := range b.Instrs {
					st, ok := in.(*ssa.Store)
					if !ok {
						continue
					}
					ia2, ok := st.Addr.(*ssa.IndexAddr)
					if !ok || ia2.X != ia.X {
						continue
					}
					stores++
					if !fromSBIndices(st.Val) {
						good = false
					}
				}
			}
			_, isMake := ia.X.(*ssa.MakeSlice)
			return isMake && stores >= 1 && good
		}
		// the single member: the key of a range over the set
		isMember := func(v ssa.Value) bool {
			for _, rv := range roots(v, f) {
				if ex, ok := rv.V.(*ssa.Extract); ok {
					if nx, ok := ex.Tuple.(*ssa.Next); ok {
						if rg, ok := nx.Iter.(*ssa.Range); ok && rg.X == ssa.Value(set) {
							return true
						}
					}
				}
			}
			return false
		}
		n := 0
		for _, b := range f.Blocks {
			for _, in := range b.Instrs {
				switch x := in.(type) {
				case *ssa.Lookup:
					if x.X != ssa.Value(set) {
						continue
					}
					n++
					r.check(blockLevel(x.Index), fmt.Sprintf("%s:lookup#%d:block-level-position", fname(f), n), "the set is asked about an element of SBIndices",
						"the set of requested label positions is asked about a value that is not an element of the block's SBIndices: a sub-block-local packed value is taken for a position in the block's label table, and runs are written for whichever labels sit at those local positions", w.pos(x.Pos()))
				case *ssa.BinOp:
					if x.Op != token.EQL && x.Op != token.NEQ {
						continue
					}
					var other ssa.Value
					if _, isPhi := stripConv(x.X).(*ssa.Phi); isPhi && isMember(x.X) {
						other = x.Y
					} else if _, isPhi := stripConv(x.Y).(*ssa.Phi); isPhi && isMember(x.Y) {
						other = x.X
					}
					if other == nil {
						continue
					}
					n++
					r.check(blockLevel(other), fmt.Sprintf("%s:compare#%d:block-level-position", fname(f), n), "the single requested position is compared with an element of SBIndices",
						"the single requested label position is compared with a value that is not an element of the block's SBIndices", w.pos(x.Pos()))
				}
			}
		}
		total += n
	}
	r.check(total >= 6, "labels:set-of-positions:uses", fmt.Sprintf("%d", total), "too few uses found: rule needs review", "-")
}

// ---------------------------------------------------------------------------------------------
// R9.19 — a block made from a subvolume has the block's size

func init() {
	register(ruleDef{ID: "R9.19", Prop: "C09", Tier: "quick", Floor: 2,
		Title: "a block encoded from a subvolume has the block's size: in labels.subvolumeData.encodeBlock the size handed to MakeSolidBlock and the size stored in the Block it builds are computed from the receiver's blockSize only, never from volsize (a uniform block of a larger subvolume would carry the subvolume's dimensions in its header)",
		Fn:    ruleEncodedBlockHasBlockSize})
}

func ruleEncodedBlockHasBlockSize(r *Run) {
	w := r.W
	f := w.method("datatype/common/labels", "subvolumeData", "encodeBlock")
	if f == nil || len(f.Blocks) == 0 {
		r.undecided("labels.subvolumeData.encodeBlock", "anchor not found")
		return
	}
	fieldsOf := func(v ssa.Value) map[string]bool {
		out := map[string]bool{}
		for d := range dataDeps(v) {
			for _, x := range []ssa.Value{d} {
				if fa, ok := x.(*ssa.FieldAddr); ok {
					if name, _, _ := fieldName(fa); name != "" {
						out[name] = true
					}
				}
				if fl, ok := x.(*ssa.Field); ok {
					if st, ok := fl.X.Type().Underlying().(*types.Struct); ok {
						out[st.Field(fl.Field).Name()] = true
					}
				}
				// a helper of the same receiver: the fields it reads
				if c, ok := x.(*ssa.Call); ok {
					if callee := staticCallee(c); callee != nil && len(callee.Blocks) > 0 && callee.Signature.Recv() != nil && len(f.Params) > 0 && len(c.Call.Args) > 0 && (c.Call.Args[0] == ssa.Value(f.Params[0]) || isLoadOf(c.Call.Args[0], f.Params[0])) {
						for _, b := range callee.Blocks {
							for _, in := range b.Instrs {
								if fa, ok := in.(*ssa.FieldAddr); ok && strings.Contains(fa.X.Type().String(), "subvolumeData") {
									if name, _, _ := fieldName(fa); name != "" {
										out[name] = true
									}
								}
							}
						}
					}
				}
			}
		}
		return out
	}
	n := 0
	chk := func(v ssa.Value, what string, pos token.Pos) {
		n++
		fs := fieldsOf(v)
		r.check(fs["blockSize"] && !fs["volsize"], fmt.Sprintf("encodeBlock:%s#%d:from-blockSize", what, n), "the size comes from blockSize",
			"the size of the encoded block does not come from the receiver's blockSize alone (fields read: "+strings.Join(sortedBoolKeys(fs), ",")+"): a uniform block cut from a larger subvolume carries the subvolume's dimensions, its header and voxel count are wrong for every reader", w.pos(pos))
	}
	for _, c := range calls(f) {
		if callee := staticCallee(c); callee != nil && callee.Name() == "MakeSolidBlock" && len(c.Common().Args) >= 2 {
			chk(c.Common().Args[1], "solid-block-size", c.Pos())
		}
	}
	for _, b := range f.Blocks {
		for _, in := range b.Instrs {
			st, ok := in.(*ssa.Store)
			if !ok {
				continue
			}
			if fa, ok := st.Addr.(*ssa.FieldAddr); ok {
				if name, _, _ := fieldName(fa); name == "Size" && strings.Contains(fa.X.Type().String(), "Block") {
					chk(st.Val, "block-size", st.Pos())
				}
			}
		}
	}
	r.check(n >= 2, "encodeBlock:sizes", fmt.Sprintf("%d", n), "too few size sites found: rule needs review", w.fpos(f))
}

func sortedBoolKeys(m map[string]bool) []string {
	var out []string
	for k := range m {
		out = append(out, k)
	}
	sort.Strings(out)
	return out
}

func isLoadOf(v ssa.Value, p ssa.Value) bool {
	u, ok := v.(*ssa.UnOp)
	return ok && u.Op == token.MUL && u.X == p
}

// ---------------------------------------------------------------------------------------------
// R20.69 — a closure that signs off once per call does so on every exit

func init() {
	register(ruleDef{ID: "R20.69", Prop: "C20", Tier: "quick", Floor: 1,
		Title: "a closure that signs off once per call does so on every exit: in the datastore, server, storage and datatype packages, a function literal that calls Done() on a captured WaitGroup outside every loop of its own (and not in a defer) passes a Done on every path to a return — a callback or goroutine that returns early on an error leaves the request that waits for it blocked for ever",
		Fn:    ruleClosureSignsOffOnEveryExit})
}

func ruleClosureSignsOffOnEveryExit(r *Run) {
	w := r.W
	n := 0
	for _, g := range w.RepoFuncs {
		if len(g.Blocks) == 0 || g.Parent() == nil || isTestFunc(w, g) {
			continue
		}
		p := relPkg(pkgPathOf(g))
		if !(strings.HasPrefix(p, "datatype/") || p == "datastore" || p == "server" || strings.HasPrefix(p, "storage")) {
			continue
		}
		// group the Done calls by captured group
		groups := map[ssa.Value][]ssa.CallInstruction{}
		deferred := map[ssa.Value]bool{}
		for _, c := range calls(g) {
			callee := staticCallee(c)
			if callee == nil || callee.Name() != "Done" || callee.Pkg == nil || callee.Pkg.Pkg.Path() != "sync" || len(c.Common().Args) == 0 {
				continue
			}
			if !strings.Contains(c.Common().Args[0].Type().String(), "sync.WaitGroup") {
				continue
			}
			root := captureRoot(c.Common().Args[0])
			if root.Parent() == g {
				continue // the closure's own group
			}
			if _, isDefer := c.(*ssa.Defer); isDefer {
				deferred[root] = true
				continue
			}
			groups[root] = append(groups[root], c)
		}
		for _, c := range calls(g) {
			if d, isDefer := c.(*ssa.Defer); isDefer {
				if mc, ok := d.Call.Value.(*ssa.MakeClosure); ok {
					if cl, ok := mc.Fn.(*ssa.Function); ok {
						for _, c2 := range calls(cl) {
							if callee := staticCallee(c2); callee != nil && callee.Name() == "Done" && callee.Pkg != nil && callee.Pkg.Pkg.Path() == "sync" && len(c2.Common().Args) > 0 {
								deferred[captureRoot(c2.Common().Args[0])] = true
							}
						}
					}
				}
			}
		}
		var keys []ssa.Value
		for k := range groups {
			keys = append(keys, k)
		}
		sort.Slice(keys, func(i, j int) bool { return keys[i].Pos() < keys[j].Pos() })
		for _, root := range keys {
			if deferred[root] {
				continue
			}
			outLoop := false
			for _, c := range groups[root] {
				if _, set, _ := innermostLoop(g, c.Block()); set == nil {
					outLoop = true
				}
			}
			if !outLoop {
				continue
			}
			n++
			isDone := func(x ssa.Instruction) bool {
				for _, c := range groups[root] {
					if x == ssa.Instruction(c) {
						return true
					}
				}
				return false
			}
			// handing the item on to a consumer (a send) hands the sign-off on with it
			signedOff := func(x ssa.Instruction) bool {
				if _, isSend := x.(*ssa.Send); isSend {
					return true
				}
				return isDone(x)
			}
			pth := findPath(g, nil, signedOff, func(x ssa.Instruction) bool { _, isRet := x.(*ssa.Return); return isRet }, neverNilReceived(g))
			gname := root.Name()
			if al, ok := root.(*ssa.Alloc); ok && al.Comment != "" {
				gname = al.Comment
			}
			r.check(pth == nil, fname(g)+":"+gname+":done-on-every-exit", "every path to a return passes the Done",
				"the function literal can return without calling Done() on the WaitGroup its starter waits on: after an early error return the waiting request blocks for ever", w.fpos(g), w.renderPath(pth)...)
		}
	}
	r.check(n >= 10, "repo:per-call-closures", fmt.Sprintf("%d", n), "too few: rule needs review", "-")
}

// neverNilReceived prunes the "received element is nil" edge of a test on an element received from a captured
// channel when every send on that channel, in the outermost enclosing function and its closures, sends the
// address of a fresh composite.
func neverNilReceived(g *ssa.Function) edgeFilter {
	top := g
	for top.Parent() != nil {
		top = top.Parent()
	}
	tree := closureTree(top)
	allFresh := func(ch ssa.Value) bool {
		n := 0
		for _, x := range tree {
			for _, b := range x.Blocks {
				for _, in := range b.Instrs {
					s, ok := in.(*ssa.Send)
					if !ok || captureRoot(s.Chan) != ch {
						continue
					}
					n++
					if _, fresh := s.X.(*ssa.Alloc); !fresh {
						return false
					}
				}
			}
		}
		return n >= 1
	}
	return func(b *ssa.BasicBlock, i int) bool {
		ifi, ok := b.Instrs[len(b.Instrs)-1].(*ssa.If)
		if !ok {
			return true
		}
		bo, ok := ifi.Cond.(*ssa.BinOp)
		if !ok || !(bo.Op == token.EQL || bo.Op == token.NEQ) || !isNilConst(bo.Y) {
			return true
		}
		v := bo.X
		if ex, ok := v.(*ssa.Extract); ok {
			v = ex.Tuple
		}
		u, ok := v.(*ssa.UnOp)
		if !ok || u.Op != token.ARROW {
			return true
		}
		if !allFresh(captureRoot(u.X)) {
			return true
		}
		if bo.Op == token.EQL {
			return i == 1
		}
		return i == 0
	}
}

// ---------------------------------------------------------------------------------------------
// R20.70 — no mutex is released that is not held

func init() {
	register(ruleDef{ID: "R20.70", Prop: "C20", Tier: "quick", Floor: 1,
		Title: "no mutex is released that is not held: an Unlock()/RUnlock() on a mutex reached through a field, a global or a captured variable — called directly, registered with defer, or made by a deferred function literal — is not reached along a path on which the function has not taken that mutex in the matching mode since entry or since its last release (releasing an unlocked sync mutex is a fatal error of the runtime that no recover stops); paths that take contradictory branches on one condition are not considered; a function that releases a lock its caller took is listed as an exception with that caller",
		Fn:    ruleNoUnlockOfUnheld})
}

// mutexIdent names a mutex by the value its access path starts from and the path of fields/derefs to it;
// captured variables are followed to the enclosing function's cell.  Sharded mutexes (indexed) are not named.
func mutexIdent(v ssa.Value) (ssa.Value, string) {
	path := ""
	for i := 0; i < 30; i++ {
		switch x := v.(type) {
		case *ssa.FieldAddr:
			n, _, _ := fieldName(x)
			path = "." + n + path
			v = x.X
		case *ssa.Field:
			if st, ok := x.X.Type().Underlying().(*types.Struct); ok {
				path = "." + st.Field(x.Field).Name() + path
			}
			v = x.X
		case *ssa.UnOp:
			if x.Op != token.MUL {
				return v, path
			}
			path = "*" + path
			v = x.X
		case *ssa.IndexAddr, *ssa.Index, *ssa.Lookup:
			return nil, ""
		case *ssa.FreeVar:
			r := captureRoot(x)
			if r == ssa.Value(x) {
				return v, path
			}
			v = r
		case *ssa.ChangeType:
			v = x.X
		default:
			return v, path
		}
	}
	return v, path
}

type syncOp struct {
	in      ssa.Instruction
	root    ssa.Value
	path    string
	acquire bool
	write   bool
	defer_  bool
}

func syncOpsOf(f *ssa.Function) []syncOp {
	var out []syncOp
	for _, b := range f.Blocks {
		for _, in := range b.Instrs {
			var cc *ssa.CallCommon
			isDefer := false
			switch x := in.(type) {
			case *ssa.Call:
				cc = &x.Call
			case *ssa.Defer:
				cc, isDefer = &x.Call, true
			default:
				continue
			}
			callee := cc.StaticCallee()
			if callee == nil || len(cc.Args) == 0 || !strings.HasPrefix(callee.String(), "(*sync.") {
				continue
			}
			var op syncOp
			switch callee.Name() {
			case "Lock":
				op.acquire, op.write = true, true
			case "RLock":
				op.acquire = true
			case "Unlock":
				op.write = true
			case "RUnlock":
			default:
				continue
			}
			if !strings.Contains(callee.String(), "Mutex") {
				continue
			}
			op.root, op.path = mutexIdent(cc.Args[0])
			if op.root == nil {
				continue
			}
			op.in, op.defer_ = in, isDefer
			out = append(out, op)
		}
	}
	return out
}

// consistentPath is findPath with one refinement: conditions tested by more than one If of the function are
// given one truth value along the path (re-set when the path re-enters the block that computes the condition).
var cpExhausted int // searches given up by consistentPath (reported by the rules that use it)

func consistentPath(f *ssa.Function, from ssa.Instruction, barrier, target func(ssa.Instruction) bool) []ssa.Instruction {
	if len(f.Blocks) == 0 {
		return nil
	}
	condOf := func(b *ssa.BasicBlock) (ssa.Value, bool) {
		if len(b.Instrs) == 0 {
			return nil, false
		}
		ifi, ok := b.Instrs[len(b.Instrs)-1].(*ssa.If)
		if !ok {
			return nil, false
		}
		c, neg := ifi.Cond, false
		for {
			u, ok := c.(*ssa.UnOp)
			if !ok || u.Op != token.NOT {
				break
			}
			c, neg = u.X, !neg
		}
		return c, neg
	}
	uses := map[ssa.Value]int{}
	for _, b := range f.Blocks {
		if c, _ := condOf(b); c != nil {
			uses[c]++
		}
	}
	type state struct {
		b     *ssa.BasicBlock
		idx   int
		asg   map[ssa.Value]bool
		trail []ssa.Instruction
	}
	sig := func(b *ssa.BasicBlock, asg map[ssa.Value]bool) string {
		var parts []string
		for c, v := range asg {
			parts = append(parts, fmt.Sprintf("%s=%t", c.Name(), v))
		}
		sort.Strings(parts)
		return fmt.Sprintf("%d|%s", b.Index, strings.Join(parts, ","))
	}
	startB, startI := f.Blocks[0], 0
	if from != nil {
		startB, startI = from.Block(), instrIndex(from)+1
	}
	visited := map[string]bool{}
	stack := []state{{startB, startI, map[ssa.Value]bool{}, nil}}
	steps := 0
	for len(stack) > 0 {
		st := stack[len(stack)-1]
		stack = stack[:len(stack)-1]
		steps++
		if steps > 200000 {
			cpExhausted++
			return nil
		}
		blocked := false
		for i := st.idx; i < len(st.b.Instrs); i++ {
			in := st.b.Instrs[i]
			if barrier != nil && barrier(in) {
				blocked = true
				break
			}
			if target(in) {
				return append(append([]ssa.Instruction{}, st.trail...), in)
			}
		}
		if blocked {
			continue
		}
		c, neg := condOf(st.b)
		for i, s := range st.b.Succs {
			asg := st.asg
			if c != nil && uses[c] >= 2 {
				want := (i == 0) != neg
				if have, ok := asg[c]; ok {
					if have != want {
						continue
					}
				} else {
					asg = map[ssa.Value]bool{}
					for k, v := range st.asg {
						asg[k] = v
					}
					asg[c] = want
				}
			}
			// entering the block that computes a condition forgets what was assumed about it
			drop := false
			for k := range asg {
				if in, ok := k.(ssa.Instruction); ok && in.Block() == s {
					drop = true
				}
			}
			if drop {
				n := map[ssa.Value]bool{}
				for k, v := range asg {
					if in, ok := k.(ssa.Instruction); ok && in.Block() == s {
						continue
					}
					n[k] = v
				}
				asg = n
			}
			k := sig(s, asg)
			if visited[k] {
				continue
			}
			visited[k] = true
			trail := st.trail
			if len(st.b.Instrs) > 0 {
				trail = append(append([]ssa.Instruction{}, st.trail...), st.b.Instrs[len(st.b.Instrs)-1])
			}
			stack = append(stack, state{s, 0, asg, trail})
		}
	}
	return nil
}

func ruleNoUnlockOfUnheld(r *Run) {
	w := r.W
	n, skipped := 0, 0
	isReturn := func(x ssa.Instruction) bool { _, ok := x.(*ssa.Return); return ok }
	for _, f := range w.RepoFuncs {
		if len(f.Blocks) == 0 || isTestFunc(w, f) {
			continue
		}
		ops := syncOpsOf(f)
		// releases made by function literals this function defers count as deferred releases of this function
		type rel struct {
			at      ssa.Instruction // the release, or the defer that registers it
			op      syncOp
			deferAt bool
		}
		var rels []rel
		for _, op := range ops {
			if op.acquire {
				continue
			}
			ownAcquire := false
			for _, o := range ops {
				if o.acquire && o.root == op.root && o.path == op.path {
					ownAcquire = true
				}
			}
			if f.Parent() != nil && op.root.Parent() != f && !ownAcquire {
				// a function literal releasing a captured mutex it does not take: decided in the function that defers it
				onlyDeferred := true
				par := f.Parent()
				used := false
				for _, b := range par.Blocks {
					for _, in := range b.Instrs {
						if mc, ok := in.(*ssa.MakeClosure); ok && mc.Fn == ssa.Value(f) {
							for _, ref := range *mc.Referrers() {
								used = true
								if _, isDefer := ref.(*ssa.Defer); !isDefer {
									onlyDeferred = false
								}
							}
						}
					}
				}
				if !(used && onlyDeferred) {
					skipped++
					if os.Getenv("DVIDLINT_DEBUG_R2070") != "" {
						fmt.Fprintln(os.Stderr, "R20.70 not decided:", fname(f), w.pos(op.in.Pos()))
					}
				}
				continue
			}
			rels = append(rels, rel{op.in, op, op.defer_})
		}
		for _, a := range f.AnonFuncs {
			for _, b := range f.Blocks {
				for _, in := range b.Instrs {
					d, ok := in.(*ssa.Defer)
					if !ok {
						continue
					}
					mc, ok := d.Call.Value.(*ssa.MakeClosure)
					if !ok || mc.Fn != ssa.Value(a) {
						continue
					}
					for _, op := range syncOpsOf(a) {
						if !op.acquire && !op.defer_ && op.root.Parent() == f {
							rels = append(rels, rel{in, op, true})
						}
					}
				}
			}
		}
		k := 0
		for _, rl := range rels {
			k++
			n++
			same := func(o syncOp) bool { return o.root == rl.op.root && o.path == rl.op.path }
			isAcq := func(x ssa.Instruction) bool {
				for _, o := range ops {
					if o.in == x && o.acquire && !o.defer_ && same(o) && o.write == rl.op.write {
						return true
					}
				}
				return false
			}
			var pth []ssa.Instruction
			what := ""
			if rl.deferAt {
				// registered before any acquisition, and no acquisition between the registration and a return
				p1 := consistentPath(f, nil, isAcq, func(x ssa.Instruction) bool { return x == rl.at })
				if p1 != nil {
					if p2 := consistentPath(f, rl.at, isAcq, isReturn); p2 != nil {
						pth, what = append(p1, p2...), "from the entry through the defer to a return"
					}
				}
			} else {
				pth = consistentPath(f, nil, isAcq, func(x ssa.Instruction) bool { return x == rl.at })
				what = "from the entry"
				if pth == nil {
					for _, o := range ops {
						if o.acquire || o.defer_ || !same(o) {
							continue
						}
						if p := consistentPath(f, o.in, isAcq, func(x ssa.Instruction) bool { return x == rl.at }); p != nil {
							pth, what = p, "from the release at "+w.pos(o.in.Pos())
							break
						}
					}
				}
			}
			name := "Unlock"
			if !rl.op.write {
				name = "RUnlock"
			}
			rootName := rl.op.root.Name()
			if al, ok := rl.op.root.(*ssa.Alloc); ok && al.Comment != "" {
				rootName = al.Comment
			}
			construct := fmt.Sprintf("%s:%s#%d:%s%s:held", fname(f), name, k, rootName, rl.op.path)
			if reason, exc := r.exceptionFor("R20.70", construct); exc {
				r.check(true, construct, "exception: "+reason, "", w.pos(rl.at.Pos()))
				continue
			}
			r.check(pth == nil, construct, "the mutex was taken in the matching mode on every path to the release",
				"a path ("+what+") reaches this "+name+"() without the function having taken the mutex in the matching mode: releasing a sync mutex that is not locked is a fatal runtime error — the process ends, and no recover middleware stops it", w.pos(rl.at.Pos()), w.renderPath(pth)...)
		}
	}
	r.check(n >= 100, "repo:releases", fmt.Sprintf("%d decided, %d in function literals not decided", n, skipped), "too few: rule needs review", "-")
	if cpExhausted > 0 {
		r.undecided("repo:releases:path-search", fmt.Sprintf("%d path searches were given up at the step limit", cpExhausted))
	}
}

// ---------------------------------------------------------------------------------------------
// R7.19 — no child is inserted without one of the two branch scans

func init() {
	register(ruleDef{ID: "R7.19", Prop: "C07", Tier: "quick", Floor: 2,
		Title: "no version is inserted without a scan for its branch name: in repoManager.newVersion every path from the entry to the insertion of the child into the DAG's node map starts one of the two uniqueness scans — the loop over the parent's children or the loop over all nodes of the DAG (a request class that runs neither scan, e.g. a branch request naming the parent's own branch, gives one branch two heads)",
		Fn:    ruleInsertBehindBranchScan})
}

func ruleInsertBehindBranchScan(r *Run) {
	w := r.W
	f := w.method("datastore", "repoManager", "newVersion")
	if f == nil || len(f.Blocks) == 0 {
		r.undecided("datastore.repoManager.newVersion", "anchor not found")
		return
	}
	hcall, hfn := branchCheckHelper(f)
	if hcall == nil && !newVersionIntact(r, f) {
		return
	}
	var isScanStart func(in ssa.Instruction) bool
	helperScans := false
	isScanStart = func(in ssa.Instruction) bool {
		// the call of a validating helper all of whose returns lie behind the start of one of the scans
		if hcall != nil && in == ssa.Instruction(hcall) {
			return helperScans
		}
		switch x := in.(type) {
		case *ssa.Range:
			return isFieldLoad(x.X, "dagT", "nodes")
		case *ssa.UnOp:
			if x.Op != token.MUL {
				return false
			}
			fa, ok := x.X.(*ssa.FieldAddr)
			if !ok {
				return false
			}
			if name, _, _ := fieldName(fa); name != "children" {
				return false
			}
			// the slice is walked: its length is taken or it is indexed
			for _, ref := range *x.Referrers() {
				switch y := ref.(type) {
				case *ssa.Call:
					if bi, ok := y.Call.Value.(*ssa.Builtin); ok && bi.Name() == "len" {
						return true
					}
				case *ssa.IndexAddr, *ssa.Index:
					return true
				}
			}
		}
		return false
	}
	if hfn != nil {
		anyRet := func(x ssa.Instruction) bool { _, ok := x.(*ssa.Return); return ok }
		helperScans = findPath(hfn, nil, isScanStart, anyRet, nil) == nil
	}
	nScan, nIns := 0, 0
	for _, b := range f.Blocks {
		for _, in := range b.Instrs {
			if isScanStart(in) {
				nScan++
				if hcall != nil && in == ssa.Instruction(hcall) {
					nScan++ // the helper holds both scans
				}
			}
		}
	}
	for _, b := range f.Blocks {
		for _, in := range b.Instrs {
			mu, ok := in.(*ssa.MapUpdate)
			if !ok || !isFieldLoad(mu.Map, "dagT", "nodes") {
				continue
			}
			nIns++
			pth := consistentPath(f, nil, isScanStart, func(x ssa.Instruction) bool { return x == in })
			r.check(pth == nil, fmt.Sprintf("newVersion:insert#%d:behind-a-branch-scan", nIns), "every path to the insertion starts a scan of the siblings or of the whole DAG",
				"a path reaches the insertion of the new version into the DAG without having scanned the parent's children or the DAG's nodes for the branch name: that class of requests can give one branch two heads", w.pos(in.Pos()), w.renderPath(pth)...)
		}
	}
	r.check(nScan >= 2 && nIns >= 1, "newVersion:scans-and-insertions", fmt.Sprintf("%d scan starts, %d insertions", nScan, nIns), "anchor not found: rule needs review", w.fpos(f))
}

// ---------------------------------------------------------------------------------------------
// R5.22 — a value read inside the interval is put out or the request fails

func init() {
	register(ruleDef{ID: "R5.22", Prop: "C05", Tier: "quick", Floor: 3,
		Title: "a value read inside the interval is put out or the request fails: in the keyvalue package, in every range callback (a function literal that receives a *storage.Chunk) that deserializes the stored value, each path from the deserialization to a success return passes a point where that value itself is written to the response, stored into the reply being built, or sent on — a value that fails a check ends the request with an error, it is not left out of a reply that then looks complete",
		Fn:    ruleRangeValuePutOutOrError})
}

func ruleRangeValuePutOutOrError(r *Run) {
	w := r.W
	n := 0
	for _, g := range w.RepoFuncs {
		if len(g.Blocks) == 0 || g.Parent() == nil || relPkg(pkgPathOf(g)) != "datatype/keyvalue" || isTestFunc(w, g) {
			continue
		}
		isCallback := false
		for _, p := range g.Params {
			if strings.HasSuffix(p.Type().String(), "storage.Chunk") {
				isCallback = true
			}
		}
		if !isCallback {
			continue
		}
		for _, c := range calls(g) {
			callee := staticCallee(c)
			if callee == nil || callee.Name() != "DeserializeData" {
				continue
			}
			var val ssa.Value
			if cv := c.Value(); cv != nil {
				for _, ref := range *cv.Referrers() {
					if ex, ok := ref.(*ssa.Extract); ok && ex.Index == 0 {
						val = ex
					}
				}
			}
			if val == nil {
				continue
			}
			n++
			var flows func(v ssa.Value, depth int) bool
			flows = func(v ssa.Value, depth int) bool {
				if depth > 8 {
					return false
				}
				if v == val {
					return true
				}
				switch x := v.(type) {
				case *ssa.Phi:
					for _, e := range x.Edges {
						if flows(e, depth+1) {
							return true
						}
					}
				case *ssa.ChangeType:
					return flows(x.X, depth+1)
				case *ssa.Convert:
					return flows(x.X, depth+1)
				case *ssa.Slice:
					return flows(x.X, depth+1)
				case *ssa.MakeInterface:
					return flows(x.X, depth+1)
				}
				return false
			}
			putOut := func(in ssa.Instruction) bool {
				switch x := in.(type) {
				case *ssa.Store:
					return flows(x.Val, 0)
				case *ssa.Send:
					return flows(x.X, 0)
				case ssa.CallInstruction:
					if name := methodNameOf(x); name == "Write" || name == "WriteString" {
						for _, a := range x.Common().Args {
							if flows(a, 0) {
								return true
							}
						}
					}
				}
				return false
			}
			pth := consistentPath(g, c, putOut, successExit)
			r.check(pth == nil, fmt.Sprintf("%s:deserialized-value#%d:put-out-or-error", fname(g), n), "every success path puts the value out",
				"a path leads from the deserialization of a stored value to a success return of the range callback without the value being written, stored into the reply or sent on: the key is missing from a reply that ends as if it were complete, although a read of that key returns the value", w.pos(c.Pos()), w.renderPath(pth)...)
		}
	}
	r.check(n >= 2, "keyvalue:range-callbacks-that-deserialize", fmt.Sprintf("%d", n), "too few: rule needs review", "-")
}

// ---------------------------------------------------------------------------------------------
// R1.21 — an unresolved conflict on a parent's lineage is retried or reported, never dropped
// R1.22 — every candidate of a merge passes the supersession filter

func init() {
	register(ruleDef{ID: "R1.21", Prop: "C01", Tier: "quick", Floor: 3,
		Title: "an unresolved conflict on a parent's lineage is retried or reported, never dropped: in repoManager.findMatch, behind the error edge of each recursive call made in a loop, every path either returns an error or records the parent in a list that a later loop walks with another recursive call — and a call in a loop over such a list returns the error (a read at a merge of merges must not succeed with one of several unsuperseded values)",
		Fn:    ruleConflictRetriedOrReported})
	register(ruleDef{ID: "R1.22", Prop: "C01", Tier: "quick", Floor: 2,
		Title: "every candidate of a merge passes the supersession filter: in repoManager.findMatch every path from a recursive call made in a loop to a success return of a value enters the loop over the collected candidate versions that reads their 'invalid' mark (a lone candidate that another parent's lineage has deleted or superseded is not returned as live)",
		Fn:    ruleEveryCandidateFiltered})
}

func findMatchRecursiveCalls(f *ssa.Function) []*ssa.Call {
	var out []*ssa.Call
	for _, c := range calls(f) {
		if cc, ok := c.(*ssa.Call); ok && cc.Call.StaticCallee() == f {
			if _, set, _ := innermostLoop(f, cc.Block()); set != nil {
				out = append(out, cc)
			}
		}
	}
	return out
}

func ruleConflictRetriedOrReported(r *Run) {
	w := r.W
	f := w.method("datastore", "repoManager", "findMatch")
	if f == nil || len(f.Blocks) == 0 {
		r.undecided("datastore.repoManager.findMatch", "anchor not found")
		return
	}
	rec := findMatchRecursiveCalls(f)
	// retry lists: slices appended to behind an error edge and walked by a loop that holds a recursive call
	walked := func(al ssa.Value, notIn map[*ssa.BasicBlock]bool) bool {
		for _, c := range rec {
			_, set, _ := innermostLoop(f, c.Block())
			if set == nil || (notIn != nil && notIn[c.Block()]) {
				continue
			}
			// the call's version argument comes from an element of the list
			for d := range dataDeps(c.Call.Args[len(c.Call.Args)-1]) {
				if d == al {
					return true
				}
			}
		}
		return false
	}
	n := 0
	for _, c := range rec {
		var errV ssa.Value
		for _, ref := range *c.Referrers() {
			if ex, ok := ref.(*ssa.Extract); ok && ex.Index == 2 {
				errV = ex
			}
		}
		if errV == nil {
			continue
		}
		var ifi *ssa.If
		succ := 0
		for _, ref := range *errV.Referrers() {
			bo, ok := ref.(*ssa.BinOp)
			if !ok || !isNilConst(bo.Y) {
				continue
			}
			for _, ref2 := range *bo.Referrers() {
				if i, ok := ref2.(*ssa.If); ok {
					ifi = i
					if bo.Op == token.EQL {
						succ = 1
					}
				}
			}
		}
		if ifi == nil {
			continue
		}
		n++
		_, myLoop, _ := innermostLoop(f, c.Block())
		start := ifi.Block().Succs[succ]
		recorded := func(in ssa.Instruction) bool {
			st, ok := in.(*ssa.Store)
			if ok {
				// conflicted = append(conflicted, parent) spilled to a cell
				if walked(st.Addr, myLoop) {
					return true
				}
			}
			if cc, ok := in.(*ssa.Call); ok {
				if bi, ok := cc.Call.Value.(*ssa.Builtin); ok && bi.Name() == "append" {
					// the appended-to slice is a phi walked by a later loop
					for _, ref := range *cc.Referrers() {
						if phi, ok := ref.(*ssa.Phi); ok && walked(phi, myLoop) {
							return true
						}
					}
					if walked(cc, myLoop) {
						return true
					}
				}
			}
			return false
		}
		// from the error edge: an error return ends the path well; anything else — the next pass or a success
		// return — must lie behind the recording
		target := func(in ssa.Instruction) bool {
			if successExit(in) {
				return true
			}
			// going round: the first instruction of the loop header
			if h, _, _ := innermostLoop(f, c.Block()); h != nil && in == h.Instrs[0] {
				return true
			}
			return false
		}
		var pth []ssa.Instruction
		first := start.Instrs[0]
		if recorded(first) {
			pth = nil
		} else if target(first) {
			pth = []ssa.Instruction{first}
		} else {
			pth = consistentPath(f, first, func(in ssa.Instruction) bool {
				if ret, ok := in.(*ssa.Return); ok && isErrorExit(ret) {
					return true
				}
				return recorded(in)
			}, target)
		}
		r.check(pth == nil, fmt.Sprintf("findMatch:recursive-call#%d:error-retried-or-returned", n), "behind the error edge the parent is recorded for the retry pass or the error is returned",
			"behind the error edge of a recursive call the walk goes on (or succeeds) without the parent being recorded for a later pass and without returning the error: an unresolved conflict on that lineage is dropped, and the read at a merge of merges succeeds with one of several unsuperseded values", w.pos(c.Pos()), w.renderPath(pth)...)
	}
	r.check(n >= 2, "findMatch:recursive-calls-in-loops", fmt.Sprintf("%d", n), "too few: rule needs review", w.fpos(f))
}

func ruleEveryCandidateFiltered(r *Run) {
	w := r.W
	f := w.method("datastore", "repoManager", "findMatch")
	if f == nil || len(f.Blocks) == 0 {
		r.undecided("datastore.repoManager.findMatch", "anchor not found")
		return
	}
	// the filter: a range over a map keyed by VersionID whose loop reads a field named invalid
	isFilter := func(in ssa.Instruction) bool {
		rg, ok := in.(*ssa.Range)
		if !ok {
			return false
		}
		mt, ok := rg.X.Type().Underlying().(*types.Map)
		if !ok || !strings.HasSuffix(mt.Key().String(), "dvid.VersionID") {
			return false
		}
		// the loop that consumes this iterator
		for _, ref := range *rg.Referrers() {
			nx, ok := ref.(*ssa.Next)
			if !ok {
				continue
			}
			_, set, _ := innermostLoop(f, nx.Block())
			for b := range set {
				for _, x := range b.Instrs {
					switch y := x.(type) {
					case *ssa.FieldAddr:
						if name, _, _ := fieldName(y); name == "invalid" {
							return true
						}
					case *ssa.Field:
						if st, ok := y.X.Type().Underlying().(*types.Struct); ok && st.Field(y.Field).Name() == "invalid" {
							return true
						}
					}
				}
			}
		}
		return false
	}
	nF := 0
	for _, b := range f.Blocks {
		for _, in := range b.Instrs {
			if isFilter(in) {
				nF++
			}
		}
	}
	valueReturn := func(in ssa.Instruction) bool {
		ret, ok := in.(*ssa.Return)
		if !ok || len(ret.Results) == 0 || isErrorExit(ret) {
			return false
		}
		return !isNilConst(ret.Results[0])
	}
	n := 0
	for _, c := range findMatchRecursiveCalls(f) {
		n++
		pth := consistentPath(f, c, isFilter, valueReturn)
		r.check(pth == nil, fmt.Sprintf("findMatch:recursive-call#%d:value-returned-behind-the-filter", n), "a value is returned only after the candidates' invalid marks were read",
			"a path leads from a recursive call on a parent to a success return of a value without entering the loop that removes superseded candidates: a lone candidate that another parent's lineage deleted or overwrote is returned as live", w.pos(c.Pos()), w.renderPath(pth)...)
	}
	r.check(n >= 2 && nF >= 1, "findMatch:filter", fmt.Sprintf("%d recursive calls in loops, %d filter loops", n, nF), "anchor not found: rule needs review", w.fpos(f))
}

// ---------------------------------------------------------------------------------------------
// R5.23 — a present value is never read back as nil

func init() {
	register(ruleDef{ID: "R5.23", Prop: "C05", Tier: "quick", Floor: 4,
		Title: "a present value is never read back as nil: in the Badger engine every copy of an item's value out of a transaction (Item.ValueCopy) is given a non-nil destination — with a nil destination an empty stored value comes back as nil, which every caller of Get and every range callback takes for 'no such key', so the key is listed but not found",
		Fn:    rulePresentValueNotNil})
}

func rulePresentValueNotNil(r *Run) {
	w := r.W
	n := 0
	for _, f := range w.RepoFuncs {
		if len(f.Blocks) == 0 || relPkg(pkgPathOf(f)) != "storage/badger" || isTestFunc(w, f) {
			continue
		}
		k := 0
		for _, c := range calls(f) {
			if methodNameOf(c) != "ValueCopy" {
				continue
			}
			args := c.Common().Args
			if len(args) == 0 {
				continue
			}
			n++
			k++
			dst := args[len(args)-1]
			r.check(!isNilConst(dst), fmt.Sprintf("%s:ValueCopy#%d:non-nil-destination", fname(f), k), "the copy gets a non-nil destination",
				"the item's value is copied with a nil destination: an empty stored value is returned as nil, and the callers read nil as 'no such key' — the key appears in listings but its point read answers not found", w.pos(c.Pos()))
		}
	}
	r.check(n >= 4, "badger:value-copies", fmt.Sprintf("%d", n), "too few: rule needs review", "-")
}

// ---------------------------------------------------------------------------------------------
// R6.20 — the fields of a composed key occupy disjoint byte regions

func init() {
	register(ruleDef{ID: "R6.20", Prop: "C06", Tier: "quick", Floor: 1,
		Title: "the fields of a composed key or header occupy disjoint byte regions: where one function writes two constant sub-ranges b[i:j] of the same byte buffer (copy or binary Put*) and one write can follow the other, the two ranges do not overlap, and two such writes never start at the same computed offset — an instance id overwritten by the version id makes the keys of different data instances equal (e.g. the key of the process-wide label-index cache)",
		Fn:    ruleKeyFieldsDisjoint})
}

func ruleKeyFieldsDisjoint(r *Run) {
	w := r.W
	type region struct {
		lo, hi int64
		at     ssa.Instruction
	}
	type symRegion struct {
		low ssa.Value
		at  ssa.Instruction
	}
	nFuncs, nPairs, nSym := 0, 0, 0
	for _, f := range w.RepoFuncs {
		if len(f.Blocks) == 0 || isTestFunc(w, f) {
			continue
		}
		byBase := map[ssa.Value][]region{}
		symbolic := map[ssa.Value][]symRegion{}
		var order []ssa.Value
		for _, c := range calls(f) {
			cc := c.Common()
			var dst ssa.Value
			if bi, ok := cc.Value.(*ssa.Builtin); ok && bi.Name() == "copy" && len(cc.Args) == 2 {
				dst = cc.Args[0]
			} else if name := methodNameOf(c); (name == "PutUint16" || name == "PutUint32" || name == "PutUint64") && len(cc.Args) >= 2 {
				dst = cc.Args[len(cc.Args)-2]
			}
			if dst == nil {
				continue
			}
			sl, ok := dst.(*ssa.Slice)
			if !ok || sl.Low == nil || sl.High == nil {
				if ok && sl.Low == nil && sl.High != nil {
					if hi, ok2 := constInt(sl.High); ok2 {
						if _, seen := byBase[sl.X]; !seen {
							order = append(order, sl.X)
						}
						byBase[sl.X] = append(byBase[sl.X], region{0, hi, c})
					}
				}
				continue
			}
			lo, ok1 := constInt(sl.Low)
			hi, ok2 := constInt(sl.High)
			if !ok1 || !ok2 {
				// a computed offset: two writes that start at the very same computed value overlap for certain
				if !ok1 {
					for _, o := range symbolic[sl.X] {
						if o.low == sl.Low && o.at != ssa.Instruction(c) {
							// the same value of the offset: the path does not pass its definition again
							redefined := func(x ssa.Instruction) bool {
								d, ok := sl.Low.(ssa.Instruction)
								return ok && x == d
							}
							if findPath(f, o.at, redefined, func(x ssa.Instruction) bool { return x == ssa.Instruction(c) }, nil) != nil {
								r.violation(fmt.Sprintf("%s:same-computed-offset", fname(f)),
									"two fields are written, one after the other, to ranges of one buffer that start at the same computed offset: the later field overwrites the earlier one (e.g. the client id written over the version id of a stored key: distinct versions collapse onto one key)", w.pos(c.Pos()))
							}
						}
					}
					symbolic[sl.X] = append(symbolic[sl.X], symRegion{sl.Low, c})
					nSym++
				}
				continue
			}
			if _, seen := byBase[sl.X]; !seen {
				order = append(order, sl.X)
			}
			byBase[sl.X] = append(byBase[sl.X], region{lo, hi, c})
		}
		counted := false
		for _, base := range order {
			regs := byBase[base]
			if len(regs) < 2 {
				continue
			}
			if !counted {
				nFuncs++
				counted = true
			}
			for i := 0; i < len(regs); i++ {
				for j := i + 1; j < len(regs); j++ {
					a, b := regs[i], regs[j]
					nPairs++
					lo, hi := a.lo, a.hi
					if b.lo > lo {
						lo = b.lo
					}
					if b.hi < hi {
						hi = b.hi
					}
					if lo >= hi {
						continue
					}
					// both writes in one run?
					seq := findPath(f, a.at, nil, func(x ssa.Instruction) bool { return x == b.at }, nil) != nil ||
						findPath(f, b.at, nil, func(x ssa.Instruction) bool { return x == a.at }, nil) != nil
					if !seq {
						continue
					}
					r.violation(fmt.Sprintf("%s:[%d:%d]-and-[%d:%d]", fname(f), a.lo, a.hi, b.lo, b.hi),
						fmt.Sprintf("two fields are written to overlapping byte ranges [%d:%d] and [%d:%d] of one buffer, one after the other: the later field overwrites the earlier one — when the overwritten field is the data instance's id, different instances get equal keys and read each other's entries", a.lo, a.hi, b.lo, b.hi), w.pos(b.at.Pos()))
				}
			}
		}
	}
	r.check(nFuncs >= 6, "repo:composed-buffers", fmt.Sprintf("%d functions, %d pairs of constant regions compared, %d writes at computed offsets", nFuncs, nPairs, nSym), "too few: rule needs review", "-")
}

// ---------------------------------------------------------------------------------------------
// R12.23 / R3.31 — a persisted counter is written and read under the same key

func init() {
	register(ruleDef{ID: "R12.23", Prop: "C12", Tier: "quick", Floor: 2,
		Title: "a persisted counter is written and read under the same key: in package datastore, for every metadata key class that more than one function builds with storage.NewTKey from a field of the repo or the manager, every site builds it from the same field (a mutation-id stride written under the repo's version id and read under the repo's id is lost at the next start, and the ids are issued again)",
		Fn:    ruleMetadataKeyMaterialAgrees})
	register(ruleDef{ID: "R3.31", Prop: "C03", Tier: "quick", Floor: 2,
		Title: "(= R12.23) a persisted counter is written and read under the same metadata key",
		Fn:    ruleMetadataKeyMaterialAgrees})
}

func ruleMetadataKeyMaterialAgrees(r *Run) {
	w := r.W
	type site struct {
		field string
		pos   string
		fn    string
	}
	byClass := map[string][]site{}
	for _, f := range w.RepoFuncs {
		if len(f.Blocks) == 0 || relPkg(pkgPathOf(f)) != "datastore" || isTestFunc(w, f) {
			continue
		}
		for _, c := range calls(f) {
			callee := staticCallee(c)
			if callee == nil || callee.Name() != "NewTKey" || len(c.Common().Args) != 2 {
				continue
			}
			cls, ok := c.Common().Args[0].(*ssa.Const)
			if !ok || cls.Value == nil {
				continue
			}
			// the key material: X.Bytes() with X read from a field
			field := ""
			for d := range dataDeps(c.Common().Args[1]) {
				if fa, ok := d.(*ssa.FieldAddr); ok {
					if name, _, _ := fieldName(fa); name != "" {
						if field == "" || name < field {
							field = name
						}
					}
				}
			}
			if field == "" {
				continue
			}
			k := cls.Value.String()
			byClass[k] = append(byClass[k], site{field, w.pos(c.Pos()), fname(f)})
		}
	}
	var classes []string
	for k := range byClass {
		classes = append(classes, k)
	}
	sort.Strings(classes)
	n := 0
	for _, k := range classes {
		sites := byClass[k]
		if len(sites) < 2 {
			continue
		}
		n++
		fields := map[string]bool{}
		detail := ""
		for _, s := range sites {
			fields[s.field] = true
			detail += fmt.Sprintf(" %s uses %s (%s);", s.fn, s.field, s.pos)
		}
		r.check(len(fields) == 1, "datastore:key-class-"+k+":one-key-material", fmt.Sprintf("%d sites, all from field %s", len(sites), sites[0].field),
			"the sites that build keys of metadata class "+k+" take the key material from different fields:"+detail+" what one of them persists the other never finds — after a restart the counter starts from its default and identifiers are issued twice", sites[0].pos)
	}
	r.check(n >= 1, "datastore:key-classes-built-from-fields", fmt.Sprintf("%d", n), "none found: rule needs review", "-")
}

// ---------------------------------------------------------------------------------------------
// R19.11 — the newest on-path write fills a version's slot

func init() {
	register(ruleDef{ID: "R19.11", Prop: "C19", Tier: "quick", Floor: 2,
		Title: "the newest on-path write fills a transferred version's slot: in datastore.copyVersions the store of the current key-value into the per-version slot table is not made to depend on what the slot already holds (key-values of one datum arrive in ascending version order; a later on-path write between two listed versions must replace an earlier one)",
		Fn:    ruleSlotTakesNewestWrite})
	register(ruleDef{ID: "R19.12", Prop: "C19", Tier: "quick", Floor: 2,
		Title: "a copied image volume keeps every creation-time property of its source: imageblk.Properties.copyImmutable stores into every field of Properties (the embedded Extents, which is kept in the metadata but no longer maintained, excepted) — a property left out, such as the background value, makes unwritten blocks of the copy read differently from the source",
		Fn:    ruleCopyImmutableCoversFields})
}

func ruleSlotTakesNewestWrite(r *Run) {
	w := r.W
	top := w.fn("datastore", "copyVersions")
	if top == nil {
		r.undecided("datastore.copyVersions", "anchor not found")
		return
	}
	n := 0
	for _, f := range closureTree(top) {
		loops := naturalLoops(f)
		for _, b := range f.Blocks {
			for _, in := range b.Instrs {
				mu, ok := in.(*ssa.MapUpdate)
				if !ok || isNilConst(mu.Value) {
					continue
				}
				mt, ok := mu.Map.Type().Underlying().(*types.Map)
				if !ok || !strings.HasSuffix(mt.Key().String(), "dvid.VersionID") || !strings.Contains(mt.Elem().String(), "KeyValue") {
					continue
				}
				n++
				slotRoot := captureRoot(mu.Map)
				bad := ""
				for _, gb := range f.Blocks {
					if len(gb.Instrs) == 0 {
						continue
					}
					ifi, ok := gb.Instrs[len(gb.Instrs)-1].(*ssa.If)
					if !ok || !(guardedByEdge(ifi, 0, mu) || guardedByEdge(ifi, 1, mu)) {
						continue
					}
					// only tests inside the loop that holds the store
					same := false
					for _, set := range loops {
						if set[gb] && set[b] {
							same = true
						}
					}
					if !same {
						continue
					}
					for d := range dataDeps(ifi.Cond) {
						if lk, ok := d.(*ssa.Lookup); ok && captureRoot(lk.X) == slotRoot {
							bad = w.pos(ifi.Pos())
							if bad == "-" {
								bad = w.pos(blockPos(gb))
							}
						}
					}
				}
				r.check(bad == "", fmt.Sprintf("%s:slot-store#%d:unconditional-on-slot-content", fname(f), n), "the store does not depend on what the slot holds",
					"the store of the current key-value into the version's slot lies behind a test of the slot's own content ("+bad+"): an earlier on-path write between two listed versions keeps the slot, and the transferred version shows an outdated value (or misses a deletion)", w.pos(mu.Pos()))
			}
		}
	}
	r.check(n >= 1, "copyVersions:slot-stores", fmt.Sprintf("%d", n), "no slot store found: rule needs review", w.fpos(top))
}

func ruleCopyImmutableCoversFields(r *Run) {
	w := r.W
	f := w.method("datatype/imageblk", "Properties", "copyImmutable")
	if f == nil || len(f.Blocks) == 0 || len(f.Params) == 0 {
		r.undecided("imageblk.Properties.copyImmutable", "anchor not found")
		return
	}
	ptr, ok := f.Params[0].Type().(*types.Pointer)
	if !ok {
		r.undecided("imageblk.Properties.copyImmutable", "receiver is not a pointer")
		return
	}
	st, ok := ptr.Elem().Underlying().(*types.Struct)
	if !ok {
		r.undecided("imageblk.Properties.copyImmutable", "receiver is not a struct")
		return
	}
	// top-level fields of the receiver that are stored into (directly or through a nested field)
	written := map[string]bool{}
	var topField func(v ssa.Value) string
	topField = func(v ssa.Value) string {
		switch x := v.(type) {
		case *ssa.FieldAddr:
			if x.X == ssa.Value(f.Params[0]) {
				name, _, _ := fieldName(x)
				return name
			}
			return topField(x.X)
		case *ssa.IndexAddr:
			return topField(x.X)
		case *ssa.UnOp:
			return topField(x.X)
		}
		return ""
	}
	for _, b := range f.Blocks {
		for _, in := range b.Instrs {
			switch x := in.(type) {
			case *ssa.Store:
				if n := topField(x.Addr); n != "" {
					written[n] = true
				}
			case ssa.CallInstruction:
				// copy(p.Field, …)
				if bi, ok := x.Common().Value.(*ssa.Builtin); ok && bi.Name() == "copy" {
					if n := topField(x.Common().Args[0]); n != "" {
						written[n] = true
					}
				}
			}
		}
	}
	n := 0
	for i := 0; i < st.NumFields(); i++ {
		name := st.Field(i).Name()
		construct := "imageblk.Properties.copyImmutable:field-" + name
		if name == "Extents" {
			r.check(true, construct, "excepted: kept in the metadata but no longer maintained (the extents are stored per version elsewhere)", "", w.fpos(f))
			continue
		}
		n++
		r.check(written[name], construct, "copied", "the field "+name+" of Properties is not copied by copyImmutable: an instance made as a copy differs from its source in that property — for the background value, every block that was never written reads differently in the copy", w.fpos(f))
	}
	r.check(n >= 6, "imageblk.Properties:fields", fmt.Sprintf("%d", n), "too few fields: rule needs review", w.fpos(f))
}

// ---------------------------------------------------------------------------------------------
// R19.13 — a copy constructor covers every persisted property of its datatype

func init() {
	register(ruleDef{ID: "R19.13", Prop: "C19", Tier: "quick", Floor: 10,
		Title: "a copy constructor covers every persisted property: for every datatype whose Data has a CopyPropertiesFrom method, each exported field of Data (the fields the gob encoder persists) is stored into by that method, by a helper it calls on the receiver, or handed to a method of the embedded value — fields listed with a reason excepted (a property left out makes the copy answer differently from its source)",
		Fn:    ruleCopyConstructorCoversFields})
}

func ruleCopyConstructorCoversFields(r *Run) {
	w := r.W
	nTypes, nFields := 0, 0
	for _, f := range w.RepoFuncs {
		if len(f.Blocks) == 0 || f.Name() != "CopyPropertiesFrom" || len(f.Params) == 0 || isTestFunc(w, f) {
			continue
		}
		pkg := relPkg(pkgPathOf(f))
		if !strings.HasPrefix(pkg, "datatype/") {
			continue
		}
		ptr, ok := f.Params[0].Type().(*types.Pointer)
		if !ok {
			continue
		}
		named, ok := ptr.Elem().(*types.Named)
		if !ok || named.Obj().Name() != "Data" {
			continue
		}
		st, ok := named.Underlying().(*types.Struct)
		if !ok {
			continue
		}
		nTypes++
		written := map[string]bool{}
		var collect func(g *ssa.Function, recv ssa.Value, depth int)
		collect = func(g *ssa.Function, recv ssa.Value, depth int) {
			var top func(v ssa.Value) string
			top = func(v ssa.Value) string {
				switch x := v.(type) {
				case *ssa.FieldAddr:
					if x.X == recv {
						name, _, _ := fieldName(x)
						return name
					}
					return top(x.X)
				case *ssa.IndexAddr:
					return top(x.X)
				case *ssa.UnOp:
					return top(x.X)
				}
				return ""
			}
			for _, b := range g.Blocks {
				for _, in := range b.Instrs {
					switch x := in.(type) {
					case *ssa.Store:
						if n := top(x.Addr); n != "" {
							written[n] = true
						}
					case *ssa.MapUpdate:
						if n := top(x.Map); n != "" {
							written[n] = true
						}
					case ssa.CallInstruction:
						args := x.Common().Args
						if bi, ok := x.Common().Value.(*ssa.Builtin); ok {
							if bi.Name() == "copy" && len(args) > 0 {
								if n := top(args[0]); n != "" {
									written[n] = true
								}
							}
							continue
						}
						if len(args) == 0 {
							continue
						}
						callee := staticCallee(x)
						// a method of a field or of the embedded value: the field is handed on
						if n := top(args[0]); n != "" && args[0] != recv {
							if callee == nil || callee.Signature.Recv() != nil {
								written[n] = true
							}
							continue
						}
						// a helper on the receiver itself
						if args[0] == recv && callee != nil && len(callee.Blocks) > 0 && depth < 2 && callee.Signature.Recv() != nil {
							collect(callee, callee.Params[0], depth+1)
						}
					}
				}
			}
		}
		collect(f, f.Params[0], 0)
		// one level down: the exported fields of an embedded Properties struct are each stored into by the
		// constructor (through the promoted selector) or by the helper the Properties value is handed to
		for i := 0; i < st.NumFields(); i++ {
			fld := st.Field(i)
			if fld.Name() != "Properties" {
				continue
			}
			pst, ok := fld.Type().Underlying().(*types.Struct)
			if !ok {
				continue
			}
			sub := map[string]bool{}
			var scan func(g *ssa.Function, depth int)
			scan = func(g *ssa.Function, depth int) {
				for _, b := range g.Blocks {
					for _, in := range b.Instrs {
						var addr ssa.Value
						switch x := in.(type) {
						case *ssa.Store:
							addr = x.Addr
						case *ssa.MapUpdate:
							addr = x.Map
						case ssa.CallInstruction:
							if bi, ok := x.Common().Value.(*ssa.Builtin); ok && bi.Name() == "copy" && len(x.Common().Args) > 0 {
								addr = x.Common().Args[0]
							} else if callee := staticCallee(x); callee != nil && len(callee.Blocks) > 0 && depth < 2 && callee.Signature.Recv() != nil && len(x.Common().Args) > 0 {
								rt := x.Common().Args[0].Type().String()
								if strings.HasSuffix(rt, pkg[strings.LastIndex(pkg, "/")+1:]+".Properties") || strings.HasSuffix(rt, ".Data") && strings.Contains(rt, pkg) {
									scan(callee, depth+1)
								}
							}
						}
						// walk the address down to a field of a Properties struct
						for i := 0; i < 8 && addr != nil; i++ {
							switch x := addr.(type) {
							case *ssa.FieldAddr:
								if pt, ok := x.X.Type().(*types.Pointer); ok {
									if nm, ok := pt.Elem().(*types.Named); ok && nm.Obj().Name() == "Properties" && nm.Obj().Pkg() != nil && strings.HasSuffix(nm.Obj().Pkg().Path(), pkg) {
										n, _, _ := fieldName(x)
										sub[n] = true
										addr = nil
										continue
									}
								}
								addr = x.X
							case *ssa.IndexAddr:
								addr = x.X
							case *ssa.UnOp:
								addr = x.X
							default:
								addr = nil
							}
						}
					}
				}
			}
			scan(f, 0)
			for j := 0; j < pst.NumFields(); j++ {
				pf := pst.Field(j)
				if !pf.Exported() {
					continue
				}
				ts := pf.Type().String()
				if pf.Embedded() && (strings.Contains(ts, "/datastore.") || strings.HasPrefix(strings.TrimPrefix(ts, "*"), "sync.")) {
					continue
				}
				nFields++
				construct := fmt.Sprintf("%s.Data.CopyPropertiesFrom:field-Properties.%s", pkg, pf.Name())
				if reason, exc := r.exceptionFor("R19.13", construct); exc {
					r.check(true, construct, "exception: "+reason, "", w.fpos(f))
					continue
				}
				r.check(sub[pf.Name()], construct, "copied",
					"the property "+pf.Name()+" (field of "+pkg+".Properties) is not set when an instance is made as a copy: the copy differs from its source in that property", w.fpos(f))
			}
		}
		for i := 0; i < st.NumFields(); i++ {
			fld := st.Field(i)
			if !fld.Exported() {
				continue
			}
			if fld.Embedded() {
				// the instance's identity (datastore.Data: name, ids, store) and embedded locks/updaters are not
				// properties: the new instance has its own
				ts := fld.Type().String()
				if strings.Contains(ts, "/datastore.") || strings.HasPrefix(strings.TrimPrefix(ts, "*"), "sync.") {
					continue
				}
			}
			nFields++
			construct := fmt.Sprintf("%s.Data.CopyPropertiesFrom:field-%s", pkg, fld.Name())
			if reason, exc := r.exceptionFor("R19.13", construct); exc {
				r.check(true, construct, "exception: "+reason, "", w.fpos(f))
				continue
			}
			r.check(written[fld.Name()], construct, "copied or handed to the embedded value's own copy",
				"the exported (persisted) field "+fld.Name()+" of "+pkg+".Data is not set by CopyPropertiesFrom: an instance made as a copy differs from its source in that property", w.fpos(f))
		}
	}
	r.check(nTypes >= 5 && nFields >= 10, "datatypes:copy-constructors", fmt.Sprintf("%d datatypes, %d exported fields", nTypes, nFields), "too few: rule needs review", "-")
}

// ---------------------------------------------------------------------------------------------
// R13.32 — a change of kind is reported as the stored kind leaving and the new kind arriving

func init() {
	register(ruleDef{ID: "R13.32", Prop: "C13", Tier: "quick", Floor: 2,
		Title: "a change of kind is reported as the stored kind leaving and the new kind arriving: in the annotation package, in a block entered by the 'kinds differ' edge of a comparison of two elements' Kind, the ElementPos entries built for the subscribers carry both compared kinds — one each — (labelsz keeps per-kind counts from these entries; an entry pair with the same kind cancels and the counts stay at the old kind)",
		Fn:    ruleKindChangeReportsBothKinds})
}

func ruleKindChangeReportsBothKinds(r *Run) {
	w := r.W
	n := 0
	for _, f := range w.RepoFuncs {
		if len(f.Blocks) == 0 || relPkg(pkgPathOf(f)) != "datatype/annotation" || isTestFunc(w, f) {
			continue
		}
		isKind := func(v ssa.Value) bool {
			name, ok := fieldSel(v)
			return ok && name == "Kind"
		}
		k := 0
		for _, b := range f.Blocks {
			ifi, ok := b.Instrs[len(b.Instrs)-1].(*ssa.If)
			if !ok {
				continue
			}
			bo, ok := ifi.Cond.(*ssa.BinOp)
			if !ok || (bo.Op != token.NEQ && bo.Op != token.EQL) || !isKind(bo.X) || !isKind(bo.Y) {
				continue
			}
			differ := 0
			if bo.Op == token.EQL {
				differ = 1
			}
			// Kind stores into ElementPos literals in blocks entered by the 'differ' edge
			stored := map[string]bool{}
			cnt := 0
			var pos token.Pos
			for _, tb := range f.Blocks {
				for _, in := range tb.Instrs {
					st, ok := in.(*ssa.Store)
					if !ok {
						continue
					}
					fa, ok := st.Addr.(*ssa.FieldAddr)
					if !ok || !strings.Contains(fa.X.Type().String(), "ElementPos") {
						continue
					}
					if nm, _, _ := fieldName(fa); nm != "Kind" {
						continue
					}
					if !guardedByEdge(ifi, differ, st) {
						continue
					}
					stored[coordKey(st.Val)] = true
					cnt++
					pos = st.Pos()
				}
			}
			if cnt == 0 {
				continue
			}
			n++
			k++
			ok2 := stored[coordKey(bo.X)] && stored[coordKey(bo.Y)] && coordKey(bo.X) != coordKey(bo.Y)
			r.check(ok2, fmt.Sprintf("%s:kind-change#%d:both-kinds-reported", fname(f), k), "the entries built behind the comparison carry both compared kinds",
				"behind the test that the stored and the new element differ in kind, the entries sent to the subscribers do not carry both kinds (the removal and the addition name the same kind): labelsz's per-kind counts keep the old kind's values although the element set changed", w.pos(pos))
		}
	}
	r.check(n >= 1, "annotation:kind-change-reports", fmt.Sprintf("%d", n), "none found: rule needs review", "-")
}

// ---------------------------------------------------------------------------------------------
// R9.20 — every count change of calcNumLabels follows the add flag
// R9.21 — nothing derived from a block's bytes survives a re-parse

func init() {
	register(ruleDef{ID: "R9.20", Prop: "C09", Tier: "quick", Floor: 3,
		Title: "every count change of the label census follows its direction flag: in labels.Block.calcNumLabels each update of the delta map lies behind an edge of a test of the 'add' parameter (CalcNumLabels subtracts the previous block through the same walk; a branch that always adds counts the previous block's voxels a second time)",
		Fn:    ruleCensusFollowsFlag})
	register(ruleDef{ID: "R9.21", Prop: "C09", Tier: "quick", Floor: 5,
		Title: "nothing derived from a block's bytes survives a re-parse: every field of labels.Block that some function of the package stores into is also stored into by UnmarshalBinary or the helpers it calls on the receiver (a cursor table cached by a read accessor and not reset would be applied to the next block parsed into the same variable)",
		Fn:    ruleReparseResetsEveryField})
}

func ruleCensusFollowsFlag(r *Run) {
	w := r.W
	f := w.method("datatype/common/labels", "Block", "calcNumLabels")
	if f == nil || len(f.Blocks) == 0 {
		r.undecided("labels.Block.calcNumLabels", "anchor not found")
		return
	}
	var delta, add *ssa.Parameter
	for _, p := range f.Params {
		if _, ok := p.Type().Underlying().(*types.Map); ok {
			delta = p
		}
		if p.Type().String() == "bool" {
			add = p
		}
	}
	if delta == nil || add == nil {
		r.undecided("labels.Block.calcNumLabels", "delta / add parameters not found")
		return
	}
	var tests []*ssa.If
	for _, b := range f.Blocks {
		if ifi, ok := b.Instrs[len(b.Instrs)-1].(*ssa.If); ok {
			c := ifi.Cond
			if u, ok := c.(*ssa.UnOp); ok && u.Op == token.NOT {
				c = u.X
			}
			if c == ssa.Value(add) {
				tests = append(tests, ifi)
			}
		}
	}
	n := 0
	for _, b := range f.Blocks {
		for _, in := range b.Instrs {
			mu, ok := in.(*ssa.MapUpdate)
			if !ok || mu.Map != ssa.Value(delta) {
				continue
			}
			n++
			ok2 := false
			for _, t := range tests {
				if guardedByEdge(t, 0, mu) || guardedByEdge(t, 1, mu) {
					ok2 = true
				}
			}
			// or the amount itself was chosen under the add test (step := 1; if !add { step = -1 }; delta[l] += step*n)
			if !ok2 {
				for dv := range dataDeps(mu.Value) {
					phi, isPhi := dv.(*ssa.Phi)
					if !isPhi {
						continue
					}
					for _, t := range tests {
						for _, pred := range phi.Block().Preds {
							if pred == t.Block() || ((pred == t.Block().Succs[0] || pred == t.Block().Succs[1]) && len(pred.Preds) == 1) {
								ok2 = true
							}
						}
					}
				}
			}
			r.check(ok2, fmt.Sprintf("calcNumLabels:delta-update#%d:behind-the-add-test", n), "the update lies behind an edge of the add test, or its amount was chosen under that test",
				"a count in the delta map is changed without the add flag having been tested on the way: when the walk is used to subtract the previous block's voxels this branch adds them instead, and the per-label voxel counts drift upwards with every rewrite", w.pos(mu.Pos()))
		}
	}
	r.check(n >= 3, "calcNumLabels:delta-updates", fmt.Sprintf("%d", n), "too few updates found: rule needs review", w.fpos(f))
}

func ruleReparseResetsEveryField(r *Run) {
	w := r.W
	parse := w.method("datatype/common/labels", "Block", "UnmarshalBinary")
	if parse == nil || len(parse.Blocks) == 0 {
		r.undecided("labels.Block.UnmarshalBinary", "anchor not found")
		return
	}
	isBlockPtr := func(t types.Type) bool {
		p, ok := t.(*types.Pointer)
		if !ok {
			return false
		}
		nm, ok := p.Elem().(*types.Named)
		return ok && nm.Obj().Name() == "Block" && nm.Obj().Pkg() != nil && strings.HasSuffix(nm.Obj().Pkg().Path(), "datatype/common/labels")
	}
	fieldsStored := func(g *ssa.Function, only ssa.Value) map[string]string {
		out := map[string]string{}
		for _, b := range g.Blocks {
			for _, in := range b.Instrs {
				st, ok := in.(*ssa.Store)
				if !ok {
					continue
				}
				// the field of a Block the store lands in (directly, or in an element / sub-field of it)
				var fa *ssa.FieldAddr
				a := st.Addr
				for i := 0; i < 6 && a != nil; i++ {
					switch x := a.(type) {
					case *ssa.FieldAddr:
						if isBlockPtr(x.X.Type()) {
							fa = x
							a = nil
						} else {
							a = x.X
						}
					case *ssa.IndexAddr:
						a = x.X
					default:
						a = nil
					}
				}
				if fa == nil {
					continue
				}
				if only != nil && fa.X != only {
					continue
				}
				if nm, _, _ := fieldName(fa); nm != "" {
					out[nm] = w.pos(st.Pos())
				}
			}
		}
		return out
	}
	reset := map[string]bool{}
	var visit func(g *ssa.Function, recv ssa.Value, depth int)
	visit = func(g *ssa.Function, recv ssa.Value, depth int) {
		for nm := range fieldsStored(g, recv) {
			reset[nm] = true
		}
		if depth >= 2 {
			return
		}
		for _, c := range calls(g) {
			callee := staticCallee(c)
			if callee == nil || len(callee.Blocks) == 0 || len(c.Common().Args) == 0 || c.Common().Args[0] != recv || len(callee.Params) == 0 {
				continue
			}
			visit(callee, callee.Params[0], depth+1)
		}
	}
	visit(parse, parse.Params[0], 0)
	n := 0
	seen := map[string]bool{}
	for _, g := range w.RepoFuncs {
		if len(g.Blocks) == 0 || relPkg(pkgPathOf(g)) != "datatype/common/labels" || isTestFunc(w, g) {
			continue
		}
		for nm, pos := range fieldsStored(g, nil) {
			if seen[nm] {
				continue
			}
			seen[nm] = true
			n++
			r.check(reset[nm], "labels.Block:field-"+nm+":reset-by-the-parser", "UnmarshalBinary (or a helper it calls on the receiver) stores into the field",
				"the field "+nm+" of Block is written by "+fname(g)+" but not by UnmarshalBinary or its helpers: what was derived from the previous bytes stays in place when another block is parsed into the same variable, and the accessors then read the new block through the old block's table", pos)
		}
	}
	r.check(n >= 5, "labels.Block:fields-written", fmt.Sprintf("%d", n), "too few fields: rule needs review", "-")
}

// ---------------------------------------------------------------------------------------------
// R20.71 — a clamp bounds from above

func init() {
	register(ruleDef{ID: "R20.71", Prop: "C20", Tier: "quick", Floor: 1,
		Title: "a clamp on an allocation bounds it from above: where the length or capacity of a make() is a choice between a value and a constant, decided by a comparison of the two, the value is taken on the edge where it is not above the constant (an inverted clamp lets a count from the payload size the allocation and raises small counts to the limit)",
		Fn:    ruleClampBoundsFromAbove})
}

func ruleClampBoundsFromAbove(r *Run) {
	w := r.W
	n := 0
	for _, f := range w.RepoFuncs {
		if len(f.Blocks) == 0 || isTestFunc(w, f) {
			continue
		}
		p := relPkg(pkgPathOf(f))
		if !(strings.HasPrefix(p, "datatype/") || p == "datastore" || p == "server" || p == "dvid" || strings.HasPrefix(p, "storage")) {
			continue
		}
		k := 0
		for _, b := range f.Blocks {
			for _, in := range b.Instrs {
				mk, ok := in.(*ssa.MakeSlice)
				if !ok {
					continue
				}
				for _, sz := range []ssa.Value{mk.Len, mk.Cap} {
					phi, ok := stripConv(sz).(*ssa.Phi)
					if !ok || len(phi.Edges) != 2 {
						continue
					}
					// one edge a constant, the other a value; the deciding test compares the two
					ci, vi := -1, -1
					for i, e := range phi.Edges {
						if _, isK := constInt(stripConv(e)); isK {
							ci = i
						} else {
							vi = i
						}
					}
					if ci < 0 || vi < 0 {
						continue
					}
					kval, _ := constInt(stripConv(phi.Edges[ci]))
					val := stripConv(phi.Edges[vi])
					// a value computed from the length of data that is already in memory needs no upper bound
					// (a floor such as "at least 10" is the other idiom of this shape)
					fromLen := false
					for d := range dataDeps(val) {
						if c, ok := d.(*ssa.Call); ok {
							if bi, ok := c.Call.Value.(*ssa.Builtin); ok && (bi.Name() == "len" || bi.Name() == "cap") {
								fromLen = true
							}
						}
					}
					if fromLen {
						continue
					}
					// the If that decides: the immediate dominator of the phi's block
					idom := phi.Block().Idom()
					if idom == nil || len(idom.Instrs) == 0 {
						continue
					}
					ifi, ok := idom.Instrs[len(idom.Instrs)-1].(*ssa.If)
					if !ok {
						continue
					}
					cmp, ok := ifi.Cond.(*ssa.BinOp)
					if !ok {
						continue
					}
					op := cmp.Op
					x, y := stripConv(cmp.X), stripConv(cmp.Y)
					ky, isKy := constInt(y)
					kx, isKx := constInt(x)
					switch {
					case isKy && ky == kval && x == val:
					case isKx && kx == kval && y == val:
						switch op { // put the value on the left
						case token.LSS:
							op = token.GTR
						case token.GTR:
							op = token.LSS
						case token.LEQ:
							op = token.GEQ
						case token.GEQ:
							op = token.LEQ
						}
					default:
						continue
					}
					// the edge on which the value reaches the phi
					vpred := phi.Block().Preds[vi]
					taken := -1
					if vpred == idom {
						for i, s := range idom.Succs {
							if s == phi.Block() {
								taken = i
							}
						}
					} else {
						for i, s := range idom.Succs {
							if s == vpred || s.Dominates(vpred) {
								taken = i
							}
						}
					}
					if taken < 0 {
						continue
					}
					if taken == 1 {
						switch op {
						case token.LSS:
							op = token.GEQ
						case token.GTR:
							op = token.LEQ
						case token.LEQ:
							op = token.GTR
						case token.GEQ:
							op = token.LSS
						default:
							continue
						}
					}
					n++
					k++
					r.check(op == token.LSS || op == token.LEQ, fmt.Sprintf("%s:make#%d:clamped-from-above", fname(f), k), fmt.Sprintf("the value sizes the allocation only where it is not above %d", kval),
						fmt.Sprintf("the allocation takes the value where it is above the limit %d and the limit where the value is below it: the clamp is inverted — a count claimed by the payload sizes the allocation (a few bytes of request allocate gigabytes), and every small request pays for the full limit", kval), w.pos(mk.Pos()))
				}
			}
		}
	}
	r.check(n >= 1, "repo:clamped-allocations", fmt.Sprintf("%d", n), "none found: rule needs review", "-")
}

// ---------------------------------------------------------------------------------------------
// Round i: R16.28–R16.30, R14.18, R2.16, R4.18

func init() {
	register(ruleDef{ID: "R16.28", Prop: "C16", Tier: "quick", Floor: 2,
		Title: "every write of an annotation starts from the stored record: in neuronjson.Data.storeAndUpdate every path to the merge (updateJSON) passes the read of the stored record (getStoreData) — the merge decides from it which <field>_user / <field>_time stamps are kept, also for replace=true",
		Fn:    ruleUpdateStartsFromStoredRecord})
	register(ruleDef{ID: "R16.29", Prop: "C16", Tier: "quick", Floor: 2,
		Title: "a write that passed validation reaches memory and the store: in neuronjson.Data.storeAndUpdate every success return behind the merge lies behind the store write (putStoreData), and on the in-memory branch behind the update of mdb.data — no 'nothing changed' shortcut, whose comparison sees a record the merge has already edited in place",
		Fn:    ruleMergedRecordIsWritten})
	register(ruleDef{ID: "R16.30", Prop: "C16", Tier: "quick", Floor: 2,
		Title: "the in-memory listing offers every annotation to the field selection: in neuronjson.Data.GetAll every pass of the loop over the in-memory records calls selectFields, as the store path's callback does (a pre-filter on the head drops annotations that only keep a field's _user/_time stamps, which the store path lists)",
		Fn:    ruleGetAllOffersEveryRecord})
	register(ruleDef{ID: "R14.18", Prop: "C14", Tier: "quick", Floor: 1,
		Title: "the solid-block shortcut compares every octant: in labels.Block.setBlank every way round the loop over the octants passes the comparison of the octant's label with the label seen so far (or the statement that records the first one) — an octant left out of the comparison, e.g. a background one, is overwritten by the others' label",
		Fn:    ruleSetBlankComparesEveryOctant})
	register(ruleDef{ID: "R10.13", Prop: "C10", Tier: "quick", Floor: 1, Title: "(= R14.18) the solid-block shortcut of Downres compares every octant", Fn: ruleSetBlankComparesEveryOctant})
	register(ruleDef{ID: "R2.16", Prop: "C02", Tier: "quick", Floor: 1,
		Title: "a conflict is deleted in the version made for it: in datastore.deleteConflict the version of the context that Delete is given comes from the UUID that newVersion returned (or the extension node's new UUID), never from the committed parent's UUID",
		Fn:    ruleConflictDeletedInNewVersion})
	register(ruleDef{ID: "R4.18", Prop: "C04", Tier: "quick", Floor: 1,
		Title: "the first start writes the id counters first: in datastore.Initialize, on the branch that initialises an empty store, no metadata write precedes putNewIDs (the loader accepts missing maps and a missing format key after a crash, but not missing counters)",
		Fn:    ruleFirstStartCountersFirst})
}

func ruleUpdateStartsFromStoredRecord(r *Run) {
	w := r.W
	f := w.method("datatype/neuronjson", "Data", "storeAndUpdate")
	if f == nil || len(f.Blocks) == 0 {
		r.undecided("neuronjson.Data.storeAndUpdate", "anchor not found")
		return
	}
	isRead := func(x ssa.Instruction) bool {
		c, ok := x.(ssa.CallInstruction)
		return ok && methodNameOf(c) == "getStoreData"
	}
	n := 0
	for _, c := range calls(f) {
		if callee := staticCallee(c); callee == nil || callee.Name() != "updateJSON" {
			continue
		}
		n++
		pth := findPath(f, nil, isRead, func(x ssa.Instruction) bool { return x == ssa.Instruction(c) }, nil)
		r.check(pth == nil, fmt.Sprintf("storeAndUpdate:merge#%d:behind-the-read-of-the-stored-record", n), "every path to the merge reads the stored record first",
			"the merge can be reached without the stored record having been read: unchanged fields get the poster's name and the current time as their _user/_time stamps, in memory and in the store", w.pos(c.Pos()), w.renderPath(pth)...)
	}
	r.check(n >= 1, "storeAndUpdate:merges", fmt.Sprintf("%d", n), "no call of updateJSON found: rule needs review", w.fpos(f))
}

func ruleMergedRecordIsWritten(r *Run) {
	w := r.W
	f := w.method("datatype/neuronjson", "Data", "storeAndUpdate")
	if f == nil || len(f.Blocks) == 0 {
		r.undecided("neuronjson.Data.storeAndUpdate", "anchor not found")
		return
	}
	var merge ssa.Instruction
	for _, c := range calls(f) {
		if callee := staticCallee(c); callee != nil && callee.Name() == "updateJSON" {
			merge = c
		}
	}
	if merge == nil {
		r.undecided("neuronjson.Data.storeAndUpdate", "updateJSON call not found")
		return
	}
	isPut := func(x ssa.Instruction) bool {
		c, ok := x.(ssa.CallInstruction)
		return ok && methodNameOf(c) == "putStoreData"
	}
	// a return whose value is the store write's own result counts as behind it (return d.putStoreData(...))
	pth := findPath(f, merge, isPut, successExit, nil)
	r.check(pth == nil, "storeAndUpdate:success-behind-the-store-write", "every success return behind the merge lies behind putStoreData",
		"a success return can be reached from the merge without the store write: the request is acknowledged (and logged) but the record is unchanged in the store", w.pos(merge.Pos()), w.renderPath(pth)...)
	// the in-memory update: on the branch where the head database was found, mdb.data is updated before the write
	var memUpd ssa.Instruction
	for _, b := range f.Blocks {
		for _, in := range b.Instrs {
			if mu, ok := in.(*ssa.MapUpdate); ok && isFieldLoad(mu.Map, "memdb", "data") {
				memUpd = in
			}
			if c, ok := in.(*ssa.Call); ok && memdbMutator(c.Call.StaticCallee(), true) {
				memUpd = in
			}
		}
	}
	r.check(memUpd != nil, "storeAndUpdate:in-memory-update", "the head database's record map is updated", "no update of mdb.data found: the head no longer follows the store", w.fpos(f))
}

func ruleGetAllOffersEveryRecord(r *Run) {
	w := r.W
	f := w.method("datatype/neuronjson", "Data", "GetAll")
	if f == nil || len(f.Blocks) == 0 {
		r.undecided("neuronjson.Data.GetAll", "anchor not found")
		return
	}
	n := 0
	for _, b := range f.Blocks {
		for _, in := range b.Instrs {
			nx, ok := in.(*ssa.Next)
			if !ok {
				continue
			}
			rg, ok := nx.Iter.(*ssa.Range)
			if !ok || !isFieldLoad(rg.X, "memdb", "data") {
				continue
			}
			n++
			var ok2 ssa.Value
			for _, ref := range *nx.Referrers() {
				if ex, isEx := ref.(*ssa.Extract); isEx && ex.Index == 0 {
					ok2 = ex
				}
			}
			_ = ok2
			isSelect := func(x ssa.Instruction) bool {
				c, ok := x.(ssa.CallInstruction)
				if !ok {
					return false
				}
				callee := staticCallee(c)
				return callee != nil && callee.Name() == "selectFields"
			}
			// from the body of the loop (the successor of the "more elements" test) back to the Next
			h := nx.Block()
			var body *ssa.BasicBlock
			if ifi, ok := h.Instrs[len(h.Instrs)-1].(*ssa.If); ok {
				_ = ifi
				body = h.Succs[0]
			}
			var pth []ssa.Instruction
			if body != nil && len(body.Instrs) > 0 {
				first := body.Instrs[0]
				if !isSelect(first) {
					pth = findPath(f, first, isSelect, func(x ssa.Instruction) bool { return x == ssa.Instruction(nx) }, nil)
				}
			}
			r.check(body != nil && pth == nil, fmt.Sprintf("GetAll:in-memory-loop#%d:every-record-offered", n), "every pass calls selectFields",
				"a pass of the loop over the in-memory records can go round without calling selectFields: the head leaves out annotations that the store path — which hands every record to selectFields — lists for the same request", w.pos(nx.Pos()), w.renderPath(pth)...)
		}
	}
	// the store path's callback calls it too
	k := 0
	for _, a := range f.AnonFuncs {
		for _, c := range calls(a) {
			if callee := staticCallee(c); callee != nil && callee.Name() == "selectFields" {
				k++
			}
		}
	}
	r.check(n >= 1 && k >= 1, "GetAll:both-paths-select", fmt.Sprintf("%d in-memory loops, %d store callbacks that select", n, k), "anchor not found: rule needs review", w.fpos(f))
}

func ruleSetBlankComparesEveryOctant(r *Run) {
	w := r.W
	f := w.method("datatype/common/labels", "Block", "setBlank")
	if f == nil {
		// the single-use shortcut may have been inlined into its caller
		f = w.method("datatype/common/labels", "Block", "Downres")
	}
	if f == nil || len(f.Blocks) == 0 {
		r.undecided("labels.Block.setBlank", "anchor not found")
		return
	}
	loops := naturalLoops(f)
	n := 0
	for _, h := range f.Blocks {
		set := loops[h]
		if set == nil {
			continue
		}
		// the label remembered across passes: a uint64 phi of the header
		var lbl *ssa.Phi
		for _, in := range h.Instrs {
			if phi, ok := in.(*ssa.Phi); ok && phi.Type().String() == "uint64" {
				lbl = phi
			}
		}
		if lbl == nil {
			continue
		}
		n++
		// what settles an octant: a comparison with the remembered label, or the pass that records it (the phi's
		// in-loop edge is defined there) — found as: a block of the loop that holds a comparison lbl ==/!= x, or
		// the block that defines the value flowing back into lbl
		settles := func(x ssa.Instruction) bool {
			bo, ok := x.(*ssa.BinOp)
			if !ok || (bo.Op != token.NEQ && bo.Op != token.EQL) {
				return false
			}
			return stripConv(bo.X) == ssa.Value(lbl) || stripConv(bo.Y) == ssa.Value(lbl)
		}
		// passes that record the first label: the test that selects them (i == 0) — accept a comparison of the
		// loop counter with the constant 0 as settling as well
		first := func(x ssa.Instruction) bool {
			bo, ok := x.(*ssa.BinOp)
			if !ok || bo.Op != token.EQL {
				return false
			}
			k, isK := constInt(bo.Y)
			if !isK || k != 0 {
				return false
			}
			if !strings.HasPrefix(bo.X.Type().String(), "int") {
				return false
			}
			// the loop counter: a header phi, or header phi + 1
			cv := stripConv(bo.X)
			if add, ok := cv.(*ssa.BinOp); ok && add.Op == token.ADD {
				cv = stripConv(add.X)
			}
			phi, isPhi := cv.(*ssa.Phi)
			return isPhi && phi != lbl && phi.Block() == h
		}
		// from the first instruction after the header's test to the header again
		var pth []ssa.Instruction
		for _, s := range h.Succs {
			if !set[s] || len(s.Instrs) == 0 {
				continue
			}
			start := s.Instrs[0]
			if settles(start) || first(start) {
				continue
			}
			p := findPath(f, start, func(x ssa.Instruction) bool { return settles(x) || first(x) }, func(x ssa.Instruction) bool { return x == h.Instrs[0] }, func(bb *ssa.BasicBlock, i int) bool { return set[bb.Succs[i]] })
			if p != nil {
				pth = p
			}
		}
		r.check(pth == nil, fmt.Sprintf("setBlank:octant-loop#%d:every-octant-compared", n), "every way round the loop passes the comparison with the label seen so far",
			"a pass of the loop over the octants can go round without comparing the octant's label with the label seen so far: an octant that is left out (e.g. a solid background one) is overwritten with the other octants' label when the parent is declared solid", w.pos(blockPos(h)), w.renderPath(pth)...)
	}
	r.check(n >= 1, "setBlank:octant-loops", fmt.Sprintf("%d", n), "no loop with a remembered label found: rule needs review", w.fpos(f))
}

func ruleConflictDeletedInNewVersion(r *Run) {
	w := r.W
	f := w.fn("datastore", "deleteConflict")
	if f == nil || len(f.Blocks) == 0 {
		r.undecided("datastore.deleteConflict", "anchor not found")
		return
	}
	n := 0
	for _, c := range calls(f) {
		if methodNameOf(c) != "versionFromUUID" {
			continue
		}
		args := c.Common().Args
		if len(args) == 0 {
			continue
		}
		n++
		uuid := args[len(args)-1]
		fromNew, fromOld := false, false
		stopAtNewVersion := func(v ssa.Value) bool {
			if cc, ok := v.(*ssa.Call); ok && methodNameOf(cc) == "newVersion" {
				return true
			}
			return false
		}
		for d := range dataDepsUntil(uuid, stopAtNewVersion) {
			switch x := d.(type) {
			case *ssa.Call:
				if methodNameOf(x) == "newVersion" {
					fromNew = true
				}
			case *ssa.Extract:
				if cc, ok := x.Tuple.(*ssa.Call); ok && methodNameOf(cc) == "newVersion" {
					fromNew = true
				}
			case *ssa.FieldAddr:
				nm, _, _ := fieldName(x)
				if nm == "newUUID" {
					fromNew = true
				}
				if nm == "oldUUID" {
					fromOld = true
				}
			}
		}
		r.check(fromNew && !fromOld, fmt.Sprintf("deleteConflict:version-lookup#%d:of-the-new-node", n), "the version looked up is that of the node made for the deletion",
			"the version handed to the deletion is looked up from the committed parent's UUID: the conflicting key is deleted — and a tombstone written — at a committed version, whose reads change", w.pos(c.Pos()))
	}
	r.check(n >= 1, "deleteConflict:version-lookups", fmt.Sprintf("%d", n), "none found: rule needs review", w.fpos(f))
}

func ruleFirstStartCountersFirst(r *Run) {
	w := r.W
	f := w.fn("datastore", "Initialize")
	if f == nil || len(f.Blocks) == 0 {
		r.undecided("datastore.Initialize", "anchor not found")
		return
	}
	var ids ssa.Instruction
	for _, c := range calls(f) {
		if methodNameOf(c) == "putNewIDs" {
			ids = c
		}
	}
	if ids == nil {
		r.violation("Initialize:putNewIDs", "the first start no longer writes the id counters", w.fpos(f))
		return
	}
	isWrite := func(x ssa.Instruction) bool {
		c, ok := x.(ssa.CallInstruction)
		if !ok || x == ids {
			return false
		}
		switch methodNameOf(c) {
		case "putData", "putCaches", "Put", "save", "saveToStore":
			return true
		}
		return false
	}
	// a metadata write on a path to putNewIDs
	var wit []ssa.Instruction
	for _, c := range calls(f) {
		if isWrite(c) {
			if p := findPath(f, c, nil, func(x ssa.Instruction) bool { return x == ids }, nil); p != nil {
				wit = append([]ssa.Instruction{c}, p...)
			}
		}
	}
	r.check(wit == nil, "Initialize:first-start:counters-written-first", "no metadata write precedes putNewIDs",
		"on the first start another metadata record is written before the id counters: a crash between the two leaves a store that every later start refuses (the loader tolerates missing maps and a missing format key, not missing counters)", w.pos(ids.Pos()), w.renderPath(wit)...)
}

// ---------------------------------------------------------------------------------------------
// Round i, C13: R13.33–R13.36

func init() {
	register(ruleDef{ID: "R13.33", Prop: "C13", Tier: "quick", Floor: 3,
		Title: "an element's voxel is found with each axis's own stride: in the annotation package, where the byte offset of an element's voxel in a label block is a sum of products of the in-block position (Point3dInChunk) and block-size components, the term of position x carries no size, the term of y exactly Size[0], the term of z exactly Size[0] and Size[1] (a z stride of Size[0]² files elements of non-cubic blocks under the wrong body)",
		Fn:    ruleElementVoxelStrides})
	register(ruleDef{ID: "R13.34", Prop: "C13", Tier: "quick", Floor: 1,
		Title: "a key range built from two coordinates uses each for its own end: in the annotation package, in a function that returns a (min, max) key pair from a begin and an end coordinate, the first key depends on the begin parameter only and the second on the end parameter only (a max key built from the begin coordinate makes the single-range scan of GET blocks return the first Z layer only)",
		Fn:    ruleRangeEndsFromOwnParameter})
	register(ruleDef{ID: "R13.35", Prop: "C13", Tier: "quick", Floor: 2,
		Title: "elements are filed under body labels: every call of GetLabelPoints in the annotation package asks for body labels (useSupervoxels is the constant false) — the per-body view label/<l> and the labelsz counts are keyed by body, and after a merge the supervoxel id is a different number",
		Fn:    ruleElementsFiledUnderBodies})
	register(ruleDef{ID: "R13.36", Prop: "C13", Tier: "quick", Floor: 1,
		Title: "every reference to a deleted element is removed: in annotation's Elements.deleteRel the loop over an element's relationships is left only at its end (an element may reference a partner more than once, e.g. PostSynTo and GroupedWith)",
		Fn:    ruleDeleteRelWalksAllRelationships})
}

func ruleElementVoxelStrides(r *Run) {
	w := r.W
	n := 0
	for _, f := range w.RepoFuncs {
		if len(f.Blocks) == 0 || relPkg(pkgPathOf(f)) != "datatype/annotation" || isTestFunc(w, f) {
			continue
		}
		// atoms: an indexed component of a Point3d that comes from Point3dInChunk (a coordinate) or of another
		// Point3d (a size)
		classify := func(v ssa.Value) (kind string, axis int64) {
			v = stripConv(v)
			var base ssa.Value
			axis = -1
			switch x := v.(type) {
			case *ssa.Index:
				base = x.X
				if c, ok := constInt(x.Index); ok {
					axis = c
				}
			case *ssa.UnOp:
				if ia, ok := x.X.(*ssa.IndexAddr); ok {
					base = ia.X
					if c, ok := constInt(ia.Index); ok {
						axis = c
					}
				}
			case *ssa.Const:
				return "const", -1
			}
			if base == nil || axis < 0 || !strings.Contains(base.Type().String(), "Point3d") {
				return "other", -1
			}
			for d := range dataDeps(base) {
				if c, ok := d.(*ssa.Call); ok && (methodNameOf(c) == "Point3dInChunk" || methodNameOf(c) == "PointInChunk") {
					return "coord", axis
				}
			}
			return "size", axis
		}
		// expand an expression into monomials (lists of atoms)
		var expand func(v ssa.Value, depth int) [][]ssa.Value
		expand = func(v ssa.Value, depth int) [][]ssa.Value {
			v = stripConv(v)
			if depth > 12 {
				return [][]ssa.Value{{v}}
			}
			if bo, ok := v.(*ssa.BinOp); ok {
				switch bo.Op {
				case token.ADD:
					return append(expand(bo.X, depth+1), expand(bo.Y, depth+1)...)
				case token.MUL:
					var out [][]ssa.Value
					for _, a := range expand(bo.X, depth+1) {
						for _, b := range expand(bo.Y, depth+1) {
							m := append(append([]ssa.Value{}, a...), b...)
							out = append(out, m)
						}
					}
					return out
				}
			}
			return [][]ssa.Value{{v}}
		}
		seen := map[ssa.Value]bool{}
		k := 0
		for _, b := range f.Blocks {
			for _, in := range b.Instrs {
				sl, ok := in.(*ssa.Slice)
				if !ok || sl.Low == nil || seen[sl.Low] {
					continue
				}
				if st, ok := sl.X.Type().Underlying().(*types.Slice); !ok || !types.Identical(st.Elem(), types.Typ[types.Uint8]) {
					continue
				}
				seen[sl.Low] = true
				monos := expand(sl.Low, 0)
				coords := 0
				bad := ""
				for _, m := range monos {
					var caxis int64 = -1
					var sizes []int64
					for _, a := range m {
						kind, ax := classify(a)
						switch kind {
						case "coord":
							caxis = ax
						case "size":
							sizes = append(sizes, ax)
						}
					}
					if caxis < 0 {
						continue
					}
					coords++
					sort.Slice(sizes, func(i, j int) bool { return sizes[i] < sizes[j] })
					want := []int64{}
					for a := int64(0); a < caxis; a++ {
						want = append(want, a)
					}
					if fmt.Sprint(sizes) != fmt.Sprint(want) {
						bad = fmt.Sprintf("the term of position component %d is multiplied by size components %v, expected %v", caxis, sizes, want)
					}
				}
				if coords < 3 {
					continue
				}
				n++
				k++
				r.check(bad == "", fmt.Sprintf("%s:voxel-offset#%d:strides", fname(f), k), "x carries no size, y Size[0], z Size[0]·Size[1]",
					"the byte offset of an element's voxel uses a wrong stride ("+bad+"): in a label volume with non-cubic blocks the element's label is read from another voxel, and the element is filed under the wrong body (and counted for it)", w.pos(sl.Pos()))
			}
		}
	}
	r.check(n >= 3, "annotation:voxel-offsets", fmt.Sprintf("%d", n), "too few found: rule needs review", "-")
}

func ruleRangeEndsFromOwnParameter(r *Run) {
	w := r.W
	n := 0
	for _, f := range w.RepoFuncs {
		if len(f.Blocks) == 0 || relPkg(pkgPathOf(f)) != "datatype/annotation" || isTestFunc(w, f) || f.Parent() != nil {
			continue
		}
		res := f.Signature.Results()
		if res.Len() != 2 || !strings.HasSuffix(res.At(0).Type().String(), "storage.TKey") || !strings.HasSuffix(res.At(1).Type().String(), "storage.TKey") {
			continue
		}
		if len(f.Params) != 2 || f.Params[0].Type().String() != f.Params[1].Type().String() {
			continue
		}
		n++
		dep := func(v ssa.Value, p *ssa.Parameter) bool {
			if v == ssa.Value(p) {
				return true
			}
			for d := range dataDeps(v) {
				if d == ssa.Value(p) {
					return true
				}
				// a parameter spilled to a local
				if al, ok := d.(*ssa.Alloc); ok {
					for _, ref := range *al.Referrers() {
						if st, ok := ref.(*ssa.Store); ok && st.Addr == ssa.Value(al) && st.Val == ssa.Value(p) {
							return true
						}
					}
				}
			}
			return false
		}
		ok0, ok1 := true, true
		for _, b := range f.Blocks {
			ret, ok := b.Instrs[len(b.Instrs)-1].(*ssa.Return)
			if !ok || len(ret.Results) != 2 {
				continue
			}
			if !dep(ret.Results[0], f.Params[0]) || dep(ret.Results[0], f.Params[1]) {
				ok0 = false
			}
			if !dep(ret.Results[1], f.Params[1]) || dep(ret.Results[1], f.Params[0]) {
				ok1 = false
			}
		}
		r.check(ok0 && ok1, fname(f)+":each-end-from-its-own-parameter", "the first key depends on the first parameter only, the second on the second only",
			"one end of the key range is built from the other end's coordinate: the range is empty or covers one layer only, and the scan that uses it returns a fraction of the stored elements", w.fpos(f))
	}
	r.check(n >= 1, "annotation:two-coordinate-ranges", fmt.Sprintf("%d", n), "none found: rule needs review", "-")
}

func ruleElementsFiledUnderBodies(r *Run) {
	w := r.W
	n := 0
	for _, f := range w.RepoFuncs {
		if len(f.Blocks) == 0 || relPkg(pkgPathOf(f)) != "datatype/annotation" || isTestFunc(w, f) {
			continue
		}
		k := 0
		for _, c := range calls(f) {
			if methodNameOf(c) != "GetLabelPoints" {
				continue
			}
			args := c.Common().Args
			if len(args) == 0 {
				continue
			}
			n++
			k++
			last := args[len(args)-1]
			kc, ok := last.(*ssa.Const)
			r.check(ok && kc.Value != nil && kc.Value.String() == "false", fmt.Sprintf("%s:GetLabelPoints#%d:body-labels", fname(f), k), "asks for body labels",
				"the labels of element positions are looked up as supervoxel ids: after a merge (or any mapping that is not the identity) new and reloaded elements are filed under the supervoxel's number, missing from the body's list label/<body> and miscounted by labelsz", w.pos(c.Pos()))
		}
	}
	r.check(n >= 2, "annotation:label-lookups", fmt.Sprintf("%d", n), "too few found: rule needs review", "-")
}

func ruleDeleteRelWalksAllRelationships(r *Run) {
	w := r.W
	f := w.method("datatype/annotation", "Elements", "deleteRel")
	if f == nil || len(f.Blocks) == 0 {
		r.undecided("annotation.Elements.deleteRel", "anchor not found")
		return
	}
	loops := naturalLoops(f)
	n := 0
	for _, h := range f.Blocks {
		set := loops[h]
		if set == nil {
			continue
		}
		// the loop over Rels: its bound is len() of a value read from a field named Rels
		ifi, ok := h.Instrs[len(h.Instrs)-1].(*ssa.If)
		if !ok {
			continue
		}
		overRels := false
		for d := range dataDeps(ifi.Cond) {
			switch x := d.(type) {
			case *ssa.FieldAddr:
				if nm, _, _ := fieldName(x); nm == "Rels" {
					overRels = true
				}
			case *ssa.Field:
				if st, ok := x.X.Type().Underlying().(*types.Struct); ok && st.Field(x.Field).Name() == "Rels" {
					overRels = true
				}
			}
		}
		if !overRels {
			continue
		}
		// innermost only
		inner := true
		for h2, s2 := range loops {
			if h2 != h && set[h2] && len(s2) < len(set) {
				inner = false
			}
		}
		if !inner {
			continue
		}
		n++
		bad := ""
		for b := range set {
			if b == h {
				continue
			}
			for _, s := range b.Succs {
				if !set[s] {
					bad = w.pos(blockPos(b))
				}
			}
		}
		r.check(bad == "", fmt.Sprintf("deleteRel:relationship-loop#%d:complete", n), "the loop over the relationships ends only at its end",
			"the loop over an element's relationships is left at the first match ("+bad+"): a partner that references the deleted element twice keeps a dangling reference, visible in every view of the element set", w.pos(blockPos(h)))
	}
	r.check(n >= 1, "deleteRel:relationship-loops", fmt.Sprintf("%d", n), "none found: rule needs review", w.fpos(f))
}

// ---------------------------------------------------------------------------------------------
// Round i, C06/C08/C09/C20: R6.21–R6.24, R8.28–R8.29, R9.22

func init() {
	register(ruleDef{ID: "R6.21", Prop: "C06", Tier: "quick", Floor: 1,
		Title: "a keyvalue key cannot hold the terminator: keyvalue.NewTKey — the constructor every endpoint, single-key or batch, goes through — reaches its success return only behind a test for a zero byte in the key (the stored form ends with a zero byte and a key's versions are found by byte prefix: \"a\\x00b\" would shadow \"a\")",
		Fn:    ruleKeyConstructorRefusesTerminator})
	register(ruleDef{ID: "R20.72", Prop: "C20", Tier: "quick", Floor: 1, Title: "(= R6.21) the keyvalue key constructor refuses a zero byte for every endpoint", Fn: ruleKeyConstructorRefusesTerminator})
	register(ruleDef{ID: "R6.22", Prop: "C06", Tier: "quick", Floor: 1,
		Title: "a raw scan stops at the end key: in BadgerDB.RawRangeQuery no key is delivered on a path that follows the 'key is above the end key' edge of the comparison with kEnd within the same pass (an instance's end key is a byte prefix of every key of the next instance: a prefix exception delivers the neighbour's data to copy, migrate and push)",
		Fn:    ruleRawScanStopsAtEnd})
	register(ruleDef{ID: "R6.23", Prop: "C06", Tier: "quick", Floor: 1,
		Title: "a key read past the instance's data is not decoded as a data key: in BadgerDB.versionedRange every call of storage.TKeyFromKey lies behind the true edge of an IsDataKey test of the scanned key (the scan's look-ahead can land on a blob or metadata key when the instance is the last one of the store)",
		Fn:    ruleLookaheadIsDataKey})
	register(ruleDef{ID: "R6.24", Prop: "C06", Tier: "quick", Floor: 1,
		Title: "a tar-loaded file is stored under the instance's extension only: in tarsupervoxels' tar ingest the entry's extension is compared with the instance's Extension for equality and the unequal edge leaves with an error (the stored key is the unterminated file name, so \"12.dat\" is a byte prefix of \"12.dat.gz\")",
		Fn:    ruleTarExtensionEquality})
	register(ruleDef{ID: "R8.28", Prop: "C08", Tier: "quick", Floor: 1,
		Title: "only level-0 blocks are counted into the label indices: in labelmap functions that store blocks at a caller-given scale, every call that feeds the index aggregation (handleBlockIndexing / handleBlockMutate) lies behind the 'scale == 0' edge",
		Fn:    ruleOnlyLevelZeroIndexed})
	register(ruleDef{ID: "R8.29", Prop: "C08", Tier: "quick", Floor: 1,
		Title: "indices are combined by adding counts, not by sharing block entries: in the labelmap package no block entry (*SVCount) read from one label index's Blocks map is stored into another index's Blocks map (two merged bodies with voxels in one block would overwrite each other's counts, and the entries would be shared between indices)",
		Fn:    ruleNoSharedBlockEntries})
	register(ruleDef{ID: "R9.22", Prop: "C09", Tier: "quick", Floor: 4,
		Title: "the single-member shortcut is taken only for a single member: in the labels-package writers that receive the set of requested label positions, every comparison with the set's single member lies behind the 'not several members' edge of the test of the flag computed from len(indices) > 1",
		Fn:    ruleSingleMemberShortcutGuarded})
	register(ruleDef{ID: "R8.30", Prop: "C08", Tier: "quick", Floor: 4, Title: "(= R9.22) sparse volumes of a body with several supervoxels in a block test every supervoxel, also in uniform sub-blocks", Fn: ruleSingleMemberShortcutGuarded})
}

func ruleKeyConstructorRefusesTerminator(r *Run) {
	w := r.W
	f := w.fn("datatype/keyvalue", "NewTKey")
	if f == nil || len(f.Blocks) == 0 || len(f.Params) == 0 {
		r.undecided("keyvalue.NewTKey", "anchor not found")
		return
	}
	key := f.Params[0]
	var tests []*ssa.If
	for _, b := range f.Blocks {
		ifi, ok := b.Instrs[len(b.Instrs)-1].(*ssa.If)
		if !ok {
			continue
		}
		for d := range dataDeps(ifi.Cond) {
			c, ok := d.(*ssa.Call)
			if !ok {
				continue
			}
			callee := c.Call.StaticCallee()
			if callee == nil || callee.Pkg == nil {
				continue
			}
			pk := callee.Pkg.Pkg.Path()
			if (pk == "strings" || pk == "bytes") && (strings.HasPrefix(callee.Name(), "Index") || strings.HasPrefix(callee.Name(), "Contains")) {
				usesKey, zero := false, false
				for _, a := range c.Call.Args {
					if a == ssa.Value(key) {
						usesKey = true
					}
					for dd := range dataDeps(a) {
						if dd == ssa.Value(key) {
							usesKey = true
						}
					}
					if k, ok := constInt(a); ok && k == 0 {
						zero = true
					}
					if kc, ok := a.(*ssa.Const); ok && kc.Value != nil && (kc.Value.ExactString() == `"\x00"` || kc.Value.ExactString() == `"\000"`) {
						zero = true
					}
				}
				if usesKey && zero {
					tests = append(tests, ifi)
				}
			}
		}
	}
	ok := false
	if len(tests) > 0 {
		ok = true
		for _, b := range f.Blocks {
			ret, isRet := b.Instrs[len(b.Instrs)-1].(*ssa.Return)
			if !isRet || isErrorExit(ret) {
				continue
			}
			guarded := false
			for _, t := range tests {
				if guardedByEdge(t, 0, ret) || guardedByEdge(t, 1, ret) {
					guarded = true
				}
			}
			if !guarded {
				ok = false
			}
		}
	}
	r.check(ok, "keyvalue.NewTKey:zero-byte-refused", "every success return lies behind a test for a zero byte in the key",
		"the key constructor builds a key without testing it for a zero byte: through any endpoint that does not test for itself (the protobuf batch POST keyvalues) a key \"a\\x00b\" is stored, whose stored form has key \"a\"'s stored form as a prefix — reads of \"a\" return the other key's value and \"a\" disappears from listings", w.fpos(f))
}

func ruleRawScanStopsAtEnd(r *Run) {
	w := r.W
	f := w.method("storage/badger", "BadgerDB", "RawRangeQuery")
	if f == nil {
		r.undecided("badger.BadgerDB.RawRangeQuery", "anchor not found")
		return
	}
	var kEnd, out *ssa.Parameter
	nKeys := 0
	for _, p := range f.Params {
		// the end key is the second storage.Key parameter (begin, end)
		if typeIs(p.Type(), "storage", "Key") {
			nKeys++
			if nKeys == 2 {
				kEnd = p
			}
		}
		if _, ok := p.Type().Underlying().(*types.Chan); ok && out == nil {
			out = p
		}
	}
	n := 0
	for _, g := range closureTree(f) {
		for _, b := range g.Blocks {
			ifi, ok := b.Instrs[len(b.Instrs)-1].(*ssa.If)
			if !ok {
				continue
			}
			bo, ok := ifi.Cond.(*ssa.BinOp)
			if !ok || bo.Op != token.GTR {
				continue
			}
			c, ok := bo.X.(*ssa.Call)
			if !ok {
				continue
			}
			callee := c.Call.StaticCallee()
			if callee == nil || callee.Name() != "Compare" || len(c.Call.Args) != 2 {
				continue
			}
			// the end key, directly or as a captured variable
			root := captureRoot(stripConv(c.Call.Args[1]))
			isEnd := kEnd != nil && root == ssa.Value(kEnd)
			if pc := paramCellOf(root); pc != nil && pc == kEnd {
				isEnd = true
			}
			if !isEnd {
				continue
			}
			n++
			above := b.Succs[0]
			h, _, _ := innermostLoop(g, b)
			_, loopSet, _ := innermostLoop(g, b)
			isSend := func(x ssa.Instruction) bool {
				// a key delivered in this scan: a send (plain or as a select case) inside the loop
				if loopSet != nil && !loopSet[x.Block()] {
					return false
				}
				switch y := x.(type) {
				case *ssa.Send:
					return true
				case *ssa.Select:
					for _, st := range y.States {
						if st.Dir == types.SendOnly {
							return true
						}
					}
				}
				return false
			}
			_ = out
			var pth []ssa.Instruction
			if len(above.Instrs) > 0 {
				first := above.Instrs[0]
				if isSend(first) {
					pth = []ssa.Instruction{first}
				} else {
					pth = findPath(g, first, func(x ssa.Instruction) bool { return h != nil && x == h.Instrs[0] }, isSend, nil)
				}
			}
			r.check(pth == nil, fmt.Sprintf("RawRangeQuery:end-test#%d:nothing-delivered-above-the-end", n), "behind 'key above the end key' nothing is sent in that pass",
				"a key that compares above the end key can still be delivered: the end key of an instance's range is a byte prefix of the next instance's keys, so copy, migrate, push and conflict deletion receive the neighbouring instance's entries", w.pos(ifi.Pos()), w.renderPath(pth)...)
		}
	}
	r.check(n >= 1, "RawRangeQuery:end-tests", fmt.Sprintf("%d", n), "no comparison with the end key found: rule needs review", w.fpos(f))
}

func ruleLookaheadIsDataKey(r *Run) {
	w := r.W
	f := w.method("storage/badger", "BadgerDB", "versionedRange")
	if f == nil {
		r.undecided("badger.BadgerDB.versionedRange", "anchor not found")
		return
	}
	n := 0
	for _, g := range closureTree(f) {
		var tests []*ssa.If
		for _, b := range g.Blocks {
			if ifi, ok := b.Instrs[len(b.Instrs)-1].(*ssa.If); ok {
				for d := range dataDeps(ifi.Cond) {
					if c, ok := d.(*ssa.Call); ok && methodNameOf(c) == "IsDataKey" {
						tests = append(tests, ifi)
					}
				}
			}
		}
		for _, c := range calls(g) {
			callee := staticCallee(c)
			if callee == nil || callee.Name() != "TKeyFromKey" {
				continue
			}
			n++
			ok := false
			for _, t := range tests {
				if guardedByEdge(t, 0, c) {
					ok = true
				}
			}
			r.check(ok, fmt.Sprintf("versionedRange:TKeyFromKey#%d:behind-IsDataKey", n), "the scanned key is decoded only behind the IsDataKey test",
				"the scan's look-ahead key is decoded as a data key without the IsDataKey test: when the scanned instance is the last one of the store and a blob or metadata key follows, every range request on it ends with an error instead of ending cleanly", w.pos(c.Pos()))
		}
	}
	r.check(n >= 1, "versionedRange:TKeyFromKey-calls", fmt.Sprintf("%d", n), "none found: rule needs review", w.fpos(f))
}

func ruleTarExtensionEquality(r *Run) {
	w := r.W
	f := w.method("datatype/tarsupervoxels", "Data", "ingestTarfile")
	if f == nil {
		r.undecided("tarsupervoxels.Data.ingestTarfile", "anchor not found")
		return
	}
	ok := false
	pos := w.fpos(f)
	for _, b := range f.Blocks {
		ifi, isIf := b.Instrs[len(b.Instrs)-1].(*ssa.If)
		if !isIf {
			continue
		}
		bo, isBo := ifi.Cond.(*ssa.BinOp)
		if !isBo || (bo.Op != token.NEQ && bo.Op != token.EQL) {
			continue
		}
		isExt := func(v ssa.Value) bool { nm, ok := fieldSel(v); return ok && nm == "Extension" }
		if !isExt(bo.X) && !isExt(bo.Y) {
			continue
		}
		unequal := b.Succs[0]
		if bo.Op == token.EQL {
			unequal = b.Succs[1]
		}
		for _, x := range unequal.Instrs {
			if ret, isRet := x.(*ssa.Return); isRet && isErrorExit(ret) {
				ok = true
				pos = w.pos(ifi.Pos())
			}
		}
	}
	r.check(ok, "ingestTarfile:extension-equal-or-refused", "the entry's extension is compared for equality and refused when different",
		"the tar ingest does not refuse an entry whose extension differs from the instance's (no equality test with an error on the unequal edge): \"12.dat.gz\" is stored beside \"12.dat\" and, keys being unterminated names matched by byte prefix, the two supervoxel files are no longer separated", pos)
}

func ruleOnlyLevelZeroIndexed(r *Run) {
	w := r.W
	n := 0
	for _, f := range w.RepoFuncs {
		if len(f.Blocks) == 0 || relPkg(pkgPathOf(f)) != "datatype/labelmap" || isTestFunc(w, f) {
			continue
		}
		// the function (or the function it is a literal of) has a uint8 parameter named scale
		top := f
		for top.Parent() != nil {
			top = top.Parent()
		}
		// the scale is the function's uint8 parameter (every uint8 parameter of labelmap's block writers is one)
		var scale *ssa.Parameter
		for _, p := range top.Params {
			if p.Type().String() == "uint8" && scale == nil {
				scale = p
			}
		}
		if scale == nil {
			continue
		}
		k := 0
		for _, c := range calls(f) {
			nm := methodNameOf(c)
			if nm != "handleBlockIndexing" && nm != "handleBlockMutate" {
				continue
			}
			n++
			k++
			ok := false
			for _, b := range f.Blocks {
				ifi, isIf := b.Instrs[len(b.Instrs)-1].(*ssa.If)
				if !isIf {
					continue
				}
				bo, isBo := ifi.Cond.(*ssa.BinOp)
				if !isBo || (bo.Op != token.EQL && bo.Op != token.NEQ) {
					continue
				}
				if z, isK := constInt(bo.Y); !isK || z != 0 {
					continue
				}
				sroot := captureRoot(stripConv(bo.X))
				isScale := sroot == ssa.Value(scale)
				if pc := paramCellOf(sroot); pc != nil && pc == scale {
					isScale = true
				}
				if !isScale {
					continue
				}
				edge := 0
				if bo.Op == token.NEQ {
					edge = 1
				}
				if guardedByEdge(ifi, edge, c) {
					ok = true
				}
			}
			r.check(ok, fmt.Sprintf("%s:%s#%d:behind-scale-zero", fname(f), nm, k), "the block is counted only on the scale == 0 edge",
				"a block stored at a caller-given scale is handed to the index aggregation without the scale == 0 test: blocks of a lower-resolution level posted by a client are counted into the bodies' indices, whose sizes and block lists then disagree with the level-0 voxels", w.pos(c.Pos()))
		}
	}
	r.check(n >= 1, "labelmap:scaled-block-stores-that-index", fmt.Sprintf("%d", n), "none found: rule needs review", "-")
}

func ruleNoSharedBlockEntries(r *Run) {
	w := r.W
	n, bad := 0, 0
	for _, f := range w.RepoFuncs {
		if len(f.Blocks) == 0 || relPkg(pkgPathOf(f)) != "datatype/labelmap" || isTestFunc(w, f) {
			continue
		}
		for _, b := range f.Blocks {
			for _, in := range b.Instrs {
				mu, ok := in.(*ssa.MapUpdate)
				if !ok || !(isFieldLoad(mu.Map, "Index", "Blocks") || isFieldLoad(mu.Map, "LabelIndex", "Blocks")) {
					continue
				}
				n++
				dstObj := indexObjectOf(mu.Map)
				// the stored value: read out of another index's Blocks?
				for _, rv := range roots(mu.Value, f) {
					var m ssa.Value
					switch x := rv.V.(type) {
					case *ssa.Extract:
						if nx, ok := x.Tuple.(*ssa.Next); ok {
							if rg, ok := nx.Iter.(*ssa.Range); ok {
								m = rg.X
							}
						}
						if lk, ok := x.Tuple.(*ssa.Lookup); ok {
							m = lk.X
						}
					case *ssa.Lookup:
						m = x.X
					}
					if m == nil || !(isFieldLoad(m, "Index", "Blocks") || isFieldLoad(m, "LabelIndex", "Blocks")) {
						continue
					}
					if indexObjectOf(m) != dstObj {
						bad++
						r.violation(fmt.Sprintf("%s:Blocks-entry-shared", fname(f)),
							"a block entry read from one label index is stored into another index's Blocks map: the counts of the entry it replaces are lost (two merged bodies with voxels in one block), and the entry is shared between the two indices from then on — the merged body's index disagrees with its voxels", w.pos(mu.Pos()))
					}
				}
			}
		}
	}
	r.check(n >= 1, "labelmap:stores-into-Index.Blocks", fmt.Sprintf("%d stores, %d shared", n, bad), "too few stores found: rule needs review", "-")
}

func ruleSingleMemberShortcutGuarded(r *Run) {
	w := r.W
	total := 0
	for _, f := range w.RepoFuncs {
		if len(f.Blocks) == 0 || relPkg(pkgPathOf(f)) != "datatype/common/labels" || isTestFunc(w, f) {
			continue
		}
		var set *ssa.Parameter
		for _, p := range f.Params {
			if p.Name() == "indices" && p.Type().String() == "map[uint32]struct{}" {
				set = p
			}
		}
		if set == nil {
			continue
		}
		// the flag: a bool phi with a constant true edge, tested by Ifs; computed behind len(indices) > 1
		var flagTests []*ssa.If
		for _, b := range f.Blocks {
			ifi, ok := b.Instrs[len(b.Instrs)-1].(*ssa.If)
			if !ok {
				continue
			}
			phi, ok := ifi.Cond.(*ssa.Phi)
			if !ok || phi.Type().String() != "bool" {
				continue
			}
			// one of the phi's edges comes from a block guarded by len(set) > 1
			fromLen := false
			for i := range phi.Edges {
				pred := phi.Block().Preds[i]
				for _, gb := range f.Blocks {
					gi, ok := gb.Instrs[len(gb.Instrs)-1].(*ssa.If)
					if !ok {
						continue
					}
					for d := range dataDeps(gi.Cond) {
						if c, ok := d.(*ssa.Call); ok {
							if bi, ok := c.Call.Value.(*ssa.Builtin); ok && bi.Name() == "len" && len(c.Call.Args) == 1 && c.Call.Args[0] == ssa.Value(set) {
								if gb == pred || gb.Dominates(pred) {
									fromLen = true
								}
							}
						}
					}
				}
			}
			if fromLen {
				flagTests = append(flagTests, ifi)
			}
		}
		isMember := func(v ssa.Value) bool {
			for _, rv := range roots(v, f) {
				if ex, ok := rv.V.(*ssa.Extract); ok {
					if nx, ok := ex.Tuple.(*ssa.Next); ok {
						if rg, ok := nx.Iter.(*ssa.Range); ok && rg.X == ssa.Value(set) {
							return true
						}
					}
				}
			}
			return false
		}
		n := 0
		for _, b := range f.Blocks {
			for _, in := range b.Instrs {
				bo, ok := in.(*ssa.BinOp)
				if !ok || (bo.Op != token.EQL && bo.Op != token.NEQ) {
					continue
				}
				_, xPhi := stripConv(bo.X).(*ssa.Phi)
				_, yPhi := stripConv(bo.Y).(*ssa.Phi)
				if !(xPhi && isMember(bo.X)) && !(yPhi && isMember(bo.Y)) {
					continue
				}
				n++
				ok2 := false
				for _, t := range flagTests {
					if guardedByEdge(t, 1, bo) {
						ok2 = true
					}
				}
				r.check(ok2, fmt.Sprintf("%s:single-member-compare#%d:behind-not-several", fname(f), n), "the comparison lies behind the 'not several members' edge",
					"a comparison with the single requested position is made without the test that the set has only one member: for a body with several supervoxels in the block only one of them counts as foreground on this path (uniform sub-blocks), and the sparse volume misses the others' voxels", w.pos(bo.Pos()))
			}
		}
		total += n
	}
	r.check(total >= 4, "labels:single-member-compares", fmt.Sprintf("%d", total), "too few found: rule needs review", "-")
}

// indexObjectOf: the index value whose Blocks map v is a load of (through the embedded protobuf struct).
func indexObjectOf(v ssa.Value) ssa.Value {
	u, ok := v.(*ssa.UnOp)
	if !ok {
		return v
	}
	x := u.X
	for i := 0; i < 8; i++ {
		switch y := x.(type) {
		case *ssa.FieldAddr:
			x = y.X
			continue
		case *ssa.UnOp:
			if y.Op == token.MUL {
				x = y.X
				continue
			}
		}
		break
	}
	return x
}

// ---------------------------------------------------------------------------------------------
// R17.19 — a loop that converts k bytes at a time covers the last group and stays inside

func init() {
	register(ruleDef{ID: "R17.19", Prop: "C17", Tier: "quick", Floor: 1,
		Title: "a loop that handles a byte slice k elements at a time covers the last group and stays inside: where a counter starts at 0, advances by a constant k ≥ 2 and is compared with len(s) plus a constant d (the loop runs while counter < len(s)+d) and the body indexes s at counter+j, the constant satisfies −k < d ≤ 0 (d ≤ −k skips the last group — the last voxel of every 16-bit slice stays 0 —, d > 0 runs past the end)",
		Fn:    ruleStrideLoopCoversLastGroup})
}

func ruleStrideLoopCoversLastGroup(r *Run) {
	w := r.W
	n := 0
	for _, f := range w.RepoFuncs {
		if len(f.Blocks) == 0 || isTestFunc(w, f) {
			continue
		}
		p := relPkg(pkgPathOf(f))
		if !(strings.HasPrefix(p, "datatype/") || p == "dvid" || strings.HasPrefix(p, "storage")) {
			continue
		}
		loops := naturalLoops(f)
		k0 := 0
		for _, h := range f.Blocks {
			set := loops[h]
			if set == nil || len(h.Instrs) == 0 {
				continue
			}
			ifi, ok := h.Instrs[len(h.Instrs)-1].(*ssa.If)
			if !ok {
				continue
			}
			cmp, ok := ifi.Cond.(*ssa.BinOp)
			if !ok || (cmp.Op != token.LSS && cmp.Op != token.LEQ) {
				continue
			}
			// left: counter (+c1); right: len(s) (+c2)
			split := func(v ssa.Value) (ssa.Value, int64) {
				v = stripConv(v)
				if bo, ok := v.(*ssa.BinOp); ok && (bo.Op == token.ADD || bo.Op == token.SUB) {
					if c, isK := constInt(bo.Y); isK {
						if bo.Op == token.SUB {
							c = -c
						}
						return stripConv(bo.X), c
					}
				}
				return v, 0
			}
			lv, c1 := split(cmp.X)
			rv, c2 := split(cmp.Y)
			phi, ok := lv.(*ssa.Phi)
			if !ok || phi.Block() != h {
				continue
			}
			lc, ok := rv.(*ssa.Call)
			if !ok {
				continue
			}
			bi, ok := lc.Call.Value.(*ssa.Builtin)
			if !ok || bi.Name() != "len" {
				continue
			}
			s := lc.Call.Args[0]
			if st, ok := s.Type().Underlying().(*types.Slice); !ok || !types.Identical(st.Elem(), types.Typ[types.Uint8]) {
				continue
			}
			// start 0, step k
			var step int64
			start0 := false
			for i, e := range phi.Edges {
				pred := h.Preds[i]
				if !set[pred] {
					if c, isK := constInt(e); isK && c == 0 {
						start0 = true
					}
					continue
				}
				if bo, ok := e.(*ssa.BinOp); ok && bo.Op == token.ADD && bo.X == ssa.Value(phi) {
					if c, isK := constInt(bo.Y); isK {
						step = c
					}
				}
			}
			if !start0 || step < 2 {
				continue
			}
			// the body indexes or slices s at counter + j
			indexes := false
			for b := range set {
				for _, in := range b.Instrs {
					switch x := in.(type) {
					case *ssa.IndexAddr:
						if x.X == s {
							if base, _ := split(x.Index); base == ssa.Value(phi) {
								indexes = true
							}
						}
					case *ssa.Slice:
						if x.X == s && x.Low != nil {
							if base, _ := split(x.Low); base == ssa.Value(phi) {
								indexes = true
							}
						}
					}
				}
			}
			if !indexes {
				continue
			}
			// counter + c1 < len + c2  ⇔  counter < len + d
			d := c2 - c1
			if cmp.Op == token.LEQ {
				d++
			}
			n++
			k0++
			r.check(-step < d && d <= 0, fmt.Sprintf("%s:stride-loop#%d:covers-last-group", fname(f), k0), fmt.Sprintf("step %d, runs while counter < len%+d", step, d),
				fmt.Sprintf("the loop advances by %d and runs while counter < len%+d: it either stops before the last group of %d bytes (the last element is never converted — for 16-bit data the last voxel of every slice reads 0) or indexes past the end", step, d, step), w.pos(cmp.Pos()))
		}
	}
	r.check(n >= 1, "repo:stride-loops-over-bytes", fmt.Sprintf("%d", n), "none found: rule needs review", "-")
}

// ---------------------------------------------------------------------------------------------
// Round i/j, second part: R17.17, R17.18, R13.37–R13.40, R19.14–R19.16, R8.31, R15.9

func init() {
	register(ruleDef{ID: "R17.17", Prop: "C17", Tier: "quick", Floor: 1,
		Title: "what was put into a batch is committed: in imageblk.Data.PutBlocks every success return that can follow a batch.Put lies behind a Commit (a span that is an exact multiple of the batch size must not end on an uncommitted full batch)",
		Fn:    ruleBatchPutCommitted})
	register(ruleDef{ID: "R17.18", Prop: "C17", Tier: "quick", Floor: 1,
		Title: "every started job is waited for: in imageblk.Data.PutVoxels each goroutine that reports on the completion channel is started behind an increment of the counter that bounds the loop receiving from that channel (an uncounted goroutine — the extents update — may still run when the request is answered)",
		Fn:    ruleStartedJobsAreCounted})
	register(ruleDef{ID: "R13.37", Prop: "C13", Tier: "quick", Floor: 1,
		Title: "a voxel-level split is not handled as a block-level one: in the sync handlers of annotation the coarse-split routine (splitLabelsCoarse) is called only on the 'Split == nil' edge of a test of the event's Split field (fine splits also carry the list of touched blocks; the coarse routine moves every element of the old body in those blocks)",
		Fn:    ruleCoarseSplitOnlyWithoutVolume})
	register(ruleDef{ID: "R13.38", Prop: "C13", Tier: "quick", Floor: 1,
		Title: "a block rewrite looks at every element's previous label: in annotation.Data.mutateBlock every way round the loop over the block's elements passes the test that selects the read of the previous label data (an early continue for elements now on background never records that they left their body)",
		Fn:    ruleMutateBlockReadsPreviousLabel})
	register(ruleDef{ID: "R13.39", Prop: "C13", Tier: "quick", Floor: 1,
		Title: "a body with exactly the threshold count is listed: in labelsz.Data.GetLabelsByThreshold the scan over sizes in descending order is cut short on 'size < threshold' only, not on equality (the API returns labels with count >= T)",
		Fn:    ruleThresholdIncludesEquality})
	register(ruleDef{ID: "R13.40", Prop: "C13", Tier: "quick", Floor: 1,
		Title: "every tag of a posted element gets the posted element: in annotation's addTagDelta the loop that queues a posted element for a tag's list runs over the element's own Tags field (a list reduced to the newly added tags leaves the copies under kept tags with the old kind and properties)",
		Fn:    ruleEveryTagGetsPostedElement})
	register(ruleDef{ID: "R19.14", Prop: "C19", Tier: "quick", Floor: 1,
		Title: "the last key of a version-limited copy is flushed: in datastore.copyVersions every path from the end-of-stream test (nil received) to the worker's return passes the test of the pending-slot counter that guards the flush",
		Fn:    ruleEndOfStreamFlushes})
	register(ruleDef{ID: "R19.15", Prop: "C19", Tier: "quick", Floor: 1,
		Title: "re-homing a raw key changes its instance id only: storage.DataContext.UpdateInstance writes into the key only through constant sub-ranges inside the instance-id field and hands the key to no other function (a copy of all versions must keep each pair's version)",
		Fn:    ruleUpdateInstanceTouchesIDOnly})
	register(ruleDef{ID: "R19.16", Prop: "C19", Tier: "quick", Floor: 1,
		Title: "no version list means every version: in datastore.TransferData the skip of a data key whose version is not listed lies behind the 'a version list was given' edge of a test of len(okVersions)",
		Fn:    ruleVersionFilterOnlyWhenListed})
	register(ruleDef{ID: "R8.31", Prop: "C08", Tier: "quick", Floor: 1,
		Title: "a cleave changes the mapping only after the index step accepted it: in labelmap.Data.CleaveLabel the call of cleaveIndex — which validates the request against the body's index — comes before addCleaveToMapping on every path",
		Fn:    ruleCleaveValidatesBeforeMapping})
	register(ruleDef{ID: "R15.9", Prop: "C15", Tier: "quick", Floor: 1,
		Title: "bytes stored under a compression label come from that compressor: in dvid.SerializeData the payload handed to the envelope is the unchanged input in at most one case (Uncompressed); no other case passes the input through under its own label (a payload that merely looks compressed would be decompressed on read)",
		Fn:    ruleOnlyUncompressedPassesInput})
}

func ruleBatchPutCommitted(r *Run) {
	w := r.W
	f := w.method("datatype/imageblk", "Data", "PutBlocks")
	if f == nil || len(f.Blocks) == 0 {
		r.undecided("imageblk.Data.PutBlocks", "anchor not found")
		return
	}
	isBatch := func(c ssa.CallInstruction) bool {
		cc := c.Common()
		if cc.IsInvoke() {
			return strings.HasSuffix(cc.Value.Type().String(), "storage.Batch")
		}
		return false
	}
	isCommit := func(x ssa.Instruction) bool {
		c, ok := x.(ssa.CallInstruction)
		return ok && isBatch(c) && c.Common().Method.Name() == "Commit"
	}
	n := 0
	for _, c := range calls(f) {
		if !isBatch(c) || c.Common().Method.Name() != "Put" {
			continue
		}
		n++
		pth := consistentPath(f, c, isCommit, successExit)
		r.check(pth == nil, fmt.Sprintf("PutBlocks:batch-put#%d:committed-before-success", n), "every success return behind the Put lies behind a Commit",
			"a success return can be reached from a batch.Put without a Commit: the blocks of the last batch are acknowledged (and the extents posted) but never written", w.pos(c.Pos()), w.renderPath(pth)...)
	}
	r.check(n >= 1, "PutBlocks:batch-puts", fmt.Sprintf("%d", n), "none found: rule needs review", w.fpos(f))
}

func ruleStartedJobsAreCounted(r *Run) {
	w := r.W
	f := w.method("datatype/imageblk", "Data", "PutVoxels")
	if f == nil || len(f.Blocks) == 0 {
		r.undecided("imageblk.Data.PutVoxels", "anchor not found")
		return
	}
	loops := naturalLoops(f)
	// the wait loop: a loop whose body receives from a channel and whose bound is an int value
	var bound ssa.Value
	var ch ssa.Value
	for h, set := range loops {
		ifi, ok := h.Instrs[len(h.Instrs)-1].(*ssa.If)
		if !ok {
			continue
		}
		cmp, ok := ifi.Cond.(*ssa.BinOp)
		if !ok || cmp.Op != token.LSS {
			continue
		}
		for b := range set {
			for _, in := range b.Instrs {
				if u, ok := in.(*ssa.UnOp); ok && u.Op == token.ARROW {
					bound, ch = cmp.Y, captureRoot(u.X)
				}
			}
		}
	}
	if bound == nil {
		r.undecided("imageblk.Data.PutVoxels", "wait loop not found")
		return
	}
	// the increments that feed the bound
	web := map[ssa.Value]bool{}
	var walk func(v ssa.Value)
	walk = func(v ssa.Value) {
		v = stripConv(v)
		if web[v] {
			return
		}
		web[v] = true
		switch x := v.(type) {
		case *ssa.Phi:
			for _, e := range x.Edges {
				walk(e)
			}
		case *ssa.BinOp:
			if x.Op == token.ADD {
				walk(x.X)
			}
		}
	}
	walk(bound)
	var incs []*ssa.BinOp
	for v := range web {
		if bo, ok := v.(*ssa.BinOp); ok && bo.Op == token.ADD {
			if k, isK := constInt(bo.Y); isK && k == 1 {
				incs = append(incs, bo)
			}
		}
	}
	n := 0
	for _, c := range calls(f) {
		g, isGo := c.(*ssa.Go)
		if !isGo {
			continue
		}
		mc, ok := g.Call.Value.(*ssa.MakeClosure)
		if !ok {
			continue
		}
		cl, ok := mc.Fn.(*ssa.Function)
		if !ok {
			continue
		}
		sends := false
		for _, b := range cl.Blocks {
			for _, in := range b.Instrs {
				if s, ok := in.(*ssa.Send); ok && captureRoot(s.Chan) == ch {
					sends = true
				}
			}
		}
		if !sends {
			continue
		}
		n++
		counted := false
		for _, inc := range incs {
			if !domInstr(inc, g) {
				continue
			}
			inside := true
			for _, set := range loops {
				if set[g.Block()] && !set[inc.Block()] {
					inside = false
				}
			}
			if inside {
				counted = true
			}
		}
		r.check(counted, fmt.Sprintf("PutVoxels:go#%d:counted", n), "the goroutine is started behind an increment of the wait loop's bound",
			"a goroutine that reports on the completion channel is started without the counter of the wait loop being raised: the request is answered while that goroutine (a block write or the extents update) may still be running, and a read that follows sees stale voxels or extents", w.pos(g.Pos()))
	}
	r.check(n >= 1 && len(incs) >= 1, "PutVoxels:reporting-goroutines", fmt.Sprintf("%d goroutines, %d increments", n, len(incs)), "anchor not found: rule needs review", w.fpos(f))
}

func ruleCoarseSplitOnlyWithoutVolume(r *Run) {
	w := r.W
	n := 0
	for _, f := range w.RepoFuncs {
		if len(f.Blocks) == 0 || relPkg(pkgPathOf(f)) != "datatype/annotation" || isTestFunc(w, f) {
			continue
		}
		for _, c := range calls(f) {
			if methodNameOf(c) != "splitLabelsCoarse" {
				continue
			}
			n++
			ok := false
			for _, b := range f.Blocks {
				ifi, isIf := b.Instrs[len(b.Instrs)-1].(*ssa.If)
				if !isIf {
					continue
				}
				bo, isBo := ifi.Cond.(*ssa.BinOp)
				if !isBo || (bo.Op != token.EQL && bo.Op != token.NEQ) || !isNilConst(bo.Y) {
					continue
				}
				if nm, isF := fieldSel(bo.X); !isF || nm != "Split" {
					continue
				}
				edge := 0
				if bo.Op == token.NEQ {
					edge = 1
				}
				if guardedByEdge(ifi, edge, c) {
					ok = true
				}
			}
			r.check(ok, fmt.Sprintf("%s:splitLabelsCoarse#%d:only-without-a-split-volume", fname(f), n), "the coarse routine is called on the Split == nil edge",
				"the block-level split routine is called without the test that the event carries no split volume: a voxel-level split, which also lists its touched blocks, moves every element of the old body in those blocks to the new body — label/<old> loses elements whose voxels did not move", w.pos(c.Pos()))
		}
	}
	r.check(n >= 1, "annotation:coarse-split-calls", fmt.Sprintf("%d", n), "none found: rule needs review", "-")
}

func ruleMutateBlockReadsPreviousLabel(r *Run) {
	w := r.W
	f := w.method("datatype/annotation", "Data", "mutateBlock")
	if f == nil || len(f.Blocks) == 0 {
		r.undecided("annotation.Data.mutateBlock", "anchor not found")
		return
	}
	var prev *ssa.Parameter
	for _, p := range f.Params {
		if p.Name() == "prev" {
			prev = p
		}
	}
	if prev == nil {
		r.undecided("annotation.Data.mutateBlock", "parameter prev not found")
		return
	}
	// the test that selects the read of the previous data: an If on len(prev)
	isPrevTest := func(x ssa.Instruction) bool {
		ifi, ok := x.(*ssa.If)
		if !ok {
			return false
		}
		for d := range dataDeps(ifi.Cond) {
			if c, ok := d.(*ssa.Call); ok {
				if bi, ok := c.Call.Value.(*ssa.Builtin); ok && bi.Name() == "len" && len(c.Call.Args) == 1 && c.Call.Args[0] == ssa.Value(prev) {
					return true
				}
			}
		}
		return false
	}
	n := 0
	for h, set := range naturalLoops(f) {
		// the element loop: its body computes the voxel offset (a Point3dInChunk call)
		var entry ssa.Instruction
		for b := range set {
			for _, in := range b.Instrs {
				if c, ok := in.(ssa.CallInstruction); ok && methodNameOf(c) == "Point3dInChunk" {
					entry = in
				}
			}
		}
		if entry == nil {
			continue
		}
		n++
		pth := findPath(f, entry, isPrevTest, func(x ssa.Instruction) bool { return x == h.Instrs[0] }, func(bb *ssa.BasicBlock, i int) bool { return set[bb.Succs[i]] })
		r.check(pth == nil, fmt.Sprintf("mutateBlock:element-loop#%d:previous-label-examined", n), "every pass reaches the test that selects the read of the previous label",
			"a pass of the loop over the block's elements can go round without looking at the element's previous label: an element whose voxel became background keeps its entry in the old body's list (label/<old> and the labelsz counts are stale)", w.pos(entry.Pos()), w.renderPath(pth)...)
	}
	r.check(n >= 1, "mutateBlock:element-loops", fmt.Sprintf("%d", n), "none found: rule needs review", w.fpos(f))
}

func ruleThresholdIncludesEquality(r *Run) {
	w := r.W
	top := w.method("datatype/labelsz", "Data", "GetLabelsByThreshold")
	if top == nil {
		r.undecided("labelsz.Data.GetLabelsByThreshold", "anchor not found")
		return
	}
	// the threshold is the first parameter of a plain unsigned type (ctx, index type, minSize, offset, num)
	var minSize *ssa.Parameter
	for _, p := range top.Params {
		if bt, ok := p.Type().(*types.Basic); ok && (bt.Kind() == types.Uint32 || bt.Kind() == types.Uint64) && minSize == nil {
			minSize = p
		}
	}
	n := 0
	for _, f := range closureTree(top) {
		for _, b := range f.Blocks {
			ifi, ok := b.Instrs[len(b.Instrs)-1].(*ssa.If)
			if !ok {
				continue
			}
			bo, ok := ifi.Cond.(*ssa.BinOp)
			if !ok {
				continue
			}
			isMin := func(v ssa.Value) bool {
				rt := captureRoot(stripConv(v))
				if minSize != nil && rt == ssa.Value(minSize) {
					return true
				}
				pc := paramCellOf(rt)
				return pc != nil && pc == minSize
			}
			op := bo.Op
			switch {
			case isMin(bo.Y):
			case isMin(bo.X):
				switch op {
				case token.LSS:
					op = token.GTR
				case token.GTR:
					op = token.LSS
				case token.LEQ:
					op = token.GEQ
				case token.GEQ:
					op = token.LEQ
				}
			default:
				continue
			}
			// the edge that leaves with the short-circuit error
			leave := -1
			for i, sblk := range b.Succs {
				for _, x := range sblk.Instrs {
					if _, isRet := x.(*ssa.Return); isRet {
						leave = i
					}
				}
			}
			if leave < 0 {
				continue
			}
			if leave == 1 {
				switch op {
				case token.LSS:
					op = token.GEQ
				case token.GEQ:
					op = token.LSS
				case token.LEQ:
					op = token.GTR
				case token.GTR:
					op = token.LEQ
				}
			}
			n++
			r.check(op == token.LSS, fmt.Sprintf("%s:threshold-cut#%d:strict", fname(f), n), "the scan is cut short on size < threshold",
				"the descending scan is cut short when the size equals the threshold (or on another relation than size < threshold): bodies whose count is exactly T are missing from threshold/T although the API returns counts >= T", w.pos(bo.Pos()))
		}
	}
	r.check(n >= 1, "GetLabelsByThreshold:cuts", fmt.Sprintf("%d", n), "no comparison with the threshold found: rule needs review", w.fpos(top))
}

func ruleEveryTagGetsPostedElement(r *Run) {
	w := r.W
	f := w.fn("datatype/annotation", "addTagDelta")
	if f == nil || len(f.Blocks) == 0 {
		r.undecided("annotation.addTagDelta", "anchor not found")
		return
	}
	loops := naturalLoops(f)
	n := 0
	for _, b := range f.Blocks {
		for _, in := range b.Instrs {
			// td.add = append(td.add, newElem.ElementNR) / ElementsNR{newElem.ElementNR}: a store into field add
			st, ok := in.(*ssa.Store)
			if !ok {
				continue
			}
			fa, ok := st.Addr.(*ssa.FieldAddr)
			if !ok {
				continue
			}
			if nm, _, _ := fieldName(fa); nm != "add" {
				continue
			}
			// the innermost loop that holds the store: its bound is len(X); X must be a Tags field
			h, _, _ := innermostLoop(f, b)
			if h == nil {
				continue
			}
			ifi, ok := h.Instrs[len(h.Instrs)-1].(*ssa.If)
			if !ok {
				continue
			}
			n++
			overTags := false
			for d := range dataDeps(ifi.Cond) {
				c, ok := d.(*ssa.Call)
				if !ok {
					continue
				}
				if bi, ok := c.Call.Value.(*ssa.Builtin); ok && bi.Name() == "len" {
					if nm, isF := fieldSel(c.Call.Args[0]); isF && nm == "Tags" {
						overTags = true
					}
				}
			}
			_ = loops
			r.check(overTags, fmt.Sprintf("addTagDelta:queue-for-tag#%d:over-the-element's-tags", n), "the queuing loop runs over the posted element's Tags",
				"the loop that queues a posted element for its tags does not run over the element's own tag list: under a tag the element keeps, the tag's list keeps the old copy (kind, properties, tag list) after an overwriting POST", w.pos(st.Pos()))
		}
	}
	r.check(n >= 1, "addTagDelta:queue-sites", fmt.Sprintf("%d", n), "none found: rule needs review", w.fpos(f))
}

func ruleEndOfStreamFlushes(r *Run) {
	w := r.W
	top := w.fn("datastore", "copyVersions")
	if top == nil {
		r.undecided("datastore.copyVersions", "anchor not found")
		return
	}
	n := 0
	for _, f := range closureTree(top) {
		// the slot store and the counter incremented beside it
		var counter ssa.Value
		for _, b := range f.Blocks {
			slot := false
			for _, in := range b.Instrs {
				if mu, ok := in.(*ssa.MapUpdate); ok && !isNilConst(mu.Value) {
					if mt, ok := mu.Map.Type().Underlying().(*types.Map); ok && strings.HasSuffix(mt.Key().String(), "dvid.VersionID") && strings.Contains(mt.Elem().String(), "KeyValue") {
						slot = true
					}
				}
			}
			if !slot {
				continue
			}
			for _, in := range b.Instrs {
				if bo, ok := in.(*ssa.BinOp); ok && bo.Op == token.ADD && bo.Type().String() == "int" {
					if k, isK := constInt(bo.Y); isK && k == 1 {
						counter = bo
					}
				}
			}
		}
		if counter == nil {
			continue
		}
		web := map[ssa.Value]bool{}
		var walk func(v ssa.Value)
		walk = func(v ssa.Value) {
			if web[v] {
				return
			}
			web[v] = true
			switch x := v.(type) {
			case *ssa.Phi:
				for _, e := range x.Edges {
					walk(e)
				}
				for _, ref := range *x.Referrers() {
					if p, ok := ref.(*ssa.Phi); ok {
						walk(p)
					}
				}
			case *ssa.BinOp:
				walk(x.X)
				for _, ref := range *x.Referrers() {
					if p, ok := ref.(*ssa.Phi); ok {
						walk(p)
					}
				}
			}
		}
		walk(counter)
		isFlushGuard := func(x ssa.Instruction) bool {
			ifi, ok := x.(*ssa.If)
			if !ok {
				return false
			}
			bo, ok := ifi.Cond.(*ssa.BinOp)
			if !ok || bo.Op != token.GTR {
				return false
			}
			k, isK := constInt(bo.Y)
			return isK && k == 0 && web[stripConv(bo.X)]
		}
		// from the receive of the stream's next element, every path to the worker's return passes the flush guard
		for _, b := range f.Blocks {
			for _, in := range b.Instrs {
				u, ok := in.(*ssa.UnOp)
				if !ok || u.Op != token.ARROW || !strings.Contains(u.Type().String(), "KeyValue") {
					continue
				}
				n++
				pth := findPath(f, u, isFlushGuard, func(x ssa.Instruction) bool { _, isRet := x.(*ssa.Return); return isRet }, nil)
				r.check(pth == nil, fmt.Sprintf("%s:stream-receive#%d:flush-before-return", fname(f), n), "every return behind the receive lies behind the flush guard",
					"the worker can return after receiving the end of the stream without passing the flush of the pending version slots: the key that sorts last in the instance is missing at every listed version of the copy", w.pos(u.Pos()), w.renderPath(pth)...)
			}
		}
	}
	r.check(n >= 1, "copyVersions:end-of-stream-tests", fmt.Sprintf("%d", n), "none found: rule needs review", w.fpos(top))
}

func ruleUpdateInstanceTouchesIDOnly(r *Run) {
	w := r.W
	f := w.method("storage", "DataContext", "UpdateInstance")
	if f == nil || len(f.Blocks) == 0 || len(f.Params) < 2 {
		r.undecided("storage.DataContext.UpdateInstance", "anchor not found")
		return
	}
	k := f.Params[1]
	bad := ""
	writes := 0
	for _, b := range f.Blocks {
		for _, in := range b.Instrs {
			c, ok := in.(ssa.CallInstruction)
			if !ok {
				continue
			}
			for i, a := range c.Common().Args {
				uses := a == ssa.Value(k)
				var sl *ssa.Slice
				if s2, ok := a.(*ssa.Slice); ok && s2.X == ssa.Value(k) {
					sl = s2
				}
				if !uses && sl == nil {
					continue
				}
				bi, isBuiltin := c.Common().Value.(*ssa.Builtin)
				if isBuiltin && (bi.Name() == "len" || bi.Name() == "cap") {
					continue
				}
				if isBuiltin && bi.Name() == "copy" && i == 0 && sl != nil {
					lo, ok1 := int64(0), true
					if sl.Low != nil {
						lo, ok1 = constInt(sl.Low)
					}
					hi, ok2 := int64(-1), false
					if sl.High != nil {
						hi, ok2 = constIntExpr(sl.High)
					}
					writes++
					if !(ok1 && ok2 && lo >= 1 && hi <= 1+4) {
						bad = "a copy into the key outside [1:5] at " + w.pos(c.Pos())
					}
					continue
				}
				if isBuiltin && bi.Name() == "copy" && i == 1 {
					continue
				}
				if callee := staticCallee(c); callee != nil && (callee.Name() == "Errorf" || callee.Name() == "Sprintf") {
					continue
				}
				bad = "the key is handed to " + c.Common().String() + " at " + w.pos(c.Pos())
			}
		}
	}
	r.check(bad == "" && writes >= 1, "storage.DataContext.UpdateInstance:writes-the-instance-id-only", "the only write is a copy into the instance-id field",
		"re-homing a raw key does more than replace its instance id ("+bad+"): a copy of all versions of an instance collapses every pair onto the version the copy was requested at", w.fpos(f))
}

// constIntExpr evaluates constants and sums of constants (1+dvid.InstanceIDSize is folded by the compiler, but a
// conversion may remain).
func constIntExpr(v ssa.Value) (int64, bool) {
	if k, ok := constInt(stripConv(v)); ok {
		return k, true
	}
	if bo, ok := stripConv(v).(*ssa.BinOp); ok && bo.Op == token.ADD {
		a, ok1 := constIntExpr(bo.X)
		b, ok2 := constIntExpr(bo.Y)
		return a + b, ok1 && ok2
	}
	return 0, false
}

func ruleVersionFilterOnlyWhenListed(r *Run) {
	w := r.W
	top := w.fn("datastore", "TransferData")
	if top == nil {
		r.undecided("datastore.TransferData", "anchor not found")
		return
	}
	n := 0
	for _, f := range closureTree(top) {
		// okVersions: a map[VersionID]bool looked up
		for _, b := range f.Blocks {
			for _, in := range b.Instrs {
				lk, ok := in.(*ssa.Lookup)
				if !ok {
					continue
				}
				mt, ok := lk.X.Type().Underlying().(*types.Map)
				if !ok || !strings.HasSuffix(mt.Key().String(), "dvid.VersionID") || mt.Elem().String() != "bool" {
					continue
				}
				n++
				root := captureRoot(lk.X)
				guarded := false
				for _, gb := range f.Blocks {
					ifi, isIf := gb.Instrs[len(gb.Instrs)-1].(*ssa.If)
					if !isIf {
						continue
					}
					bo, isBo := ifi.Cond.(*ssa.BinOp)
					if !isBo {
						continue
					}
					c, isCall := stripConv(bo.X).(*ssa.Call)
					if !isCall {
						continue
					}
					bi, isB := c.Call.Value.(*ssa.Builtin)
					if !isB || bi.Name() != "len" || captureRoot(c.Call.Args[0]) != root {
						continue
					}
					z, isK := constInt(bo.Y)
					if !isK || z != 0 {
						continue
					}
					edge := -1
					switch bo.Op {
					case token.NEQ, token.GTR:
						edge = 0
					case token.EQL:
						edge = 1
					}
					if edge >= 0 && guardedByEdge(ifi, edge, lk) {
						guarded = true
					}
				}
				r.check(guarded, fmt.Sprintf("%s:version-filter#%d:only-when-a-list-was-given", fname(f), n), "the lookup in the version list lies behind len(list) != 0",
					"the version filter is applied although no version list was given: with an empty list every data key is skipped, the transfer that is documented (and logged) as a full copy moves no data and still reports success", w.pos(lk.Pos()))
			}
		}
	}
	r.check(n >= 1, "TransferData:version-filters", fmt.Sprintf("%d", n), "none found: rule needs review", w.fpos(top))
}

func ruleCleaveValidatesBeforeMapping(r *Run) {
	w := r.W
	f := w.method("datatype/labelmap", "Data", "CleaveLabel")
	if f == nil || len(f.Blocks) == 0 {
		r.undecided("labelmap.Data.CleaveLabel", "anchor not found")
		return
	}
	var idx, mp ssa.Instruction
	for _, c := range calls(f) {
		switch {
		case methodNameOf(c) == "cleaveIndex":
			idx = c
		case staticCallee(c) != nil && staticCallee(c).Name() == "addCleaveToMapping":
			mp = c
		}
	}
	if idx == nil || mp == nil {
		r.undecided("labelmap.Data.CleaveLabel", "cleaveIndex / addCleaveToMapping calls not found")
		return
	}
	r.check(domInstr(idx, mp), "CleaveLabel:index-step-before-mapping", "cleaveIndex comes before addCleaveToMapping on every path",
		"the mapping (in memory and in the log) is changed before the index step has validated the request: a cleave that is refused — a supervoxel of another body, all supervoxels of the body, a label that is no body — has already re-mapped the named supervoxels to a label that never gets an index", w.pos(mp.Pos()))
}

func ruleOnlyUncompressedPassesInput(r *Run) {
	w := r.W
	f := w.fn("dvid", "SerializeData")
	if f == nil || len(f.Blocks) == 0 || len(f.Params) == 0 {
		r.undecided("dvid.SerializeData", "anchor not found")
		return
	}
	data := f.Params[0]
	// the payload handed on: the argument of SerializePrecompressedData
	n := 0
	for _, c := range calls(f) {
		callee := staticCallee(c)
		if callee == nil || callee.Name() != "SerializePrecompressedData" || len(c.Common().Args) == 0 {
			continue
		}
		n++
		pass := 0
		seen := map[ssa.Value]bool{}
		var walk func(v ssa.Value)
		walk = func(v ssa.Value) {
			if seen[v] {
				return
			}
			seen[v] = true
			if phi, ok := v.(*ssa.Phi); ok {
				for _, e := range phi.Edges {
					if e == ssa.Value(data) {
						pass++
					} else {
						walk(e)
					}
				}
			} else if v == ssa.Value(data) {
				pass++
			}
		}
		walk(c.Common().Args[0])
		r.check(pass <= 1, fmt.Sprintf("SerializeData:payload#%d:input-passed-through-at-most-once", n), fmt.Sprintf("%d case(s) pass the input through unchanged", pass),
			fmt.Sprintf("%d cases hand the input to the envelope unchanged: besides Uncompressed, a compressed format stores bytes that its compressor did not produce under its own label — on read they are decompressed, and a payload that merely begins like a compressed stream comes back as something else or as an error", pass), w.pos(c.Pos()))
	}
	r.check(n >= 1, "SerializeData:envelope-calls", fmt.Sprintf("%d", n), "none found: rule needs review", w.fpos(f))
}

// ---------------------------------------------------------------------------------------------
// Round j: R17.20, R14.19, R20.73, R16.31, R13.41–R13.42, R19.17, R6.25–R6.26, R12.24

func init() {
	register(ruleDef{ID: "R17.20", Prop: "C17", Tier: "quick", Floor: 1,
		Title: "a streamed block starts behind its envelope: in imageblk.Data.SendSerializedBlock the offset at which the stored value is cut is the constant 1 or the constant 5, chosen by a test of the stored checksum kind (a value stored with CRC32 carries four checksum bytes between the format byte and the payload)",
		Fn:    ruleStreamedBlockSkipsEnvelope})
	register(ruleDef{ID: "R14.19", Prop: "C14", Tier: "quick", Floor: 2,
		Title: "every down-res pass of labelmap runs under the voxel mutex: each call of downres.Mutation.Execute in the labelmap package is made with the instance's voxelMu held by the calling function (a function that stops taking the mutex altogether is the same defect as one that releases it early)",
		Fn:    ruleEveryExecuteUnderVoxelMutex})
	register(ruleDef{ID: "R20.73", Prop: "C20", Tier: "quick", Floor: 3,
		Title: "every counted job is handed on or signed off: in the datatype packages, behind each Add(1) on a local WaitGroup every path to the next pass of its loop (or, outside loops, to the Wait) passes a call that is given the group, a go statement whose function signs off on it, or a Done() on it (a skipped job that was counted and never signed off leaves the request waiting for ever, with the locks it holds)",
		Fn:    ruleCountedJobHandedOnOrSignedOff})
	register(ruleDef{ID: "R16.31", Prop: "C16", Tier: "quick", Floor: 1,
		Title: "an in-memory query is answered from the records: in neuronjson.Data.queryInMemory every success return lies behind the scan of the head database's records (a shortcut that answers from the field table alone drops the matches of the other alternatives of an OR query)",
		Fn:    ruleQueryAnsweredFromRecords})
	register(ruleDef{ID: "R13.41", Prop: "C13", Tier: "quick", Floor: 1,
		Title: "tag keys are terminated: annotation.NewTagTKey hands storage.NewTKey the tag's bytes with a zero byte appended (versions of a key are found by byte prefix: without the terminator the key of tag \"Syn\" is a prefix of the key of \"Syn1\")",
		Fn:    ruleTagKeyTerminated})
	register(ruleDef{ID: "R6.25", Prop: "C06", Tier: "quick", Floor: 1, Title: "(= R13.41) annotation tag keys end with a terminator byte", Fn: ruleTagKeyTerminated})
	register(ruleDef{ID: "R13.42", Prop: "C13", Tier: "quick", Floor: 1,
		Title: "a region query returns only elements inside the region: in annotation.Data.GetRegionSynapses every append to the result lies behind the true edge of the VoxelWithin test of that element",
		Fn:    ruleRegionQueryTestsEveryElement})
	register(ruleDef{ID: "R19.17", Prop: "C19", Tier: "quick", Floor: 5,
		Title: "a copy never takes over its source's identity: no CopyPropertiesFrom of a datatype stores into an embedded instance pointer of the receiver (the embedded *Data carries the instance id, name and data UUID: sharing it makes the copy read and write the source's keys)",
		Fn:    ruleCopyKeepsOwnIdentity})
	register(ruleDef{ID: "R6.27", Prop: "C06", Tier: "quick", Floor: 5, Title: "(= R19.17) a copied instance keeps its own instance id", Fn: ruleCopyKeepsOwnIdentity})
	register(ruleDef{ID: "R6.26", Prop: "C06", Tier: "quick", Floor: 3,
		Title: "the parsers of a data key agree on its minimal length: in storage/context.go every refusal 'len(key) below a constant' of a function that reads the version, client or instance ids from a data key starts at the same length (a parser that refuses class-only keys drops the label counters, schemas and extents from version-limited migrations)",
		Fn:    ruleKeyParsersAgreeOnLength})
	register(ruleDef{ID: "R12.24", Prop: "C12", Tier: "quick", Floor: 3,
		Title: "identifier counters never move backwards: no store into repoManager.instanceID, repoID or versionID has a subtraction in its value (an id 'given back' after a refused creation may already have a successor in use)",
		Fn:    ruleCountersNeverDecrease})
}

func ruleStreamedBlockSkipsEnvelope(r *Run) {
	w := r.W
	f := w.method("datatype/imageblk", "Data", "SendSerializedBlock")
	if f == nil || len(f.Blocks) == 0 {
		r.undecided("imageblk.Data.SendSerializedBlock", "anchor not found")
		return
	}
	var v *ssa.Parameter
	for _, p := range f.Params {
		if p.Name() == "v" {
			v = p
		}
	}
	n := 0
	for _, b := range f.Blocks {
		for _, in := range b.Instrs {
			sl, ok := in.(*ssa.Slice)
			if !ok || v == nil || sl.X != ssa.Value(v) || sl.Low == nil {
				continue
			}
			n++
			consts := map[int64]bool{}
			other := false
			var edges []ssa.Value
			if phi, ok := stripConv(sl.Low).(*ssa.Phi); ok {
				edges = phi.Edges
			} else {
				edges = []ssa.Value{sl.Low}
			}
			for _, e := range edges {
				if k, ok := constIntExpr(e); ok {
					consts[k] = true
				} else {
					other = true
				}
			}
			r.check(!other && len(consts) == 2 && consts[1] && consts[5], fmt.Sprintf("SendSerializedBlock:payload-slice#%d:offset-1-or-5", n), "the offset is 1 or 5",
				"the offset at which the stored value is cut for streaming is not the choice between 1 (format byte) and 5 (format byte and CRC32): blocks of an instance created with a checksum are streamed with the checksum bytes in front of, or cut out of, their payload", w.pos(sl.Pos()))
		}
	}
	r.check(n >= 1, "SendSerializedBlock:payload-slices", fmt.Sprintf("%d", n), "none found: rule needs review", w.fpos(f))
}

func ruleEveryExecuteUnderVoxelMutex(r *Run) {
	w := r.W
	n := 0
	for _, f := range w.RepoFuncs {
		if len(f.Blocks) == 0 || relPkg(pkgPathOf(f)) != "datatype/labelmap" || isTestFunc(w, f) || f.Parent() != nil {
			continue
		}
		k := 0
		for _, c := range calls(f) {
			if _, isDefer := c.(*ssa.Defer); isDefer {
				continue
			}
			cal := staticCallee(c)
			if cal == nil || cal.Name() != "Execute" || relPkg(pkgPathOf(cal)) != "datatype/common/downres" {
				continue
			}
			n++
			k++
			held, _ := heldAt(f, c, "voxelMu", true)
			construct := fmt.Sprintf("%s:Execute#%d:voxelMu-held", fname(f), k)
			if reason, exc := r.exceptionFor("R14.19", construct); exc {
				r.check(true, construct, "exception: "+reason, "", w.pos(c.Pos()))
				continue
			}
			r.check(held, construct, "the pass runs with the voxel mutex held by this function",
				"a down-res pass is run by a function that does not hold the instance's voxel mutex: the pass read-modify-writes parent blocks without a lock, and two requests on sibling blocks lose each other's octants at every lower level", w.pos(c.Pos()))
		}
	}
	r.check(n >= 2, "labelmap:downres-passes", fmt.Sprintf("%d", n), "too few found: rule needs review", "-")
}

func ruleCountedJobHandedOnOrSignedOff(r *Run) {
	w := r.W
	n := 0
	for _, f := range w.RepoFuncs {
		if len(f.Blocks) == 0 || isTestFunc(w, f) || !strings.HasPrefix(relPkg(pkgPathOf(f)), "datatype/") {
			continue
		}
		loops := naturalLoops(f)
		isWGCall := func(c ssa.CallInstruction, name string) (ssa.Value, bool) {
			callee := staticCallee(c)
			if callee == nil || callee.Name() != name || callee.Pkg == nil || callee.Pkg.Pkg.Path() != "sync" || len(c.Common().Args) == 0 {
				return nil, false
			}
			if !strings.Contains(c.Common().Args[0].Type().String(), "sync.WaitGroup") {
				return nil, false
			}
			return captureRoot(c.Common().Args[0]), true
		}
		k := 0
		for _, c := range calls(f) {
			root, ok := isWGCall(c, "Add")
			if !ok || root.Parent() != f {
				continue
			}
			if _, isAlloc := root.(*ssa.Alloc); !isAlloc {
				continue // a group received from the caller: the caller's business
			}
			one, isK := constInt(c.Common().Args[1])
			if isK && one != 1 {
				continue
			}
			h, set, _ := innermostLoop(f, c.Block())
			bulk := false
			if !isK {
				// Add(n) for the n passes of the loop that follows: each pass of that loop settles one job
				var best *ssa.BasicBlock
				for h2, s2 := range loops {
					if s2[c.Block()] || !c.Block().Dominates(h2) {
						continue
					}
					if set != nil && !set[h2] {
						continue
					}
					// outermost among the candidates nested in each other, first in block order otherwise
					if best == nil || (loops[best][h2] == false && h2.Index < best.Index) || s2[best] {
						best = h2
					}
				}
				if best == nil {
					continue
				}
				h, set, bulk = best, loops[best], true
			}
			if set == nil {
				continue
			}
			// handed on / signed off
			settled := func(x ssa.Instruction) bool {
				// an item sent on to a consumer carries its sign-off with it (per-item drains, R20.68)
				if _, isSend := x.(*ssa.Send); isSend {
					return true
				}
				c2, ok := x.(ssa.CallInstruction)
				if !ok {
					return false
				}
				if rt, ok := isWGCall(c2, "Done"); ok && rt == root {
					return true
				}
				// the group (its address) is an argument
				for _, a := range c2.Common().Args {
					if captureRoot(a) == root && a != c2.Common().Args[0] || (captureRoot(a) == root && staticCallee(c2) != nil && staticCallee(c2).Pkg != nil && staticCallee(c2).Pkg.Pkg.Path() != "sync") {
						return true
					}
				}
				// a function literal that signs off on it (go func(){ …; wg.Done() }() or a callback handed to a call)
				var lits []*ssa.Function
				if mc, ok := c2.Common().Value.(*ssa.MakeClosure); ok {
					if fn, ok := mc.Fn.(*ssa.Function); ok {
						lits = append(lits, fn)
					}
				}
				for _, a := range c2.Common().Args {
					if mc, ok := a.(*ssa.MakeClosure); ok {
						if fn, ok := mc.Fn.(*ssa.Function); ok {
							lits = append(lits, fn)
						}
					}
				}
				for _, fn := range lits {
					for _, g := range closureTree(fn) {
						for _, gb := range g.Blocks {
							for _, gi := range gb.Instrs {
								if _, isSend := gi.(*ssa.Send); isSend {
									return true // the literal hands its result to a consumer, which signs off per item
								}
							}
						}
						for _, c3 := range calls(g) {
							if rt, ok := isWGCall(c3, "Done"); ok && rt == root {
								return true
							}
							for _, a := range c3.Common().Args {
								if captureRoot(a) == root {
									return true
								}
							}
						}
					}
				}
				return false
			}
			n++
			k++
			_ = loops
			var pth []ssa.Instruction
			if bulk {
				for _, sb := range h.Succs {
					if !set[sb] || len(sb.Instrs) == 0 || pth != nil {
						continue
					}
					first := sb.Instrs[0]
					if settled(first) {
						continue
					}
					pth = findPath(f, first, settled, func(x ssa.Instruction) bool { return x == h.Instrs[0] }, func(bb *ssa.BasicBlock, i int) bool { return set[bb.Succs[i]] })
				}
			} else {
				pth = findPath(f, c, settled, func(x ssa.Instruction) bool { return x == h.Instrs[0] }, func(bb *ssa.BasicBlock, i int) bool { return set[bb.Succs[i]] })
			}
			gname := root.Name()
			if al, ok := root.(*ssa.Alloc); ok && al.Comment != "" {
				gname = al.Comment
			}
			r.check(pth == nil, fmt.Sprintf("%s:%s:Add#%d:handed-on-or-signed-off", fname(f), gname, k), "every way to the next pass hands the job on or signs it off",
				"behind an Add(1) a pass of the loop can go round without the job being handed to anything that signs off and without a Done(): the Wait that follows never returns, and the request keeps the locks it holds", w.pos(c.Pos()), w.renderPath(pth)...)
		}
	}
	r.check(n >= 3, "datatype:counted-jobs-in-loops", fmt.Sprintf("%d", n), "too few found: rule needs review", "-")
}

func ruleQueryAnsweredFromRecords(r *Run) {
	w := r.W
	f := w.method("datatype/neuronjson", "Data", "queryInMemory")
	if f == nil || len(f.Blocks) == 0 {
		r.undecided("neuronjson.Data.queryInMemory", "anchor not found")
		return
	}
	// the scan: the loop that calls queryMatch / walks mdb.data or mdb.ids
	var scanHeads []ssa.Instruction
	for h, set := range naturalLoops(f) {
		holds := false
		for b := range set {
			for _, in := range b.Instrs {
				if c, ok := in.(ssa.CallInstruction); ok {
					if callee := staticCallee(c); callee != nil && callee.Name() == "queryMatch" {
						holds = true
					}
				}
			}
		}
		if holds {
			scanHeads = append(scanHeads, h.Instrs[0])
		}
	}
	if len(scanHeads) == 0 {
		r.violation("queryInMemory:scan", "no loop that matches the query against the records was found", w.fpos(f))
		return
	}
	isScan := func(x ssa.Instruction) bool {
		for _, s := range scanHeads {
			if x == s {
				return true
			}
		}
		return false
	}
	pth := findPath(f, nil, isScan, successExit, nil)
	r.check(pth == nil, "queryInMemory:success-behind-the-scan", "every success return lies behind the scan of the records",
		"the in-memory query can answer without scanning the records: a shortcut taken for the whole query list returns no matches although another alternative of the OR list matches — the head disagrees with the store path, which evaluates each alternative", w.fpos(f), w.renderPath(pth)...)
}

func ruleTagKeyTerminated(r *Run) {
	w := r.W
	f := w.fn("datatype/annotation", "NewTagTKey")
	if f == nil || len(f.Blocks) == 0 {
		r.undecided("annotation.NewTagTKey", "anchor not found")
		return
	}
	n := 0
	for _, c := range calls(f) {
		callee := staticCallee(c)
		if callee == nil || callee.Name() != "NewTKey" || len(c.Common().Args) != 2 {
			continue
		}
		n++
		terminated := false
		for d := range dataDeps(c.Common().Args[1]) {
			ap, ok := d.(*ssa.Call)
			if !ok {
				continue
			}
			bi, ok := ap.Call.Value.(*ssa.Builtin)
			if !ok || bi.Name() != "append" || len(ap.Call.Args) != 2 {
				continue
			}
			// the appended slice is a one-element array holding the constant 0
			if sl, ok := ap.Call.Args[1].(*ssa.Slice); ok {
				if al, ok := sl.X.(*ssa.Alloc); ok {
					for _, ref := range *al.Referrers() {
						if ia, ok := ref.(*ssa.IndexAddr); ok {
							for _, ref2 := range *ia.Referrers() {
								if st, ok := ref2.(*ssa.Store); ok {
									if k, isK := constInt(st.Val); isK && k == 0 {
										terminated = true
									}
								}
							}
						}
					}
				}
			}
		}
		r.check(terminated, fmt.Sprintf("NewTagTKey:key#%d:terminated", n), "a zero byte is appended to the tag's bytes",
			"the tag key is built from the tag's bytes without a terminating zero byte: the versions of a key are found by byte prefix, so tag/Syn returns the elements of tag Syn1 (and loses its own)", w.pos(c.Pos()))
	}
	r.check(n >= 1, "NewTagTKey:keys", fmt.Sprintf("%d", n), "none found: rule needs review", w.fpos(f))
}

func ruleRegionQueryTestsEveryElement(r *Run) {
	w := r.W
	top := w.method("datatype/annotation", "Data", "GetRegionSynapses")
	if top == nil {
		r.undecided("annotation.Data.GetRegionSynapses", "anchor not found")
		return
	}
	n := 0
	for _, f := range closureTree(top) {
		var tests []*ssa.If
		for _, b := range f.Blocks {
			if ifi, ok := b.Instrs[len(b.Instrs)-1].(*ssa.If); ok {
				for d := range dataDeps(ifi.Cond) {
					if c, ok := d.(*ssa.Call); ok && methodNameOf(c) == "VoxelWithin" {
						tests = append(tests, ifi)
					}
				}
			}
		}
		for _, c := range calls(f) {
			bi, ok := c.Common().Value.(*ssa.Builtin)
			if !ok || bi.Name() != "append" {
				continue
			}
			if !strings.Contains(c.Common().Args[0].Type().String(), "Element") {
				continue
			}
			n++
			ok2 := false
			for _, t := range tests {
				if guardedByEdge(t, 0, c) {
					ok2 = true
				}
			}
			r.check(ok2, fmt.Sprintf("%s:result-append#%d:behind-VoxelWithin", fname(f), n), "the element is appended behind the true edge of VoxelWithin",
				"an element is appended to the region query's result without the test that it lies within the requested extents: elements of a block that only partly overlaps the region in y or z are returned although they are outside it", w.pos(c.Pos()))
		}
	}
	r.check(n >= 1, "GetRegionSynapses:result-appends", fmt.Sprintf("%d", n), "none found: rule needs review", w.fpos(top))
}

func ruleCopyKeepsOwnIdentity(r *Run) {
	w := r.W
	n := 0
	for _, f := range w.RepoFuncs {
		if len(f.Blocks) == 0 || f.Name() != "CopyPropertiesFrom" || len(f.Params) == 0 || isTestFunc(w, f) || !strings.HasPrefix(relPkg(pkgPathOf(f)), "datatype/") {
			continue
		}
		n++
		bad := ""
		for _, b := range f.Blocks {
			for _, in := range b.Instrs {
				st, ok := in.(*ssa.Store)
				if !ok {
					continue
				}
				fa, ok := st.Addr.(*ssa.FieldAddr)
				if !ok || fa.X != ssa.Value(f.Params[0]) {
					continue
				}
				// a pointer to another package's (or the base) Data
				pt, ok := st.Val.Type().(*types.Pointer)
				if !ok {
					continue
				}
				if nm, ok := pt.Elem().(*types.Named); ok && nm.Obj().Name() == "Data" {
					name, _, _ := fieldName(fa)
					bad = "field " + name + " at " + w.pos(st.Pos())
				}
			}
		}
		r.check(bad == "", fname(f)+":keeps-its-own-instance", "no embedded instance pointer of the receiver is overwritten",
			"the copy constructor stores an instance pointer into the receiver ("+bad+"): the copy shares its source's embedded instance — id, name and data UUID — and every key it builds is one of the source's keys", w.fpos(f))
	}
	r.check(n >= 5, "datatypes:copy-constructors", fmt.Sprintf("%d", n), "too few found: rule needs review", "-")
}

func ruleKeyParsersAgreeOnLength(r *Run) {
	w := r.W
	type g struct {
		fn  string
		min int64
		pos string
	}
	var gs []g
	for _, f := range w.RepoFuncs {
		if len(f.Blocks) == 0 || relPkg(pkgPathOf(f)) != "storage" || isTestFunc(w, f) || !strings.HasSuffix(w.fposFile(f), "context.go") {
			continue
		}
		for _, b := range f.Blocks {
			ifi, ok := b.Instrs[len(b.Instrs)-1].(*ssa.If)
			if !ok {
				continue
			}
			bo, ok := ifi.Cond.(*ssa.BinOp)
			if !ok || (bo.Op != token.LSS && bo.Op != token.LEQ) {
				continue
			}
			c, ok := stripConv(bo.X).(*ssa.Call)
			if !ok {
				continue
			}
			bi, ok := c.Call.Value.(*ssa.Builtin)
			if !ok || bi.Name() != "len" {
				continue
			}
			if _, isParam := c.Call.Args[0].(*ssa.Parameter); !isParam {
				continue
			}
			k, isK := constInt(bo.Y)
			if !isK || k < 10 || k > 24 {
				continue
			}
			// the true edge leaves with an error
			leaves := false
			for _, x := range b.Succs[0].Instrs {
				if ret, isRet := x.(*ssa.Return); isRet && isErrorExit(ret) {
					leaves = true
				}
			}
			if !leaves {
				continue
			}
			min := k
			if bo.Op == token.LEQ {
				min = k + 1
			}
			gs = append(gs, g{fname(f), min, w.pos(bo.Pos())})
		}
	}
	if len(gs) < 3 {
		r.check(false, "storage:data-key-length-guards", fmt.Sprintf("%d", len(gs)), "too few guards found: rule needs review", "-")
		return
	}
	want := gs[0].min
	for _, x := range gs {
		if x.min < want {
			want = x.min
		}
	}
	for i, x := range gs {
		r.check(x.min == want, fmt.Sprintf("%s:length-guard#%d", x.fn, i+1), fmt.Sprintf("accepts keys from %d bytes on, like its siblings", x.min),
			fmt.Sprintf("this parser refuses data keys shorter than %d bytes while its siblings accept them from %d bytes on: keys whose type-specific part is a bare class (label counters, schemas, extents) are refused here, and the migrations that use this parser drop them", x.min, want), x.pos)
	}
}

func ruleCountersNeverDecrease(r *Run) {
	w := r.W
	n := 0
	for _, f := range w.RepoFuncs {
		if len(f.Blocks) == 0 || relPkg(pkgPathOf(f)) != "datastore" || isTestFunc(w, f) {
			continue
		}
		k := 0
		for _, b := range f.Blocks {
			for _, in := range b.Instrs {
				st, ok := in.(*ssa.Store)
				if !ok {
					continue
				}
				fa, ok := st.Addr.(*ssa.FieldAddr)
				if !ok || !strings.Contains(fa.X.Type().String(), "repoManager") {
					continue
				}
				name, _, _ := fieldName(fa)
				if name != "instanceID" && name != "repoID" && name != "versionID" {
					continue
				}
				n++
				k++
				dec := false
				for d := range dataDeps(st.Val) {
					if bo, ok := d.(*ssa.BinOp); ok && bo.Op == token.SUB {
						dec = true
					}
				}
				r.check(!dec, fmt.Sprintf("%s:store-into-%s#%d:no-subtraction", fname(f), name, k), "the stored value is not computed by a subtraction",
					"the identifier counter "+name+" is lowered: an id that is given back may not be the last one drawn — a concurrent creation already holds its successor, and the next creation is issued that successor again", w.pos(st.Pos()))
			}
		}
	}
	r.check(n >= 3, "datastore:counter-stores", fmt.Sprintf("%d", n), "too few found: rule needs review", "-")
}

// ---------------------------------------------------------------------------------------------
// R4.19 — a new repo's blob is saved only behind the persisted id→uuid map; R2.18 — DeleteAll is for instance deletion

func init() {
	register(ruleDef{ID: "R4.19", Prop: "C04", Tier: "quick", Floor: 1,
		Title: "a new repo's blob is saved only behind its entry in the persisted id→uuid map: in repoManager.newRepo every save of the repo is preceded, on every path, by the entry into repoToUUID and a putCaches behind that entry (R4.3 guards the interval after the entry; this rule guards a save placed in front of it — the loader prunes a map entry without a blob but refuses a blob without a map entry)",
		Fn:    ruleNewRepoSavedBehindMap})
	register(ruleDef{ID: "R2.18", Prop: "C02", Tier: "quick", Floor: 1,
		Title: "no request handler erases every version of an instance's keys: the storage engines' DeleteAll — which removes the keys of all versions, committed ones included — is called from the instance-deletion path of package storage/datastore only, never from a datatype package",
		Fn:    ruleDeleteAllOnlyForInstanceDeletion})
}

func ruleNewRepoSavedBehindMap(r *Run) {
	w := r.W
	f := w.method("datastore", "repoManager", "newRepo")
	putCaches := w.method("datastore", "repoManager", "putCaches")
	save := w.method("datastore", "repoT", "save")
	if f == nil || putCaches == nil || save == nil || len(f.Blocks) == 0 {
		r.undecided("datastore.repoManager.newRepo", "anchor not found")
		return
	}
	var mus, pcs, saves []ssa.Instruction
	for _, b := range f.Blocks {
		for _, in := range b.Instrs {
			if isMapUpdateOnField(in, "repoManager", "repoToUUID") {
				mus = append(mus, in)
			}
			if c, ok := in.(ssa.CallInstruction); ok {
				switch c.Common().StaticCallee() {
				case putCaches:
					pcs = append(pcs, in)
				case save:
					saves = append(saves, in)
				}
			}
		}
	}
	n := 0
	for _, s := range saves {
		n++
		ok := false
		for _, mu := range mus {
			for _, pc := range pcs {
				if domInstr(mu, pc) && domInstr(pc, s) {
					ok = true
				}
			}
		}
		r.check(ok, fmt.Sprintf("newRepo:save#%d:behind-the-persisted-map-entry", n), "the save lies behind the repoToUUID entry and a putCaches that follows it",
			"the new repo's blob is saved before its id is entered into repoToUUID and the map persisted: a crash between the two writes leaves a blob the loader refuses (\"retrieved repo with id … that is not in map\"), and every later start fails", w.pos(s.Pos()))
	}
	r.check(n >= 1 && len(mus) >= 1, "newRepo:saves", fmt.Sprintf("%d saves, %d map entries", n, len(mus)), "anchor not found: rule needs review", w.fpos(f))
}

func ruleDeleteAllOnlyForInstanceDeletion(r *Run) {
	w := r.W
	n, bad := 0, 0
	for _, f := range w.RepoFuncs {
		if len(f.Blocks) == 0 || isTestFunc(w, f) {
			continue
		}
		p := relPkg(pkgPathOf(f))
		for _, c := range calls(f) {
			if methodNameOf(c) != "DeleteAll" || !c.Common().IsInvoke() {
				continue
			}
			n++
			if strings.HasPrefix(p, "datatype/") || p == "server" {
				bad++
				r.violation(fmt.Sprintf("%s:DeleteAll", fname(f)),
					"a datatype's request path calls the store's DeleteAll: it removes the instance's keys at every version — a delete or replace issued in an open child erases what the committed ancestors hold", w.pos(c.Pos()))
			}
		}
	}
	r.check(n >= 1, "repo:DeleteAll-callers", fmt.Sprintf("%d callers, %d in datatype or server packages", n, bad), "no caller found: rule needs review", "-")
}

// ---------------------------------------------------------------------------------------------
// Round k: R20.74, R18.23, R17.21, R17.22, R8.32

func init() {
	register(ruleDef{ID: "R20.74", Prop: "C20", Tier: "quick", Floor: 10,
		Title: "a counted job is counted by its starter: a function that receives a *sync.WaitGroup and signs off on it (Done) does not call Add on it — an Add made by the job itself, once it runs, races with the starter's Wait, which can return before the last jobs have started (the reply is sent with blocks missing; a negative counter panics outside any recover)",
		Fn:    ruleWorkerDoesNotAdd})
	register(ruleDef{ID: "R17.23", Prop: "C17", Tier: "quick", Floor: 10, Title: "(= R20.74) block readers started per block are counted by the request that waits for them", Fn: ruleWorkerDoesNotAdd})
	register(ruleDef{ID: "R18.23", Prop: "C18", Tier: "quick", Floor: 1,
		Title: "block coordinates are ordered as signed numbers or as offset keys, never as raw unsigned ones: in package dvid no ordering comparison (<, <=, >, >=) has on both sides a conversion of a signed 32-bit value to an unsigned type (a negative coordinate would sort after every non-negative one; the key codec adds the sign offset before it compares bytes)",
		Fn:    ruleNoUnsignedCoordinateOrder})
	register(ruleDef{ID: "R17.24", Prop: "C17", Tier: "quick", Floor: 1, Title: "(= R18.23) the block iterator of voxel reads and writes orders coordinates across zero", Fn: ruleNoUnsignedCoordinateOrder})
	register(ruleDef{ID: "R17.21", Prop: "C17", Tier: "quick", Floor: 1,
		Title: "every caller gets its own background block: imageblk.Data.BackgroundBlock returns a buffer made in that call, never one stored in the instance (the per-block writers use it as their scratch buffer)",
		Fn:    ruleBackgroundBlockFresh})
	register(ruleDef{ID: "R17.22", Prop: "C17", Tier: "quick", Floor: 1,
		Title: "a voxel read is answered from the stored blocks: in imageblk.Data.GetVoxels every success return lies behind the loop over the request's block spans (no shortcut decides from the extents that nothing is stored)",
		Fn:    ruleVoxelReadWalksBlocks})
	register(ruleDef{ID: "R8.32", Prop: "C08", Tier: "quick", Floor: 1,
		Title: "every label of a block passes the mapping: in labelmap's modifyBlockMapping every success return lies behind the loop over the block's label table (a block filled by one supervoxel is mapped like any other)",
		Fn:    ruleBlockMappingWalksTable})
}

func ruleWorkerDoesNotAdd(r *Run) {
	w := r.W
	n := 0
	for _, f := range w.RepoFuncs {
		if len(f.Blocks) == 0 || isTestFunc(w, f) {
			continue
		}
		p := relPkg(pkgPathOf(f))
		if !(strings.HasPrefix(p, "datatype/") || p == "datastore" || p == "server" || strings.HasPrefix(p, "storage")) {
			continue
		}
		for _, prm := range f.Params {
			if prm.Type().String() != "*sync.WaitGroup" {
				continue
			}
			done, add := false, ssa.Instruction(nil)
			for _, g := range closureTree(f) {
				for _, c := range calls(g) {
					callee := staticCallee(c)
					if callee == nil || callee.Pkg == nil || callee.Pkg.Pkg.Path() != "sync" || len(c.Common().Args) == 0 {
						continue
					}
					if captureRoot(c.Common().Args[0]) != ssa.Value(prm) && c.Common().Args[0] != ssa.Value(prm) {
						// a parameter captured by a literal is spilled to a cell
						if al, ok := captureRoot(c.Common().Args[0]).(*ssa.Alloc); !ok || al.Comment != prm.Name() {
							continue
						}
					}
					switch callee.Name() {
					case "Done":
						done = true
					case "Add":
						add = c
					}
				}
			}
			if !done {
				continue
			}
			n++
			pos := w.fpos(f)
			if add != nil {
				pos = w.pos(add.Pos())
			}
			r.check(add == nil, fname(f)+":"+prm.Name()+":no-Add-by-the-worker", "the worker signs off but does not count itself",
				"a function that is handed a WaitGroup and signs off on it also calls Add on it: started with go, its Add races with the starter's Wait — Wait can return before the last jobs have counted themselves, the request is answered with results missing, and a Done that follows drives the counter negative", pos)
		}
	}
	r.check(n >= 10, "repo:workers-with-a-waitgroup", fmt.Sprintf("%d", n), "too few: rule needs review", "-")
}

func ruleNoUnsignedCoordinateOrder(r *Run) {
	w := r.W
	n := 0
	nCmp := 0
	for _, f := range w.RepoFuncs {
		if len(f.Blocks) == 0 || relPkg(pkgPathOf(f)) != "dvid" || isTestFunc(w, f) {
			continue
		}
		k := 0
		for _, b := range f.Blocks {
			for _, in := range b.Instrs {
				bo, ok := in.(*ssa.BinOp)
				if !ok {
					continue
				}
				switch bo.Op {
				case token.LSS, token.LEQ, token.GTR, token.GEQ:
				default:
					continue
				}
				nCmp++
				fromSigned := func(v ssa.Value) bool {
					cv, ok := v.(*ssa.Convert)
					if !ok {
						return false
					}
					src, ok1 := cv.X.Type().Underlying().(*types.Basic)
					dst, ok2 := cv.Type().Underlying().(*types.Basic)
					return ok1 && ok2 && src.Kind() == types.Int32 && dst.Info()&types.IsUnsigned != 0
				}
				if fromSigned(bo.X) && fromSigned(bo.Y) {
					n++
					k++
					r.violation(fmt.Sprintf("%s:unsigned-order#%d", fname(f), k),
						"two signed 32-bit values are compared for order after conversion to an unsigned type: a negative coordinate compares greater than every non-negative one, so a box that spans zero is walked partly or not at all — the write returns success and blocks are missing", w.pos(bo.Pos()))
				}
			}
		}
	}
	r.check(nCmp >= 50, "dvid:ordering-comparisons", fmt.Sprintf("%d examined, %d between unsigned conversions of signed values", nCmp, n), "too few comparisons found: rule needs review", "-")
}

func ruleBackgroundBlockFresh(r *Run) {
	w := r.W
	f := w.method("datatype/imageblk", "Data", "BackgroundBlock")
	if f == nil || len(f.Blocks) == 0 {
		r.undecided("imageblk.Data.BackgroundBlock", "anchor not found")
		return
	}
	n := 0
	for _, b := range f.Blocks {
		ret, ok := b.Instrs[len(b.Instrs)-1].(*ssa.Return)
		if !ok || len(ret.Results) == 0 {
			continue
		}
		n++
		fresh := true
		bad := ""
		for _, rv := range roots(ret.Results[0], f) {
			switch x := rv.V.(type) {
			case *ssa.MakeSlice:
			case *ssa.Call:
				if callee := x.Call.StaticCallee(); callee != nil && (callee.Name() == "Repeat" || callee.Name() == "make") {
					// bytes.Repeat allocates
				} else {
					fresh, bad = false, x.String()
				}
			case *ssa.Const:
			default:
				fresh, bad = false, rv.V.String()
			}
		}
		r.check(fresh, fmt.Sprintf("BackgroundBlock:return#%d:fresh-buffer", n), "the returned buffer is made in this call",
			"the returned background block is not made in the call ("+bad+"): callers write their block into it, so concurrent block writers of one request overwrite each other and later 'background' reads return the last block written", w.pos(ret.Pos()))
	}
	r.check(n >= 1, "BackgroundBlock:returns", fmt.Sprintf("%d", n), "none found: rule needs review", w.fpos(f))
}

func ruleVoxelReadWalksBlocks(r *Run) {
	w := r.W
	f := w.method("datatype/imageblk", "Data", "GetVoxels")
	if f == nil || len(f.Blocks) == 0 {
		r.undecided("imageblk.Data.GetVoxels", "anchor not found")
		return
	}
	isWalk := func(x ssa.Instruction) bool {
		c, ok := x.(ssa.CallInstruction)
		return ok && methodNameOf(c) == "NewIndexIterator"
	}
	pth := findPath(f, nil, isWalk, successExit, nil)
	r.check(pth == nil, "GetVoxels:success-behind-the-block-walk", "every success return lies behind the creation of the block-span iterator",
		"a success return can be reached before the walk over the request's block spans has started: a shortcut answers 'nothing stored' from the extents — with an exclusive test on the inclusive MaxPoint the last plane of every volume reads as background", w.fpos(f), w.renderPath(pth)...)
}

func ruleBlockMappingWalksTable(r *Run) {
	w := r.W
	f := w.fn("datatype/labelmap", "modifyBlockMapping")
	if f == nil || len(f.Blocks) == 0 {
		r.undecided("labelmap.modifyBlockMapping", "anchor not found")
		return
	}
	var heads []ssa.Instruction
	for h := range scanLoops(f) {
		heads = append(heads, h.Instrs[0])
	}
	if len(heads) == 0 {
		// the walk may be delegated: a call of a repository function all of whose returns lie behind its own
		// loop over the label table counts as the scan
		for _, c := range calls(f) {
			g := staticCallee(c)
			if g == nil || len(g.Blocks) == 0 || !inRepo(g) {
				continue
			}
			gl := scanLoops(g)
			if len(gl) == 0 {
				continue
			}
			isGHead := func(x ssa.Instruction) bool {
				for h := range gl {
					if x == h.Instrs[0] {
						return true
					}
				}
				return false
			}
			anyRet := func(x ssa.Instruction) bool { _, ok := x.(*ssa.Return); return ok }
			if findPath(g, nil, isGHead, anyRet, nil) == nil {
				heads = append(heads, c)
			}
		}
	}
	if len(heads) == 0 {
		r.violation("modifyBlockMapping:table-scan", "no loop over the block's label table found", w.fpos(f))
		return
	}
	isHead := func(x ssa.Instruction) bool {
		for _, h := range heads {
			if x == h {
				return true
			}
		}
		return false
	}
	pth := findPath(f, nil, isHead, successExit, nil)
	r.check(pth == nil, "modifyBlockMapping:success-behind-the-table-scan", "every success return lies behind the loop over the label table",
		"the mapping of a block's labels can be skipped: a block filled by one supervoxel that was merged into another body is returned with the supervoxel's id on mapped reads, while label/<point>, sizes and sparse volumes give the body", w.fpos(f), w.renderPath(pth)...)
}

// ---------------------------------------------------------------------------------------------
// R14.20 — every entry of the vote table is compared with the winner so far

func init() {
	register(ruleDef{ID: "R14.20", Prop: "C14", Tier: "quick", Floor: 2,
		Title: "every entry of the vote table is compared with the winner so far: in the labels package, in each loop over a label→votes map that picks a winner, every way round the loop passes the comparison of the entry's votes with the winner's votes (an entry skipped because 'half the cell is taken' cannot lose a 4-4 tie to a smaller label)",
		Fn:    ruleEveryVoteCompared})
	register(ruleDef{ID: "R10.15", Prop: "C10", Tier: "quick", Floor: 2, Title: "(= R14.20) every entry of the vote table is compared with the winner so far", Fn: ruleEveryVoteCompared})
}

func ruleEveryVoteCompared(r *Run) {
	w := r.W
	n := 0
	for _, f := range w.RepoFuncs {
		if len(f.Blocks) == 0 || relPkg(pkgPathOf(f)) != "datatype/common/labels" || isTestFunc(w, f) {
			continue
		}
		for _, b := range f.Blocks {
			for _, in := range b.Instrs {
				nx, ok := in.(*ssa.Next)
				if !ok {
					continue
				}
				rg, ok := nx.Iter.(*ssa.Range)
				if !ok {
					continue
				}
				mt, ok := rg.X.Type().Underlying().(*types.Map)
				if !ok || mt.Key().String() != "uint64" || mt.Elem().String() != "int" {
					continue
				}
				var votes ssa.Value
				for _, ref := range *nx.Referrers() {
					if ex, ok := ref.(*ssa.Extract); ok && ex.Index == 2 {
						votes = ex
					}
				}
				if votes == nil {
					continue
				}
				// only loops that compare votes at all (pick a winner)
				isCmp := func(x ssa.Instruction) bool {
					bo, ok := x.(*ssa.BinOp)
					if !ok {
						return false
					}
					switch bo.Op {
					case token.LSS, token.GTR, token.LEQ, token.GEQ:
						return stripConv(bo.X) == votes || stripConv(bo.Y) == votes
					}
					return false
				}
				picks := false
				_, set, _ := innermostLoop(f, b)
				for bb := range set {
					for _, x := range bb.Instrs {
						if isCmp(x) {
							picks = true
						}
					}
				}
				if !picks {
					continue
				}
				n++
				// from the entry's extraction to the Next again
				var pth []ssa.Instruction
				if vi, ok := votes.(ssa.Instruction); ok {
					pth = findPath(f, vi, isCmp, func(x ssa.Instruction) bool { return x == ssa.Instruction(nx) }, nil)
				}
				r.check(pth == nil, fmt.Sprintf("%s:vote-loop#%d:every-entry-compared", fname(f), n), "every way round the loop compares the entry's votes with the winner's",
					"a pass of the loop over the vote table can go round without comparing the entry with the winner so far: a label that ties the winner at four votes is skipped, and which of the two labels the lower-resolution voxel gets depends on the map's iteration order instead of the smaller label winning", w.pos(nx.Pos()), w.renderPath(pth)...)
			}
		}
	}
	r.check(n >= 1, "labels:vote-loops", fmt.Sprintf("%d", n), "none found: rule needs review", "-")
}

// ---------------------------------------------------------------------------------------------
// R8.33 — the rollback of a supervoxel split covers every saved block

func init() {
	register(ruleDef{ID: "R8.33", Prop: "C08", Tier: "quick", Floor: 2,
		Title: "the rollback of a refused supervoxel split covers every saved block: in labelmap.Data.SplitSupervoxel the count handed to restoreOldBlocks is the counter that indexed the saves into the list of original blocks (a count of errors, or any other number, leaves rewritten blocks with split/remain ids that no index or mapping knows)",
		Fn:    ruleRollbackCoversSavedBlocks})
}

func ruleRollbackCoversSavedBlocks(r *Run) {
	w := r.W
	f := w.method("datatype/labelmap", "Data", "SplitSupervoxel")
	if f == nil || len(f.Blocks) == 0 {
		r.undecided("labelmap.Data.SplitSupervoxel", "anchor not found")
		return
	}
	web := func(v ssa.Value) map[ssa.Value]bool {
		out := map[ssa.Value]bool{}
		var walk func(x ssa.Value)
		walk = func(x ssa.Value) {
			x = stripConv(x)
			if out[x] {
				return
			}
			out[x] = true
			switch y := x.(type) {
			case *ssa.Phi:
				for _, e := range y.Edges {
					walk(e)
				}
			case *ssa.BinOp:
				if y.Op == token.ADD {
					walk(y.X)
				}
			}
		}
		walk(v)
		return out
	}
	n := 0
	for _, c := range calls(f) {
		if methodNameOf(c) != "restoreOldBlocks" {
			continue
		}
		args := c.Common().Args
		if len(args) < 4 {
			continue
		}
		cnt, blks := args[len(args)-2], args[len(args)-1]
		n++
		cw := web(cnt)
		ok := false
		for _, b := range f.Blocks {
			for _, in := range b.Instrs {
				st, isSt := in.(*ssa.Store)
				if !isSt {
					continue
				}
				ia, isIA := st.Addr.(*ssa.IndexAddr)
				if !isIA || !(ia.X == blks || sameRoots(ia.X, blks, f)) {
					continue
				}
				for v := range web(ia.Index) {
					if _, isK := v.(*ssa.Const); isK {
						continue
					}
					if cw[v] {
						ok = true
					}
				}
			}
		}
		r.check(ok, fmt.Sprintf("SplitSupervoxel:restoreOldBlocks#%d:count-is-the-save-counter", n), "the count is the counter that indexed the saved blocks",
			"the number of blocks handed to the rollback is not the counter under which the original blocks were saved: after a refused split some rewritten blocks are not restored and keep supervoxel ids that belong to no index or mapping", w.pos(c.Pos()))
	}
	r.check(n >= 2, "SplitSupervoxel:rollbacks", fmt.Sprintf("%d", n), "too few found: rule needs review", w.fpos(f))
}
