// dvidlint: repository-specific static analyser deciding structural necessary conditions of the
// dvid properties C01..C20 (see /verif/DESIGN.md).  Nothing in dvid is executed.
package main

import (
	"flag"
	"fmt"
	"os"
	"runtime/debug"
	"sort"
	"strconv"
	"strings"
	"time"
)

// A ruleFunc analyses the loaded program and records obligations on the Run.
type ruleFunc func(r *Run)

type ruleDef struct {
	ID    string // "R2.1"
	Prop  string // "C02"
	Tier  string // "quick" or "thorough" (thorough rules run only in the thorough tier)
	Title string // one line: what is decided
	Floor int    // minimal number of obligations the rule must produce (never vacuous)
	Fn    ruleFunc
}

var rules []ruleDef

func register(d ruleDef) { rules = append(rules, d) }

func main() {
	prop := flag.String("prop", "", "property id (C01..C20) or 'all'")
	tier := flag.String("tier", "quick", "quick|thorough")
	repo := flag.String("repo", "/repo", "repository root")
	verif := flag.String("verif", "/verif", "verif root (evidence, known findings)")
	only := flag.String("rule", "", "run only this rule id (debug)")
	verbose := flag.Bool("v", false, "print every obligation")
	noEvidence := flag.Bool("noevidence", false, "do not write evidence (debug)")
	dump := flag.String("dump", "", "debug: print the SSA of functions whose name contains this string and exit")
	flag.Parse()
	if *dump != "" {
		w, err := loadWorld(*repo, defaultTags)
		if err != nil {
			fmt.Println(err)
			os.Exit(2)
		}
		for _, f := range w.RepoFuncs {
			if strings.Contains(fname(f), *dump) {
				f.WriteTo(os.Stdout)
			}
		}
		os.Exit(0)
	}
	if *prop == "" {
		fmt.Fprintln(os.Stderr, "usage: dvidlint -prop C02 [-tier quick|thorough]")
		os.Exit(2)
	}
	if e := os.Getenv("VERIF_TIER"); e != "" && (e == "quick" || e == "thorough") {
		// explicit flag wins when given on the command line; env only fills the default
		set := false
		flag.Visit(func(f *flag.Flag) {
			if f.Name == "tier" {
				set = true
			}
		})
		if !set {
			*tier = e
		}
	}
	seed := 0
	if s := os.Getenv("VERIF_SEED"); s != "" {
		if v, err := strconv.Atoi(s); err == nil {
			seed = v
		}
	}
	t0 := time.Now()

	props := []string{*prop}
	if *prop == "all" {
		seen := map[string]bool{}
		props = nil
		for _, d := range rules {
			if !seen[d.Prop] {
				seen[d.Prop] = true
				props = append(props, d.Prop)
			}
		}
		sort.Strings(props)
	}

	exit := 0
	var world *World
	func() {
		defer func() {
			if p := recover(); p != nil {
				fmt.Printf("ERROR: analyser panic while loading: %v\n%s\n", p, debug.Stack())
				exit = 2
			}
		}()
		var err error
		world, err = loadWorld(*repo, defaultTags)
		if err != nil {
			fmt.Printf("ERROR: cannot load %s: %v\n", *repo, err)
			exit = 2
		}
	}()
	if exit != 0 {
		os.Exit(exit)
	}
	kf, err := loadKnownFindings(*verif + "/known_findings.json")
	if err != nil {
		fmt.Printf("ERROR: known_findings.json: %v\n", err)
		os.Exit(2)
	}

	for _, p := range props {
		run := &Run{W: world, Prop: p, Tier: *tier, Seed: seed, Known: kf, Verbose: *verbose, start: time.Now()}
		n := 0
		for _, d := range rules {
			if d.Prop != p {
				continue
			}
			if *only != "" && d.ID != *only {
				continue
			}
			if d.Tier == "thorough" && *tier != "thorough" {
				continue
			}
			n++
			run.runRule(d)
		}
		if n == 0 {
			fmt.Printf("ERROR: no rule registered for property %s (tier %s)\n", p, *tier)
			exit = 2
			continue
		}
		if *tier == "thorough" && *only == "" {
			run.crossBuild(*repo)
		}
		code := run.finish(*verif, !*noEvidence && *only == "")
		if code > exit {
			exit = code
		}
	}
	if *prop == "all" {
		fmt.Printf("total wall %.1fs\n", time.Since(t0).Seconds())
	}
	os.Exit(exit)
}

func (r *Run) runRule(d ruleDef) {
	r.cur = d
	before := len(r.Obls)
	func() {
		defer func() {
			if p := recover(); p != nil {
				st := string(debug.Stack())
				if len(st) > 3000 {
					st = st[:3000]
				}
				r.undecided(d.ID+":panic", fmt.Sprintf("analyser panic in rule %s: %v\n%s", d.ID, p, st))
			}
		}()
		d.Fn(r)
	}()
	got := len(r.Obls) - before
	r.RuleCounts = append(r.RuleCounts, fmt.Sprintf("%s: %d obligations (floor %d) — %s", d.ID, got, d.Floor, d.Title))
	if got < d.Floor {
		r.undecided(d.ID+":floor", fmt.Sprintf("rule %s produced %d obligations, below its floor %d: the constructs it is anchored on were not found (refactored away or analyser broken)", d.ID, got, d.Floor))
	}
}

func short(s string, n int) string {
	s = strings.TrimSpace(s)
	if len(s) > n {
		return s[:n] + "…"
	}
	return s
}
