package main

import (
	"fmt"
	"go/token"
	"go/types"
	"strings"

	"golang.org/x/tools/go/ssa"
)

// Rules shared between properties (one mechanism, several properties depend on it) and rules added
// after seeded changes showed a gap.

func init() {
	// the neuronjson in-memory database is shared state of concurrent requests (C11) as well as a cache (C16)
	register(ruleDef{ID: "R11.6", Prop: "C11", Tier: "quick", Floor: 4,
		Title: "guarded-by (shared with R16.2): the neuronjson in-memory database's maps and sorted id list are modified only with its mutex write-held",
		Fn:    ruleR16_2})
	// the labelmap mapping visibility table decides what a committed ancestor sees (C02) and what a restart rebuilds (C03)
	register(ruleDef{ID: "R2.8", Prop: "C02", Tier: "quick", Floor: 3,
		Title: "mapping visibility (shared with R8.3): a version's mapping table contains itself and its ancestors only, so a mapping made in a descendant never changes what a committed version shows",
		Fn:    ruleR8_3})
	register(ruleDef{ID: "R3.8", Prop: "C03", Tier: "quick", Floor: 3,
		Title: "mapping replay (shared with R8.3): the replay at start-up applies each version's log under that version and builds each version's visibility table from its own ancestry",
		Fn:    ruleR8_3})
	register(ruleDef{ID: "R2.9", Prop: "C02", Tier: "quick", Floor: 3,
		Title: "range delete (shared with R5.4): keys found by the scan are deleted through a batch of the request's own context (tombstone at the request's version), never by deleting the stored key of an ancestor version",
		Fn:    ruleR5_4})
	register(ruleDef{ID: "R3.9", Prop: "C03", Tier: "quick", Floor: 2,
		Title: "append-only logs: every open of a mutation-log file for writing appends (O_APPEND), so earlier records survive later writes",
		Fn:    ruleLogAppendOnly})
	register(ruleDef{ID: "R4.5", Prop: "C04", Tier: "quick", Floor: 2,
		Title: "append-only logs (shared with R3.9): every open of a mutation-log file for writing appends (O_APPEND)",
		Fn:    ruleLogAppendOnly})
	register(ruleDef{ID: "R7.7", Prop: "C07", Tier: "quick", Floor: 2,
		Title: "rejected requests leave nothing behind: newVersion and merge allocate the child's UUID/version id only after every validation has passed (no validation failure is reachable after the allocation)",
		Fn:    ruleR7_7})
	register(ruleDef{ID: "R13.6", Prop: "C13", Tier: "quick", Floor: 2,
		Title: "removed tags: when an element is overwritten without tags, every tag it had is reported removed (the result is built from the old tags, never an empty set)",
		Fn:    ruleR13_6})
	register(ruleDef{ID: "R13.7", Prop: "C13", Tier: "quick", Floor: 2,
		Title: "labelsz views move together: whenever a body's count key is rewritten or deleted, the ranking key of its previous count is deleted in the same batch",
		Fn:    ruleR13_7})
}

// ---------------------------------------------------------------------------------------------

func ruleLogAppendOnly(r *Run) {
	w := r.W
	const (
		oWRONLY = 0x1
		oRDWR   = 0x2
		oAPPEND = 0x400
	)
	n := 0
	for _, f := range w.RepoFuncs {
		if relPkg(pkgPathOf(f)) != "storage/filelog" || len(f.Blocks) == 0 || strings.HasSuffix(w.fposFile(f), "_test.go") {
			continue
		}
		k := 0
		for _, c := range calls(f) {
			callee := c.Common().StaticCallee()
			if callee == nil || callee.Name() != "OpenFile" || callee.Pkg == nil || callee.Pkg.Pkg.Path() != "os" {
				continue
			}
			flag, ok := constInt(c.Common().Args[1])
			if !ok {
				r.violation(fname(f)+":OpenFile:flags", "log file opened with flags that are not a compile-time constant", w.pos(c.Pos()))
				continue
			}
			if flag&(oWRONLY|oRDWR) == 0 {
				continue
			}
			k++
			n++
			r.check(flag&oAPPEND != 0, fmt.Sprintf("%s:OpenFile#%d:append", fname(f), k), "write handle opened with O_APPEND",
				"a mutation-log file is opened for writing without O_APPEND: the next record is written at offset 0 over the earlier records, which a restart then cannot replay", w.pos(c.Pos()))
		}
	}
	r.check(n >= 1, "storage/filelog:write-opens", fmt.Sprintf("%d write opens", n), "write opens of log files not found", "-")
}

// ---------------------------------------------------------------------------------------------

func ruleR7_7(r *Run) {
	w := r.W
	for _, name := range []string{"newVersion", "merge"} {
		f := w.method("datastore", "repoManager", name)
		if f == nil {
			r.violation("repoManager."+name, "not found", "-")
			continue
		}
		var alloc ssa.CallInstruction
		for _, c := range calls(f) {
			if nm := callName(c); nm == "newUUID" {
				alloc = c
			}
		}
		if alloc == nil {
			r.violation("repoManager."+name+":allocates-id", "the id allocation (newUUID) was not found", w.fpos(f))
			continue
		}
		// a validation failure: a return whose error is made here (fmt.Errorf / errors.New / package error value),
		// as opposed to the error of a callee (persistence).  Its identity is the error variable or format string.
		validationID := func(in ssa.Instruction) string {
			ret, ok := in.(*ssa.Return)
			if !ok || len(ret.Results) == 0 {
				return ""
			}
			ev := ret.Results[len(ret.Results)-1]
			if !isErrorType(ev.Type()) {
				return ""
			}
			// a spilled error variable: the store that reaches this return decides
			if ld, ok := ev.(*ssa.UnOp); ok && ld.Op == token.MUL {
				if al, ok := ld.X.(*ssa.Alloc); ok {
					if v := lastStoreBefore(al, ld); v != nil {
						ev = v
					}
				}
			}
			if _, ok := ev.(*ssa.Extract); ok {
				return "" // the error of a callee
			}
			for _, rt := range roots(ev, f) {
				switch x := rt.V.(type) {
				case *ssa.Call:
					if callee := x.Call.StaticCallee(); callee != nil && callee.Pkg != nil {
						p := callee.Pkg.Pkg.Path()
						if (p == "fmt" && callee.Name() == "Errorf") || (p == "errors" && callee.Name() == "New") {
							if s, ok := constString(x.Call.Args[0]); ok {
								return "msg:" + s
							}
							return "msg:?"
						}
					}
				case *ssa.UnOp:
					if g, isG := x.X.(*ssa.Global); isG {
						return "var:" + g.Name()
					}
				}
			}
			return ""
		}
		// validations already made before the allocation (a later re-check of the same condition, e.g. when
		// linking the parents, cannot reject a request the first check let through)
		before := map[string]bool{}
		for _, b := range f.Blocks {
			ret, ok := b.Instrs[len(b.Instrs)-1].(*ssa.Return)
			if !ok {
				continue
			}
			id := validationID(ret)
			if id == "" {
				continue
			}
			if findPath(f, nil, func(in ssa.Instruction) bool { return in == ssa.Instruction(alloc) }, func(in ssa.Instruction) bool { return in == ssa.Instruction(ret) }, nil) != nil {
				before[id] = true
			}
		}
		isValidationExit := func(in ssa.Instruction) bool {
			id := validationID(in)
			return id != "" && !before[id]
		}
		p := findPath(f, alloc, func(ssa.Instruction) bool { return false }, isValidationExit, nil)
		r.check(p == nil, "repoManager."+name+":no-validation-after-id-allocation", "no locally made (validation) error can be returned once the UUID/version id has been allocated",
			name+" registers the new UUID and version id and can still reject the request afterwards: the rejected request leaves a UUID that resolves to a version without a node, and a retry with the same caller-assigned UUID is refused", w.pos(alloc.Pos()), w.renderPath(p)...)
	}
}

// ---------------------------------------------------------------------------------------------

func ruleR13_6(r *Run) {
	w := r.W
	f := w.method("datatype/annotation", "Tags", "Removed")
	if f == nil {
		r.violation("annotation.Tags.Removed", "not found", "-")
		return
	}
	var t, t2 *ssa.Parameter
	if len(f.Params) == 2 {
		t, t2 = f.Params[0], f.Params[1]
	} else {
		r.undecided("annotation.Tags.Removed", "unexpected signature")
		return
	}
	lenOf := func(v ssa.Value) *ssa.Parameter {
		c, ok := v.(*ssa.Call)
		if !ok {
			return nil
		}
		bi, ok := c.Call.Value.(*ssa.Builtin)
		if !ok || bi.Name() != "len" {
			return nil
		}
		for _, rt := range roots(c.Call.Args[0], f) {
			if p, ok := rt.V.(*ssa.Parameter); ok {
				return p
			}
		}
		return nil
	}
	// assume len(t) != 0 and len(t2) == 0
	ef := func(b *ssa.BasicBlock, i int) bool {
		ifi, ok := b.Instrs[len(b.Instrs)-1].(*ssa.If)
		if !ok {
			return true
		}
		bo, ok := ifi.Cond.(*ssa.BinOp)
		if !ok || !(bo.Op == token.EQL || bo.Op == token.NEQ) {
			return true
		}
		k, isK := constInt(bo.Y)
		p := lenOf(bo.X)
		if !isK || k != 0 || p == nil {
			return true
		}
		isZero := p == t2
		if p != t && p != t2 {
			return true
		}
		truth := isZero
		if bo.Op == token.NEQ {
			truth = !isZero
		}
		if truth {
			return i == 0
		}
		return i == 1
	}
	// values built from t
	fromT := map[ssa.Value]bool{}
	isT := func(v ssa.Value) bool {
		for _, rt := range roots(v, f) {
			if rt.V == ssa.Value(t) {
				return true
			}
		}
		return false
	}
	changed := true
	for changed {
		changed = false
		for _, b := range f.Blocks {
			for _, in := range b.Instrs {
				v, ok := in.(ssa.Value)
				if !ok || fromT[v] {
					continue
				}
				mark := false
				switch x := in.(type) {
				case *ssa.Call:
					if bi, ok := x.Call.Value.(*ssa.Builtin); ok {
						switch bi.Name() {
						case "append":
							// appended element read from t (through a slice literal holding t[i])
							for _, a := range x.Call.Args[1:] {
								if sliceHoldsElemOf(a, t, f) {
									mark = true
								}
							}
							if fromT[x.Call.Args[0]] {
								mark = true
							}
						}
					}
				case *ssa.MakeSlice:
					// destination of copy(dst, t)
					for _, b2 := range f.Blocks {
						for _, in2 := range b2.Instrs {
							if c, ok := in2.(*ssa.Call); ok {
								if bi, ok := c.Call.Value.(*ssa.Builtin); ok && bi.Name() == "copy" {
									if stripConv(c.Call.Args[0]) == ssa.Value(x) && isT(c.Call.Args[1]) {
										mark = true
									}
								}
							}
						}
					}
				case *ssa.Phi:
					for _, e := range x.Edges {
						if fromT[e] {
							mark = true
						}
					}
				case *ssa.ChangeType:
					mark = fromT[x.X] || isT(x.X)
				case *ssa.Slice:
					mark = fromT[x.X] || isT(x.X)
				}
				if mark {
					fromT[v] = true
					changed = true
				}
			}
		}
	}
	// feasible returns under the assumption
	bad := ""
	n := 0
	reach := map[*ssa.BasicBlock]bool{f.Blocks[0]: true}
	work := []*ssa.BasicBlock{f.Blocks[0]}
	for len(work) > 0 {
		b := work[len(work)-1]
		work = work[:len(work)-1]
		for i, s := range b.Succs {
			if ef(b, i) && !reach[s] {
				reach[s] = true
				work = append(work, s)
			}
		}
	}
	for b := range reach {
		ret, ok := b.Instrs[len(b.Instrs)-1].(*ssa.Return)
		if !ok {
			continue
		}
		n++
		v := stripConv(ret.Results[0])
		if !(fromT[v] || isT(v)) {
			bad = w.pos(ret.Pos())
		}
	}
	r.check(n > 0 && bad == "", "annotation.Tags.Removed:all-old-tags-when-replacement-has-none", "with old tags present and no new tags, every feasible return yields a value built from the old tags",
		"Tags.Removed can return a set not built from the old tags (an empty set) when the replacement element has no tags: the element stays listed under its former tags", firstNonEmpty(bad, w.fpos(f)))
	// and the general path filters t by absence in t2
	hasLookup := false
	for _, b := range f.Blocks {
		for _, in := range b.Instrs {
			if lk, ok := in.(*ssa.Lookup); ok && lk.CommaOk {
				hasLookup = true
			}
		}
	}
	r.check(hasLookup, "annotation.Tags.Removed:filters-by-membership", "old tags are tested for membership in the new tag set", "Tags.Removed no longer tests old tags against the new tag set", w.fpos(f))
}

// sliceHoldsElemOf: v is a (varargs) slice whose backing array received an element loaded from param p.
func sliceHoldsElemOf(v ssa.Value, p *ssa.Parameter, f *ssa.Function) bool {
	sl, ok := v.(*ssa.Slice)
	if !ok {
		return false
	}
	al, ok := sl.X.(*ssa.Alloc)
	if !ok {
		return false
	}
	for _, ref := range *al.Referrers() {
		ia, ok := ref.(*ssa.IndexAddr)
		if !ok {
			continue
		}
		for _, r2 := range *ia.Referrers() {
			st, ok := r2.(*ssa.Store)
			if !ok {
				continue
			}
			// element of p: load of IndexAddr(p, i) or range extract over p
			val := stripConv(st.Val)
			if ld, ok := val.(*ssa.UnOp); ok {
				if ia2, ok := ld.X.(*ssa.IndexAddr); ok {
					for _, rt := range roots(ia2.X, f) {
						if rt.V == ssa.Value(p) {
							return true
						}
					}
				}
			}
		}
	}
	return false
}

// ---------------------------------------------------------------------------------------------

func ruleR13_7(r *Run) {
	w := r.W
	n := 0
	for _, f := range w.RepoFuncs {
		if relPkg(pkgPathOf(f)) != "datatype/labelsz" || len(f.Blocks) == 0 || f.Parent() != nil || strings.HasSuffix(w.fposFile(f), "_test.go") {
			continue
		}
		keyCallOf := func(v ssa.Value) *ssa.Call {
			for _, rt := range roots(v, f) {
				if c, ok := rt.V.(*ssa.Call); ok {
					return c
				}
			}
			return nil
		}
		// batch writes of the count key
		var countWrites []ssa.CallInstruction
		for _, c := range calls(f) {
			if !c.Common().IsInvoke() {
				continue
			}
			nm := c.Common().Method.Name()
			if nm != "Put" && nm != "Delete" {
				continue
			}
			if _, isBatch := c.Common().Value.Type().Underlying().(*types.Interface); !isBatch || !typeIs(c.Common().Value.Type(), "storage", "Batch") {
				continue
			}
			if kc := keyCallOf(c.Common().Args[0]); kc != nil && callName(kc) == "NewTypeLabelTKey" {
				countWrites = append(countWrites, c)
			}
		}
		if len(countWrites) == 0 {
			continue
		}
		// the old count: commaok lookup in the counts map
		var lk *ssa.Lookup
		for _, b := range f.Blocks {
			for _, in := range b.Instrs {
				if l, ok := in.(*ssa.Lookup); ok && l.CommaOk {
					if m, ok := l.X.Type().Underlying().(*types.Map); ok {
						if bt, ok := m.Elem().Underlying().(*types.Basic); ok && bt.Kind() == types.Uint32 {
							lk = l
						}
					}
				}
			}
		}
		if lk == nil {
			r.undecided(fname(f)+":old-count", "the lookup of the previous count was not found")
			continue
		}
		var oldCount, found ssa.Value
		for _, ref := range *lk.Referrers() {
			if ex, ok := ref.(*ssa.Extract); ok {
				if ex.Index == 0 {
					oldCount = ex
				} else {
					found = ex
				}
			}
		}
		isOldRankDelete := func(in ssa.Instruction) bool {
			c, ok := in.(ssa.CallInstruction)
			if !ok || !c.Common().IsInvoke() || c.Common().Method.Name() != "Delete" {
				return false
			}
			kc := keyCallOf(c.Common().Args[0])
			if kc == nil || callName(kc) != "NewTypeSizeLabelTKey" {
				return false
			}
			return stripConv(kc.Call.Args[1]) == oldCount
		}
		assumeFound := func(b *ssa.BasicBlock, i int) bool {
			ifi, ok := b.Instrs[len(b.Instrs)-1].(*ssa.If)
			if ok && found != nil && ifi.Cond == found {
				return i == 0
			}
			return true
		}
		for k, cw := range countWrites {
			n++
			// reached from the lookup without the old-rank delete, and leaving the iteration (next lookup or return) still without it
			pre := findPath(f, lk, isOldRankDelete, func(in ssa.Instruction) bool { return in == ssa.Instruction(cw) }, assumeFound)
			var post []ssa.Instruction
			if pre != nil {
				post = findPath(f, cw, isOldRankDelete, func(in ssa.Instruction) bool {
					if in == ssa.Instruction(lk) {
						return true
					}
					_, isRet := in.(*ssa.Return)
					return isRet
				}, assumeFound)
			}
			r.check(pre == nil || post == nil, fmt.Sprintf("%s:count-key-write#%d:old-ranking-key-deleted", fname(f), k+1),
				"whenever the count key is rewritten/deleted for a body that had a count, the ranking key of that previous count is deleted in the same iteration",
				"the count of a body can be rewritten or deleted while the ranking key of its previous count stays: top/threshold queries keep listing the body with its old count", w.pos(cw.Pos()), w.renderPath(append(pre, post...))...)
		}
	}
	r.check(n >= 2, "labelsz:count-key-writers", fmt.Sprintf("%d batch writes of count keys", n), "batch writes of labelsz count keys not found", "-")
}

func init() {
	register(ruleDef{ID: "R2.10", Prop: "C02", Tier: "quick", Floor: 1,
		Title: "the commit is durable: once a node's locked flag is set, every successful return of commit has passed the repo save (a restart must not reopen a committed version for writing)",
		Fn:    ruleR2_10})
}

func ruleR2_10(r *Run) {
	w := r.W
	f := w.method("datastore", "repoManager", "commit")
	if f == nil {
		r.violation("repoManager.commit", "not found", "-")
		return
	}
	n := 0
	for _, st := range fieldStores(f, "nodeT", "locked") {
		n++
		isSave := func(in ssa.Instruction) bool { return w.performs(in, []string{"save", "saveToStore"}, 2) }
		p := findPath(f, st, isSave, successExit, nil)
		r.check(p == nil, "repoManager.commit:locked-flag-saved", "after node.locked is set every success exit passes the repo save",
			"commit can set the locked flag in memory and return success without saving the repo: after a restart the version is open again and accepts writes although it was committed", w.pos(st.Pos()), w.renderPath(p)...)
	}
	r.check(n > 0, "repoManager.commit:sets-locked", "commit sets the locked flag", "commit no longer sets nodeT.locked: rule needs review", w.fpos(f))
}

func init() {
	register(ruleDef{ID: "R2.7", Prop: "C02", Tier: "quick", Floor: 4,
		Title: "id counters (shared with R12.1): version/repo/instance id counters are incremented under idMutex and persisted after the increment; a counter that falls back after a restart hands a committed version's id to a new, writable version",
		Fn:    func(r *Run) { checkCounterPersist(r) }})
	register(ruleDef{ID: "R4.6", Prop: "C04", Tier: "quick", Floor: 4,
		Title: "id counters (shared with R12.1): every increment of an id counter is persisted before the operation is acknowledged, so a crash afterwards cannot re-issue the id",
		Fn:    func(r *Run) { checkCounterPersist(r) }})
	register(ruleDef{ID: "R4.7", Prop: "C04", Tier: "quick", Floor: 6,
		Title: "log writer/replay agreement (shared with R3.5): every acknowledged mapping change is appended to the mutation log with a record type the start-up replay applies",
		Fn:    ruleR3_5})
}

func init() {
	register(ruleDef{ID: "R2.11", Prop: "C02", Tier: "quick", Floor: 3,
		Title: "conflict resolution writes only into extension versions: the version DeleteConflicts deletes under is that of a node created for the purpose (newVersion) or of a supplied extension that is proved different from the committed parent, and it is the version of the very UUID recorded as the extension",
		Fn:    ruleR2_11})
}

// sameElem: both values are loads of the same slice at the same index value.
func sameElem(a, b ssa.Value) bool {
	a, b = stripConv(a), stripConv(b)
	if a == b {
		return true
	}
	la, ok1 := a.(*ssa.UnOp)
	lb, ok2 := b.(*ssa.UnOp)
	if !ok1 || !ok2 {
		return false
	}
	ia, ok1 := la.X.(*ssa.IndexAddr)
	ib, ok2 := lb.X.(*ssa.IndexAddr)
	return ok1 && ok2 && ia.X == ib.X && ia.Index == ib.Index
}

func ruleR2_11(r *Run) {
	w := r.W
	dc := w.fn("datastore", "DeleteConflicts")
	one := w.fn("datastore", "deleteConflict")
	if dc == nil || one == nil {
		r.violation("datastore.DeleteConflicts", "not found", "-")
		return
	}
	// extensionNode literals in DeleteConflicts: stores into fields of a fresh extensionNode
	type lit struct {
		al                  ssa.Value
		oldUUID, newUUID, newV ssa.Value
		pos                 token.Pos
	}
	lits := map[ssa.Value]*lit{}
	for _, b := range dc.Blocks {
		for _, in := range b.Instrs {
			st, ok := in.(*ssa.Store)
			if !ok {
				continue
			}
			fa, ok := st.Addr.(*ssa.FieldAddr)
			if !ok || !typeIs(fa.X.Type(), "datastore", "extensionNode") {
				continue
			}
			l := lits[fa.X]
			if l == nil {
				l = &lit{al: fa.X, pos: st.Pos()}
				lits[fa.X] = l
			}
			nm, _, _ := fieldName(fa)
			switch nm {
			case "oldUUID":
				l.oldUUID = st.Val
			case "newUUID":
				l.newUUID = st.Val
			case "newV":
				l.newV = st.Val
			}
		}
	}
	n := 0
	for _, l := range lits {
		if l.newV == nil {
			continue
		}
		if _, isConst := l.newV.(*ssa.Const); isConst {
			continue // no extension yet: deleteConflict creates one
		}
		n++
		// (a) newV = versionFromUUID(newUUID)
		okSame := false
		var vcall *ssa.Call
		if ex, ok := l.newV.(*ssa.Extract); ok {
			if c, ok := ex.Tuple.(*ssa.Call); ok && callName(c) == "versionFromUUID" {
				vcall = c
				args := c.Call.Args
				okSame = l.newUUID != nil && sameElem(args[len(args)-1], l.newUUID)
			}
		}
		r.check(okSame, "datastore.DeleteConflicts:extension-version-is-of-extension-uuid", "the version deletions are written under is versionFromUUID of the UUID recorded as the extension",
			"the version used for conflict deletions is not the version of the UUID recorded as the parent's extension (e.g. the committed parent's own version): tombstones are written into a committed version", w.pos(l.pos))
		// (b) the supplied extension is proved different from the committed parent
		okDiff := false
		if vcall != nil && l.oldUUID != nil {
			for _, b := range dc.Blocks {
				ifi, ok := b.Instrs[len(b.Instrs)-1].(*ssa.If)
				if !ok {
					continue
				}
				bo, ok := ifi.Cond.(*ssa.BinOp)
				if !ok || bo.Op != token.NEQ {
					continue
				}
				x, y := bo.X, bo.Y
				match := (sameElem(x, l.newUUID) && sameElem(y, l.oldUUID)) || (sameElem(y, l.newUUID) && sameElem(x, l.oldUUID))
				if match && guardedByEdge(ifi, 0, vcall) {
					okDiff = true
				}
			}
		}
		r.check(okDiff, "datastore.DeleteConflicts:supplied-extension-differs-from-parent", "a supplied extension is used only when it differs from the (committed) parent it extends",
			"DeleteConflicts accepts the committed parent itself as its own writable extension (the resolve handler feeds the parent's UUID back for parents that needed no deletion on an earlier data instance): conflict tombstones of a later data instance are written into the committed parent", w.pos(l.pos))
	}
	r.check(n >= 1, "datastore.DeleteConflicts:extension-records", fmt.Sprintf("%d supplied-extension records", n), "extension records not found", w.fpos(dc))
	// deleteConflict: the delete's context version is the extension's version, created by newVersion when absent
	okCtx, okNew := false, false
	for _, c := range calls(one) {
		if callName(c) == "newVersion" {
			okNew = true
		}
		if callName(c) == "NewVersionedCtx" {
			if ld, ok := stripConv(c.Common().Args[1]).(*ssa.UnOp); ok {
				if fa, ok := ld.X.(*ssa.FieldAddr); ok {
					if nm, _, _ := fieldName(fa); nm == "newV" {
						okCtx = true
					}
				}
			}
		}
	}
	r.check(okCtx && okNew, "datastore.deleteConflict:deletes-under-extension-version", "the tombstone is written under the extension node's version; a missing extension is created by newVersion",
		"deleteConflict does not write under the extension node's version or no longer creates the extension", w.fpos(one))
}

func init() {
	register(ruleDef{ID: "R2.12", Prop: "C02", Tier: "quick", Floor: 2,
		Title: "the full-write override (which switches the committed-node gate off for every request) is turned on only by its own switch: SetFullWrite's argument or the \"fullwrite\" configuration mode; every other store to it is the constant false",
		Fn:    ruleR2_12})
}

func ruleR2_12(r *Run) {
	w := r.W
	n := 0
	for _, f := range w.RepoFuncs {
		if relPkg(pkgPathOf(f)) != "server" || len(f.Blocks) == 0 || strings.HasSuffix(w.fposFile(f), "_test.go") {
			continue
		}
		k := 0
		for _, b := range f.Blocks {
			for _, in := range b.Instrs {
				st, ok := in.(*ssa.Store)
				if !ok {
					continue
				}
				g, ok := st.Addr.(*ssa.Global)
				if !ok || g.Name() != "fullwrite" {
					continue
				}
				n++
				k++
				okS := false
				why := ""
				if c, isC := st.Val.(*ssa.Const); isC {
					if c.Value != nil && c.Value.String() == "false" {
						okS = true
					} else {
						// constant true: only under the "fullwrite" configuration mode
						for _, b2 := range f.Blocks {
							ifi, isIf := b2.Instrs[len(b2.Instrs)-1].(*ssa.If)
							if !isIf {
								continue
							}
							if bo, isBo := ifi.Cond.(*ssa.BinOp); isBo && bo.Op == token.EQL {
								if s, isS := constString(bo.Y); isS && s == "fullwrite" && guardedByEdge(ifi, 0, st) {
									okS = true
								}
							}
						}
						why = "set to true outside the \"fullwrite\" configuration mode"
					}
				} else if p, isP := st.Val.(*ssa.Parameter); isP && f.Name() == "SetFullWrite" && p.Type().String() == "bool" {
					okS = true
				} else {
					why = "set to a computed value (" + st.Val.String() + ")"
				}
				r.check(okS, fmt.Sprintf("%s:fullwrite-store#%d", fname(f), k), "the override is cleared, or set by its own switch",
					"the full-write override is "+why+": leaving read-only mode (e.g. at the end of the transfer-data command) turns the committed-node gate off, so committed versions accept writes from any request", w.pos(st.Pos()))
			}
		}
	}
	r.check(n >= 2, "server:fullwrite-stores", fmt.Sprintf("%d stores to the override", n), "stores to server.fullwrite not found", "-")
}

func init() {
	register(ruleDef{ID: "R14.6", Prop: "C14", Tier: "quick", Floor: 2,
		Title: "octant selection is defined for negative block coordinates: an array index derived from a block coordinate uses a non-negative reduction (& 1), never the signed remainder (% 2), matching the arithmetic shift that computes the parent block",
		Fn:    ruleR14_6})
	register(ruleDef{ID: "R20.10", Prop: "C20", Tier: "quick", Floor: 2,
		Title: "no negative array index from a signed remainder (shared with R14.6): an index computed as coordinate % k is negative for negative odd coordinates and panics",
		Fn:    ruleR14_6})
}

// remOfSignedCoord: v (an index expression) contains, through +, <<, |, * and conversions, a signed
// remainder whose dividend comes from a block/voxel coordinate.
func remOfSignedCoord(v ssa.Value, f *ssa.Function, depth int) *ssa.BinOp {
	if depth > 8 {
		return nil
	}
	switch x := v.(type) {
	case *ssa.Convert:
		return remOfSignedCoord(x.X, f, depth+1)
	case *ssa.BinOp:
		if x.Op == token.REM {
			if b, ok := x.X.Type().Underlying().(*types.Basic); ok && b.Info()&types.IsInteger != 0 && b.Info()&types.IsUnsigned == 0 {
				if _, _, isAxis := axisOf(x.X); isAxis {
					return x
				}
			}
			return nil
		}
		switch x.Op {
		case token.ADD, token.SHL, token.OR, token.MUL, token.SUB:
			if r := remOfSignedCoord(x.X, f, depth+1); r != nil {
				return r
			}
			return remOfSignedCoord(x.Y, f, depth+1)
		}
	case *ssa.Phi:
		for _, e := range x.Edges {
			if r := remOfSignedCoord(e, f, depth+1); r != nil {
				return r
			}
		}
	}
	return nil
}

func ruleR14_6(r *Run) {
	w := r.W
	n := 0
	for _, f := range w.RepoFuncs {
		if len(f.Blocks) == 0 || strings.HasSuffix(w.fposFile(f), "_test.go") {
			continue
		}
		p := relPkg(pkgPathOf(f))
		if !strings.HasPrefix(p, "datatype/") && p != "dvid" {
			continue
		}
		k := 0
		for _, b := range f.Blocks {
			for _, in := range b.Instrs {
				var idx ssa.Value
				switch x := in.(type) {
				case *ssa.IndexAddr:
					idx = x.Index
				case *ssa.Index:
					idx = x.Index
				default:
					continue
				}
				// only indices that combine coordinate components matter here
				if _, isConst := idx.(*ssa.Const); isConst {
					continue
				}
				uses := false
				var walk func(v ssa.Value, d int)
				walk = func(v ssa.Value, d int) {
					if d > 8 || uses {
						return
					}
					if _, _, ok := axisOf(v); ok {
						uses = true
						return
					}
					switch x := v.(type) {
					case *ssa.Convert:
						walk(x.X, d+1)
					case *ssa.BinOp:
						walk(x.X, d+1)
						walk(x.Y, d+1)
					}
				}
				walk(idx, 0)
				if !uses {
					continue
				}
				n++
				k++
				rem := remOfSignedCoord(idx, f, 0)
				r.check(rem == nil, fmt.Sprintf("%s:coordinate-index#%d", fname(f), k), "the index built from block coordinates uses no signed remainder",
					"an array index is built from `coordinate % k` of a signed block coordinate: for negative odd coordinates the remainder is −1, the index is negative and the access panics (blocks at negative coordinates can never be down-sampled)", w.pos(in.Pos()))
			}
		}
	}
	r.check(n >= 2, "repo:coordinate-derived-indices", fmt.Sprintf("%d array accesses indexed by block-coordinate arithmetic", n), "no coordinate-derived array index found: rule needs review", "-")
}

func init() {
	register(ruleDef{ID: "R14.7", Prop: "C14", Tier: "quick", Floor: 1,
		Title: "absent octants mean 'unchanged' on every path: the solid-block shortcut of Block.Downres is not taken when an octant is nil (the general path keeps the parent's stored content for nil octants)",
		Fn:    ruleR14_7})
}

func ruleR14_7(r *Run) {
	w := r.W
	sb := w.method("datatype/common/labels", "Block", "setBlank")
	if sb == nil {
		// the single-use shortcut may have been inlined into its caller
		sb = w.method("datatype/common/labels", "Block", "Downres")
	}
	slow := w.method("datatype/common/labels", "Block", "DownresSlow")
	if sb == nil || slow == nil {
		r.violation("labels.Block.setBlank/DownresSlow", "not found", "-")
		return
	}
	// the general path: nil octants are skipped and the result starts from the block's own content
	keeps := false
	for _, c := range calls(slow) {
		if callName(c) == "MakeLabelVolume" {
			if rp := recvParam(slow); rp != nil && len(c.Common().Args) > 0 {
				a := c.Common().Args[0]
				if ld, ok := a.(*ssa.UnOp); ok {
					a = ld.X
				}
				if a == ssa.Value(rp) {
					keeps = true
				}
			}
		}
	}
	r.check(keeps, "labels.Block.DownresSlow:nil-octant-keeps-stored-content", "with an absent octant the result starts from the block's own voxels", "DownresSlow no longer starts from the stored block when octants are absent", w.fpos(slow))
	// ... and the zero-filled buffer is out of reach once an octant was found absent
	{
		var zeroBufs []ssa.Instruction
		for _, c := range calls(slow) {
			if callName(c) != "downresArray" {
				continue
			}
			for _, a := range c.Common().Args {
				for _, rt := range roots(a, slow) {
					if ms, ok := rt.V.(*ssa.MakeSlice); ok {
						zeroBufs = append(zeroBufs, ms)
					}
				}
			}
		}
		var wit []ssa.Instruction
		nTests := 0
		for _, b := range slow.Blocks {
			ifi, ok := b.Instrs[len(b.Instrs)-1].(*ssa.If)
			if !ok {
				continue
			}
			bo, ok := ifi.Cond.(*ssa.BinOp)
			if !ok || !(bo.Op == token.EQL || bo.Op == token.NEQ) || !isNilConst(bo.Y) {
				continue
			}
			if !strings.Contains(bo.X.Type().String(), "Block") {
				continue
			}
			nTests++
			nilSucc := b.Succs[0]
			if bo.Op == token.NEQ {
				nilSucc = b.Succs[1]
			}
			isZero := func(x ssa.Instruction) bool {
				for _, z := range zeroBufs {
					if x == z {
						return true
					}
				}
				return false
			}
			if len(nilSucc.Instrs) > 0 && isZero(nilSucc.Instrs[0]) {
				wit = []ssa.Instruction{nilSucc.Instrs[0]}
			} else if p := findPath2(slow, nilSucc.Instrs[0], nil, isZero, nil, phiConstBranch); p != nil && wit == nil {
				wit = p
			}
		}
		r.check(wit == nil && nTests >= 1, "labels.Block.DownresSlow:absent-octant-never-starts-from-zeros", "no zero-filled buffer is reachable behind an absent octant",
			"behind the test that found an octant absent the zero-filled result buffer can still be reached: the voxels of the absent octants, which mean 'unchanged', are overwritten with label 0", w.fpos(slow), w.renderPath(wit)...)
	}
	// the shortcut: from the nil edge of any `octants[i] == nil` test the solid-block store is unreachable
	var solid ssa.Instruction
	for _, c := range calls(sb) {
		if callName(c) == "MakeSolidBlock" {
			solid = c
		}
	}
	if solid == nil {
		r.ok("labels.Block.setBlank:no-shortcut", "no solid-block shortcut present", w.fpos(sb))
		return
	}
	n := 0
	var wit []ssa.Instruction
	for _, b := range sb.Blocks {
		ifi, ok := b.Instrs[len(b.Instrs)-1].(*ssa.If)
		if !ok {
			continue
		}
		bo, ok := ifi.Cond.(*ssa.BinOp)
		if !ok || !(bo.Op == token.EQL || bo.Op == token.NEQ) || !isNilConst(bo.Y) {
			continue
		}
		// operand: load of an element of the octants parameter
		isOct := false
		if ix, ok := bo.X.(*ssa.Index); ok {
			if at, ok := ix.X.Type().Underlying().(*types.Array); ok && at.Len() == 8 {
				isOct = true
			}
		}
		if ld, ok := bo.X.(*ssa.UnOp); ok {
			if ia, ok := ld.X.(*ssa.IndexAddr); ok {
				// any element of an [8]*Block array
				if pt, ok := ia.X.Type().(*types.Pointer); ok {
					if at, ok := pt.Elem().Underlying().(*types.Array); ok && at.Len() == 8 {
						isOct = true
					}
				}
				for _, rt := range roots(ia.X, sb) {
					if p, ok := rt.V.(*ssa.Parameter); ok && p.Name() == "octants" {
						isOct = true
					}
				}
				if al, ok := ia.X.(*ssa.Alloc); ok && al.Comment == "octants" {
					isOct = true
				}
			}
		}
		if !isOct {
			continue
		}
		n++
		nilEdge := 0
		if bo.Op == token.NEQ {
			nilEdge = 1
		}
		s := b.Succs[nilEdge]
		if p := findPath(sb, s.Instrs[0], func(ssa.Instruction) bool { return false }, func(in ssa.Instruction) bool { return in == solid }, nil); p != nil || s.Instrs[0] == solid {
			wit = p
			if wit == nil {
				wit = []ssa.Instruction{solid}
			}
		}
	}
	r.check(n > 0 && wit == nil, "labels.Block.setBlank:shortcut-needs-all-octants", "the solid-block shortcut is unreachable once an octant was found absent",
		"the solid-block shortcut treats an absent (unchanged) octant as solid label 0 while the general path keeps the stored content for it: when one child block becomes all zero, the whole lower-resolution parent is blanked although its other seven octants still hold labels", w.fpos(sb), w.renderPath(wit)...)
}

func init() {
	register(ruleDef{ID: "R20.11", Prop: "C20", Tier: "quick", Floor: 1,
		Title: "no write into a nil map held in a map entry: when a struct fetched from a map (comma-ok) has a map-typed field that some writer of the same map leaves unset, that field is initialised or nil-checked before it is written",
		Fn:    ruleR20_11})
	register(ruleDef{ID: "R13.8", Prop: "C13", Tier: "quick", Floor: 1,
		Title: "tag deltas are complete (shared with R20.11): the per-tag delta entry can record a removal after an addition for the same tag in one request (its erase set is initialised before use)",
		Fn:    ruleR20_11})
}

func ruleR20_11(r *Run) {
	w := r.W
	nCand := 0
	for _, f := range w.RepoFuncs {
		if len(f.Blocks) == 0 || strings.HasSuffix(w.fposFile(f), "_test.go") {
			continue
		}
		// struct-typed local variables assigned from a comma-ok lookup
		type fetched struct {
			al     *ssa.Alloc
			lk     *ssa.Lookup
			store  *ssa.Store
			mapKey string
		}
		var fs []fetched
		for _, b := range f.Blocks {
			for _, in := range b.Instrs {
				st, ok := in.(*ssa.Store)
				if !ok {
					continue
				}
				al, ok := st.Addr.(*ssa.Alloc)
				if !ok {
					continue
				}
				if _, isStruct := al.Type().(*types.Pointer).Elem().Underlying().(*types.Struct); !isStruct {
					continue
				}
				ex, ok := st.Val.(*ssa.Extract)
				if !ok || ex.Index != 0 {
					continue
				}
				lk, ok := ex.Tuple.(*ssa.Lookup)
				if !ok || !lk.CommaOk {
					continue
				}
				fs = append(fs, fetched{al, lk, st, placeKey(lk.X)})
			}
		}
		if len(fs) == 0 {
			continue
		}
		for _, ft := range fs {
			stt := ft.al.Type().(*types.Pointer).Elem().Underlying().(*types.Struct)
			for i := 0; i < stt.NumFields(); i++ {
				fld := stt.Field(i)
				if _, isMap := fld.Type().Underlying().(*types.Map); !isMap {
					continue
				}
				isFieldStore := func(in ssa.Instruction) bool {
					s2, ok := in.(*ssa.Store)
					if !ok {
						return false
					}
					fa, ok := s2.Addr.(*ssa.FieldAddr)
					return ok && fa.X == ssa.Value(ft.al) && fa.Field == i
				}
				// writes into that field's map
				for _, b := range f.Blocks {
					for _, in := range b.Instrs {
						mu, ok := in.(*ssa.MapUpdate)
						if !ok {
							continue
						}
						ld, ok := mu.Map.(*ssa.UnOp)
						if !ok {
							continue
						}
						fa, ok := ld.X.(*ssa.FieldAddr)
						if !ok || fa.X != ssa.Value(ft.al) || fa.Field != i {
							continue
						}
						// reached from the fetch without (re)initialising the field or testing it for nil?
						isGuard := func(in2 ssa.Instruction) bool {
							if isFieldStore(in2) {
								return true
							}
							if ifi, ok := in2.(*ssa.If); ok {
								if bo, ok := ifi.Cond.(*ssa.BinOp); ok && (bo.Op == token.EQL || bo.Op == token.NEQ) && isNilConst(bo.Y) {
									if l2, ok := bo.X.(*ssa.UnOp); ok {
										if fa2, ok := l2.X.(*ssa.FieldAddr); ok && fa2.X == ssa.Value(ft.al) && fa2.Field == i {
											return true
										}
									}
								}
							}
							return false
						}
						p := findPath(f, ft.store, isGuard, func(in2 ssa.Instruction) bool { return in2 == ssa.Instruction(mu) }, nil)
						if p == nil {
							nCand++
							r.ok(fmt.Sprintf("%s:%s.%s:initialised-before-write", fname(f), ft.al.Comment, fld.Name()), "the field is initialised or nil-checked on every path from the fetch to the write", w.pos(mu.Pos()))
							continue
						}
						// evidence: some writer of the same outer map stores this struct with the field unset
						// (fetched zero value on the not-found path, field never stored before the map update)
						evidence := false
						var evPos token.Pos
						for _, ft2 := range fs {
							if ft2.mapKey != ft.mapKey {
								continue
							}
							isF2 := func(in2 ssa.Instruction) bool {
								s2, ok := in2.(*ssa.Store)
								if !ok {
									return false
								}
								fa2, ok := s2.Addr.(*ssa.FieldAddr)
								return ok && fa2.X == ssa.Value(ft2.al) && fa2.Field == i
							}
							for _, b2 := range f.Blocks {
								for _, in2 := range b2.Instrs {
									mu2, ok := in2.(*ssa.MapUpdate)
									if !ok || placeKey(mu2.Map) != ft2.mapKey {
										continue
									}
									if l3, ok := mu2.Value.(*ssa.UnOp); !ok || l3.X != ssa.Value(ft2.al) {
										continue
									}
									if findPath(f, ft2.store, isF2, func(x ssa.Instruction) bool { return x == ssa.Instruction(mu2) }, nil) != nil {
										if !evidence || ft2.al != ft.al {
											evPos = mu2.Pos()
										}
										evidence = true
									}
								}
							}
						}
						nCand++
						construct := fmt.Sprintf("%s:%s.%s:initialised-before-write", fname(f), ft.al.Comment, fld.Name())
						r.check(!evidence, construct, "no writer of the outer map leaves this map field unset",
							fmt.Sprintf("the map field %s of an entry fetched from a map is written without being initialised or nil-checked, and the same map receives entries with that field unset (%s): the write panics with 'assignment to entry in nil map' when one request does both", fld.Name(), w.pos(evPos)), w.pos(mu.Pos()), w.renderPath(p)...)
					}
				}
			}
		}
	}
	r.check(nCand >= 1, "repo:map-field-of-map-entry-writes", fmt.Sprintf("%d writes into a map field of a fetched map entry examined", nCand), "no such write found: rule needs review", "-")
}

func init() {
	register(ruleDef{ID: "R6.8", Prop: "C06", Tier: "quick", Floor: 1,
		Title: "instance names are unique per repo for as long as the repo's data map holds the name: newData rejects a name found in the map unconditionally (a deleted-but-not-yet-removed instance still owns its name, or its asynchronous removal would remove the newcomer)",
		Fn:    ruleR6_8})
	register(ruleDef{ID: "R4.8", Prop: "C04", Tier: "quick", Floor: 1,
		Title: "repo deletion order: the repo blob is deleted before the id maps that the loader needs for it are trimmed and persisted (a crash in between must not leave a blob whose id is missing from the persisted map)",
		Fn:    ruleR4_8})
	register(ruleDef{ID: "R12.6", Prop: "C12", Tier: "quick", Floor: 2,
		Title: "caller-supplied labels are registered: when a request names the label to use (split/remain supervoxel ids), every success path has raised the label counters to cover it",
		Fn:    ruleR12_6})
}

func ruleR6_8(r *Run) {
	w := r.W
	f := w.method("datastore", "repoManager", "newData")
	if f == nil {
		r.violation("repoManager.newData", "not found", "-")
		return
	}
	n := 0
	for _, b := range f.Blocks {
		for _, in := range b.Instrs {
			lk, ok := in.(*ssa.Lookup)
			if !ok || !lk.CommaOk || !isFieldLoad(lk.X, "repoT", "data") {
				continue
			}
			n++
			var found *ssa.Extract
			for _, ref := range *lk.Referrers() {
				if ex, ok := ref.(*ssa.Extract); ok && ex.Index == 1 {
					found = ex
				}
			}
			okU := false
			if found != nil {
				for _, ref := range *found.Referrers() {
					ifi, ok := ref.(*ssa.If)
					if !ok {
						continue
					}
					s := ifi.Block().Succs[0]
					p := findPath(f, s.Instrs[0], func(ssa.Instruction) bool { return false }, successExit, nil)
					if p == nil && !successExit(s.Instrs[0]) {
						okU = true
					}
				}
			}
			r.check(okU, "repoManager.newData:name-in-use-is-an-error", "a name present in the repo's data map always ends newData with an error",
				"newData can go on although the repo's data map already holds the name (e.g. when the holder is only flagged deleted): when the old instance's asynchronous deletion finishes it removes the map entry by name, taking the new instance with it", w.pos(lk.Pos()))
		}
	}
	r.check(n > 0, "repoManager.newData:name-lookup", "name lookup present", "newData no longer looks the name up in the repo's data map", w.fpos(f))
}

func ruleR4_8(r *Run) {
	w := r.W
	f := w.method("datastore", "repoManager", "deleteRepo")
	if f == nil {
		r.violation("repoManager.deleteRepo", "not found", "-")
		return
	}
	var blob ssa.Instruction
	for _, c := range calls(f) {
		if callee := c.Common().StaticCallee(); callee != nil && callee.Name() == "delete" && callee.Signature.Recv() != nil && typeIs(callee.Signature.Recv().Type(), "datastore", "repoT") {
			blob = c
		}
	}
	if blob == nil {
		r.violation("repoManager.deleteRepo:deletes-blob", "deleteRepo no longer deletes the repo blob", w.fpos(f))
		return
	}
	bad := ""
	np := 0
	for _, c := range calls(f) {
		nm := callName(c)
		if nm == "putCaches" || nm == "putNewIDs" {
			np++
			if !domInstr(blob, c) {
				bad = w.pos(c.Pos())
			}
		}
	}
	r.check(bad == "", "repoManager.deleteRepo:blob-deleted-before-maps-persisted", fmt.Sprintf("the repo blob delete dominates every persist of the id maps (%d in the function)", np),
		"deleteRepo persists the trimmed id maps before the repo blob is deleted: a crash in between leaves a blob whose repo id is missing from the persisted map, and every later start aborts with 'retrieved repo with id N that is not in map'", firstNonEmpty(bad, w.fpos(f)))
}

func ruleR12_6(r *Run) {
	w := r.W
	f := w.method("datatype/labelmap", "Data", "SplitSupervoxel")
	if f == nil {
		r.violation("labelmap.SplitSupervoxel", "not found", "-")
		return
	}
	// label-typed parameters that the request may set: uint64 parameters tested against 0
	n := 0
	for _, p := range f.Params {
		if bt, ok := p.Type().Underlying().(*types.Basic); !ok || bt.Kind() != types.Uint64 {
			continue
		}
		tested := false
		for _, ref := range *p.Referrers() {
			if bo, ok := ref.(*ssa.BinOp); ok && (bo.Op == token.NEQ || bo.Op == token.EQL) {
				if k, ok := constInt(bo.Y); ok && k == 0 {
					tested = true
				}
			}
		}
		// spilled parameter: look at loads of its alloc
		if !tested {
			for _, ref := range *p.Referrers() {
				if st, ok := ref.(*ssa.Store); ok {
					if al, ok := st.Addr.(*ssa.Alloc); ok {
						for _, r2 := range *al.Referrers() {
							if ld, ok := r2.(*ssa.UnOp); ok && ld.Referrers() != nil {
								for _, r3 := range *ld.Referrers() {
									if bo, ok := r3.(*ssa.BinOp); ok && (bo.Op == token.NEQ || bo.Op == token.EQL) {
										if k, ok := constInt(bo.Y); ok && k == 0 {
											tested = true
										}
									}
								}
							}
						}
					}
				}
			}
		}
		if !tested {
			continue
		}
		n++
		isParam := func(v ssa.Value) bool {
			for _, rt := range roots(v, f) {
				if rt.V == ssa.Value(p) {
					return true
				}
			}
			return false
		}
		supplied := func(b *ssa.BasicBlock, i int) bool {
			ifi, ok := b.Instrs[len(b.Instrs)-1].(*ssa.If)
			if !ok {
				return true
			}
			bo, ok := ifi.Cond.(*ssa.BinOp)
			if !ok || !(bo.Op == token.NEQ || bo.Op == token.EQL) {
				return true
			}
			if k, ok := constInt(bo.Y); !ok || k != 0 || !isParam(bo.X) {
				return true
			}
			if bo.Op == token.NEQ {
				return i == 0
			}
			return i == 1
		}
		registers := func(in ssa.Instruction) bool {
			c, ok := in.(ssa.CallInstruction)
			if !ok || callName(c) != "updateMaxLabel" {
				return false
			}
			a := c.Common().Args
			return isParam(a[len(a)-1])
		}
		path := findPath(f, nil, registers, successExit, supplied)
		r.check(path == nil, fmt.Sprintf("labelmap.SplitSupervoxel:%s:registered-when-supplied", p.Name()), "when the request supplies this label every success exit has passed updateMaxLabel with it",
			"a label supplied by the request becomes part of the volume without the label counters being raised to cover it: a later allocation (nextlabel, cleave, split) can hand out a label that is already present", w.fpos(f), w.renderPath(path)...)
	}
	r.check(n >= 2, "labelmap.SplitSupervoxel:supplied-label-parameters", fmt.Sprintf("%d optional label parameters", n), "the optional label parameters of SplitSupervoxel were not found", w.fpos(f))
}

func init() {
	register(ruleDef{ID: "R16.7", Prop: "C16", Tier: "quick", Floor: 2,
		Title: "the sorted id list of the in-memory database is searched with a monotone predicate (sort.Search needs false…true; an equality predicate makes the binary search miss present ids), and a database filled by plain appends is sorted before it is used",
		Fn:    ruleR16_7})
}

func ruleR16_7(r *Run) {
	w := r.W
	n := 0
	for _, f := range w.RepoFuncs {
		if len(f.Blocks) == 0 || strings.HasSuffix(w.fposFile(f), "_test.go") {
			continue
		}
		k := 0
		for _, c := range calls(f) {
			callee := c.Common().StaticCallee()
			if callee == nil || callee.Pkg == nil || callee.Pkg.Pkg.Path() != "sort" || callee.Name() != "Search" {
				continue
			}
			mc, ok := c.Common().Args[1].(*ssa.MakeClosure)
			if !ok {
				continue
			}
			cl, ok := mc.Fn.(*ssa.Function)
			if !ok {
				continue
			}
			n++
			k++
			bad := ""
			for _, b := range cl.Blocks {
				ret, ok := b.Instrs[len(b.Instrs)-1].(*ssa.Return)
				if !ok || len(ret.Results) != 1 {
					continue
				}
				if bo, ok := ret.Results[0].(*ssa.BinOp); ok && (bo.Op == token.EQL || bo.Op == token.NEQ) {
					bad = w.pos(bo.Pos())
				}
			}
			r.check(bad == "", fmt.Sprintf("%s:sort.Search#%d:monotone-predicate", fname(f), k), "the predicate is an ordering comparison",
				"sort.Search is given an equality predicate: binary search needs a predicate that is false for a prefix and true for the rest, so a present element is usually not found (here: a deleted annotation's id stays in the in-memory id list, and keys/keyrange of the head list it while the stored versions do not)", firstNonEmpty(bad, w.pos(c.Pos())))
		}
	}
	r.check(n >= 2, "repo:sort.Search-calls", fmt.Sprintf("%d sort.Search predicates examined", n), "no sort.Search call found: rule needs review", "-")
	// plain appends to memdb.ids (outside the sorted-insert helper) are followed by a sort before a success return
	for _, f := range w.RepoFuncs {
		if relPkg(pkgPathOf(f)) != "datatype/neuronjson" || len(f.Blocks) == 0 || f.Parent() != nil || strings.HasSuffix(w.fposFile(f), "_test.go") {
			continue
		}
		// does f (or a callee in the package, one level) append to ids without searching?
		appends := func(g *ssa.Function) bool {
			hasSearch := false
			for _, c := range calls(g) {
				if cal := c.Common().StaticCallee(); cal != nil && cal.Pkg != nil && cal.Pkg.Pkg.Path() == "sort" {
					hasSearch = true
				}
			}
			if hasSearch {
				return false
			}
			for _, b := range g.Blocks {
				for _, in := range b.Instrs {
					st, ok := in.(*ssa.Store)
					if !ok {
						continue
					}
					fa, ok := st.Addr.(*ssa.FieldAddr)
					if !ok {
						continue
					}
					if nm, _, _ := fieldName(fa); nm != "ids" || !typeIs(fa.X.Type(), "datatype/neuronjson", "memdb") {
						continue
					}
					if c, ok := st.Val.(*ssa.Call); ok {
						if bi, ok := c.Call.Value.(*ssa.Builtin); ok && bi.Name() == "append" {
							return true
						}
					}
				}
			}
			return false
		}
		var appendCalls []ssa.Instruction
		for _, c := range calls(f) {
			if cal := c.Common().StaticCallee(); cal != nil && inRepo(cal) && len(cal.Blocks) > 0 && appends(cal) {
				appendCalls = append(appendCalls, c)
			}
		}
		// appends made from a callback closure count at the call that receives the closure
		for _, cl := range closures(f) {
			has := false
			for _, c := range calls(cl) {
				if cal := c.Common().StaticCallee(); cal != nil && inRepo(cal) && len(cal.Blocks) > 0 && appends(cal) {
					has = true
				}
			}
			if !has {
				continue
			}
			for _, b := range f.Blocks {
				for _, in := range b.Instrs {
					if mc, ok := in.(*ssa.MakeClosure); ok && mc.Fn == ssa.Value(cl) {
						var walk func(v ssa.Value, d int)
						walk = func(v ssa.Value, d int) {
							if d > 3 || v.Referrers() == nil {
								return
							}
							for _, ref := range *v.Referrers() {
								switch x := ref.(type) {
								case ssa.CallInstruction:
									appendCalls = append(appendCalls, x)
								case *ssa.ChangeType:
									walk(x, d+1)
								case *ssa.MakeInterface:
									walk(x, d+1)
								}
							}
						}
						walk(mc, 0)
					}
				}
			}
		}
		if len(appendCalls) == 0 {
			continue
		}
		isSort := func(in ssa.Instruction) bool {
			c, ok := in.(ssa.CallInstruction)
			if !ok {
				return false
			}
			cal := c.Common().StaticCallee()
			return cal != nil && cal.Pkg != nil && cal.Pkg.Pkg.Path() == "sort" && (cal.Name() == "Slice" || cal.Name() == "Sort" || cal.Name() == "SliceStable")
		}
		var p []ssa.Instruction
		for _, ac := range appendCalls {
			if q := findPath(f, ac, isSort, func(in ssa.Instruction) bool { _, isRet := in.(*ssa.Return); return isRet && successExit(in) }, nil); q != nil {
				p = q
			}
		}
		r.check(p == nil, fname(f)+":ids-sorted-after-bulk-append", "after filling the id list by plain appends every success exit has sorted it",
			"a database whose id list is filled by plain appends is handed out without sorting the list: stored key order is lexicographic on the decimal string, so range reads (which binary-search the list) return wrong keys after a restart", w.fpos(f), w.renderPath(p)...)
	}
}

func init() {
	register(ruleDef{ID: "R16.8", Prop: "C16", Tier: "quick", Floor: 1,
		Title: "bookkeeping reads the entry before it is deleted: in the in-memory database no map entry is looked up after delete(map, key) of the same key on the same path (field counts are decremented from the annotation being removed, which must still be there)",
		Fn:    ruleR16_8})
}

func ruleR16_8(r *Run) {
	w := r.W
	n := 0
	for _, f := range w.RepoFuncs {
		if relPkg(pkgPathOf(f)) != "datatype/neuronjson" || len(f.Blocks) == 0 || strings.HasSuffix(w.fposFile(f), "_test.go") {
			continue
		}
		k := 0
		for _, c := range calls(f) {
			bi, ok := c.Common().Value.(*ssa.Builtin)
			if !ok || bi.Name() != "delete" {
				continue
			}
			m, key := c.Common().Args[0], c.Common().Args[1]
			mk := placeKey(m)
			if !strings.Contains(mk, ".data") && !strings.Contains(mk, ".fields") && !strings.Contains(mk, ".ids") {
				continue // only the in-memory database's own maps
			}
			n++
			k++
			bad := ""
			var wit []ssa.Instruction
			for _, b := range f.Blocks {
				for _, in := range b.Instrs {
					var lkMap, lkKey ssa.Value
					switch x := in.(type) {
					case *ssa.Lookup:
						lkMap, lkKey = x.X, x.Index
					case *ssa.Range:
						// ranging over m[k] read earlier is fine; ranging over a fresh lookup is caught by the Lookup
						continue
					default:
						continue
					}
					if placeKey(lkMap) != mk || stripConv(lkKey) != stripConv(key) {
						continue
					}
					isUpd := func(i2 ssa.Instruction) bool {
						mu, ok := i2.(*ssa.MapUpdate)
						return ok && placeKey(mu.Map) == mk
					}
					if p := findPath(f, c, isUpd, func(i2 ssa.Instruction) bool { return i2 == in }, nil); p != nil {
						bad = w.pos(in.Pos())
						wit = p
					}
				}
			}
			r.check(bad == "", fmt.Sprintf("%s:delete#%d:no-lookup-after-delete", fname(f), k), "the deleted entry is not looked up again on any path",
				"a map entry of the in-memory database is looked up after it was deleted on the same path: the lookup yields the zero value, so the bookkeeping derived from the removed annotation (per-field counts) is silently skipped and the in-memory answers drift from the stored ones", firstNonEmpty(bad, w.pos(c.Pos())), w.renderPath(wit)...)
		}
	}
	r.check(n >= 1, "neuronjson:memdb-deletes", fmt.Sprintf("%d deletions from the in-memory database's maps examined", n), "no deletion found: rule needs review", "-")
}

func init() {
	register(ruleDef{ID: "R20.13", Prop: "C20", Tier: "quick", Floor: 3,
		Title: "a channel is closed only after its senders have finished: where a function starts goroutines that are handed a channel and later closes that channel, every path from starting such a goroutine to the close passes a WaitGroup.Wait (a send on a closed channel panics outside any recover and ends the process)",
		Fn:    ruleR20_13})
}

func ruleR20_13(r *Run) {
	w := r.W
	n := 0
	for _, f := range w.RepoFuncs {
		p := relPkg(pkgPathOf(f))
		if !strings.HasPrefix(p, "datatype/") || len(f.Blocks) == 0 || f.Parent() != nil || strings.HasSuffix(w.fposFile(f), "_test.go") {
			continue
		}
		k := 0
		for _, c := range calls(f) {
			bi, ok := c.Common().Value.(*ssa.Builtin)
			if !ok || bi.Name() != "close" {
				continue
			}
			ch := c.Common().Args[0]
			chKey := placeKey(ch)
			// goroutines started in f that are handed this channel and may send on it
			var senders []ssa.Instruction
			for _, g := range calls(f) {
				gi, ok := g.(*ssa.Go)
				if !ok {
					continue
				}
				// where does the channel arrive in the goroutine's function: as a parameter or a captured variable
				var target *ssa.Function
				var aliases []ssa.Value
				if mc, ok := gi.Call.Value.(*ssa.MakeClosure); ok {
					target, _ = mc.Fn.(*ssa.Function)
					if target != nil {
						for bi2, bnd := range mc.Bindings {
							if "load("+addrKey(bnd)+")" == chKey || placeKey(bnd) == chKey {
								aliases = append(aliases, target.FreeVars[bi2])
							}
						}
					}
				} else {
					target = gi.Call.StaticCallee()
				}
				if target != nil {
					off := 0
					for ai, a := range gi.Call.Args {
						if placeKey(a) == chKey && ai-off < len(target.Params) && ai < len(target.Params) {
							aliases = append(aliases, target.Params[ai])
						}
					}
				}
				if target == nil || len(aliases) == 0 {
					continue
				}
				if sendsOn(w, target, aliases, 2) {
					senders = append(senders, gi)
				}
			}
			if len(senders) == 0 {
				continue
			}
			n++
			k++
			isWait := func(in ssa.Instruction) bool {
				ci, ok := in.(ssa.CallInstruction)
				if !ok {
					return false
				}
				cal := ci.Common().StaticCallee()
				return cal != nil && cal.Pkg != nil && cal.Pkg.Pkg.Path() == "sync" && cal.Name() == "Wait"
			}
			var wit []ssa.Instruction
			for _, s := range senders {
				if pth := findPath(f, s, isWait, func(in ssa.Instruction) bool { return in == ssa.Instruction(c) }, nil); pth != nil {
					wit = pth
				}
			}
			r.check(wit == nil, fmt.Sprintf("%s:close#%d:after-senders-finished", fname(f), k), "every path from starting a sending goroutine to the close passes a WaitGroup.Wait",
				"the channel can be closed while goroutines started by this function may still send on it: their send panics with 'send on closed channel' outside the request's recover, which ends the server process", w.pos(c.Pos()), w.renderPath(wit)...)
		}
	}
	r.check(n >= 3, "repo:closes-of-channels-with-goroutine-senders", fmt.Sprintf("%d such closes examined", n), "no such close found: rule needs review", "-")
}

// mayInstr: some instruction satisfying pred is reachable from f through static calls (and closures)
// within depth levels.
func mayInstr(w *World, f *ssa.Function, pred func(ssa.Instruction) bool, depth int) bool {
	seen := map[*ssa.Function]bool{}
	var rec func(g *ssa.Function, d int) bool
	rec = func(g *ssa.Function, d int) bool {
		if g == nil || seen[g] || len(g.Blocks) == 0 {
			return false
		}
		seen[g] = true
		for _, h := range withClosures(g) {
			for _, b := range h.Blocks {
				for _, in := range b.Instrs {
					if pred(in) {
						return true
					}
					if d > 0 {
						if c, ok := in.(ssa.CallInstruction); ok {
							for _, callee := range w.Callees(c) {
								if inRepo(callee) && rec(callee, d-1) {
									return true
								}
							}
						}
					}
				}
			}
		}
		return false
	}
	return rec(f, depth)
}

// sendsOn: the function sends on one of the given channel values (parameters / captured variables of
// f), or passes one on to a callee that does (depth-bounded).
func sendsOn(w *World, f *ssa.Function, chans []ssa.Value, depth int) bool {
	isAlias := func(v ssa.Value, g *ssa.Function) bool {
		for _, rt := range roots(v, g) {
			for _, c := range chans {
				if rt.V == c {
					return true
				}
				if ld, ok := rt.V.(*ssa.UnOp); ok && ld.X == c {
					return true
				}
			}
		}
		v = stripConv(v)
		for _, c := range chans {
			if v == c {
				return true
			}
			if ld, ok := v.(*ssa.UnOp); ok && ld.X == c {
				return true
			}
		}
		return false
	}
	for _, g := range withClosures(f) {
		for _, b := range g.Blocks {
			for _, in := range b.Instrs {
				if s, ok := in.(*ssa.Send); ok && isAlias(s.Chan, g) {
					return true
				}
				if depth > 0 {
					if c, ok := in.(ssa.CallInstruction); ok {
						callee := c.Common().StaticCallee()
						if callee == nil || !inRepo(callee) || len(callee.Blocks) == 0 {
							continue
						}
						var next []ssa.Value
						for ai, a := range c.Common().Args {
							if isAlias(a, g) && ai < len(callee.Params) {
								next = append(next, callee.Params[ai])
							}
						}
						if len(next) > 0 && sendsOn(w, callee, next, depth-1) {
							return true
						}
					}
				}
			}
		}
	}
	return false
}

func init() {
	register(ruleDef{ID: "R20.14", Prop: "C20", Tier: "quick", Floor: 8,
		Title: "chunk-handler tokens are handed on or returned: after server.CheckChunkThrottling() took a token, every path to the next token request or to a return starts the chunk goroutine (which returns the token) or returns the token itself",
		Fn:    ruleR20_14})
}

func ruleR20_14(r *Run) {
	w := r.W
	isTokenSend := func(in ssa.Instruction) bool {
		s, ok := in.(*ssa.Send)
		if !ok {
			return false
		}
		if ld, ok := s.Chan.(*ssa.UnOp); ok {
			if g, ok := ld.X.(*ssa.Global); ok && g.Name() == "HandlerToken" {
				return true
			}
		}
		return false
	}
	n := 0
	for _, f := range w.RepoFuncs {
		if len(f.Blocks) == 0 || strings.HasSuffix(w.fposFile(f), "_test.go") || !strings.HasPrefix(relPkg(pkgPathOf(f)), "datatype/") {
			continue
		}
		k := 0
		for _, c := range calls(f) {
			if !isCallTo(c, "server", "", "CheckChunkThrottling") {
				continue
			}
			n++
			k++
			handsOn := func(in ssa.Instruction) bool {
				if isTokenSend(in) {
					return true
				}
				switch x := in.(type) {
				case *ssa.Go:
					var target *ssa.Function
					if mc, ok := x.Call.Value.(*ssa.MakeClosure); ok {
						target, _ = mc.Fn.(*ssa.Function)
					} else {
						target = x.Call.StaticCallee()
					}
					if target == nil {
						// interface / function value: resolved through the call graph
						for _, t := range w.Callees(x) {
							if mayInstr(w, t, isTokenSend, 3) {
								return true
							}
						}
						return false
					}
					return mayInstr(w, target, isTokenSend, 3)
				case *ssa.Call:
					for _, t := range w.Callees(x) {
						if inRepo(t) && t != f && mayInstr(w, t, isTokenSend, 3) {
							return true
						}
					}
				}
				return false
			}
			p := findPath(f, c, handsOn, func(in ssa.Instruction) bool {
				if in == ssa.Instruction(c) {
					return true
				}
				_, isRet := in.(*ssa.Return)
				return isRet
			}, nil)
			r.check(p == nil, fmt.Sprintf("%s:chunk-token#%d:handed-on-or-returned", fname(f), k), "after the token is taken every path starts the chunk goroutine that returns it, or returns it",
				"a chunk-handler token can be taken and then dropped (e.g. the block is skipped by the ROI test after the token was taken): the token pool is server-wide, so after enough skipped blocks every chunk read and write blocks for ever", w.pos(c.Pos()), w.renderPath(p)...)
		}
	}
	r.check(n >= 8, "repo:chunk-token-requests", fmt.Sprintf("%d token requests examined", n), "token requests not found", "-")
}

func init() {
	register(ruleDef{ID: "R20.15", Prop: "C20", Tier: "quick", Floor: 4,
		Title: "buffers sized by the request's geometry are allocated only for a positive voxel count: every make() whose length derives from NumVoxels() of a request geometry is behind a test that rejects counts ≤ 0 (negative sizes and int64 overflow arrive as negative counts)",
		Fn:    ruleR20_15})
}

func ruleR20_15(r *Run) {
	w := r.W
	n := 0
	for _, f := range w.RepoFuncs {
		if len(f.Blocks) == 0 || strings.HasSuffix(w.fposFile(f), "_test.go") || !strings.HasPrefix(relPkg(pkgPathOf(f)), "datatype/") {
			continue
		}
		derivesNV := func(v ssa.Value) *ssa.Call {
			var hit *ssa.Call
			var walk func(v ssa.Value, d int)
			seen := map[ssa.Value]bool{}
			walk = func(v ssa.Value, d int) {
				if d > 8 || v == nil || seen[v] {
					return
				}
				seen[v] = true
				switch x := v.(type) {
				case *ssa.Call:
					if callName(x) == "NumVoxels" {
						hit = x
					}
					if callName(x) == "Prod" {
						// a product of per-axis block counts of the requested box (Size().Div(blockSize).Prod())
						for _, rt := range roots(recvOfCall(x), f) {
							if c2, ok := rt.V.(*ssa.Call); ok && callName(c2) == "Div" {
								hit = x
							}
						}
					}
				case *ssa.Convert:
					walk(x.X, d+1)
				case *ssa.BinOp:
					walk(x.X, d+1)
					walk(x.Y, d+1)
				case *ssa.Phi:
					for _, e := range x.Edges {
						walk(e, d+1)
					}
				}
			}
			walk(v, 0)
			return hit
		}
		k := 0
		for _, b := range f.Blocks {
			for _, in := range b.Instrs {
				var mkLen ssa.Value
				var mk ssa.Instruction
				switch x := in.(type) {
				case *ssa.MakeSlice:
					mkLen, mk = x.Len, x
				case *ssa.MakeChan:
					mkLen, mk = x.Size, x
				default:
					continue
				}
				nv := derivesNV(mkLen)
				if nv == nil {
					continue
				}
				// only geometries that come from the request: the receiver of NumVoxels is a parameter or built from one
				n++
				k++
				guarded := false
				for _, b2 := range f.Blocks {
					ifi, ok := b2.Instrs[len(b2.Instrs)-1].(*ssa.If)
					if !ok {
						continue
					}
					bo, ok := ifi.Cond.(*ssa.BinOp)
					if !ok {
						continue
					}
					kk, isK := constInt(bo.Y)
					// the test must be on the allocated length itself: a positive voxel count times the bytes
					// per voxel can still overflow to a negative length
					if !isK || stripConv(bo.X) != stripConv(mkLen) {
						continue
					}
					// the edge on which the count is known positive
					pos := -1
					switch {
					case bo.Op == token.LEQ && kk == 0, bo.Op == token.LSS && kk == 1:
						pos = 1
					case bo.Op == token.LSS && kk == 0:
						// "not negative" is enough for a channel capacity
						if _, isChan := mk.(*ssa.MakeChan); isChan {
							pos = 1
						}
					case bo.Op == token.GTR && kk == 0, bo.Op == token.GEQ && kk == 1:
						pos = 0
					}
					if pos >= 0 && guardedByEdge(ifi, pos, mk) {
						guarded = true
					}
				}
				r.check(guarded, fmt.Sprintf("%s:make#%d:positive-voxel-count", fname(f), k), "the allocation is on the 'count > 0' (channel: 'not negative') edge of a test of the allocated size",
					"a buffer is allocated with a length derived from the request geometry's voxel count without rejecting a non-positive length (the test, if any, is on another value than the allocated length): a negative size component, or bytes-per-voxel × count overflowing int64, makes make() panic, and the request is answered by the panic handler instead of being rejected", w.pos(mk.Pos()))
			}
		}
	}
	r.check(n >= 4, "repo:geometry-sized-allocations", fmt.Sprintf("%d allocations sized by a geometry's voxel count", n), "none found: rule needs review", "-")
}

func init() {
	register(ruleDef{ID: "R14.8", Prop: "C14", Tier: "quick", Floor: 2,
		Title: "a failed or abandoned pyramid update releases what it holds: Mutation.Execute unlocks on every exit and, when a level fails, clears the updating marks of the levels it will not compute; Abort clears them all",
		Fn:    ruleR14_8})
}

func ruleR14_8(r *Run) {
	w := r.W
	ex := w.method("datatype/common/downres", "Mutation", "Execute")
	if ex == nil {
		r.violation("downres.Mutation.Execute", "not found", "-")
		return
	}
	isStop := func(in ssa.Instruction) bool {
		c, ok := in.(ssa.CallInstruction)
		return ok && c.Common().IsInvoke() && c.Common().Method.Name() == "StopScaleUpdate"
	}
	isStore := func(in ssa.Instruction) bool {
		c, ok := in.(ssa.CallInstruction)
		return ok && c.Common().IsInvoke() && c.Common().Method.Name() == "StoreDownres"
	}
	// from a failed StoreDownres the error exit passes StopScaleUpdate (of the remaining levels)
	n := 0
	for _, c := range calls(ex) {
		if !isStore(c) {
			continue
		}
		n++
		// the release is a loop over the remaining levels (empty when the last level failed): passing the
		// loop's header counts
		isRelease := func(in ssa.Instruction) bool {
			if isStop(in) {
				return true
			}
			if ifi, ok := in.(*ssa.If); ok {
				// (in whichever function the instruction lives: the release loop may sit in a helper of Execute)
				for _, sc := range calls(ifi.Parent()) {
					if isStop(sc) && guardedByEdge(ifi, 0, sc) && ifi.Block().Dominates(sc.Block()) && blockReaches(sc.Block(), ifi.Block()) {
						return true
					}
				}
			}
			return false
		}
		p := findPath(ex, c, isRelease, func(in ssa.Instruction) bool {
			ret, ok := in.(*ssa.Return)
			return ok && isErrorExit(ret)
		}, nil)
		r.check(p == nil, "downres.Mutation.Execute:failed-level-releases-remaining-scales", "an error exit after a failed level passes StopScaleUpdate",
			"when storing a level fails, Execute returns without clearing the updating marks of the levels it did not compute: the volume never reports idle again and everything waiting for idle hangs", w.pos(c.Pos()), w.renderPath(p)...)
	}
	r.check(n > 0, "downres.Mutation.Execute:stores-levels", "StoreDownres called", "Execute no longer stores levels", w.fpos(ex))
	// the mutation's lock is released on every exit: a deferred Unlock, or an Unlock on every path
	hasDefer := false
	for _, c := range calls(ex) {
		if d, ok := c.(*ssa.Defer); ok {
			if cal := d.Call.StaticCallee(); cal != nil && cal.Name() == "Unlock" {
				hasDefer = true
			}
		}
	}
	okUnlock := hasDefer
	if !hasDefer {
		isUnlock := func(in ssa.Instruction) bool {
			c, ok := in.(*ssa.Call)
			return ok && c.Call.StaticCallee() != nil && c.Call.StaticCallee().Name() == "Unlock"
		}
		var lock ssa.Instruction
		for _, c := range calls(ex) {
			if cc, ok := c.(*ssa.Call); ok && cc.Call.StaticCallee() != nil && cc.Call.StaticCallee().Name() == "Lock" {
				lock = c
			}
		}
		okUnlock = lock != nil && findPath(ex, lock, isUnlock, isReturn, nil) == nil
	}
	r.check(okUnlock, "downres.Mutation.Execute:unlocks-on-every-exit", "the mutation's lock is released on every exit", "Execute can return with the mutation's lock held (error path): a later BlockMutated or Execute on it blocks for ever", w.fpos(ex))
	if ab := w.method("datatype/common/downres", "Mutation", "Abort"); ab != nil {
		has := false
		for _, g := range withHelpers(ab) {
			for _, c := range calls(g) {
				if isStop(c) {
					has = true
				}
			}
		}
		r.check(has, "downres.Mutation.Abort:clears-updating-marks", "Abort calls StopScaleUpdate", "Abort no longer clears the updating marks", w.fpos(ab))
	}
}

func init() {
	register(ruleDef{ID: "R5.6", Prop: "C05", Tier: "quick", Floor: 10,
		Title: "range bounds address one key class: wherever a range call's begin is MinTKey(c) and its end MaxTKey(c'), c and c' are the same class (otherwise the range is empty or spans foreign keys)",
		Fn:    ruleRangeClass})
	register(ruleDef{ID: "R13.9", Prop: "C13", Tier: "quick", Floor: 10,
		Title: "index rebuilds clear the class they rebuild (shared with R5.6): the delete ranges of the tag and label indexes run from MinTKey to MaxTKey of one and the same key class",
		Fn:    ruleRangeClass})
}

func ruleRangeClass(r *Run) {
	w := r.W
	classOf := func(v ssa.Value, f *ssa.Function, which string) (string, bool) {
		for _, rt := range roots(v, f) {
			c, ok := rt.V.(*ssa.Call)
			if !ok {
				continue
			}
			if cal := c.Call.StaticCallee(); cal != nil && cal.Name() == which && relPkg(pkgPathOf(cal)) == "storage" {
				a := stripConv(c.Call.Args[0])
				switch x := a.(type) {
				case *ssa.Const:
					return "const:" + x.Value.String(), true
				case *ssa.UnOp:
					if g, ok := x.X.(*ssa.Global); ok {
						return "global:" + g.Name(), true
					}
				}
				return "expr:" + a.Name(), true
			}
		}
		return "", false
	}
	n := 0
	for _, f := range w.RepoFuncs {
		if len(f.Blocks) == 0 || strings.HasSuffix(w.fposFile(f), "_test.go") || !strings.HasPrefix(relPkg(pkgPathOf(f)), "datatype/") {
			continue
		}
		k := 0
		for _, c := range calls(f) {
			args := c.Common().Args
			var mins, maxs []string
			for _, a := range args {
				if !typeIs(a.Type(), "storage", "TKey") {
					continue
				}
				if cl, ok := classOf(a, f, "MinTKey"); ok {
					mins = append(mins, cl)
				}
				if cl, ok := classOf(a, f, "MaxTKey"); ok {
					maxs = append(maxs, cl)
				}
			}
			if len(mins) == 0 || len(maxs) == 0 {
				continue
			}
			n++
			k++
			ok := true
			for _, a := range mins {
				for _, b := range maxs {
					if a != b {
						ok = false
					}
				}
			}
			r.check(ok, fmt.Sprintf("%s:range#%d:one-key-class", fname(f), k), "begin and end of the range are Min/MaxTKey of the same class",
				fmt.Sprintf("a range runs from MinTKey(%v) to MaxTKey(%v): bounds of different key classes make the range empty (nothing is deleted / returned) or make it cover another class's keys", mins, maxs), w.pos(c.Pos()))
		}
	}
	r.check(n >= 10, "repo:min-max-class-ranges", fmt.Sprintf("%d ranges bounded by MinTKey/MaxTKey examined", n), "too few such ranges: rule needs review", "-")
}

func init() {
	register(ruleDef{ID: "R18.7", Prop: "C18", Tier: "quick", Floor: 3,
		Title: "clipping keeps the inside: in every FitToBounds a removal is made only for elements the bounds test reports as outside, and a copy that is meant to return everything has a destination long enough to receive it",
		Fn:    ruleR18_7})
	register(ruleDef{ID: "R8.11", Prop: "C08", Tier: "quick", Floor: 3,
		Title: "bounded label index (shared with R18.7): fitting a label index to block bounds removes the blocks outside the bounds, not the ones inside",
		Fn:    ruleR18_7})
}

func ruleR18_7(r *Run) {
	w := r.W
	n := 0
	for _, f := range w.RepoFuncs {
		if len(f.Blocks) == 0 || f.Parent() != nil || f.Name() != "FitToBounds" || strings.HasSuffix(w.fposFile(f), "_test.go") {
			continue
		}
		// (a) deletes only on the outside edge
		var outsideIfs []*ssa.If
		for _, b := range f.Blocks {
			ifi, ok := b.Instrs[len(b.Instrs)-1].(*ssa.If)
			if !ok {
				continue
			}
			if c, ok := ifi.Cond.(*ssa.Call); ok && strings.HasPrefix(callName(c), "Outside") {
				outsideIfs = append(outsideIfs, ifi)
			}
		}
		for _, c := range calls(f) {
			bi, ok := c.Common().Value.(*ssa.Builtin)
			if !ok || bi.Name() != "delete" {
				continue
			}
			n++
			okDel := false
			for _, ifi := range outsideIfs {
				if guardedByEdge(ifi, 0, c) {
					okDel = true
				}
			}
			r.check(okDel, fname(f)+":removes-only-outside", "the removal is on the 'outside the bounds' edge of the bounds test",
				"FitToBounds removes an element that the bounds test did not report as outside (the test is inverted or bypassed): the result keeps what lies outside the bounds and drops what lies inside", w.pos(c.Pos()))
		}
		// (b) copy destinations are not zero-length
		for _, c := range calls(f) {
			bi, ok := c.Common().Value.(*ssa.Builtin)
			if !ok || bi.Name() != "copy" {
				continue
			}
			n++
			zero := false
			for _, rt := range roots(c.Common().Args[0], f) {
				if mk, ok := rt.V.(*ssa.MakeSlice); ok {
					if k, isK := constInt(mk.Len); isK && k == 0 {
						zero = true
					}
				}
			}
			r.check(!zero, fname(f)+":copy-destination-has-length", "the copy's destination was made with a length",
				"copy() into a slice made with length 0 copies nothing: with no bounds given FitToBounds returns an empty set instead of everything", w.pos(c.Pos()))
		}
		// (c) a break out of a map iteration cannot be an early-exit optimisation (map order is random)
		for _, b := range f.Blocks {
			for _, in := range b.Instrs {
				nx, ok := in.(*ssa.Next)
				if !ok || nx.IsString {
					continue
				}
				rg, ok := nx.Iter.(*ssa.Range)
				if !ok {
					continue
				}
				if _, isMap := rg.X.Type().Underlying().(*types.Map); !isMap {
					continue
				}
				// loop body = blocks that can reach the Next again; an edge from the body to outside the loop
				// other than the Next's own exit is a break
				hdr := nx.Block()
				n++
				hasBreak := false
				for _, b2 := range f.Blocks {
					if b2 == hdr || !blockReaches(hdr, b2) || !blockReaches(b2, hdr) {
						continue
					}
					for _, s := range b2.Succs {
						if s != hdr && !blockReaches(s, hdr) {
							if _, isRet := s.Instrs[len(s.Instrs)-1].(*ssa.Return); isRet && len(s.Instrs) <= 2 {
								// an error return is not an optimisation break
								if ret := s.Instrs[len(s.Instrs)-1].(*ssa.Return); isErrorExit(ret) {
									continue
								}
							}
							hasBreak = true
						}
					}
				}
				r.check(!hasBreak, fname(f)+":no-early-break-from-map-iteration", "the map iteration visits every element",
					"FitToBounds breaks out of an iteration over a map as if the keys came in order: elements after the break are never examined", w.pos(nx.Pos()))
			}
		}
	}
	r.check(n >= 3, "repo:FitToBounds-implementations", fmt.Sprintf("%d clip sites examined", n), "FitToBounds implementations not found", "-")
}
