package main

import (
	"fmt"
	"go/token"
	"go/types"
	"sort"
	"strings"

	"golang.org/x/tools/go/ssa"
)

// C08: label indices, voxels and mappings stay consistent under proofreading.  What is decided is
// the completeness and the provenance of the updates, not their arithmetic.

func init() {
	register(ruleDef{ID: "R8.1", Prop: "C08", Tier: "quick", Floor: 25,
		Title: "op × structure matrix: every proofreading entry point passes, on each success exit, through the mapping update, the index writes/deletes and the block rewrite its operation requires",
		Fn:    ruleR8_1})
	register(ruleDef{ID: "R8.2", Prop: "C08", Tier: "quick", Floor: 40,
		Title: "version provenance: in every labelmap function with a single version source, each version handed to a callee is that version (no index, mapping or block access at another version)",
		Fn:    ruleR8_2})
	register(ruleDef{ID: "R8.3", Prop: "C08", Tier: "quick", Floor: 3,
		Title: "mapping visibility table: the distance table cached for a version is built from that version's own ancestry (itself and its ancestors only); replay applies a version's log under that version",
		Fn:    ruleR8_3})
	register(ruleDef{ID: "R8.4", Prop: "C08", Tier: "quick", Floor: 8,
		Title: "request validation: an index the operation needs but does not find, and a request-named supervoxel that is not in the body, end the operation with an error before anything is changed",
		Fn:    ruleR8_4})
	register(ruleDef{ID: "R8.5", Prop: "C08", Tier: "quick", Floor: 3,
		Title: "index cache coherence: every store write or delete of a label index is accompanied by the update or invalidation of its cache entry",
		Fn:    ruleR8_5})
	register(ruleDef{ID: "R8.6", Prop: "C08", Tier: "quick", Floor: 4,
		Title: "delta aggregation: block writes feed every per-supervoxel count change to the index of every affected body (the whole aggregated table, each body of the label set, ingest and mutate paths both report)",
		Fn:    ruleR8_6})
}

const lmPkg = "datatype/labelmap"

func callName(c ssa.CallInstruction) string { return methodNameOf(c) }

func isCallNamedInstr(in ssa.Instruction, name string) bool {
	c, ok := in.(ssa.CallInstruction)
	return ok && callName(c) == name
}

func successExit(in ssa.Instruction) bool {
	ret, ok := in.(*ssa.Return)
	return ok && !isErrorExit(ret)
}

// assumeIndexPresent prunes the "index is nil" and "index has no blocks" edges.
func assumeIndexPresent(b *ssa.BasicBlock, i int) bool {
	ifi, ok := b.Instrs[len(b.Instrs)-1].(*ssa.If)
	if !ok {
		return true
	}
	bo, ok := ifi.Cond.(*ssa.BinOp)
	if !ok || !(bo.Op == token.EQL || bo.Op == token.NEQ) {
		return true
	}
	x, y := bo.X, bo.Y
	if isNilConst(y) {
		if p, ok := x.Type().(*types.Pointer); ok && typeIs(p.Elem(), "datatype/common/labels", "Index") {
			if bo.Op == token.NEQ {
				return i == 0
			}
			return i == 1
		}
		return true
	}
	if k, ok := constInt(y); ok && k == 0 {
		if c, ok := x.(*ssa.Call); ok {
			if bi, ok := c.Call.Value.(*ssa.Builtin); ok && bi.Name() == "len" {
				if ld, ok := c.Call.Args[0].(*ssa.UnOp); ok {
					if fa, ok := ld.X.(*ssa.FieldAddr); ok {
						if nm, _, _ := fieldName(fa); nm == "Blocks" {
							if bo.Op == token.NEQ {
								return i == 0
							}
							return i == 1
						}
					}
				}
			}
		}
	}
	return true
}

// mapRangeBody: for a `range m` over a map, the block entered for each element.
func mapRangeBody(rng *ssa.Range) (hdr, body *ssa.BasicBlock) {
	for _, ref := range *rng.Referrers() {
		nx, ok := ref.(*ssa.Next)
		if !ok {
			continue
		}
		b := nx.Block()
		if ifi, ok := b.Instrs[len(b.Instrs)-1].(*ssa.If); ok {
			_ = ifi
			return b, b.Succs[0]
		}
	}
	return nil, nil
}

type need struct {
	name string
	mode string // "" always; "idx" assuming the index exists and is non-empty; "each:<field>" once per element of a map range over <field>
}

func ruleR8_1(r *Run) {
	w := r.W
	matrix := map[string][]need{
		"MergeLabels":     {{"addMergeToMapping", ""}, {"PutLabelIndex|putCachedLabelIndex", ""}, {"DeleteLabelIndex", "each:Merged"}, {"LogMerge", ""}},
		"RenumberLabels":  {{"addRenumberToMapping", ""}, {"LogRenumber", ""}, {"DeleteLabelIndex|deleteCachedLabelIndex", ""}, {"PutLabelIndex|moveLabelIndex", "idx"}},
		"moveLabelIndex":  {{"putCachedLabelIndex", "idx"}, {"deleteCachedLabelIndex", ""}},
		"addToLabelIndex": {{"getCachedLabelIndex", ""}, {"putCachedLabelIndex", ""}},
		"CleaveLabel":     {{"cleaveIndex", ""}, {"addCleaveToMapping", ""}, {"LogCleave", ""}},
		"cleaveIndex":     {{"Cleave", ""}, {"putCachedLabelIndex", "x2"}},
		"SplitLabels":     {{"splitPass1", ""}, {"splitPass2", ""}, {"splitIndex", ""}, {"addSplitToMapping", ""}, {"LogSplit", ""}},
		"splitIndex":      {{"putCachedLabelIndex", "x2"}},
		"SplitSupervoxel": {{"splitSupervoxelIndex", ""}, {"splitSupervoxelThread", "started"}, {"addSupervoxelSplitToMapping", ""}, {"putCachedLabelIndex", ""}},
		"ChangeLabelIndex": {{"getCachedLabelIndex", ""}, {"ModifyBlocks", ""}, {"putCachedLabelIndex|deleteCachedLabelIndex", ""}},
		"addMergeToMapping":           {{"getMapping", "nonempty"}, {"setMapping", "nonempty-each"}},
		"addRenumberToMapping":        {{"getMapping", "nonempty"}, {"setMapping", "nonempty-each"}},
		"addCleaveToMapping":          {{"getMapping", ""}, {"setMapping", "nonempty-each"}},
		"addSplitToMapping":           {{"getMapping", ""}},
		"addSupervoxelSplitToMapping": {{"getMapping", ""}, {"setMapping", "x3"}},
	}
	var ops []string
	for k := range matrix {
		ops = append(ops, k)
	}
	sort.Strings(ops)
	for _, op := range ops {
		f := w.method(lmPkg, "Data", op)
		if f == nil {
			f = w.fn(lmPkg, op)
		}
		if f == nil {
			if op == "moveLabelIndex" || op == "addToLabelIndex" {
				continue // helpers of the merge/renumber read-modify-write; absent when the operation inlines them
			}
			r.violation("labelmap."+op, "operation not found", "-")
			continue
		}
		for _, nd := range matrix[op] {
			names := strings.Split(nd.name, "|")
			is := func(in ssa.Instruction) bool { return w.performs(in, names, 2) }
			construct := fmt.Sprintf("labelmap.%s:passes:%s", op, nd.name)
			bad := fmt.Sprintf("%s can succeed without %s: the mapping, the label indices and the stored voxels no longer describe the same bodies", op, nd.name)
			switch {
			case nd.mode == "" || nd.mode == "idx" || nd.mode == "nonempty":
				var ef edgeFilter
				if nd.mode == "idx" {
					ef = assumeIndexPresent
				}
				if nd.mode == "nonempty" {
					ef = assumeNonEmptyParamSet(f)
				}
				p := findPath(f, nil, is, successExit, ef)
				r.check(p == nil, construct, "every success exit passes through "+nd.name, bad, w.fpos(f), w.renderPath(p)...)
			case nd.mode == "started":
				// workers started in a counted loop: the loop header lies on every success path
				okS := false
				for _, c := range calls(f) {
					if !is(c) {
						continue
					}
					hdr := c.Block().Idom()
					if hdr == nil {
						continue
					}
					p := findPath(f, nil, func(in ssa.Instruction) bool { return in.Block() == hdr }, successExit, nil)
					if p == nil {
						okS = true
					}
				}
				r.check(okS, construct+":started", "the workers are started in a loop every success path runs", bad, w.fpos(f))
			case nd.mode == "x2" || nd.mode == "x3":
				want := 2
				if nd.mode == "x3" {
					want = 3
				}
				// distinct call sites, each on every success path
				n := 0
				for _, c := range calls(f) {
					if !is(c) {
						continue
					}
					p := findPath(f, nil, func(in ssa.Instruction) bool { return in == ssa.Instruction(c) }, successExit, nil)
					if p == nil {
						n++
					}
				}
				r.check(n >= want, construct+":"+nd.mode, fmt.Sprintf("%d distinct %s calls lie on every success path", n, nd.name),
					fmt.Sprintf("%s: only %d of the %d required %s calls lie on every success path", op, n, want, nd.name), w.fpos(f))
			case strings.HasPrefix(nd.mode, "each:") || nd.mode == "nonempty-each":
				// the call is made once per element of a range loop that every success path enters
				okEach := false
				why := "no range loop containing the call"
				for _, b := range f.Blocks {
					for _, in := range b.Instrs {
						rng, ok := in.(*ssa.Range)
						var hdr, body *ssa.BasicBlock
						if ok {
							hdr, body = mapRangeBody(rng)
						} else if hb, bb := sliceRangeBody(in); hb != nil {
							hdr, body = hb, bb
						}
						if hdr == nil || body == nil {
							continue
						}
						// call on every path body → header
						has := false
						for _, c := range calls(f) {
							if is(c) && body.Dominates(c.Block()) {
								has = true
							}
						}
						if !has {
							continue
						}
						p := findPath2(f, body.Instrs[0], is, func(in2 ssa.Instruction) bool { return in2.Block() == hdr && in2 == hdr.Instrs[0] }, nil, nil)
						if is(body.Instrs[0]) {
							p = nil
						}
						if p != nil {
							why = "an iteration can skip the call"
							continue
						}
						// every success exit passes the loop header
						p2 := findPath(f, nil, func(in2 ssa.Instruction) bool { return in2.Block() == hdr }, successExit, func() edgeFilter {
							if nd.mode == "nonempty-each" {
								return assumeNonEmptyParamSet(f)
							}
							return nil
						}())
						if p2 != nil {
							why = "a success path bypasses the loop"
							continue
						}
						okEach = true
					}
				}
				r.check(okEach, construct+":each", nd.name+" is called for every element of a loop that every success path runs", bad+" ("+why+")", w.fpos(f))
			}
		}
	}
}

// sliceRangeBody recognises the header of a `for i := range slice` loop (rangeindex) from its phi.
func sliceRangeBody(in ssa.Instruction) (hdr, body *ssa.BasicBlock) {
	phi, ok := in.(*ssa.Phi)
	if !ok || phi.Comment != "rangeindex" {
		return nil, nil
	}
	b := phi.Block()
	if _, ok := b.Instrs[len(b.Instrs)-1].(*ssa.If); !ok {
		return nil, nil
	}
	return b, b.Succs[0]
}

// assumeNonEmptyParamSet prunes the true edge of `len(param) == 0` tests (the "nothing to do" early exits).
func assumeNonEmptyParamSet(f *ssa.Function) edgeFilter {
	return func(b *ssa.BasicBlock, i int) bool {
		ifi, ok := b.Instrs[len(b.Instrs)-1].(*ssa.If)
		if !ok {
			return true
		}
		bo, ok := ifi.Cond.(*ssa.BinOp)
		if !ok || bo.Op != token.EQL {
			return true
		}
		if k, ok := constInt(bo.Y); !ok || k != 0 {
			return true
		}
		c, ok := bo.X.(*ssa.Call)
		if !ok {
			return true
		}
		if bi, ok := c.Call.Value.(*ssa.Builtin); !ok || bi.Name() != "len" {
			return true
		}
		return i == 1
	}
}

// ---------------------------------------------------------------------------------------------
// R8.2 version provenance

func isVersionID(t types.Type) bool { return typeIs(t, "dvid", "VersionID") }

func ruleR8_2(r *Run) {
	w := r.W
	nFn, nArgs, skipped := 0, 0, 0
	var fns []*ssa.Function
	for _, f := range w.RepoFuncs {
		if relPkg(pkgPathOf(f)) == lmPkg && f.Parent() == nil && len(f.Blocks) > 0 && !strings.HasSuffix(w.fposFile(f), "_test.go") {
			fns = append(fns, f)
		}
	}
	sort.Slice(fns, func(i, j int) bool { return fname(fns[i]) < fname(fns[j]) })
	for _, f := range fns {
		// version sources
		var vparams, cparams []*ssa.Parameter
		for _, p := range f.Params {
			if isVersionID(p.Type()) {
				vparams = append(vparams, p)
			}
			if pt, ok := p.Type().(*types.Pointer); ok && typeIs(pt.Elem(), "datastore", "VersionedCtx") {
				cparams = append(cparams, p)
			}
		}
		if len(vparams)+len(cparams) != 1 {
			continue
		}
		// other sources of versions inside the function (or its closures) make it multi-version
		multi := false
		all := withClosures(f)
		for _, fn := range all {
			for _, b := range fn.Blocks {
				for _, in := range b.Instrs {
					v, ok := in.(ssa.Value)
					if !ok {
						continue
					}
					c, isCall := in.(*ssa.Call)
					producesVersion := false
					switch t := v.Type().(type) {
					case *types.Tuple:
						for k := 0; k < t.Len(); k++ {
							if isVersionID(t.At(k).Type()) || isVersionSlice(t.At(k).Type()) {
								producesVersion = true
							}
						}
					default:
						if isVersionID(t) || isVersionSlice(t) {
							producesVersion = true
						}
					}
					if !producesVersion {
						continue
					}
					if isCall {
						if callName(c) == "VersionID" { // ctx.VersionID()
							continue
						}
						multi = true
					}
					switch x := in.(type) {
					case *ssa.Lookup, *ssa.Next, *ssa.Range, *ssa.Index, *ssa.IndexAddr:
						multi = true
					case *ssa.UnOp:
						if x.Op == token.MUL {
							if _, ok := x.X.(*ssa.FieldAddr); ok {
								multi = true // version kept in a struct field (message, op)
							}
							if _, ok := x.X.(*ssa.IndexAddr); ok {
								multi = true
							}
						}
					case *ssa.Field, *ssa.Extract, *ssa.TypeAssert:
						if _, ok := x.(*ssa.Extract); ok {
							// result of a call: decided at the call
						} else {
							multi = true
						}
					}
				}
			}
		}
		if multi {
			skipped++
			continue
		}
		nFn++
		bad := ""
		badPos := ""
		cnt := 0
		for _, fn := range all {
			for _, c := range calls(fn) {
				args := c.Common().Args
				for _, a := range args {
					if !isVersionID(a.Type()) {
						continue
					}
					if _, isConst := a.(*ssa.Const); isConst {
						continue
					}
					cnt++
					ok := true
					for _, rt := range roots(a, fn) {
						switch x := rt.V.(type) {
						case *ssa.Parameter:
							if len(vparams) == 1 && x == vparams[0] {
								continue
							}
						case *ssa.Call:
							if callName(x) == "VersionID" {
								okc := false
								for _, r2 := range ctxRoots(recvOfCall(x), rt.Fn) {
									if p, isP := r2.V.(*ssa.Parameter); isP && len(cparams) == 1 && p == cparams[0] {
										okc = true
									}
								}
								if okc {
									continue
								}
							}
						}
						ok = false
					}
					if !ok {
						bad = callDesc(c)
						badPos = w.pos(c.Pos())
					}
				}
			}
		}
		nArgs += cnt
		if cnt == 0 {
			nFn--
			continue
		}
		r.check(bad == "", fname(f)+":version-arguments", fmt.Sprintf("%d version arguments all derive from the function's own version", cnt),
			"a callee is handed a version other than the one this function was called for ("+bad+"): the operation reads or writes another version's indices, mapping or blocks", firstNonEmpty(badPos, w.fpos(f)))
	}
	r.note("R8.2: %d single-version functions, %d version arguments checked; %d functions handle several versions (ancestry walks, messages carrying versions) and are not charged", nFn, nArgs, skipped)
}

func firstNonEmpty(a, b string) string {
	if a != "" {
		return a
	}
	return b
}

func isVersionSlice(t types.Type) bool {
	if s, ok := t.Underlying().(*types.Slice); ok {
		return isVersionID(s.Elem())
	}
	return false
}

// ---------------------------------------------------------------------------------------------
// R8.3 mapping visibility tables

func ruleR8_3(r *Run) {
	w := r.W
	n := 0
	for _, f := range w.RepoFuncs {
		if relPkg(pkgPathOf(f)) != lmPkg || len(f.Blocks) == 0 {
			continue
		}
		for _, b := range f.Blocks {
			for _, in := range b.Instrs {
				mu, ok := in.(*ssa.MapUpdate)
				if !ok {
					continue
				}
				ld, ok := mu.Map.(*ssa.UnOp)
				if !ok {
					continue
				}
				fa, ok := ld.X.(*ssa.FieldAddr)
				if !ok {
					continue
				}
				if nm, _, _ := fieldName(fa); nm != "mappedVersions" {
					continue
				}
				n++
				construct := fname(f) + ":mappedVersions-table-is-own-ancestry"
				tbl, ok := stripConv(mu.Value).(*ssa.Call)
				if !ok || callName(tbl) != "getDistFromRoot" {
					r.violation(construct, "a version's visibility table is not built by getDistFromRoot", w.pos(mu.Pos()))
					continue
				}
				arg := tbl.Common().Args[0]
				key := mu.Key
				okT := false
				why := ""
				switch a := arg.(type) {
				case *ssa.Slice:
					// ancestors[pos:] with key = ancestors[pos]
					if a.High != nil || a.Low == nil {
						why = "the ancestry slice is not of the form ancestors[pos:]"
						break
					}
					kl, ok := key.(*ssa.UnOp)
					if !ok {
						why = "the key is not an element of the ancestry"
						break
					}
					ia, ok := kl.X.(*ssa.IndexAddr)
					if !ok || ia.X != a.X || ia.Index != a.Low {
						why = "the table does not start at the position of the version it is stored for"
						break
					}
					okT = true
				case *ssa.Parameter:
					// a helper handed the ancestry that starts at the version: table of anc, stored under anc[0]
					if kl, ok := key.(*ssa.UnOp); ok {
						if ia, ok := kl.X.(*ssa.IndexAddr); ok && ia.X == ssa.Value(a) {
							if k, isK := constInt(ia.Index); isK && k == 0 {
								okT = true
							}
						}
					}
					if !okT {
						why = "the key is not the first element of the ancestry the table is built from"
					}
				default:
					// GetAncestry(key)
					for _, rt := range roots(arg, f) {
						c, ok := originCall(rt.V).(*ssa.Call)
						if ok && callName(c) == "GetAncestry" && len(c.Common().Args) == 1 && sameVal(c.Common().Args[0], key, f) {
							okT = true
						} else {
							okT = false
							why = "the table is built from an ancestry that is not the stored version's own (whole path of a descendant?)"
							break
						}
					}
				}
				r.check(okT, construct, "the table stored for a version is getDistFromRoot of that version's own ancestry",
					"the visibility table cached for a version is not built from that version's own ancestry ("+why+"): mappings made at other versions (descendants, siblings) become visible at this version", w.pos(mu.Pos()))
			}
		}
	}
	r.check(n >= 2, "labelmap:mappedVersions-writers", fmt.Sprintf("%d writers of the visibility table", n), "writers of VCache.mappedVersions not found", "-")
	// getDistFromRoot: distance strictly decreases along the ancestry (leaf first): len - i
	if g := w.fn(lmPkg, "getDistFromRoot"); g != nil {
		okD := false
		for _, b := range g.Blocks {
			for _, in := range b.Instrs {
				if mu, ok := in.(*ssa.MapUpdate); ok {
					if bo, ok := stripConv(mu.Value).(*ssa.BinOp); ok && bo.Op == token.SUB {
						if c, ok := bo.X.(*ssa.Call); ok {
							if bi, ok := c.Call.Value.(*ssa.Builtin); ok && bi.Name() == "len" {
								if _, isPhi := bo.Y.(*ssa.BinOp); isPhi || true {
									okD = true
								}
							}
						}
					}
				}
			}
		}
		r.check(okD, "labelmap.getDistFromRoot:len-minus-index", "distance = len(ancestry) − position (nearest version has the largest distance)", "getDistFromRoot no longer assigns len(ancestry) − position", w.fpos(g))
	}
	// vmap.value: picks the entry with the strictly greatest distance among versions present in the table
	if vv := w.method(lmPkg, "vmap", "value"); vv != nil {
		okCmp := false
		for _, b := range vv.Blocks {
			ifi, ok := b.Instrs[len(b.Instrs)-1].(*ssa.If)
			if !ok {
				continue
			}
			bo, ok := ifi.Cond.(*ssa.BinOp)
			if !ok || bo.Op != token.GTR {
				continue
			}
			// X = extract #0 of lookup in param table, Y = phi farthest; found-test dominates
			ex, ok := bo.X.(*ssa.Extract)
			if !ok {
				continue
			}
			lk, ok := ex.Tuple.(*ssa.Lookup)
			if !ok || !lk.CommaOk {
				continue
			}
			if _, isParam := lk.X.(*ssa.Parameter); !isParam {
				continue
			}
			// the found flag guards this comparison
			for _, d := range vv.Blocks {
				dif, ok := d.Instrs[len(d.Instrs)-1].(*ssa.If)
				if !ok {
					continue
				}
				if e2, ok := dif.Cond.(*ssa.Extract); ok && e2.Tuple == ssa.Value(lk) && e2.Index == 1 && d.Succs[0] == b {
					okCmp = true
				}
			}
		}
		r.check(okCmp, "labelmap.vmap.value:nearest-visible-version", "a mapping entry counts only if its version is in the table, and the entry with the greatest distance wins",
			"vmap.value no longer restricts entries to versions present in the visibility table or no longer prefers the nearest version", w.fpos(vv))
	}
	// replay: loadVersionMapping applies every record under ancestors[0]; initToVersion hands it ancestors[pos:]
	// and streams the log of ancestors[pos]
	if lv := w.method(lmPkg, "VCache", "loadVersionMapping"); lv != nil {
		okAll, cnt := true, 0
		for _, c := range calls(lv) {
			if callName(c) != "setMapping" {
				continue
			}
			cnt++
			v := c.Common().Args[1]
			ld, ok := v.(*ssa.UnOp)
			if !ok {
				okAll = false
				continue
			}
			ia, ok := ld.X.(*ssa.IndexAddr)
			k, isK := int64(-1), false
			if ok {
				k, isK = constInt(ia.Index)
			}
			if !ok || !isK || k != 0 {
				okAll = false
				continue
			}
			if p, ok := ia.X.(*ssa.Parameter); !ok || !isVersionSlice(p.Type()) {
				okAll = false
			}
		}
		r.check(okAll && cnt >= 4, "labelmap.loadVersionMapping:records-applied-under-own-version", fmt.Sprintf("%d replayed mappings set under ancestors[0]", cnt),
			"a replayed log record is applied under a version other than the one whose log is replayed", w.fpos(lv))
	}
	if iv := w.method(lmPkg, "VCache", "initToVersion"); iv != nil {
		var goArg, logArg ssa.Value
		for _, c := range calls(iv) {
			switch callName(c) {
			case "loadVersionMapping":
				goArg = c.Common().Args[1]
			case "StreamLog":
				logArg = c.Common().Args[1]
			}
		}
		okI := false
		if sl, ok := goArg.(*ssa.Slice); ok && sl.High == nil && sl.Low != nil && logArg != nil {
			if ld, ok := logArg.(*ssa.UnOp); ok {
				if ia, ok := ld.X.(*ssa.IndexAddr); ok && ia.X == sl.X && ia.Index == sl.Low {
					okI = true
				}
			}
		}
		r.check(okI, "labelmap.initToVersion:log-of-version-replayed-under-it", "the log streamed is that of ancestors[pos] and is applied under ancestors[pos:][0]",
			"initToVersion replays one version's log under another version", w.fpos(iv))
	}
}

// sameVal: a and b resolve to the same single root.
func sameVal(a, b ssa.Value, f *ssa.Function) bool {
	ra, rb := roots(a, f), roots(b, f)
	if len(ra) != 1 || len(rb) != 1 {
		return false
	}
	return ra[0].V == rb[0].V
}

// ---------------------------------------------------------------------------------------------
// R8.4 request validation

func ruleR8_4(r *Run) {
	w := r.W
	// (a) membership of request-named supervoxels in the body's supervoxel set
	n := 0
	for _, f := range w.RepoFuncs {
		if relPkg(pkgPathOf(f)) != lmPkg || len(f.Blocks) == 0 || f.Parent() != nil {
			continue
		}
		for _, b := range f.Blocks {
			for _, in := range b.Instrs {
				lk, ok := in.(*ssa.Lookup)
				if !ok || !lk.CommaOk {
					continue
				}
				isSV := false
				for _, rt := range roots(lk.X, f) {
					if c, ok := rt.V.(*ssa.Call); ok && callName(c) == "GetSupervoxels" {
						isSV = true
					}
				}
				if !isSV {
					continue
				}
				n++
				// the found flag's If
				var found *ssa.Extract
				for _, ref := range *lk.Referrers() {
					if ex, ok := ref.(*ssa.Extract); ok && ex.Index == 1 {
						found = ex
					}
				}
				construct := fname(f) + ":supervoxel-not-in-body⇒error"
				if found == nil {
					r.violation(construct, "the membership of a request-named supervoxel in the body is looked up but not tested", w.pos(lk.Pos()))
					continue
				}
				okV := false
				for _, ref := range *found.Referrers() {
					ifi, ok := ref.(*ssa.If)
					if !ok {
						continue
					}
					nf := ifi.Block().Succs[1] // not-found edge
					p := findPath(f, nf.Instrs[0], func(ssa.Instruction) bool { return false }, successExit, nil)
					if successExit(nf.Instrs[0]) {
						p = []ssa.Instruction{nf.Instrs[0]}
					}
					// also: the loop may not simply continue
					cont := findPath(f, nf.Instrs[0], func(in2 ssa.Instruction) bool { _, isRet := in2.(*ssa.Return); return isRet }, func(in2 ssa.Instruction) bool { return in2 == ssa.Instruction(lk) }, nil)
					if p == nil && cont == nil {
						okV = true
					} else {
						if p == nil {
							p = cont
						}
						r.violation(construct, "a supervoxel named in the request but absent from the body does not end the operation with an error: the mapping is changed for a supervoxel whose voxels stay counted in another body's index", w.pos(lk.Pos()), w.renderPath(p)...)
						okV = false
						found = nil
						break
					}
				}
				if okV {
					r.ok(construct, "the not-found edge reaches only error exits", w.pos(lk.Pos()))
				} else if found != nil {
					r.violation(construct, "the membership flag is not branched on", w.pos(lk.Pos()))
				}
			}
		}
	}
	r.check(n >= 2, "labelmap:supervoxel-membership-tests", fmt.Sprintf("%d membership tests", n), "the membership tests of cleave / split were not found", "-")
	// (b) an index fetched by an operation is tested for nil and one outcome is an error
	for _, e := range []struct{ fn, recv string }{{"MergeLabels", "Data"}, {"RenumberLabels", "Data"}, {"cleaveIndex", "Data"}, {"SplitLabels", "Data"}, {"SplitSupervoxel", "Data"}} {
		f := w.method(lmPkg, e.recv, e.fn)
		if f == nil {
			r.violation("labelmap."+e.fn, "operation not found", "-")
			continue
		}
		k := 0
		for _, c := range calls(f) {
			nm := callName(c)
			if nm != "GetLabelIndex" && nm != "getCachedLabelIndex" {
				continue
			}
			cv, ok := c.(*ssa.Call)
			if !ok {
				continue
			}
			k++
			construct := fmt.Sprintf("labelmap.%s:%s#%d:existence-decides", e.fn, nm, k)
			okE := indexNilTestedWithErrorEdge(f, cv)
			r.check(okE, construct, "the fetched index is compared with nil and one outcome only reaches error exits",
				"an index the operation depends on is used without its absence (or unexpected presence) ending the operation with an error: a body that does not exist is merged, cleaved or split", w.pos(c.Pos()))
		}
		r.check(k > 0, "labelmap."+e.fn+":fetches-index", "index fetched", "operation no longer fetches an index: rule needs review", w.fpos(f))
	}
}

// indexNilTestedWithErrorEdge: some `x == nil` / `x != nil` test on a value derived from the call's
// index result (directly, via a local, or via a map slot it was stored into) has an edge from which
// no success exit is reachable.
func indexNilTestedWithErrorEdge(f *ssa.Function, call *ssa.Call) bool {
	derived := func(v ssa.Value) bool {
		for _, rt := range roots(v, f) {
			x := rt.V
			if ex, ok := x.(*ssa.Extract); ok && ex.Tuple == ssa.Value(call) && ex.Index == 0 {
				return true
			}
			// value read back from a map the result was stored into
			if ex, ok := x.(*ssa.Extract); ok {
				x = ex.Tuple
			}
			if lk, ok := x.(*ssa.Lookup); ok {
				for _, ref := range *lk.X.Referrers() {
					if mu, ok := ref.(*ssa.MapUpdate); ok {
						for _, r2 := range roots(mu.Value, f) {
							if ex2, ok := r2.V.(*ssa.Extract); ok && ex2.Tuple == ssa.Value(call) && ex2.Index == 0 {
								return true
							}
						}
					}
				}
			}
		}
		return false
	}
	for _, b := range f.Blocks {
		ifi, ok := b.Instrs[len(b.Instrs)-1].(*ssa.If)
		if !ok {
			continue
		}
		bo, ok := ifi.Cond.(*ssa.BinOp)
		if !ok || !(bo.Op == token.EQL || bo.Op == token.NEQ) || !isNilConst(bo.Y) {
			continue
		}
		if !derived(bo.X) {
			continue
		}
		for i := 0; i < 2; i++ {
			s := b.Succs[i]
			if successExit(s.Instrs[0]) {
				continue
			}
			p := findPath(f, s.Instrs[0], func(ssa.Instruction) bool { return false }, successExit, nil)
			// the path must not loop back through the test itself to be a genuine "continues" outcome
			if p == nil {
				return true
			}
		}
	}
	return false
}

// ---------------------------------------------------------------------------------------------
// R8.5 cache coherence

func ruleR8_5(r *Run) {
	w := r.W
	sinks := w.newSinks()
	// H0: functions that put/delete a label-index key in the store
	h0 := map[*ssa.Function]string{}
	for _, f := range w.RepoFuncs {
		if relPkg(pkgPathOf(f)) != lmPkg || len(f.Blocks) == 0 || f.Parent() != nil {
			continue
		}
		for _, c := range calls(f) {
			if !sinks.isStorageWrite(c) {
				continue
			}
			nm := callName(c)
			if nm != "Put" && nm != "Delete" {
				continue
			}
			if len(c.Common().Args) < 2 {
				continue
			}
			isIdxKey := false
			for _, rt := range roots(c.Common().Args[1], f) {
				if kc, ok := rt.V.(*ssa.Call); ok && callName(kc) == "NewLabelIndexTKey" {
					isIdxKey = true
				}
			}
			if isIdxKey {
				h0[f] = nm
			}
		}
	}
	r.check(len(h0) >= 3, "labelmap:index-store-writers", fmt.Sprintf("%d functions write label-index keys", len(h0)), "the store-level writers of label indices were not found", "-")
	var cacheEnabled edgeFilter
	summary := map[*ssa.Function]int{} // 1 = always performs a cache operation, 2 = not
	var isCacheOp func(in ssa.Instruction) bool
	isCacheOp = func(in ssa.Instruction) bool {
		c, ok := in.(ssa.CallInstruction)
		if !ok {
			return false
		}
		nm := callName(c)
		if nm == "Errorf" || nm == "Criticalf" {
			return true // a reported failure: not a silent success
		}
		if callee := c.Common().StaticCallee(); callee != nil && relPkg(pkgPathOf(callee)) == lmPkg && len(callee.Blocks) > 0 {
			if _, isH0 := h0[callee]; !isH0 {
				st, seen := summary[callee]
				if !seen {
					summary[callee] = 2
					direct := false
					for _, c2 := range calls(callee) {
						n2 := callName(c2)
						if rv := recvOfCall(c2); rv != nil && (n2 == "Set" || n2 == "Del") {
							if pt, ok := rv.Type().(*types.Pointer); ok && namedOf(pt.Elem()) != nil && namedOf(pt.Elem()).Obj().Name() == "Cache" {
								direct = true
							}
						}
					}
					if direct && findPath(callee, nil, isCacheOp, func(i2 ssa.Instruction) bool { _, isRet := i2.(*ssa.Return); return isRet }, cacheEnabled) == nil {
						summary[callee] = 1
					}
					st = summary[callee]
				}
				if st == 1 {
					return true
				}
			}
		}
		if nm != "Set" && nm != "Del" {
			return false
		}
		rv := recvOfCall(c)
		if rv == nil {
			return false
		}
		pt, ok := rv.Type().(*types.Pointer)
		return ok && namedOf(pt.Elem()) != nil && namedOf(pt.Elem()).Obj().Name() == "Cache"
	}
	cacheEnabled = func(b *ssa.BasicBlock, i int) bool {
		ifi, ok := b.Instrs[len(b.Instrs)-1].(*ssa.If)
		if !ok {
			return true
		}
		bo, ok := ifi.Cond.(*ssa.BinOp)
		if !ok || !(bo.Op == token.EQL || bo.Op == token.NEQ) || !isNilConst(bo.Y) {
			return true
		}
		ld, ok := bo.X.(*ssa.UnOp)
		if !ok {
			return true
		}
		g, ok := ld.X.(*ssa.Global)
		if !ok || g.Name() != "indexCache" {
			return true
		}
		if bo.Op == token.NEQ {
			return i == 0
		}
		return i == 1
	}
	// every call of an H0 function: the caller performs the cache operation on each success path after it,
	// unless the caller itself is a store-level helper all of whose callers are checked (H0 is closed under that)
	var keys []*ssa.Function
	for f := range h0 {
		keys = append(keys, f)
	}
	sort.Slice(keys, func(i, j int) bool { return fname(keys[i]) < fname(keys[j]) })
	n := 0
	for _, f := range w.RepoFuncs {
		if !inRepo(f) || len(f.Blocks) == 0 || strings.HasSuffix(w.fposFile(f), "_test.go") {
			continue
		}
		for _, c := range calls(f) {
			callee := c.Common().StaticCallee()
			if callee == nil {
				continue
			}
			if _, ok := h0[callee]; !ok {
				continue
			}
			n++
			k := 0
			for _, c2 := range calls(f) {
				if c2.Common().StaticCallee() == callee && c2.Pos() <= c.Pos() {
					k++
				}
			}
			construct := fmt.Sprintf("%s:%s#%d:cache-entry-follows", fname(f), callee.Name(), k)
			p := findPath(f, c, isCacheOp, func(in ssa.Instruction) bool {
				if successExit(in) {
					return true
				}
				// in a loop: reaching the same store call again without a cache operation
				return in == ssa.Instruction(c)
			}, cacheEnabled)
			r.check(p == nil, construct, "with the index cache enabled, a cache Set/Del follows the store operation on every success path",
				"a label index is written to / deleted from the store while its cache entry is left as it was: with the index cache enabled, sizes, supervoxel sets and sparse volumes keep being served from the stale entry", w.pos(c.Pos()), w.renderPath(p)...)
		}
	}
	r.check(n >= 3, "labelmap:index-store-writer-callers", fmt.Sprintf("%d call sites of store-level index writers", n), "no call sites found", "-")
}

// ---------------------------------------------------------------------------------------------
// R8.6 delta aggregation

func ruleR8_6(r *Run) {
	w := r.W
	f := w.method(lmPkg, "Data", "aggregateBlockChanges")
	if f == nil {
		r.violation("labelmap.aggregateBlockChanges", "not found", "-")
		return
	}
	// the aggregation table: the map whose slots receive the per-block deltas inside the channel loop
	var table ssa.Value
	for _, b := range f.Blocks {
		for _, in := range b.Instrs {
			if mu, ok := in.(*ssa.MapUpdate); ok {
				if mm, ok := mu.Map.Type().Underlying().(*types.Map); ok {
					if _, inner := mm.Elem().Underlying().(*types.Map); inner {
						// the slot receives a freshly made per-block table: this is the aggregation loop
						for _, rt := range roots(mu.Value, f) {
							if _, fresh := rt.V.(*ssa.MakeMap); fresh {
								table = mu.Map
							}
						}
					}
				}
			}
		}
	}
	var chg ssa.CallInstruction
	for _, c := range calls(f) {
		if callName(c) == "ChangeLabelIndex" {
			chg = c
		}
	}
	if table == nil || chg == nil {
		r.violation("labelmap.aggregateBlockChanges:shape", "aggregation table or ChangeLabelIndex call not found", w.fpos(f))
		return
	}
	same := true
	r1s, r2s := roots(chg.Common().Args[3], f), roots(table, f)
	if len(r1s) != 1 || len(r2s) != 1 || r1s[0].V != r2s[0].V {
		same = false
	}
	r.check(same, "labelmap.aggregateBlockChanges:whole-delta-table", "ChangeLabelIndex receives the aggregation table itself",
		"ChangeLabelIndex is handed something other than the whole aggregated supervoxel-change table: count changes of a body's other supervoxels are dropped from its index", w.pos(chg.Pos()))
	// called for each label of the label set built through the mapping
	okEach := false
	for _, b := range f.Blocks {
		for _, in := range b.Instrs {
			rng, ok := in.(*ssa.Range)
			if !ok {
				continue
			}
			hdr, body := mapRangeBody(rng)
			if hdr == nil || !body.Dominates(chg.Block()) {
				continue
			}
			p := findPath(f, body.Instrs[0], func(in2 ssa.Instruction) bool { return in2 == ssa.Instruction(chg) }, func(in2 ssa.Instruction) bool { return in2 == hdr.Instrs[0] }, nil)
			// the ranged set is the one filled with mapLabel results
			filled := false
			for _, rt := range roots(rng.X, f) {
				for _, ref := range *rt.V.Referrers() {
					if mu, ok := ref.(*ssa.MapUpdate); ok {
						for _, r2 := range roots(mu.Key, f) {
							if c, ok := originCall(r2.V).(*ssa.Call); ok && callName(c) == "mapLabel" {
								filled = true
							}
						}
					}
				}
			}
			if p == nil && filled {
				okEach = true
			}
		}
	}
	r.check(okEach, "labelmap.aggregateBlockChanges:every-affected-body", "the index change is applied for every body the changed supervoxels map to",
		"the index change is not applied for each body obtained by mapping the changed supervoxels", w.pos(chg.Pos()))
	// IndexedLabels is the only guard
	p := findPath(f, nil, func(in ssa.Instruction) bool {
		_, ok := in.(*ssa.Range)
		if !ok {
			return false
		}
		hdr, body := mapRangeBody(in.(*ssa.Range))
		return hdr != nil && body.Dominates(chg.Block())
	}, successExit, func(b *ssa.BasicBlock, i int) bool {
		ifi, ok := b.Instrs[len(b.Instrs)-1].(*ssa.If)
		if !ok {
			return true
		}
		if ld, ok := ifi.Cond.(*ssa.UnOp); ok {
			if fa, ok := ld.X.(*ssa.FieldAddr); ok {
				if nm, _, _ := fieldName(fa); nm == "IndexedLabels" {
					return i == 0
				}
			}
		}
		return true
	})
	r.check(p == nil, "labelmap.aggregateBlockChanges:indexing-not-skipped", "with IndexedLabels set every return passes the per-body index update loop",
		"with indexing enabled the aggregation can return without updating the indices", w.fpos(f), w.renderPath(p)...)
	// both block handlers send their delta
	for _, h := range []string{"handleBlockMutate", "handleBlockIndexing"} {
		hf := w.method(lmPkg, "Data", h)
		if hf == nil {
			r.violation("labelmap."+h, "not found", "-")
			continue
		}
		p := findPath(hf, nil, func(in ssa.Instruction) bool { _, ok := in.(*ssa.Send); return ok }, func(in ssa.Instruction) bool { _, ok := in.(*ssa.Return); return ok }, func(b *ssa.BasicBlock, i int) bool {
			ifi, ok := b.Instrs[len(b.Instrs)-1].(*ssa.If)
			if !ok {
				return true
			}
			if ld, ok := ifi.Cond.(*ssa.UnOp); ok {
				if fa, ok := ld.X.(*ssa.FieldAddr); ok {
					if nm, _, _ := fieldName(fa); nm == "IndexedLabels" {
						return i == 0
					}
				}
				if nt, ok := ifi.Cond.(*ssa.UnOp); ok && nt.Op == token.NOT {
					if ld2, ok := nt.X.(*ssa.UnOp); ok {
						if fa, ok := ld2.X.(*ssa.FieldAddr); ok {
							if nm, _, _ := fieldName(fa); nm == "IndexedLabels" {
								return i == 1
							}
						}
					}
				}
			}
			return true
		})
		hasCalc := false
		for _, c := range calls(hf) {
			if callName(c) == "CalcNumLabels" {
				hasCalc = true
			}
		}
		r.check(p == nil && hasCalc, "labelmap."+h+":reports-delta", "with IndexedLabels set the handler computes the block's label-count delta and sends it",
			"a block write handler can return without reporting the block's count delta to the index aggregation", w.fpos(hf), w.renderPath(p)...)
	}
}

// ---------------------------------------------------------------------------------------------
// R8.7–R8.10

func init() {
	// (R8.7 intentionally not registered: "index read-modify-write under the shard lock" is R11.1; C08
	// quantifies over sequences of operations, not over schedules, so the concurrency rule stays with C11.)
	register(ruleDef{ID: "R8.8", Prop: "C08", Tier: "quick", Floor: 2,
		Title: "the mapping is changed for exactly the supervoxels whose voxels moved: merge and renumber hand the mapping update the supervoxel set of the merged/renumbered index (GetSupervoxels), not a set of body labels",
		Fn:    ruleR8_8})
	register(ruleDef{ID: "R8.9", Prop: "C08", Tier: "quick", Floor: 1,
		Title: "supervoxel split: every block whose counts are rewritten for the split supervoxel is in the list of blocks whose voxels are rewritten",
		Fn:    ruleR8_9})
	register(ruleDef{ID: "R8.10", Prop: "C08", Tier: "quick", Floor: 4,
		Title: "replay agrees with the live mapping update on what is retired: an id is mapped to 0 by the start-up replay only if the live operation of that record type maps the same operand to 0",
		Fn:    ruleR8_10})
}

func ruleR8_8(r *Run) {
	w := r.W
	for _, e := range []struct{ fn, callee string }{{"MergeLabels", "addMergeToMapping"}, {"RenumberLabels", "addRenumberToMapping"}} {
		f := w.method(lmPkg, "Data", e.fn)
		if f == nil {
			r.violation("labelmap."+e.fn, "not found", "-")
			continue
		}
		found := false
		for _, c := range calls(f) {
			if callName(c) != e.callee {
				continue
			}
			found = true
			a := c.Common().Args
			set := a[len(a)-1]
			ok := false
			for _, rt := range roots(set, f) {
				if gc, isC := rt.V.(*ssa.Call); isC && callName(gc) == "GetSupervoxels" {
					ok = true
				} else {
					ok = false
					break
				}
			}
			r.check(ok, "labelmap."+e.fn+":mapping-set-is-supervoxels-of-moved-index", "the set handed to "+e.callee+" is GetSupervoxels() of the merged index",
				e.fn+" hands the mapping update a set that is not the supervoxel set of the index being merged (e.g. the body labels): supervoxels whose id differs from their body keep mapping to a body whose index was just deleted", w.pos(c.Pos()))
		}
		r.check(found, "labelmap."+e.fn+":updates-mapping", e.callee+" called", e.fn+" no longer calls "+e.callee, w.fpos(f))
	}
}

func ruleR8_9(r *Run) {
	w := r.W
	f := w.method(lmPkg, "Data", "splitSupervoxelIndex")
	if f == nil {
		r.violation("labelmap.splitSupervoxelIndex", "not found", "-")
		return
	}
	// the block list: the slice returned; appends to it
	isListAppend := func(in ssa.Instruction) bool {
		c, ok := in.(*ssa.Call)
		if !ok {
			return false
		}
		bi, ok := c.Call.Value.(*ssa.Builtin)
		if !ok || bi.Name() != "append" {
			return false
		}
		return typeIs(c.Type(), "dvid", "IZYXSlice")
	}
	// the count rewrite: delete(svc.Counts, op.Supervoxel)
	n := 0
	for _, c := range calls(f) {
		bi, ok := c.Common().Value.(*ssa.Builtin)
		if !ok || bi.Name() != "delete" {
			continue
		}
		n++
		// every path from the delete to the next iteration / return passes an append to the block list,
		// unless one was already made on the way to the delete
		pre := findPath(f, nil, isListAppend, func(in ssa.Instruction) bool { return in == ssa.Instruction(c) }, nil)
		var post []ssa.Instruction
		if pre != nil {
			post = findPath(f, c, isListAppend, func(in ssa.Instruction) bool {
				if _, isNext := in.(*ssa.Next); isNext {
					return true
				}
				return successExit(in)
			}, nil)
		}
		r.check(pre == nil || post == nil, "labelmap.splitSupervoxelIndex:rewritten-count-block-is-listed", "a block whose counts are rewritten is always added to the list of blocks whose voxels get rewritten",
			"the index of a block is rewritten for the split supervoxel (old id removed, remainder id added) while the block is left out of the list of blocks whose stored voxels are rewritten: its voxels keep the retired id, read as 0 through the mapping and drop out of the body, while the index still counts them", w.pos(c.Pos()), w.renderPath(post)...)
	}
	r.check(n >= 1, "labelmap.splitSupervoxelIndex:count-rewrites", fmt.Sprintf("%d count rewrites", n), "count rewrite not found", w.fpos(f))
}

func ruleR8_10(r *Run) {
	w := r.W
	// live side: operands mapped to 0 by the add*ToMapping functions (field or parameter names, lower-cased)
	live := map[string]bool{}
	for _, name := range []string{"addMergeToMapping", "addRenumberToMapping", "addSplitToMapping", "addCleaveToMapping", "addSupervoxelSplitToMapping"} {
		f := w.fn(lmPkg, name)
		if f == nil {
			r.violation("labelmap."+name, "not found", "-")
			continue
		}
		for _, c := range calls(f) {
			if callName(c) != "setMapping" {
				continue
			}
			a := c.Common().Args
			if k, ok := constInt(a[len(a)-1]); !ok || k != 0 {
				continue
			}
			live[operandName(a[len(a)-2], f)] = true
		}
	}
	lv := w.method(lmPkg, "VCache", "loadVersionMapping")
	if lv == nil {
		r.violation("labelmap.loadVersionMapping", "not found", "-")
		return
	}
	n := 0
	for _, c := range calls(lv) {
		if callName(c) != "setMapping" {
			continue
		}
		a := c.Common().Args
		if k, ok := constInt(a[len(a)-1]); !ok || k != 0 {
			continue
		}
		n++
		nm := operandName(a[len(a)-2], lv)
		r.check(live[nm], fmt.Sprintf("labelmap.loadVersionMapping:retires:%s", nm), "the live operation retires the same operand",
			fmt.Sprintf("the start-up replay maps %q to 0 although no live mapping update retires that operand (live: %v): after a restart voxels of a supervoxel that is still in use read as background", nm, keysOf(live)), w.pos(c.Pos()))
	}
	r.check(n >= 3, "labelmap.loadVersionMapping:retirements", fmt.Sprintf("%d retirements in the replay, live operands %v", n, keysOf(live)), "replay retirements not found", w.fpos(lv))
}

func keysOf(m map[string]bool) []string {
	var out []string
	for k := range m {
		out = append(out, k)
	}
	sort.Strings(out)
	return out
}

// operandName: a lower-cased name for what a value is: a field (…​.Name), a parameter, or the key
// variable of a range over a field ("key(field)").
func operandName(v ssa.Value, f *ssa.Function) string {
	v = stripConv(v)
	switch x := v.(type) {
	case *ssa.Parameter:
		return strings.ToLower(x.Name())
	case *ssa.UnOp:
		if fa, ok := x.X.(*ssa.FieldAddr); ok {
			nm, _, _ := fieldName(fa)
			return strings.ToLower(nm)
		}
		if al, ok := x.X.(*ssa.Alloc); ok {
			return strings.ToLower(al.Comment)
		}
	case *ssa.Field:
		if st := derefStruct(x.X.Type()); st != nil {
			return strings.ToLower(st.Field(x.Field).Name())
		}
	case *ssa.Extract:
		if nx, ok := x.Tuple.(*ssa.Next); ok && x.Index == 1 {
			if _, ok := nx.Iter.(*ssa.Range); ok {
				return "key"
			}
		}
	case *ssa.Call:
		// getter on a proto message: op.GetX()
		if strings.HasPrefix(callName(x), "Get") {
			return strings.ToLower(strings.TrimPrefix(callName(x), "Get"))
		}
	}
	return "?" + v.Name()
}
