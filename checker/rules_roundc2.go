package main

// Rules written after mutation round c (second batch).
//
//   R7.8   per-version clean-up loops remove the entry of the version at hand
//   R7.9   (=R3.14) the branch-head cache is keyed by the repo's root uuid in every reader and writer
//   R4.9   (=R12.5) load-time corrections
//   R4.10  first start: id counters are persisted before the id maps
//   R4.11  (=R12.10) the persisted mutation-id ceiling is the advanced one
//   R12.8  id and label counters are never moved backwards outside loaders
//   R12.7  label allocators hand out labels above the counter and leave it at the last label issued

import (
	"fmt"
	"go/token"
	"strings"

	"golang.org/x/tools/go/ssa"
)

func init() {
	register(ruleDef{ID: "R7.8", Prop: "C07", Tier: "quick", Floor: 3,
		Title: "per-version clean-up removes the entry of the version at hand: inside a loop over a repo's versions every delete from a repo-manager map is keyed by a value of that iteration (a loop-invariant key removes one entry many times and leaves the others)",
		Fn:    ruleLoopDeleteKey})
	register(ruleDef{ID: "R7.9", Prop: "C07", Tier: "quick", Floor: 3,
		Title: "the branch-head cache is keyed by the repo's root uuid plus the branch name in every writer and reader",
		Fn:    ruleBranchCacheKey})
	register(ruleDef{ID: "R3.14", Prop: "C03", Tier: "quick", Floor: 3,
		Title: "the live branch-head cache and the one rebuilt at start-up use the same keys (shared with R7.9)",
		Fn:    ruleBranchCacheKey})
	register(ruleDef{ID: "R4.9", Prop: "C04", Tier: "quick", Floor: 2,
		Title: "a crash between two dependent counter writes is repaired at start-up (shared with R12.5): the loader raises the version-id counter above every known id and the repo-wide max label to the largest per-version max",
		Fn:    ruleR12_5})
	register(ruleDef{ID: "R4.10", Prop: "C04", Tier: "quick", Floor: 1,
		Title: "first start of an empty store: the id counters are persisted before the id maps (a crash in between leaves metadata that loads; the other order leaves maps without counters and every later start fails)",
		Fn:    ruleInitOrder})
	register(ruleDef{ID: "R4.11", Prop: "C04", Tier: "quick", Floor: 1,
		Title: "the persisted mutation-id ceiling covers the ids handed out: what newMutationID writes to the store is the ceiling after it was advanced by the stride",
		Fn:    ruleMutCeiling})
	register(ruleDef{ID: "R12.10", Prop: "C12", Tier: "quick", Floor: 1,
		Title: "mutation ids are not reissued after a restart (shared with R4.11): the ceiling written to the store is the advanced one",
		Fn:    ruleMutCeiling})
	register(ruleDef{ID: "R12.8", Prop: "C12", Tier: "quick", Floor: 4,
		Title: "identifier counters only move forward: outside loaders and copy constructors every store to the repo/version/instance id counters and to the label counters is an increment of the loaded counter or a raise guarded by a comparison with it",
		Fn:    ruleCountersMonotone})
}

// ---------------------------------------------------------------------------------------------

func ruleLoopDeleteKey(r *Run) {
	w := r.W
	n := 0
	for _, f := range w.RepoFuncs {
		if relPkg(pkgPathOf(f)) != "datastore" || len(f.Blocks) == 0 || strings.HasSuffix(w.fposFile(f), "_test.go") {
			continue
		}
		if f.Signature.Recv() == nil || recvName(f.Signature.Recv().Type()) != "repoManager" {
			continue
		}
		k := 0
		for _, c := range calls(f) {
			bi, ok := c.Common().Value.(*ssa.Builtin)
			if !ok || bi.Name() != "delete" {
				continue
			}
			h, set, _ := innermostLoop(f, c.Block())
			if h == nil {
				continue
			}
			// only maps of the manager
			u, ok := c.Common().Args[0].(*ssa.UnOp)
			if !ok {
				continue
			}
			fa, ok := u.X.(*ssa.FieldAddr)
			if !ok || !typeIs(fa.X.Type(), "datastore", "repoManager") {
				continue
			}
			name, _, _ := fieldName(fa)
			n++
			k++
			variant := false
			for d := range dataDeps(c.Common().Args[1]) {
				if in, ok := d.(ssa.Instruction); ok && set[in.Block()] {
					switch d.(type) {
					case *ssa.Next, *ssa.Phi, *ssa.Lookup, *ssa.Extract:
						variant = true
					}
				}
			}
			r.check(variant, fmt.Sprintf("%s:delete#%d:%s:key-of-this-iteration", fname(f), k, name), "the key is computed from the iteration's own values",
				"inside the loop over the repo's versions the entry removed from "+name+" has a key that does not change from one iteration to the next: one entry is removed repeatedly and the entries of the other versions stay behind (stale uuids keep resolving to the deleted repo)", w.pos(c.Pos()))
		}
	}
	r.check(n >= 3, "datastore:loop-deletes", fmt.Sprintf("%d deletes inside loops of repo-manager methods", n), "too few: rule needs review", "-")
}

// ---------------------------------------------------------------------------------------------

func ruleBranchCacheKey(r *Run) {
	w := r.W
	n := 0
	for _, f := range w.RepoFuncs {
		if relPkg(pkgPathOf(f)) != "datastore" || len(f.Blocks) == 0 || strings.HasSuffix(w.fposFile(f), "_test.go") {
			continue
		}
		k := 0
		for _, b := range f.Blocks {
			for _, in := range b.Instrs {
				var m, key ssa.Value
				switch x := in.(type) {
				case *ssa.MapUpdate:
					m, key = x.Map, x.Key
				case *ssa.Lookup:
					m, key = x.X, x.Index
				default:
					continue
				}
				if !isFieldLoad(m, "repoManager", "branchToUUID") {
					continue
				}
				n++
				k++
				rootKeyed := false
				for d := range dataDeps(key) {
					// a helper that is handed the root: every call site passes a value that is the repo's root
					if prm, ok := d.(*ssa.Parameter); ok && typeIs(prm.Type(), "dvid", "UUID") && f.Object() != nil && !f.Object().Exported() {
						idx := -1
						for i, q := range f.Params {
							if q == prm {
								idx = i
							}
						}
						sites := callSitesOf(w)[f]
						all := idx >= 0 && len(sites) > 0
						for _, cs := range sites {
							ci, ok := cs.(ssa.CallInstruction)
							if !ok || idx >= len(ci.Common().Args) {
								all = false
								continue
							}
							okArg := false
							for d2 := range dataDeps(ci.Common().Args[idx]) {
								if isFieldLoad(d2, "repoT", "uuid") {
									okArg = true
								}
								if ex, ok := d2.(*ssa.Extract); ok {
									if nx, ok := ex.Tuple.(*ssa.Next); ok {
										if rg, ok := nx.Iter.(*ssa.Range); ok && isFieldLoad(rg.X, "repoManager", "repoToUUID") {
											okArg = true
										}
									}
								}
								if lk, ok := d2.(*ssa.Lookup); ok && isFieldLoad(lk.X, "repoManager", "repoToUUID") {
									okArg = true
								}
							}
							if !okArg {
								all = false
							}
						}
						if all {
							rootKeyed = true
						}
					}
					// the root uuid of the repo: the uuid field of a repoT, or the value side of repoToUUID
					if isFieldLoad(d, "repoT", "uuid") {
						rootKeyed = true
					}
					// a new repo: the uuid that is entered as the repo's root in the same function
					if d.Referrers() != nil {
						for _, ref := range *d.Referrers() {
							if mu, ok := ref.(*ssa.MapUpdate); ok && mu.Value == d && isFieldLoad(mu.Map, "repoManager", "repoToUUID") {
								rootKeyed = true
							}
						}
					}
					if ex, ok := d.(*ssa.Extract); ok {
						if nx, ok := ex.Tuple.(*ssa.Next); ok {
							if rg, ok := nx.Iter.(*ssa.Range); ok && isFieldLoad(rg.X, "repoManager", "repoToUUID") {
								rootKeyed = true
							}
						}
					}
					if lk, ok := d.(*ssa.Lookup); ok && isFieldLoad(lk.X, "repoManager", "repoToUUID") {
						rootKeyed = true
					}
				}
				r.check(rootKeyed, fmt.Sprintf("%s:branchToUUID#%d:keyed-by-repo-root", fname(f), k), "the key starts from the repo's root uuid",
					"an access to the branch-head cache builds its key from something other than the repo's root uuid: writers and readers (and the start-up rebuild) no longer meet on the same key, so \"<uuid>:<branch>\" resolves to a stale head or is not found", w.pos(in.Pos()))
			}
		}
	}
	r.check(n >= 3, "datastore:branch-cache-accesses", fmt.Sprintf("%d accesses", n), "too few: rule needs review", "-")
}

// ---------------------------------------------------------------------------------------------

func ruleInitOrder(r *Run) {
	w := r.W
	f := w.fn("datastore", "Initialize")
	if f == nil || len(f.Blocks) == 0 {
		r.violation("datastore.Initialize", "not found", "-")
		return
	}
	isIDs := func(in ssa.Instruction) bool {
		c, ok := in.(ssa.CallInstruction)
		return ok && callsMethodNamed(c, "putNewIDs")
	}
	isCaches := func(in ssa.Instruction) bool {
		c, ok := in.(ssa.CallInstruction)
		return ok && callsMethodNamed(c, "putCaches")
	}
	any := findPath(f, nil, nil, isCaches, allEdges)
	p := findPath(f, nil, isIDs, isCaches, allEdges)
	r.check(any != nil && p == nil, "datastore.Initialize:ids-before-maps", "putNewIDs lies on every path to putCaches",
		"on first start the id maps can reach the store before the id counters: a crash in between leaves metadata without counters, which no later start can load", w.fpos(f), w.renderPath(p)...)
}

func ruleMutCeiling(r *Run) {
	w := r.W
	f := w.method("datastore", "repoT", "newMutationID")
	if f == nil || len(f.Blocks) == 0 {
		r.violation("datastore.repoT.newMutationID", "not found", "-")
		return
	}
	var put *ssa.Call
	for _, c := range calls(f) {
		if o := calleeObj(c); o != nil && o.Pkg() != nil && o.Pkg().Path() == "encoding/binary" && strings.HasPrefix(o.Name(), "PutUint") {
			if cc, ok := c.(*ssa.Call); ok {
				put = cc
			}
		}
	}
	stores := fieldStores(f, "repoT", "mutSavedID")
	if put == nil && len(stores) > 0 {
		// the encoding and the store write may sit in a helper (r.putSavedMutationID(store)): the helper encodes the
		// field as it is when called, so the call has to lie behind the store that advances the ceiling
		for _, c := range calls(f) {
			g := staticCallee(c)
			if g == nil || g == f || g.Pkg != f.Pkg || len(g.Blocks) == 0 || !putWritesFieldIn(g, "mutSavedID") {
				continue
			}
			okH := false
			for _, st := range stores {
				if domInstr(st, c) {
					okH = true
				}
			}
			adv := false
			for _, st := range stores {
				if l := lin(st.Val, 0); l.ok && l.c >= 1 {
					adv = true
				}
			}
			r.check(okH && adv, "newMutationID:persisted-ceiling-is-the-advanced-one", "the ceiling is advanced by the stride first and that value is written to the store (through "+g.Name()+")",
				"the value written to the store is the ceiling before it was advanced (or it is not advanced): ids of the current stride are not covered by the persisted ceiling and are handed out again after a restart", w.pos(c.Pos()))
			return
		}
	}
	if put == nil || len(stores) == 0 {
		r.undecided("newMutationID:ceiling", "cannot find the encoding of the ceiling or the store that advances it")
		return
	}
	val := put.Call.Args[len(put.Call.Args)-1]
	ok := false
	for d := range dataDeps(val) {
		ld, isLd := d.(*ssa.UnOp)
		if !isLd || !isFieldLoad(ld, "repoT", "mutSavedID") {
			continue
		}
		for _, st := range stores {
			if domInstr(st, ld) {
				ok = true
			}
		}
	}
	// or the encoded value is the very value stored
	for _, st := range stores {
		if stripConv(val) == stripConv(st.Val) {
			ok = true
		}
	}
	// the advance adds the stride
	adv := false
	for _, st := range stores {
		if l := lin(st.Val, 0); l.ok && l.c >= 1 {
			adv = true
		}
	}
	r.check(ok && adv, "newMutationID:persisted-ceiling-is-the-advanced-one", "the ceiling is advanced by the stride first and that value is written to the store",
		"the value written to the store is the ceiling before it was advanced (or it is not advanced): ids of the current stride are not covered by the persisted ceiling and are handed out again after a restart", w.pos(put.Pos()))
}

// ---------------------------------------------------------------------------------------------

func ruleCountersMonotone(r *Run) {
	w := r.W
	type ctr struct{ pkg, typ, field string }
	ctrs := []ctr{
		{"datastore", "repoManager", "repoID"}, {"datastore", "repoManager", "versionID"}, {"datastore", "repoManager", "instanceID"},
		{"datatype/labelmap", "Data", "MaxRepoLabel"}, {"datatype/labelmap", "Data", "NextLabel"},
	}
	n := 0
	for _, f := range w.RepoFuncs {
		if len(f.Blocks) == 0 || strings.HasSuffix(w.fposFile(f), "_test.go") {
			continue
		}
		p := relPkg(pkgPathOf(f))
		for _, c := range ctrs {
			if p != c.pkg {
				continue
			}
			for i, st := range fieldStores(f, c.typ, c.field) {
				construct := fmt.Sprintf("%s:%s#%d:moves-forward", fname(f), c.field, i+1)
				if _, exc := r.exceptionFor("R12.8", fname(f)+":"+c.field); exc {
					continue
				}
				n++
				okFwd := false
				// (a) increment of the loaded counter
				l := lin(st.Val, 0)
				if l.ok && l.c >= 1 {
					for _, rv := range rootsOfLin(st.Val) {
						if isFieldLoad(rv, c.typ, c.field) {
							okFwd = true
						}
					}
				}
				// (b) counter + n (n a parameter or other non-negative count): sum that contains the loaded counter and no subtraction
				if !okFwd {
					hasLoad, hasSub := false, false
					var walk func(v ssa.Value, d int)
					walk = func(v ssa.Value, d int) {
						if d > 6 {
							return
						}
						v = stripConv(v)
						// a named result kept in memory (functions with defer): the value last stored to it
						if ld, ok := v.(*ssa.UnOp); ok && ld.Op == token.MUL {
							if al, ok := ld.X.(*ssa.Alloc); ok {
								if sv := lastStoreBefore(al, ld); sv != nil {
									walk(sv, d+1)
									return
								}
							}
						}
						if bo, ok := v.(*ssa.BinOp); ok {
							if bo.Op == token.SUB {
								hasSub = true
							}
							if bo.Op == token.ADD || bo.Op == token.SUB {
								walk(bo.X, d+1)
								walk(bo.Y, d+1)
							}
							return
						}
						if isFieldLoad(v, c.typ, c.field) {
							hasLoad = true
						}
					}
					walk(st.Val, 0)
					okFwd = hasLoad && !hasSub
				}
				// (c) a raise: guarded by a comparison `x > counter` (x the stored value) on the true edge
				if !okFwd {
					for _, b := range f.Blocks {
						ifi, ok := b.Instrs[len(b.Instrs)-1].(*ssa.If)
						if !ok {
							continue
						}
						bo, ok := ifi.Cond.(*ssa.BinOp)
						if !ok {
							continue
						}
						var x, cur ssa.Value
						switch bo.Op {
						case token.GTR, token.GEQ:
							x, cur = bo.X, bo.Y
						case token.LSS, token.LEQ:
							x, cur = bo.Y, bo.X
						default:
							continue
						}
						if isFieldLoad(stripConv(cur), c.typ, c.field) && guardedByEdge(ifi, 0, st) {
							for _, rv := range rootsOfLin(st.Val) {
								if sameLoadOrValue(rv, x) {
									okFwd = true
								}
							}
						}
					}
				}
				r.check(okFwd, construct, "an increment of the loaded counter, or a raise guarded by a comparison with it",
					"the counter "+c.field+" is stored with a value that is neither an increment of its current value nor a raise guarded by a comparison: it can move backwards, and identifiers issued before are issued again", w.pos(st.Pos()))
			}
		}
	}
	r.check(n >= 4, "repo:counter-stores", fmt.Sprintf("%d stores to identifier counters examined", n), "too few: rule needs review", "-")
}

// ---------------------------------------------------------------------------------------------
// R12.7 — the label allocators agree on what the counter means

func init() {
	register(ruleDef{ID: "R12.7", Prop: "C12", Tier: "quick", Floor: 4,
		Title: "label allocators agree on the meaning of their counter (the last label handed out): the first label returned is the counter read at entry plus at least one, and the counter is left at the last label returned, in newLabel and newLabels alike",
		Fn:    ruleAllocatorForms})
}

func ruleAllocatorForms(r *Run) {
	w := r.W
	n := 0
	for _, pkg := range []string{"datatype/labelmap"} {
		for _, fn := range []string{"newLabel", "newLabels"} {
			f := w.method(pkg, "Data", fn)
			if f == nil || len(f.Blocks) == 0 {
				r.violation(pkg+".Data."+fn, "label allocator not found", "-")
				continue
			}
			resolve := func(v ssa.Value, at ssa.Instruction) ssa.Value {
				if ld, ok := v.(*ssa.UnOp); ok && ld.Op == token.MUL {
					if al, ok := ld.X.(*ssa.Alloc); ok {
						if sv := lastStoreBefore(al, ld); sv != nil {
							return sv
						}
					}
				}
				return v
			}
			for _, ctr := range []string{"NextLabel", "MaxRepoLabel"} {
				for i, st := range fieldStores(f, "Data", ctr) {
					stored := lin(resolve(st.Val, st), 0)
					atom := ""
					for k, c := range stored.terms {
						if strings.HasPrefix(k, "entry:") && strings.HasSuffix(k, "."+ctr) && c == 1 {
							atom = k
						}
					}
					if !stored.ok || atom == "" {
						continue // not an allocation step (e.g. a raise to a supplied value)
					}
					// success returns behind this store
					for _, b := range f.Blocks {
						ret, ok := b.Instrs[len(b.Instrs)-1].(*ssa.Return)
						if !ok || !st.Block().Dominates(b) || isErrorExit(ret) {
							continue
						}
						var lbls []linForm
						for _, rv := range ret.Results {
							if !isIntType(rv.Type()) {
								continue
							}
							lbls = append(lbls, lin(resolve(rv, ret), 0))
						}
						if len(lbls) == 0 {
							continue
						}
						n++
						first, last := lbls[0], lbls[len(lbls)-1]
						okFirst := first.ok && first.terms[atom] == 1 && len(first.terms) == 1 && first.c >= 1
						okLast := last.ok && last.String() == stored.String()
						r.check(okFirst && okLast, fmt.Sprintf("%s.%s:%s#%d:counter-is-last-label-issued", pkg, fn, ctr, i+1),
							fmt.Sprintf("first label = %s, counter left at %s", first, stored),
							fmt.Sprintf("the allocator returns labels starting at [%s] and leaves the counter at [%s] while the last label returned is [%s]: the first label is not strictly above the counter read, or the counter is not left at the last label issued (the sibling allocator and GET nextlabel read it as \"last label handed out\"), so a label can be issued twice", first, stored, last), w.pos(st.Pos()))
					}
				}
			}
		}
	}
	r.check(n >= 4, "labelmap:allocation-steps", fmt.Sprintf("%d allocation steps examined", n), "too few: rule needs review", "-")
}

func init() {
	register(ruleDef{ID: "R8.13", Prop: "C08", Tier: "quick", Floor: 2,
		Title: "no voxel ends up in two bodies through a reused label (shared with R12.6): labels named by the request of a supervoxel split are covered by the label counters before the next allocation",
		Fn:    ruleR12_6})
}
