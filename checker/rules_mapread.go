package main

// R11.16 / R20.25 — a map that is written under a mutex is also read under it.
//
// For every map-typed struct field of the repository's own types, the mutex that is write-held (on the
// same object) at its MapUpdate/delete sites is taken as its guard when all such sites agree (sites on
// objects under construction do not count).  Every Lookup / Range / len of the field must then happen
// with that mutex held, for reading or writing.  An unguarded read that overlaps a write is the
// runtime's fatal "concurrent map read and map write".

import (
	"os"
	"fmt"
	"go/types"
	"sort"
	"strings"

	"golang.org/x/tools/go/ssa"
)

func init() {
	register(ruleDef{ID: "R20.25", Prop: "C20", Tier: "quick", Floor: 10,
		Title: "no `fatal error: concurrent map read and map write`: a map field whose writes all happen under one mutex of its object is also read (looked up, ranged over, measured) with that mutex held",
		Fn:    ruleGuardedMapReads})
	register(ruleDef{ID: "R11.16", Prop: "C11", Tier: "quick", Floor: 10,
		Title: "reads of mutex-guarded maps hold the mutex (shared with R20.25)",
		Fn:    ruleGuardedMapReads})
}

type mapField struct{ pkg, typ, field string }

func mapFieldOf(v ssa.Value) (mapField, *ssa.FieldAddr, bool) {
	u, ok := v.(*ssa.UnOp)
	if !ok {
		return mapField{}, nil, false
	}
	fa, ok := u.X.(*ssa.FieldAddr)
	if !ok {
		return mapField{}, nil, false
	}
	nm := namedOf(fa.X.Type())
	if nm == nil || nm.Obj().Pkg() == nil || !strings.HasPrefix(nm.Obj().Pkg().Path(), modPath) {
		return mapField{}, nil, false
	}
	name, _, _ := fieldName(fa)
	return mapField{relPkg(nm.Obj().Pkg().Path()), nm.Obj().Name(), name}, fa, true
}

// heldMutexesOfObject: names of mutex fields of the same object (access path) held at `at`.
func heldMutexesOfObject(f *ssa.Function, at ssa.Instruction, obj ssa.Value, needWrite bool) []string {
	var out []string
	seen := map[string]bool{}
	for _, b := range f.Blocks {
		for _, in := range b.Instrs {
			op, ok := asLockOp(in)
			if !ok || !op.lock || seen[op.key] {
				continue
			}
			c := in.(*ssa.Call)
			fa, ok := c.Call.Args[0].(*ssa.FieldAddr)
			if !ok || !(sameRoots(fa.X, obj, f) || placeKey(fa.X) == placeKey(obj)) {
				continue
			}
			seen[op.key] = true
			held, write := heldKeyAt(f, at, op.key)
			if held && (write || !needWrite) {
				out = append(out, op.name)
			}
		}
	}
	return out
}

func ruleGuardedMapReads(r *Run) {
	w := r.W
	inScope := func(f *ssa.Function) bool {
		if len(f.Blocks) == 0 || strings.HasSuffix(w.fposFile(f), "_test.go") {
			return false
		}
		p := relPkg(pkgPathOf(f))
		return strings.HasPrefix(p, "datatype/") || p == "datastore" || p == "server" || strings.HasPrefix(p, "storage")
	}
	// 1. infer guards from the write sites
	type stat struct {
		guards map[string]int
		sites  int
	}
	stats := map[mapField]*stat{}
	for _, f := range w.RepoFuncs {
		if !inScope(f) {
			continue
		}
		for _, b := range f.Blocks {
			for _, in := range b.Instrs {
				var m ssa.Value
				switch x := in.(type) {
				case *ssa.MapUpdate:
					m = x.Map
				case *ssa.Call:
					if bi, ok := x.Call.Value.(*ssa.Builtin); ok && bi.Name() == "delete" {
						m = x.Call.Args[0]
					}
				}
				if m == nil {
					continue
				}
				mf, fa, ok := mapFieldOf(m)
				if !ok || isFreshObject(fa.X, f) {
					continue
				}
				st := stats[mf]
				if st == nil {
					st = &stat{guards: map[string]int{}}
					stats[mf] = st
				}
				st.sites++
				for _, g := range heldMutexesOfObject(f, in, fa.X, true) {
					st.guards[g]++
				}
			}
		}
	}
	if os.Getenv("DVIDLINT_DEBUG_GUARDS") != "" {
		for mf, st := range stats {
			fmt.Fprintf(os.Stderr, "GUARDSTAT %s.%s.%s sites=%d guards=%v\n", mf.pkg, mf.typ, mf.field, st.sites, st.guards)
		}
	}
	guard := map[mapField]string{}
	for mf, st := range stats {
		// fields with a confirmed, frozen guard are decided by the declared-guard rules (R20.41, R20.43);
		// the DAG's node map in particular is guarded by two locks (writers hold both, readers either),
		// which an inference of one guard per field cannot express
		if mf == (mapField{"datastore", "dagT", "nodes"}) {
			continue
		}
		for g, c := range st.guards {
			if c == st.sites && st.sites >= 2 {
				guard[mf] = g
			}
		}
	}
	var fields []mapField
	for mf := range guard {
		fields = append(fields, mf)
	}
	sort.Slice(fields, func(i, j int) bool { return fmt.Sprint(fields[i]) < fmt.Sprint(fields[j]) })
	r.note("R20.25 guards inferred from write sites: %v", func() []string {
		var o []string
		for _, mf := range fields {
			o = append(o, fmt.Sprintf("%s.%s.%s→%s", mf.pkg, mf.typ, mf.field, guard[mf]))
		}
		return o
	}())
	// 2. every read of such a field holds the guard
	n := 0
	for _, f := range w.RepoFuncs {
		if !inScope(f) {
			continue
		}
		fn := f.Name()
		if fn == "GobDecode" || fn == "GobEncode" || strings.HasPrefix(fn, "init") {
			continue
		}
		k := 0
		for _, b := range f.Blocks {
			for _, in := range b.Instrs {
				var m ssa.Value
				what := ""
				switch x := in.(type) {
				case *ssa.Lookup:
					m, what = x.X, "looked up"
				case *ssa.Range:
					m, what = x.X, "ranged over"
				case *ssa.Call:
					if bi, ok := x.Call.Value.(*ssa.Builtin); ok && bi.Name() == "len" {
						m, what = x.Call.Args[0], "measured"
					}
				}
				if m == nil {
					continue
				}
				mf, fa, ok := mapFieldOf(m)
				if !ok {
					continue
				}
				g, ok := guard[mf]
				if !ok || isFreshObject(fa.X, f) {
					continue
				}
				k++
				construct := fmt.Sprintf("%s:%s.%s:read#%d:under-%s", fname(f), mf.typ, mf.field, k, g)
				if _, exc := r.exceptionFor("R20.25", fmt.Sprintf("%s:%s.%s", fname(f), mf.typ, mf.field)); exc {
					continue
				}
				n++
				held := false
				for _, h := range heldMutexesOfObject(f, in, fa.X, false) {
					if h == g {
						held = true
					}
				}
				// a helper that is only ever called with the guard held ("assumes outer locking")
				if !held {
					sites := callSitesOf(w)[f]
					if len(sites) > 0 {
						all := true
						for _, cs := range sites {
							if h, _ := heldAt(cs.Parent(), cs, g, false); !h {
								all = false
							}
						}
						held = all
					}
				}
				r.check(held, construct, "the map is read with its mutex held (here or at every call site)",
					fmt.Sprintf("the map %s.%s, which is only written under %s, is %s without holding it: a request that writes the map at the same time takes the whole process down (`fatal error: concurrent map read and map write`) or the read sees a half-updated map", mf.typ, mf.field, g, what), w.pos(in.Pos()))
			}
		}
	}
	r.check(n >= 10, "repo:guarded-map-reads", fmt.Sprintf("%d reads of %d mutex-guarded map fields", n, len(guard)), "too few: rule needs review", "-")
}

// ---------------------------------------------------------------------------------------------
// R20.26 / R11.17 — an index range computed in one critical section is not used in a later one

func init() {
	reg := func(id, prop string) {
		register(ruleDef{ID: id, Prop: prop, Tier: "quick", Floor: 1,
			Title: "positions in a mutex-guarded slice do not outlive the critical section that computed them: a loop that indexes a guarded slice under one acquisition of its mutex is not bounded by positions computed under an earlier acquisition (the slice can shrink in between: an index out of range in a goroutine nobody recovers)",
			Fn:    ruleStaleIndexAcrossSections})
	}
	reg("R20.26", "C20")
	reg("R11.17", "C11")
}

func ruleStaleIndexAcrossSections(r *Run) {
	w := r.W
	n := 0
	for _, top := range w.RepoFuncs {
		if len(top.Blocks) == 0 || top.Parent() != nil || strings.HasSuffix(w.fposFile(top), "_test.go") || !strings.HasPrefix(relPkg(pkgPathOf(top)), "datatype/") {
			continue
		}
		for _, f := range withClosures(top) {
			names := map[string]bool{}
			for _, b := range f.Blocks {
				for _, in := range b.Instrs {
					if op, ok := asLockOp(in); ok && op.lock {
						names[op.name] = true
					}
				}
			}
			if len(names) == 0 {
				continue
			}
			k := 0
			for _, b := range f.Blocks {
				for _, in := range b.Instrs {
					ia, ok := in.(*ssa.IndexAddr)
					if !ok {
						continue
					}
					if _, _, isField := mapFieldOf(ia.X); !isField {
						continue
					}
					phi, ok := ia.Index.(*ssa.Phi)
					if !ok {
						continue
					}
					for name := range names {
						held, by := heldAt(f, ia, name, false)
						if !held || by == nil {
							continue
						}
						// values the loop counter starts from / is compared with
						var bounds []ssa.Value
						bounds = append(bounds, phi.Edges...)
						if phi.Referrers() != nil {
							for _, ref := range *phi.Referrers() {
								if bo, ok := ref.(*ssa.BinOp); ok {
									bounds = append(bounds, bo.X, bo.Y)
								}
							}
						}
						checked := false
						bad := ""
						for _, bv := range bounds {
							bi, ok := bv.(ssa.Instruction)
							if !ok || bv == ssa.Value(phi) {
								continue
							}
							if _, isCall := bv.(*ssa.Call); !isCall {
								continue
							}
							h2, by2 := heldAt(f, bi, name, false)
							if !h2 || by2 == nil {
								continue
							}
							checked = true
							if by2 != by {
								bad = w.pos(bi.Pos())
							}
						}
						if !checked {
							continue
						}
						n++
						k++
						r.check(bad == "", fmt.Sprintf("%s:guarded-slice-loop#%d:bounds-from-this-section", fname(f), k), "the positions are computed under the acquisition that uses them",
							"a guarded slice is indexed under one acquisition of "+name+" with positions that were computed under an earlier acquisition: an element removed in between makes the index run past the end (a panic in a goroutine that nothing recovers)", bad)
					}
				}
			}
		}
	}
	if n == 0 {
		r.ok("datatype:guarded-slice-loops", "no loop indexes a guarded slice under a lock with bounds computed under a lock", "-")
	}
}

// ---------------------------------------------------------------------------------------------
// R20.28 — values taken out of decoded JSON are type-tested, not asserted

func init() {
	register(ruleDef{ID: "R20.28", Prop: "C20", Tier: "quick", Floor: 5,
		Title: "a well-formed JSON body never ends in a recovered panic: an element taken out of decoded JSON (a map[string]interface{} entry or a []interface{} element) is converted with the comma-ok form or inside a type switch, never with a bare x.(T)",
		Fn:    ruleJSONAssertChecked})
}

func ruleJSONAssertChecked(r *Run) {
	w := r.W
	n := 0
	for _, f := range w.RepoFuncs {
		if len(f.Blocks) == 0 || strings.HasSuffix(w.fposFile(f), "_test.go") {
			continue
		}
		p := relPkg(pkgPathOf(f))
		if p != "datatype/neuronjson" && p != "datatype/keyvalue" && p != "datatype/annotation" {
			continue
		}
		k := 0
		for _, b := range f.Blocks {
			for _, in := range b.Instrs {
				ta, ok := in.(*ssa.TypeAssert)
				if !ok {
					continue
				}
				// the asserted value is an element of a generic JSON container
				fromJSON := false
				switch x := ta.X.(type) {
				case *ssa.Lookup:
					if mt, ok := x.X.Type().Underlying().(*types.Map); ok {
						if _, isI := mt.Elem().Underlying().(*types.Interface); isI {
							fromJSON = true
						}
					}
				case *ssa.Extract:
					if lk, ok := x.Tuple.(*ssa.Lookup); ok {
						if mt, ok := lk.X.Type().Underlying().(*types.Map); ok {
							if _, isI := mt.Elem().Underlying().(*types.Interface); isI && x.Index == 0 {
								fromJSON = true
							}
						}
					}
					if nx, ok := x.Tuple.(*ssa.Next); ok {
						_ = nx
						fromJSON = isIfaceType(x.Type())
					}
				case *ssa.UnOp:
					if ia, ok := x.X.(*ssa.IndexAddr); ok {
						if st, ok := ia.X.Type().Underlying().(*types.Slice); ok {
							if _, isI := st.Elem().Underlying().(*types.Interface); isI {
								fromJSON = true
							}
						}
					}
				}
				if !fromJSON {
					continue
				}
				if _, isIface := ta.AssertedType.Underlying().(*types.Interface); isIface {
					continue
				}
				n++
				k++
				safe := ta.CommaOk
				if !safe && ta.X.Referrers() != nil {
					for _, ref := range *ta.X.Referrers() {
						if t2, ok := ref.(*ssa.TypeAssert); ok && t2.CommaOk && types.Identical(t2.AssertedType, ta.AssertedType) && t2.Block().Dominates(ta.Block()) {
							safe = true
						}
					}
				}
				r.check(safe, fmt.Sprintf("%s:json-element-assert#%d", fname(f), k), "comma-ok form (or behind one)",
					"an element of decoded JSON is converted with a bare type assertion: a body whose element has another JSON type (a number where a string is expected, a mixed list) panics; the panic is recovered and the request, although well formed, is answered with an internal error", w.pos(ta.Pos()))
			}
		}
	}
	r.check(n >= 5, "repo:json-element-assertions", fmt.Sprintf("%d assertions on elements of decoded JSON", n), "too few: rule needs review", "-")
}

func isIfaceType(t types.Type) bool {
	_, ok := t.Underlying().(*types.Interface)
	return ok
}

// ---------------------------------------------------------------------------------------------
// R11.18 / R16.13 — the stored record of an annotation is read, merged and written back in one critical section

func init() {
	reg := func(id, prop string) {
		register(ruleDef{ID: id, Prop: prop, Tier: "quick", Floor: 1,
			Title: "an annotation update is one critical section: where neuronjson reads the stored record of a body, merges the posted fields and writes it back (and mirrors it in memory), a mutex of the instance is write-held from the read to the write, and deletion takes the same mutex",
			Fn:    ruleRecordUpdateSerialised})
	}
	reg("R11.18", "C11")
	reg("R16.13", "C16")
}

func ruleRecordUpdateSerialised(r *Run) {
	w := r.W
	n := 0
	var updKeys []string
	for _, f := range w.RepoFuncs {
		if relPkg(pkgPathOf(f)) != "datatype/neuronjson" || len(f.Blocks) == 0 || f.Parent() != nil || strings.HasSuffix(w.fposFile(f), "_test.go") {
			continue
		}
		var get, put ssa.Instruction
		for _, c := range calls(f) {
			switch callName(c) {
			case "getStoreData":
				if get == nil {
					get = c
				}
			case "putStoreData":
				put = c
			}
		}
		if get == nil || put == nil {
			continue
		}
		n++
		// a mutex write-held at both, by the same acquisition
		ok := false
		for _, b := range f.Blocks {
			for _, in := range b.Instrs {
				op, isOp := asLockOp(in)
				if !isOp || !op.lock || !op.write {
					continue
				}
				h1, w1 := heldKeyAt(f, get, op.key)
				h2, w2 := heldKeyAt(f, put, op.key)
				if h1 && w1 && h2 && w2 {
					// not released in between: no unlock of that key on a path get → put
					rel := func(x ssa.Instruction) bool {
						o2, ok2 := asLockOp(x)
						return ok2 && !o2.lock && o2.key == op.key
					}
					if first := findFirst(f, rel); first == nil || findPath(f, get, func(x ssa.Instruction) bool { return x == put }, rel, allEdges) == nil {
						ok = true
						updKeys = append(updKeys, op.name)
					}
				}
			}
		}
		r.check(ok, fname(f)+":record-read-merge-write:one-critical-section", "a mutex is write-held from getStoreData to putStoreData",
			"the stored record is read, merged with the posted fields and written back without a lock that spans the three steps: two updates of one body at once both start from the old record and the fields of one of them are lost (in the store, in memory, or differently in each)", w.pos(get.Pos()))
	}
	// deletion takes the same mutex
	del := w.method("datatype/neuronjson", "Data", "DeleteData")
	if del != nil && len(updKeys) > 0 {
		same := false
		for _, b := range del.Blocks {
			for _, in := range b.Instrs {
				if op, ok := asLockOp(in); ok && op.lock && op.write {
					for _, k := range updKeys {
						if op.name == k {
							same = true
						}
					}
				}
			}
		}
		r.check(same, "neuronjson.DeleteData:takes-the-update-mutex", "a deletion cannot land in the middle of an update of the same annotation",
			"DeleteData does not take the mutex that serialises updates: a delete between an update's read and its write is undone by the write", w.fpos(del))
	}
	r.check(n >= 1, "neuronjson:record-updates", fmt.Sprintf("%d read-merge-write functions", n), "none found: rule needs review", "-")
}

// findFirst: the first instruction (in block order) satisfying pred, or nil.
func findFirst(f *ssa.Function, pred func(ssa.Instruction) bool) ssa.Instruction {
	for _, b := range f.Blocks {
		for _, in := range b.Instrs {
			if pred(in) {
				return in
			}
		}
	}
	return nil
}

var callSitesMemo = map[*World]map[*ssa.Function][]ssa.Instruction{}

// callSitesOf: static call sites of each repository function (calls through interfaces are not listed:
// a function reached that way has no listed site and gets no credit for its callers' locks).
func callSitesOf(w *World) map[*ssa.Function][]ssa.Instruction {
	if m, ok := callSitesMemo[w]; ok {
		return m
	}
	m := map[*ssa.Function][]ssa.Instruction{}
	for _, f := range w.RepoFuncs {
		for _, c := range calls(f) {
			if callee := staticCallee(c); callee != nil {
				m[callee] = append(m[callee], c)
			}
		}
	}
	callSitesMemo[w] = m
	return m
}
