package main

import (
	"fmt"
	"strings"

	"golang.org/x/tools/go/ssa"
)

func init() {
	register(ruleDef{ID: "R17.1", Prop: "C17", Tier: "quick", Floor: 6,
		Title: "extents cover writes: every voxel/block write entry of imageblk and the label types reaches the extents update; PostExtents decides from the extents stored for the request's own version and writes them back under that context",
		Fn:    ruleR17_1})
	register(ruleDef{ID: "R17.2", Prop: "C17", Tier: "quick", Floor: 2,
		Title: "ROI gate: in ROI-aware write loops the block put is unreachable when the ROI test says the block is outside",
		Fn:    ruleR17_2})
}

func ruleR17_1(r *Run) {
	w := r.W
	post := w.method("datatype/imageblk", "Data", "PostExtents")
	if post == nil {
		r.violation("imageblk.PostExtents", "not found", "-")
		return
	}
	reachPost := w.newReach(func(c ssa.CallInstruction) bool {
		callee := c.Common().StaticCallee()
		return callee != nil && unwrapSynthetic(callee) == post
	}, nil)
	type entry struct{ pkg, recv, name string }
	for _, e := range []entry{
		{"datatype/imageblk", "Data", "PutVoxels"}, {"datatype/imageblk", "Data", "PutBlocks"},
		{"datatype/labelmap", "Data", "PutLabels"}, {"datatype/labelmap", "Data", "storeBlocks"},
		{"datatype/labelarray", "Data", "PutLabels"}, {"datatype/labelarray", "Data", "ReceiveBlocks"},
	} {
		f := w.method(e.pkg, e.recv, e.name)
		if f == nil {
			r.violation(e.pkg+"."+e.name, "write entry point not found", "-")
			continue
		}
		r.check(reachPost.From(f), fmt.Sprintf("%s.%s:reaches-PostExtents", relPkg(full(e.pkg)), e.name),
			"the write entry reaches the extents update", "the write entry "+e.name+" stores voxels but never updates the advertised extents: written voxels can lie outside the extents reported to clients", w.fpos(f))
		// and on every success path, not only on some
		// imageblk calls PostExtents (which tests for growth itself) unconditionally; the label types test for
		// growth first and only for scale 0, so for them reachability (above) is what can be stated soundly
		if e.pkg != "datatype/imageblk" {
			continue
		}
		pth := findPath(f, nil, func(in ssa.Instruction) bool {
			return w.performs(in, []string{"PostExtents", "AdjustPoints", "AdjustIndices", "blockChangesExtents"}, 3)
		}, successExit, nil)
		r.check(pth == nil, fmt.Sprintf("%s.%s:extents-updated-on-every-success-path", relPkg(full(e.pkg)), e.name),
			"every success exit of the write entry has passed the extents update or the test whether the written box grows the extents", "the write entry "+e.name+" can store voxels and return successfully without updating the advertised extents (e.g. only for one kind of write): voxels written outside the recorded extents are not covered by what info/metadata report", w.fpos(f), w.renderPath(pth)...)
	}
	// PostExtents: every success exit is reached through a read of the stored extents with the request ctx
	var ctxParam *ssa.Parameter
	for _, p := range post.Params {
		if typeIs(p.Type(), "datastore", "VersionedCtx") {
			ctxParam = p
		}
	}
	isGet := func(in ssa.Instruction) bool {
		c, ok := in.(ssa.CallInstruction)
		if !ok || !c.Common().IsInvoke() || c.Common().Method.Name() != "Get" {
			return false
		}
		return ctxParam != nil && ctxParamOf(c.Common().Args[0], post) == ctxParam
	}
	p := findPath(post, nil, isGet, func(in ssa.Instruction) bool {
		ret, ok := in.(*ssa.Return)
		return ok && !isErrorExit(ret)
	}, nil)
	r.check(p == nil, "imageblk.PostExtents:decides-from-version-extents",
		"every success exit is reached through a read of the extents stored for the request's version",
		"PostExtents can return success without reading the extents stored for the request's version (e.g. deciding from the instance-wide cached extents): a version whose own extents do not cover the write keeps advertising the smaller box", w.fpos(post), w.renderPath(p)...)
	okPut := false
	for _, c := range calls(post) {
		if c.Common().IsInvoke() && c.Common().Method.Name() == "Put" && ctxParam != nil && ctxParamOf(c.Common().Args[0], post) == ctxParam {
			okPut = true
		}
	}
	r.check(okPut, "imageblk.PostExtents:writes-with-request-ctx", "the grown extents are stored under the request's own context",
		"PostExtents does not store the extents under the request's version context", w.fpos(post))
	// grown ⇒ stored: with AdjustPoints reporting a change, every success exit passes the Put
	var adj ssa.Value
	for _, c := range calls(post) {
		if callee := c.Common().StaticCallee(); callee != nil && callee.Name() == "AdjustPoints" {
			adj, _ = c.(ssa.Value)
		}
	}
	if adj != nil {
		s := runSCCP(post, &AEnv{Atom: func(v ssa.Value) (AVal, bool) {
			if v == adj {
				return aBool(true), true
			}
			return unknown, false
		}})
		isPut := func(in ssa.Instruction) bool {
			c, ok := in.(ssa.CallInstruction)
			return ok && c.Common().IsInvoke() && c.Common().Method.Name() == "Put"
		}
		p2 := findPath(post, adj.(ssa.Instruction), isPut, func(in ssa.Instruction) bool {
			ret, ok := in.(*ssa.Return)
			if !ok || isErrorExit(ret) {
				return false
			}
			// `return store.Put(...)` : the put is the returned value
			return true
		}, s.EdgeFeasible)
		r.check(p2 == nil, "imageblk.PostExtents:grown-extents-stored", "when the extents grow every success exit passes the store Put",
			"the extents grow but a success exit skips storing them", w.fpos(post), w.renderPath(p2)...)
	}
}

func ruleR17_2(r *Run) {
	w := r.W
	n := 0
	for _, f := range w.RepoFuncs {
		p := relPkg(pkgPathOf(f))
		if !(p == "datatype/imageblk" || p == "datatype/labelmap" || p == "datatype/labelarray" || p == "datatype/labelblk") || len(f.Blocks) == 0 {
			continue
		}
		for _, c := range calls(f) {
			callee := c.Common().StaticCallee()
			if callee == nil || !(callee.Name() == "InsideFast" || callee.Name() == "Inside") || !strings.Contains(callee.String(), "roi") {
				continue
			}
			cv, ok := c.(ssa.Value)
			if !ok {
				continue
			}
			// is this a write loop? some storage-put / PutChunk call in the function
			var puts []ssa.Instruction
			for _, c2 := range calls(f) {
				c2c := c2.Common().StaticCallee()
				nm := ""
				if c2c != nil {
					nm = c2c.Name()
				} else if c2.Common().IsInvoke() {
					nm = c2.Common().Method.Name()
				}
				if nm == "PutChunk" || nm == "putChunk" || nm == "Put" || nm == "PutCallback" {
					puts = append(puts, c2)
				}
			}
			if len(puts) == 0 {
				continue
			}
			n++
			s := runSCCP(f, &AEnv{Atom: func(v ssa.Value) (AVal, bool) {
				if v == cv {
					return aBool(false), true // the block is outside the ROI
				}
				// an ROI was requested
				if bo, ok := v.(*ssa.BinOp); ok && (bo.Op.String() == "!=" || bo.Op.String() == "==") {
					for _, pr := range [][2]ssa.Value{{bo.X, bo.Y}, {bo.Y, bo.X}} {
						if isNilConst(pr[1]) && (strings.Contains(pr[0].Type().String(), "roi.") || strings.Contains(pr[0].Type().String(), "ROI")) {
							return aBool(bo.Op.String() == "!="), true
						}
					}
				}
				return unknown, false
			}})
			var bad []ssa.Instruction
			for _, pc := range puts {
				if p := findPath(f, c, func(in ssa.Instruction) bool { return in == ssa.Instruction(c) }, func(in ssa.Instruction) bool { return in == pc }, s.EdgeFeasible); p != nil {
					bad = p
				}
			}
			r.check(bad == nil, fmt.Sprintf("%s:roi-gates-put#%d", fname(f), ordinalOf(c, f)),
				"with the ROI test reporting 'outside', no block put is reachable in that iteration",
				"a block that the ROI test reports as outside the region can still be written: a ROI-restricted write changes blocks outside the region", w.pos(c.Pos()), w.renderPath(bad)...)
		}
	}
	if n < 2 {
		r.undecided("roi-write-loops", fmt.Sprintf("only %d ROI-gated write loops found", n))
	}
}
