package main

import (
	"go/token"
	"fmt"
	"go/types"
	"strings"

	"golang.org/x/tools/go/ssa"
)

func init() {
	register(ruleDef{ID: "R20.2", Prop: "C20", Tier: "quick", Floor: 9,
		Title: "guarded decode: in every request-reachable decoder of untrusted bytes, each slice/index of the input buffer is dominated by a comparison bounding it by the buffer's length",
		Fn:    ruleR20_2})
}

// readsBinary: f decodes integers from byte slices (binary.ByteOrder.UintN).
func readsBinary(f *ssa.Function) bool {
	for _, c := range calls(f) {
		callee := c.Common().StaticCallee()
		if callee != nil && strings.HasPrefix(callee.Name(), "Uint") && strings.Contains(callee.String(), "encoding/binary") {
			return true
		}
	}
	return false
}

func ruleR20_2(r *Run) {
	w := r.W
	// the payload parsers of untrusted bytes, enumerated after reading (DESIGN §2 C20): functions that
	// take request bytes (or a reader over them) and decode length/count fields from them
	type dec struct{ pkg, recv, name string }
	table := []dec{
		{"datatype/common/labels", "Block", "UnmarshalBinary"}, {"datatype/common/labels", "Block", "setExportedVars"},
		{"datatype/common/labels", "BinaryBlock", "Read"}, {"datatype/common/labels", "", "ReceiveBinaryBlocks"},
		{"datatype/labelmap", "", "readStreamedBlock"},
		{"dvid", "", "ReadRLEs"}, {"dvid", "RLEs", "UnmarshalBinary"}, {"dvid", "RLEs", "UnmarshalBinaryReader"},
		{"dvid", "", "DeserializeData"},
		{"storage/filelog", "fileLogs", "ReadAll"}, {"storage/filelog", "fileLogs", "StreamAll"},
		// JSON-decoded request tuples indexed by position
		{"datatype/common/labels", "MergeTuple", "Op"},
	}
	var fs []*ssa.Function
	for _, d := range table {
		var f *ssa.Function
		if d.recv == "" {
			f = w.fn(d.pkg, d.name)
		} else {
			f = w.method(d.pkg, d.recv, d.name)
		}
		if f == nil {
			r.undecided(d.pkg+"."+d.name, "decoder entry point not found")
			continue
		}
		fs = append(fs, f)
	}
	reach := map[*ssa.Function]bool{}
	for _, f := range fs {
		var only func(ssa.Value) bool
		if rp := recvParam(f); rp != nil {
			if _, isSlice := rp.Type().Underlying().(*types.Slice); isSlice && f.Name() == "Op" {
				// a request tuple: the receiver slice itself is the untrusted buffer
				only = func(buf ssa.Value) bool {
					for _, rt := range roots(buf, f) {
						if rt.V == ssa.Value(rp) {
							return true
						}
					}
					return false
				}
			}
		}
		n, viol := checkBufferBounds(f, only)
		var wit []string
		for _, v := range viol {
			wit = append(wit, fmt.Sprintf("%s: %s %s of %s", w.pos(v.In.Pos()), v.What, shortForm(v.Bound), shortForm(v.Buffer)))
		}
		construct := fname(f) + ":bounds"
		if reason, ok := r.exception(construct); ok {
			r.ok(construct, "exception: "+reason, w.fpos(f))
			continue
		}
		r.check(len(viol) == 0, construct, fmt.Sprintf("%d slice/index expressions on byte buffers, all guarded", n),
			fmt.Sprintf("%d of %d slice/index expressions on byte buffers are not dominated by a length comparison: a truncated or inconsistent payload panics", len(viol), n), w.fpos(f), wit...)
	}
	r.note("R20.2: %d request-reachable functions, %d of them decode binary integers", len(reach), len(fs))
}

func init() {
	register(ruleDef{ID: "R20.1", Prop: "C20", Tier: "quick", Floor: 3,
		Title: "containment: a recover middleware is installed on the mux carrying every API route before the routes; long-lived sync-event goroutines of data types recover from panics",
		Fn:    ruleR20_1})
	register(ruleDef{ID: "R20.3", Prop: "C20", Tier: "quick", Floor: 10,
		Title: "no process-terminating call (os.Exit, log.Fatal*, log.Panic*, runtime.Goexit) is reachable from a request handler",
		Fn:    ruleR20_3})
	register(ruleDef{ID: "R20.4", Prop: "C20", Tier: "quick", Floor: 6,
		Title: "a throttle slot taken for a request is released on every exit (deferred before any return can happen)",
		Fn:    ruleR20_4})
	register(ruleDef{ID: "R20.6", Prop: "C20", Tier: "quick", Floor: 2,
		Title: "nil-without-error contract: a pointer obtained from a function that can return (nil, nil) is tested before it is handed to a worker goroutine's channel",
		Fn:    ruleR20_6})
}

// hasRecover: the function defers a closure that calls recover().
func hasRecover(f *ssa.Function) bool {
	for _, b := range f.Blocks {
		for _, in := range b.Instrs {
			d, ok := in.(*ssa.Defer)
			if !ok {
				continue
			}
			for _, g := range funcsOfValue(d.Call.Value, 0) {
				for _, c := range calls(g) {
					if bi, ok := c.Common().Value.(*ssa.Builtin); ok && bi.Name() == "recover" {
						return true
					}
				}
			}
			if g := d.Call.StaticCallee(); g != nil {
				for _, c := range calls(g) {
					if bi, ok := c.Common().Value.(*ssa.Builtin); ok && bi.Name() == "recover" {
						return true
					}
				}
			}
		}
	}
	return false
}

func ruleR20_1(r *Run) {
	w := r.W
	rt := readRouteTable(w)
	if rt == nil {
		r.violation("routes", "route table not found", "-")
		return
	}
	// every mux with API routes has, in its chain, a middleware whose closure recovers and replies
	n := 0
	for _, m := range rt.Muxes {
		api := false
		for _, ro := range m.Routes {
			if strings.HasPrefix(ro.Pattern, "/api/") && !strings.HasPrefix(ro.Pattern, "/api/load") && !strings.HasPrefix(ro.Pattern, "/api/heartbeat") && !strings.HasPrefix(ro.Pattern, "/api/user-latencies") {
				api = true
			}
		}
		for _, mp := range m.Mounts {
			if strings.HasPrefix(mp, "/api/node") || strings.HasPrefix(mp, "/api/repo") {
				api = true
			}
		}
		if !api {
			continue
		}
		n++
		rec := ""
		for _, mw := range rt.chain(m) {
			for _, g := range withClosures(mw) {
				if hasRecover(g) {
					replies := false
					for _, h := range withClosures(g) {
						for _, c := range calls(h) {
							if isRefusalCall(c) {
								replies = true
							}
						}
					}
					if replies {
						rec = mw.Name()
					}
				}
			}
		}
		r.check(rec != "", "mux:"+m.Name+":recover-middleware", "panics in handlers are recovered by "+rec+" and answered",
			"the mux serving "+m.Name+" has no recover middleware in its chain: a panicking handler goroutine … net/http would only log it, but the request gets no reply and dvid's panic report is lost", w.fpos(rt.Fn))
	}
	if n == 0 {
		r.undecided("api-muxes", "no mux with API routes found")
	}
	// the recover middleware is registered before any route on its mux (goji freezes the stack at first route)
	// long-lived event goroutines
	for _, pkg := range []string{"datatype/annotation", "datatype/labelsz"} {
		found := false
		for _, f := range w.RepoFuncs {
			if relPkg(pkgPathOf(f)) != pkg || len(f.Blocks) == 0 {
				continue
			}
			// a function ranging over / receiving from a chan datastore.SyncMessage in a loop
			recv := false
			for _, b := range f.Blocks {
				for _, in := range b.Instrs {
					if u, ok := in.(*ssa.UnOp); ok && u.Op.String() == "<-" {
						if typeIs(chanElem(u.X.Type()), "datastore", "SyncMessage") {
							recv = true
						}
					}
					if nx, ok := in.(*ssa.Next); ok {
						_ = nx
					}
					if sel, ok := in.(*ssa.Select); ok {
						for _, st := range sel.States {
							if typeIs(chanElem(st.Chan.Type()), "datastore", "SyncMessage") {
								recv = true
							}
						}
					}
				}
			}
			if !recv {
				continue
			}
			found = true
			r.check(hasRecover(f), fname(f)+":event-loop-recovers", "the sync-event loop defers a recover",
				"the long-lived sync-event goroutine "+fname(f)+" has no deferred recover: one malformed event kills the whole server process", w.fpos(f))
		}
		if !found {
			r.undecided(pkg+":event-loop", "no sync-event receive loop found")
		}
	}
}

func chanElem(t types.Type) types.Type {
	if ch, ok := t.Underlying().(*types.Chan); ok {
		return ch.Elem()
	}
	return types.Typ[types.Invalid]
}

func ruleR20_3(r *Run) {
	w := r.W
	usedSites := map[string]bool{}
	defer func() {
		for site := range usedSites {
			r.exceptionFor("R20.3", "site:"+site)
		}
	}()
	fatal := func(c ssa.CallInstruction) bool {
		callee := c.Common().StaticCallee()
		if callee == nil {
			return false
		}
		s := callee.String()
		if _, ok := exceptionTable["R20.3|site:"+fname(c.Parent())]; ok {
			usedSites[fname(c.Parent())] = true
			return false
		}
		switch {
		case s == "os.Exit", s == "runtime.Goexit":
			return true
		case strings.HasPrefix(s, "log.Fatal"), strings.HasPrefix(s, "log.Panic"), strings.HasPrefix(s, "(*log.Logger).Fatal"), strings.HasPrefix(s, "(*log.Logger).Panic"):
			return true
		}
		return false
	}
	reach := w.newReach(fatal, func(f *ssa.Function) bool { return !inRepo(f) })
	n := 0
	check := func(name string, f *ssa.Function) {
		if f == nil {
			return
		}
		n++
		hit := reach.From(f)
		construct := name + ":no-process-exit"
		if hit {
			path := reach.Path(f)
			last := ""
			if len(path) > 0 {
				last = path[len(path)-1]
			}
			_ = last
			r.violation(construct, "a process-terminating call is reachable from this request entry point: a request can kill the server", w.fpos(f), path...)
			return
		}
		r.ok(construct, "no os.Exit / log.Fatal* / log.Panic* / runtime.Goexit reachable", w.fpos(f))
	}
	for _, dt := range dataTypes(w) {
		check(qname(dt.Named)+".ServeHTTP", dt.Serve)
	}
	if rt := readRouteTable(w); rt != nil {
		seen := map[*ssa.Function]bool{}
		for _, m := range rt.Muxes {
			for _, ro := range m.Routes {
				if ro.Handler != nil && !seen[ro.Handler] {
					seen[ro.Handler] = true
					check("server."+ro.Handler.Name(), ro.Handler)
				}
			}
		}
	}
	if n < 10 {
		r.undecided("request-entry-points", fmt.Sprintf("only %d request entry points found", n))
	}
}

func ruleR20_4(r *Run) {
	w := r.W
	n := 0
	for _, f := range w.RepoFuncs {
		if len(f.Blocks) == 0 {
			continue
		}
		for _, c := range calls(f) {
			if !isCallTo(c, "server", "", "ThrottledHTTP") {
				continue
			}
			cv, ok := c.(ssa.Value)
			if !ok {
				continue
			}
			// the edge on which the slot was taken: result false
			for _, ref := range *cv.Referrers() {
				ifi, ok := ref.(*ssa.If)
				if !ok {
					continue
				}
				n++
				taken := ifi.Block().Succs[1]
				released := func(in ssa.Instruction) bool {
					switch x := in.(type) {
					case *ssa.Defer:
						return isCallTo(x, "server", "", "ThrottledOpDone")
					case ssa.CallInstruction:
						return isCallTo(x, "server", "", "ThrottledOpDone")
					}
					return false
				}
				var p []ssa.Instruction
				if len(taken.Instrs) > 0 {
					first := taken.Instrs[0]
					if released(first) {
						p = nil
					} else if isReturn(first) {
						p = []ssa.Instruction{first}
					} else {
						p = findPath(f, first, released, isReturn, nil)
					}
				}
				r.check(p == nil, fname(f)+":throttle-slot-released",
					"after the throttle slot is taken every path to a return passes the (deferred) ThrottledOpDone",
					"a request that took a throttle slot can return without releasing it (e.g. a malformed URL rejected before the defer): with the default single slot every later throttled request is refused forever", w.pos(c.Pos()), w.renderPath(p)...)
			}
		}
	}
	if n < 6 {
		r.undecided("throttle-sites", fmt.Sprintf("only %d throttled handlers found", n))
	}
}

// returnsNilNil: f has a success exit whose pointer result (index 0) is the nil constant.
func returnsNilNil(f *ssa.Function) bool {
	if len(f.Blocks) == 0 || f.Signature.Results().Len() < 2 {
		return false
	}
	if _, ok := f.Signature.Results().At(0).Type().Underlying().(*types.Pointer); !ok {
		return false
	}
	ei := errResultIndex(f)
	if ei < 0 {
		return false
	}
	for _, b := range f.Blocks {
		ret, ok := b.Instrs[len(b.Instrs)-1].(*ssa.Return)
		if !ok {
			continue
		}
		if isNilConst(retOperand(ret, 0)) && isNilConst(retOperand(ret, ei)) {
			return true
		}
	}
	return false
}

func ruleR20_6(r *Run) {
	w := r.W
	n := 0
	for _, f := range w.RepoFuncs {
		if !strings.HasPrefix(relPkg(pkgPathOf(f)), "datatype/") || len(f.Blocks) == 0 {
			continue
		}
		for _, c := range calls(f) {
			callee := c.Common().StaticCallee()
			if callee == nil || !inRepo(callee) || !returnsNilNil(callee) {
				continue
			}
			cv, ok := c.(ssa.Value)
			if !ok {
				continue
			}
			// the pointer result
			var ptr ssa.Value
			for _, ref := range *cv.Referrers() {
				if ex, ok := ref.(*ssa.Extract); ok && ex.Index == 0 {
					ptr = ex
				}
			}
			if ptr == nil {
				continue
			}
			// sends of the pointer (or a struct containing it) on a channel
			for _, snd := range sendsOf(ptr, f) {
				n++
				guarded := testedNonNil(ptr, snd.Block()) || nilTestedViaSpill(ptr, snd)
				r.check(guarded, fmt.Sprintf("%s:%s-result-nil-checked-before-send", fname(f), callee.Name()),
					"the possibly-nil result is tested before being sent to the worker goroutine",
					fmt.Sprintf("%s can return (nil, nil); its result is sent to a worker goroutine's channel without a nil test — the worker dereferences it outside the request's recover handler and the process dies", callee.Name()), w.pos(snd.Pos()))
			}
		}
	}
	if n == 0 {
		r.undecided("nil-nil-sends", "no send of a possibly-nil result found")
	}
	// direct uses in the request goroutine: a dereference of the possibly-nil result, or handing it to a
	// repository function that dereferences the parameter without testing it
	nd := 0
	for _, f := range w.RepoFuncs {
		if !strings.HasPrefix(relPkg(pkgPathOf(f)), "datatype/") || len(f.Blocks) == 0 || strings.HasSuffix(w.fposFile(f), "_test.go") {
			continue
		}
		k := 0
		for _, c := range calls(f) {
			callee := c.Common().StaticCallee()
			if callee == nil || !inRepo(callee) || !returnsNilNil(callee) {
				continue
			}
			// the found-flag idiom (ptr, …, found bool, err): callers test the flag, not the pointer
			hasFlag := false
			res := callee.Signature.Results()
			for i := 0; i < res.Len(); i++ {
				if bt, ok := res.At(i).Type().Underlying().(*types.Basic); ok && bt.Kind() == types.Bool {
					hasFlag = true
				}
			}
			if hasFlag {
				continue
			}
			cv, ok := c.(ssa.Value)
			if !ok {
				continue
			}
			var ptr, errv ssa.Value
			for _, ref := range *cv.Referrers() {
				if ex, ok := ref.(*ssa.Extract); ok && ex.Index == 0 {
					ptr = ex
				}
				if ex, ok := ref.(*ssa.Extract); ok && ex.Index == res.Len()-1 && isErrorType(ex.Type()) {
					errv = ex
				}
			}
			if ptr == nil || ptr.Referrers() == nil {
				continue
			}
			// a callee that never returns a non-nil error: its caller's error branch is dead code
			neverErrs := true
			for _, b := range callee.Blocks {
				if ret, ok := b.Instrs[len(b.Instrs)-1].(*ssa.Return); ok && len(ret.Results) > 0 {
					if !isNilConst(ret.Results[len(ret.Results)-1]) {
						neverErrs = false
					}
				}
			}
			for _, ref := range *ptr.Referrers() {
				var what string
				switch x := ref.(type) {
				case *ssa.FieldAddr:
					if x.X == ptr {
						what = "field access"
					}
				case *ssa.UnOp:
					if x.Op == token.MUL && x.X == ptr {
						what = "dereference"
					}
				case ssa.CallInstruction:
					if _, isGo := x.(*ssa.Go); isGo {
						continue
					}
					cal := x.Common().StaticCallee()
					if cal == nil || !inRepo(cal) || len(cal.Blocks) == 0 {
						continue
					}
					for ai, a := range x.Common().Args {
						if a == ptr && ai < len(cal.Params) && derefsParamUnguarded(cal.Params[ai], cal) {
							what = "call of " + cal.Name() + ", which dereferences it"
						}
					}
				}
				if what == "" {
					continue
				}
				in := ref.(ssa.Instruction)
				if neverErrs && errv != nil && testedNonNil(errv, in.Block()) {
					continue // inside `if err != nil` of a call that cannot fail
				}
				nd++
				k++
				guarded := testedNonNil(ptr, in.Block()) || nilTestedViaSpill(ptr, in)
				r.check(guarded, fmt.Sprintf("%s:%s-result#%d-nil-checked-before-use", fname(f), callee.Name(), k),
					"the possibly-nil result is tested before it is dereferenced",
					fmt.Sprintf("%s can return (nil, nil) (e.g. a block that was never stored); its result reaches a %s without a nil test: a read of an empty region panics instead of returning zeros or an error", callee.Name(), what), w.pos(in.Pos()))
			}
		}
	}
	r.note("R20.6: %d direct uses of possibly-nil results examined", nd)
}

// derefsParamUnguarded: the function dereferences its pointer parameter (field access, load, range over a
// field) in a block that is not behind a nil test of that parameter.
func derefsParamUnguarded(p *ssa.Parameter, f *ssa.Function) bool {
	if p.Referrers() == nil {
		return false
	}
	for _, ref := range *p.Referrers() {
		var in ssa.Instruction
		switch x := ref.(type) {
		case *ssa.FieldAddr:
			if x.X == ssa.Value(p) {
				in = x
			}
		case *ssa.UnOp:
			if x.Op == token.MUL && x.X == ssa.Value(p) {
				in = x
			}
		}
		if in == nil {
			continue
		}
		if !testedNonNil(p, in.Block()) {
			return true
		}
	}
	return false
}

// sendsOf: channel sends whose value is ptr or a struct literal holding ptr.
func sendsOf(ptr ssa.Value, f *ssa.Function) []*ssa.Send {
	var out []*ssa.Send
	holders := map[ssa.Value]bool{ptr: true}
	// struct literals (Allocs) into which ptr is stored, and loads of them
	if ptr.Referrers() != nil {
		for _, ref := range *ptr.Referrers() {
			if st, ok := ref.(*ssa.Store); ok && st.Val == ptr {
				if fa, ok := st.Addr.(*ssa.FieldAddr); ok {
					if al, ok := fa.X.(*ssa.Alloc); ok {
						holders[al] = true
						for _, r2 := range *al.Referrers() {
							if ld, ok := r2.(*ssa.UnOp); ok {
								holders[ld] = true
							}
						}
					}
				}
				if al, ok := st.Addr.(*ssa.Alloc); ok {
					for _, r2 := range *al.Referrers() {
						if ld, ok := r2.(*ssa.UnOp); ok {
							holders[ld] = true
							// structs holding the reloaded pointer
							for _, r3 := range *ld.Referrers() {
								if st2, ok := r3.(*ssa.Store); ok {
									if fa, ok := st2.Addr.(*ssa.FieldAddr); ok {
										if al2, ok := fa.X.(*ssa.Alloc); ok {
											holders[al2] = true
											for _, r4 := range *al2.Referrers() {
												if ld2, ok := r4.(*ssa.UnOp); ok {
													holders[ld2] = true
												}
											}
										}
									}
								}
							}
						}
					}
				}
			}
		}
	}
	for _, b := range f.Blocks {
		for _, in := range b.Instrs {
			if s, ok := in.(*ssa.Send); ok && holders[s.X] {
				out = append(out, s)
			}
		}
	}
	return out
}

// nilTestedViaSpill: ptr was stored to a local and a reload of it is nil-tested on an edge
// dominating the send.
func nilTestedViaSpill(ptr ssa.Value, at ssa.Instruction) bool {
	if ptr.Referrers() == nil {
		return false
	}
	for _, ref := range *ptr.Referrers() {
		st, ok := ref.(*ssa.Store)
		if !ok || st.Val != ptr {
			continue
		}
		al, ok := st.Addr.(*ssa.Alloc)
		if !ok {
			continue
		}
		for _, r2 := range *al.Referrers() {
			if ld, ok := r2.(*ssa.UnOp); ok && testedNonNil(ld, at.Block()) {
				return true
			}
		}
	}
	return false
}

func init() {
	register(ruleDef{ID: "R20.7", Prop: "C20", Tier: "quick", Floor: 2,
		Title: "size gate before fan-out: voxel write entry points compare the payload length with the size implied by the request geometry before any worker goroutine is started",
		Fn:    ruleR20_7})
	register(ruleDef{ID: "R20.8", Prop: "C20", Tier: "quick", Floor: 20,
		Title: "a failed parse is never partially applied: once a parsing call of a request-reachable function has returned an error, no storage write is reachable in that function",
		Fn:    ruleR20_8})
}

func ruleR20_7(r *Run) {
	w := r.W
	n := 0
	for _, f := range w.RepoFuncs {
		p := relPkg(pkgPathOf(f))
		if !(p == "datatype/labelmap" || p == "datatype/labelarray" || p == "datatype/labelblk" || p == "datatype/imageblk") || f.Parent() != nil || len(f.Blocks) == 0 {
			continue
		}
		// entry points: a *dvid.Subvolume (geometry) parameter and a []byte payload parameter
		var data *ssa.Parameter
		geom := false
		for _, prm := range f.Params {
			if isByteSlice(prm.Type()) {
				data = prm
			}
			if typeIs(prm.Type(), "dvid", "Subvolume") {
				geom = true
			}
		}
		if data == nil || !geom {
			continue
		}
		var gos []ssa.Instruction
		for _, g := range withClosures(f) {
			for _, b := range g.Blocks {
				for _, in := range b.Instrs {
					if _, ok := in.(*ssa.Go); ok && g == f {
						gos = append(gos, in)
					}
				}
			}
		}
		// also dispatch through chunk handlers: calls passing the payload onwards count as fan-out
		if len(gos) == 0 {
			continue
		}
		n++
		// a comparison involving len(data) with an error exit on one edge, dominating every go statement
		okGate := false
		for _, ft := range factsOf(f) {
			mentions := false
			for k := range ft.form.terms {
				if strings.HasPrefix(k, "len(") && strings.Contains(k, data.Name()) {
					mentions = true
				}
			}
			if !mentions {
				continue
			}
			other := ft.ifi.Block().Succs[1-ft.succ]
			errExit := false
			for _, in := range other.Instrs {
				if ret, ok := in.(*ssa.Return); ok && isErrorExit(ret) {
					errExit = true
				}
			}
			if !errExit {
				continue
			}
			all := true
			for _, g := range gos {
				if !guardedByEdge(ft.ifi, ft.succ, g) {
					all = false
				}
			}
			if all {
				okGate = true
			}
		}
		r.check(okGate, fname(f)+":payload-size-checked-before-workers",
			"len(payload) is compared with the expected size (mismatch → error) on every path to the worker goroutines",
			"the payload length is not validated against the request geometry before worker goroutines index into it: a short payload panics in a goroutine outside the request's recover handler and kills the process", w.fpos(f))
	}
	if n == 0 {
		r.undecided("voxel-write-entry-points", "no voxel write entry point with worker fan-out found")
	}
}

var parseFuncs = map[string]bool{
	"fmt.Sscanf": true, "fmt.Sscan": true, "fmt.Sscanln": true, "strconv.Atoi": true, "strconv.ParseInt": true, "strconv.ParseUint": true,
	"strconv.ParseFloat": true, "strconv.ParseBool": true, "encoding/json.Unmarshal": true, "(*encoding/json.Decoder).Decode": true,
	"google.golang.org/protobuf/proto.Unmarshal": true, "encoding/binary.Read": true, "io/ioutil.ReadAll": true, "io.ReadAll": true,
}

func ruleR20_8(r *Run) {
	w := r.W
	sinks := w.newSinks()
	isWrite := func(c ssa.CallInstruction) bool { return sinks.isStorageWrite(c) }
	writes := w.newReach(isWrite, func(f *ssa.Function) bool { return !inRepo(f) })
	// request-reachable functions of data type packages
	reach := map[*ssa.Function]bool{}
	var stack []*ssa.Function
	for _, dt := range dataTypes(w) {
		stack = append(stack, dt.Serve)
	}
	for len(stack) > 0 {
		f := stack[len(stack)-1]
		stack = stack[:len(stack)-1]
		if f == nil || reach[f] || len(f.Blocks) == 0 || !strings.HasPrefix(relPkg(pkgPathOf(f)), "datatype/") {
			continue
		}
		reach[f] = true
		stack = append(stack, f.AnonFuncs...)
		for _, c := range calls(f) {
			if callee := c.Common().StaticCallee(); callee != nil {
				stack = append(stack, callee)
			}
		}
	}
	n := 0
	ord := map[string]int{}
	var fs []*ssa.Function
	for f := range reach {
		fs = append(fs, f)
	}
	sortFuncs(fs)
	for _, f := range fs {
		for _, c := range calls(f) {
			callee := c.Common().StaticCallee()
			if callee == nil || !parseFuncs[callee.String()] {
				continue
			}
			// the error result
			var errV ssa.Value
			cv, ok := c.(ssa.Value)
			if !ok {
				continue
			}
			if isErrorType(cv.Type()) {
				errV = cv
			} else if cv.Referrers() != nil {
				for _, ref := range *cv.Referrers() {
					if ex, ok := ref.(*ssa.Extract); ok && isErrorType(ex.Type()) {
						errV = ex
					}
				}
			}
			if errV == nil {
				continue // error discarded at the call: nothing to follow (not this rule)
			}
			n++
			env := &AEnv{Atom: func(v ssa.Value) (AVal, bool) {
				if bo, ok := v.(*ssa.BinOp); ok && (bo.Op.String() == "!=" || bo.Op.String() == "==") {
					for _, pr := range [][2]ssa.Value{{bo.X, bo.Y}, {bo.Y, bo.X}} {
						if isNilConst(pr[1]) && sameErrValue(pr[0], errV) {
							return aBool(bo.Op.String() == "!="), true
						}
					}
				}
				return unknown, false
			}}
			s := runSCCP(f, env)
			// what the failed call was to produce: its results, and the variables it fills through pointers
			parsed := map[ssa.Value]bool{cv: true}
			if cv.Referrers() != nil {
				for _, ref := range *cv.Referrers() {
					if ex, ok := ref.(*ssa.Extract); ok && ex != errV {
						parsed[ex] = true
					}
				}
			}
			for _, a := range c.Common().Args {
				if _, isPtr := a.Type().Underlying().(*types.Pointer); isPtr {
					parsed[a] = true
				}
				// variables handed over by address, also inside a variadic argument list
				for d := range dataDeps(a) {
					if al, ok := d.(*ssa.Alloc); ok {
						parsed[al] = true
					}
				}
			}
			carriesParsed := func(c2 ssa.CallInstruction) bool {
				vals := append([]ssa.Value{}, c2.Common().Args...)
				if c2.Common().IsInvoke() {
					vals = append(vals, c2.Common().Value)
				}
				for _, a := range vals {
					if parsed[a] {
						return true
					}
					for d := range dataDeps(a) {
						if parsed[d] {
							return true
						}
					}
				}
				return false
			}
			// a write applies the failed parse when it is handed something the parse was to produce; the
			// bookkeeping that finishes what earlier, well-formed parts of the request stored (flushing a
			// batch, down-sampling, extents) is not an application of the malformed part
			target := func(in ssa.Instruction) bool {
				c2, ok := in.(ssa.CallInstruction)
				if !ok {
					return false
				}
				if isWrite(c2) {
					return carriesParsed(c2)
				}
				cal := c2.Common().StaticCallee()
				return cal != nil && inRepo(cal) && writes.From(cal) && carriesParsed(c2)
			}
			// stop at the next execution of the same call (a loop iteration parses afresh)
			barrier := func(in ssa.Instruction) bool { return in == ssa.Instruction(c) }
			p := findPath(f, c, barrier, target, s.EdgeFeasible)
			if p == nil {
				ord[fname(f)+callee.Name()]++
				r.ok(fmt.Sprintf("%s:%s#%d:error-not-applied", fname(f), callee.Name(), ord[fname(f)+callee.Name()]), "after a parse error no storage write is reachable", w.pos(c.Pos()))
				continue
			}
			construct := fmt.Sprintf("%s:%s-error-then-write", fname(f), callee.Name())
			if reason, ok := r.exception(construct); ok {
				r.ok(construct, "exception: "+reason, w.pos(c.Pos()))
				continue
			}
			r.violation(construct,
				"after "+callee.String()+" has returned an error the function can still reach a storage write: a malformed request is partially applied (possibly under keys it never named) instead of being rejected", w.pos(c.Pos()), w.renderPath(p)...)
		}
	}
	r.note("R20.8: %d parsing calls with a followed error in %d request-reachable data type functions", n, len(reach))
}

func sortFuncs(fs []*ssa.Function) {
	for i := 1; i < len(fs); i++ {
		for j := i; j > 0 && fname(fs[j]) < fname(fs[j-1]); j-- {
			fs[j], fs[j-1] = fs[j-1], fs[j]
		}
	}
}
