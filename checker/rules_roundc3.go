package main

// Rules written after mutation round c (third batch).
//
//   R16.10  in-memory key ranges are closed intervals, like the store's
//   R17.5   a read loop fills its buffer from the running offset
//   R15.6   the LZ4 output buffer is sized by the library's bound
//   R9.5    (=R11.11) the block codec keeps no package-level scratch state

import (
	"fmt"
	"go/token"
	"sort"
	"strings"

	"golang.org/x/tools/go/ssa"
)

func init() {
	register(ruleDef{ID: "R16.10", Prop: "C16", Tier: "quick", Floor: 2,
		Title: "key ranges answered from memory are closed intervals like the store's: where the id list is sliced between two sort.Search results, the lower search looks for the first id >= beg and the upper one for the first id > end",
		Fn:    ruleClosedRangeInMemory})
	register(ruleDef{ID: "R17.5", Prop: "C17", Tier: "quick", Floor: 1,
		Title: "a block body that arrives in several reads is assembled in order: in a loop that accumulates the bytes read, each Read is given the buffer from the accumulated offset on",
		Fn:    ruleReadLoopOffset})
	register(ruleDef{ID: "R15.6", Prop: "C15", Tier: "quick", Floor: 1,
		Title: "incompressible data still serialises: the output buffer handed to lz4.Compress is sized from lz4.CompressBound of the input",
		Fn:    ruleLZ4Bound})
	register(ruleDef{ID: "R9.5", Prop: "C09", Tier: "quick", Floor: 1,
		Title: "the block codec is re-entrant: no function of the compressed-label package writes package-level state (blocks are encoded and decoded concurrently)",
		Fn:    ruleCodecNoGlobals})
}

func ruleClosedRangeInMemory(r *Run) {
	w := r.W
	n := 0
	// classify a sort.Search call by the comparison its predicate makes on the id list
	predOp := func(c *ssa.Call) (token.Token, bool) {
		if len(c.Call.Args) != 2 {
			return 0, false
		}
		for _, cl := range funcsOfValue(c.Call.Args[1], 0) {
			for _, b := range cl.Blocks {
				for _, in := range b.Instrs {
					if bo, ok := in.(*ssa.BinOp); ok {
						switch bo.Op {
						case token.GEQ, token.GTR, token.LSS, token.LEQ:
							// ids[i] on the left
							idsLeft := false
							for d := range dataDeps(bo.X) {
								if ia, ok := d.(*ssa.IndexAddr); ok {
									for d2 := range dataDeps(ia.X) {
										if fa, ok := d2.(*ssa.FieldAddr); ok {
											if name, _, _ := fieldName(fa); name == "ids" {
												idsLeft = true
											}
										}
									}
								}
							}
							if idsLeft {
								return bo.Op, true
							}
						}
					}
				}
			}
		}
		return 0, false
	}
	for _, f := range w.RepoFuncs {
		if relPkg(pkgPathOf(f)) != "datatype/neuronjson" || len(f.Blocks) == 0 || f.Parent() != nil || strings.HasSuffix(w.fposFile(f), "_test.go") {
			continue
		}
		// per function (with its closures): the searches over the id list, in source order
		type srch struct {
			op  token.Token
			pos token.Pos
		}
		var found []srch
		for _, g := range withClosures(f) {
			for _, c := range calls(g) {
				cc, ok := c.(*ssa.Call)
				if !ok {
					continue
				}
				cal := cc.Call.StaticCallee()
				if cal == nil || cal.Pkg == nil || cal.Pkg.Pkg.Path() != "sort" || cal.Name() != "Search" {
					continue
				}
				if op, ok := predOp(cc); ok {
					found = append(found, srch{op, cc.Pos()})
				}
			}
		}
		// ranges come as pairs of searches next to each other
		sort.Slice(found, func(i, j int) bool { return found[i].pos < found[j].pos })
		for i := 0; i+1 < len(found); i += 2 {
			n++
			r.check(found[i].op == token.GEQ && found[i+1].op == token.GTR, fmt.Sprintf("%s:ids-range#%d:closed-interval", fname(f), i/2+1),
				"lower search: first id >= beg; upper search: first id > end",
				fmt.Sprintf("the in-memory id list is cut between a search for ids %s beg and one for ids %s end: the interval is not the closed [beg, end] the store path (and the sibling in-memory path) answers, so a key equal to a bound appears in one answer and not in the other", found[i].op, found[i+1].op), w.pos(found[i].pos))
		}
	}
	r.check(n >= 2, "neuronjson:in-memory-ranges", fmt.Sprintf("%d in-memory ranges", n), "in-memory range slices not found: rule needs review", "-")
}

func ruleReadLoopOffset(r *Run) {
	w := r.W
	n := 0
	for _, f := range w.RepoFuncs {
		if len(f.Blocks) == 0 || strings.HasSuffix(w.fposFile(f), "_test.go") || !strings.HasPrefix(relPkg(pkgPathOf(f)), "datatype/") {
			continue
		}
		k := 0
		for _, c := range calls(f) {
			if methodNameOf(c) != "Read" || len(c.Common().Args) != 1 || !c.Common().IsInvoke() {
				continue
			}
			h, set, _ := innermostLoop(f, c.Block())
			if h == nil {
				continue
			}
			sl, ok := c.Common().Args[0].(*ssa.Slice)
			if !ok {
				continue
			}
			// the count read feeds a loop-carried accumulator
			cv, ok := c.(*ssa.Call)
			if !ok {
				continue
			}
			var acc *ssa.Phi
			for _, b := range f.Blocks {
				if !set[b] {
					continue
				}
				for _, in := range b.Instrs {
					phi, ok := in.(*ssa.Phi)
					if !ok || b != h {
						continue
					}
					for _, e := range phi.Edges {
						for d := range dataDepsUntil(e, func(x ssa.Value) bool { return x == ssa.Value(phi) }) {
							if ex, ok := d.(*ssa.Extract); ok && ex.Tuple == ssa.Value(cv) && ex.Index == 0 {
								acc = phi
							}
						}
					}
				}
			}
			if acc == nil {
				continue
			}
			// an assembling loop: the accumulated count decides when the loop ends (a streaming copy loop only
			// counts for the log)
			decides := false
			for _, b := range f.Blocks {
				if !set[b] {
					continue
				}
				if ifi, ok := b.Instrs[len(b.Instrs)-1].(*ssa.If); ok {
					for d := range dataDepsUntil(ifi.Cond, func(x ssa.Value) bool { return x == ssa.Value(acc) }) {
						if d == ssa.Value(acc) {
							decides = true
						}
					}
				}
			}
			if !decides {
				continue
			}
			n++
			k++
			fromAcc := false
			if sl.Low != nil {
				for d := range dataDeps(sl.Low) {
					if d == ssa.Value(acc) {
						fromAcc = true
					}
				}
			}
			r.check(fromAcc, fmt.Sprintf("%s:read-loop#%d:continues-at-offset", fname(f), k), "each Read gets the buffer from the bytes already read on",
				"a loop that adds up the bytes read hands every Read the start of the buffer: a body that arrives in more than one read overwrites its own beginning and is stored corrupted, without an error", w.pos(c.Pos()))
		}
	}
	r.check(n >= 1, "datatype:accumulating-read-loops", fmt.Sprintf("%d accumulating read loops", n), "no accumulating read loop found: rule needs review", "-")
}

func ruleLZ4Bound(r *Run) {
	w := r.W
	n := 0
	for _, f := range w.RepoFuncs {
		if relPkg(pkgPathOf(f)) != "dvid" || len(f.Blocks) == 0 || strings.HasSuffix(w.fposFile(f), "_test.go") {
			continue
		}
		for _, c := range calls(f) {
			o := calleeObj(c)
			if o == nil || o.Pkg() == nil || !strings.Contains(o.Pkg().Path(), "lz4") || o.Name() != "Compress" {
				continue
			}
			n++
			bound := false
			for d := range dataDeps(c.Common().Args[1]) {
				if cc, ok := d.(*ssa.Call); ok {
					if o2 := calleeObj(cc); o2 != nil && o2.Name() == "CompressBound" {
						bound = true
					}
				}
			}
			r.check(bound, fname(f)+":lz4-output-sized-by-CompressBound", "the destination is made from lz4.CompressBound(input)",
				"the buffer given to lz4.Compress is not sized from lz4.CompressBound: incompressible input needs more room than the input's own length, the call fails and the value cannot be stored", w.pos(c.Pos()))
		}
	}
	r.check(n >= 1, "dvid:lz4-compress-sites", fmt.Sprintf("%d sites", n), "no lz4.Compress call found", "-")
}

func ruleCodecNoGlobals(r *Run) {
	w := r.W
	n, bad := 0, 0
	for _, f := range w.RepoFuncs {
		if relPkg(pkgPathOf(f)) != "datatype/common/labels" || len(f.Blocks) == 0 || strings.HasSuffix(w.fposFile(f), "_test.go") {
			continue
		}
		if f.Name() == "init" || strings.HasPrefix(f.Name(), "init#") {
			continue
		}
		n++
		for _, b := range f.Blocks {
			for _, in := range b.Instrs {
				st, ok := in.(*ssa.Store)
				if !ok {
					continue
				}
				base := st.Addr
				for i := 0; i < 6; i++ {
					switch x := base.(type) {
					case *ssa.IndexAddr:
						base = x.X
						continue
					case *ssa.FieldAddr:
						base = x.X
						continue
					}
					break
				}
				g, ok := base.(*ssa.Global)
				if !ok {
					// slices of a global array
					if sl, ok := base.(*ssa.Slice); ok {
						g, ok = sl.X.(*ssa.Global)
						if !ok {
							continue
						}
					} else {
						continue
					}
				}
				if _, exc := r.exceptionFor("R9.5", fname(f)+":"+g.Name()); exc {
					continue
				}
				bad++
				r.violation(fmt.Sprintf("%s:writes-global:%s", fname(f), g.Name()),
					"a function of the block codec writes the package-level variable "+g.Name()+": blocks are encoded and decoded concurrently, so two calls overwrite each other's state and voxels come back with labels of another block", w.pos(st.Pos()))
			}
		}
	}
	if bad == 0 {
		r.ok("labels:no-package-level-writes", fmt.Sprintf("%d functions examined, none stores to a package-level variable", n), "-")
	}
}

// ---------------------------------------------------------------------------------------------
// C02 cross-registrations and R2.17

func init() {
	register(ruleDef{ID: "R2.13", Prop: "C02", Tier: "quick", Floor: 2,
		Title: "a committed node's uuid cannot be rebound to an open version (shared with R7.3): uuids assigned by a request are entered only after a membership test, every id-counter increment is under idMutex and persisted",
		Fn:    ruleR7_3})
	register(ruleDef{ID: "R2.14", Prop: "C02", Tier: "quick", Floor: 2,
		Title: "deleting an instance cannot reach another instance's committed data (shared with R6.5): the instance key range is [prefix‖id, prefix‖(id+1))",
		Fn:    ruleR6_5})
	register(ruleDef{ID: "R2.15", Prop: "C02", Tier: "quick", Floor: 8,
		Title: "reads at a committed node resolve through the ancestry only (shared with R1.1): every versioned read returns what the DAG walk selected at the request's own version",
		Fn:    ruleR1_1})
	register(ruleDef{ID: "R2.16", Prop: "C02", Tier: "quick", Floor: 6,
		Title: "no shortcut around the DAG walk (shared with R1.7): the resolvers enter every candidate and answer from the walk's result",
		Fn:    ruleCandidates})
	register(ruleDef{ID: "R2.17", Prop: "C02", Tier: "quick", Floor: 1,
		Title: "a committed node is never treated as the open head: VersionedCtx.Head() answers false whenever the node is locked (head-only in-memory state, e.g. neuronjson's schema cache, is written by the open child)",
		Fn:    ruleHeadNotLocked})
}

func ruleHeadNotLocked(r *Run) {
	w := r.W
	n := 0
	for _, f := range w.RepoFuncs {
		if relPkg(pkgPathOf(f)) != "datastore" || f.Name() != "Head" || len(f.Blocks) == 0 || f.Signature.Recv() == nil || recvName(f.Signature.Recv().Type()) != "VersionedCtx" {
			continue
		}
		n++
		env := &AEnv{Atom: func(v ssa.Value) (AVal, bool) {
			if isFieldLoad(v, "nodeT", "locked") {
				return aBool(true), true
			}
			return unknown, false
		}}
		s := runSCCP(f, env)
		reads := false
		for _, b := range f.Blocks {
			for _, in := range b.Instrs {
				if v, ok := in.(ssa.Value); ok && isFieldLoad(v, "nodeT", "locked") {
					reads = true
				}
			}
		}
		bad := ""
		for _, b := range f.Blocks {
			if !s.Feasible[b] {
				continue
			}
			if ret, ok := b.Instrs[len(b.Instrs)-1].(*ssa.Return); ok && len(ret.Results) == 1 {
				if v := s.Eval(ret.Results[0]); !(v.K == ABool && !v.B) {
					bad = w.pos(ret.Pos())
				}
			}
		}
		r.check(reads && bad == "", "VersionedCtx.Head:false-for-committed-node", "with node.locked true every exit returns false",
			"Head() can answer true for a committed (locked) node: instance state kept only for the open head (neuronjson's schemas and in-memory annotations) is then served for, and written through, committed versions", bad)
	}
	if n == 0 {
		r.violation("VersionedCtx.Head", "datastore.VersionedCtx.Head not found", "-")
	}
}

// ---------------------------------------------------------------------------------------------
// R16.11 — store-path ranges over decimal ids are not cut lexicographically

func init() {
	register(ruleDef{ID: "R16.11", Prop: "C16", Tier: "quick", Floor: 2,
		Title: "a key range means the same body ids in memory and in the store: annotation keys are decimal strings whose lexicographic order is not numeric order, so a store scan is bounded by the whole annotation key class (and filtered numerically), never by keys built from the request's ids",
		Fn:    ruleNoLexicographicIDBounds})
}

func ruleNoLexicographicIDBounds(r *Run) {
	w := r.W
	rangeNames := map[string]bool{"GetRange": true, "KeysInRange": true, "SendKeysInRange": true, "ProcessRange": true, "DeleteRange": true, "processStoreKeysInRange": true}
	n := 0
	for _, f := range w.RepoFuncs {
		if relPkg(pkgPathOf(f)) != "datatype/neuronjson" || len(f.Blocks) == 0 || strings.HasSuffix(w.fposFile(f), "_test.go") {
			continue
		}
		k := 0
		for _, c := range calls(f) {
			if !rangeNames[methodNameOf(c)] {
				continue
			}
			var tks []ssa.Value
			for _, a := range c.Common().Args {
				if typeIs(a.Type(), "storage", "TKey") {
					tks = append(tks, a)
				}
			}
			if len(tks) != 2 {
				continue
			}
			n++
			k++
			bad := ""
			for _, tk := range tks {
				for _, rt := range roots(tk, f) {
					x := rt.V
					if ex, ok := x.(*ssa.Extract); ok {
						x = ex.Tuple
					}
					switch y := x.(type) {
					case *ssa.Call:
						if cal := y.Call.StaticCallee(); cal != nil && (cal.Name() == "NewTKey") {
							bad = w.pos(y.Pos())
						}
					case *ssa.Parameter:
						// a helper that is handed its bounds: judged at its callers
					}
				}
			}
			r.check(bad == "", fmt.Sprintf("%s:%s#%d:bounds-are-the-key-class", fname(f), methodNameOf(c), k), "the scan is bounded by the annotation key class",
				"a store scan over annotation keys is bounded by keys built from body ids of the request: the keys are decimal strings (\"10\" < \"9\"), so the scan misses ids and includes others; the in-memory path answers the numeric interval", bad)
		}
	}
	r.check(n >= 2, "neuronjson:store-scans", fmt.Sprintf("%d store scans with two key bounds", n), "too few: rule needs review", "-")
}

// ---------------------------------------------------------------------------------------------
// R16.12 — per-field counts are taken back over the record that is being replaced

func init() {
	register(ruleDef{ID: "R16.12", Prop: "C16", Tier: "quick", Floor: 2,
		Title: "the in-memory field counts follow the records: every loop that decrements the per-field counters ranges over the record held in memory for that body id (the one being replaced or deleted), not over a copy that an earlier step may have pruned; and the field listing emits only names",
		Fn:    ruleFieldCountsSource})
}

func ruleFieldCountsSource(r *Run) {
	w := r.W
	n := 0
	isDecrement := func(in ssa.Instruction) (*ssa.MapUpdate, bool) {
		mu, ok := in.(*ssa.MapUpdate)
		if !ok || !isFieldLoad(mu.Map, "memdb", "fields") {
			return nil, false
		}
		bo, ok := mu.Value.(*ssa.BinOp)
		if !ok || bo.Op != token.SUB {
			return nil, false
		}
		return mu, true
	}
	// wrappers: functions that decrement the count of the field named by one of their parameters
	wrapper := map[*ssa.Function]int{}
	for _, f := range w.RepoFuncs {
		if relPkg(pkgPathOf(f)) != "datatype/neuronjson" || len(f.Blocks) == 0 {
			continue
		}
		for _, b := range f.Blocks {
			for _, in := range b.Instrs {
				if mu, ok := isDecrement(in); ok {
					for i, p := range f.Params {
						if stripConv(mu.Key) == ssa.Value(p) {
							wrapper[f] = i
						}
					}
				}
			}
		}
	}
	for _, f := range w.RepoFuncs {
		if relPkg(pkgPathOf(f)) != "datatype/neuronjson" || len(f.Blocks) == 0 || strings.HasSuffix(w.fposFile(f), "_test.go") {
			continue
		}
		k := 0
		for _, b := range f.Blocks {
			for _, in := range b.Instrs {
				var key ssa.Value
				if mu, ok := isDecrement(in); ok {
					key = mu.Key
				} else if c, ok := in.(ssa.CallInstruction); ok {
					if callee := staticCallee(c); callee != nil {
						if i, ok := wrapper[callee]; ok && i < len(c.Common().Args) {
							key = c.Common().Args[i]
						}
					}
				}
				if key == nil {
					continue
				}
				// the key comes from ranging over …
				var rng *ssa.Range
				for d := range dataDeps(key) {
					if nx, ok := d.(*ssa.Next); ok {
						if rg, ok := nx.Iter.(*ssa.Range); ok {
							rng = rg
						}
					}
				}
				if rng == nil {
					continue
				}
				n++
				k++
				fromMem := false
				for d := range dataDeps(rng.X) {
					if lk, ok := d.(*ssa.Lookup); ok && isFieldLoad(lk.X, "memdb", "data") {
						fromMem = true
					}
				}
				r.check(fromMem, fmt.Sprintf("%s:field-count-decrement#%d:over-the-record-in-memory", fname(f), k), "the loop ranges over mdb.data[bodyid]",
					"the per-field counters are decremented over a map other than the record held in memory (e.g. the stored copy after the update step removed the nulled fields): fields that an update removes keep their count, and GET fields on the head lists fields the store no longer has", w.pos(in.Pos()))
			}
		}
	}
	r.check(n >= 2, "neuronjson:field-count-decrements", fmt.Sprintf("%d decrement loops", n), "too few: rule needs review", "-")
}
