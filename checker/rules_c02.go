package main

import (
	"fmt"
	"go/token"
	"go/types"
	"sort"
	"strings"

	"golang.org/x/tools/go/ssa"
)

func init() {
	register(ruleDef{ID: "R2.1", Prop: "C02", Tier: "quick", Floor: 6,
		Title: "dispatcher gate truth table: (versioned, ¬admin, ¬fullwrite, locked, IsMutationRequest) never reaches DataService.ServeHTTP; operands have the right provenance",
		Fn:    ruleR2_1})
	register(ruleDef{ID: "R2.2", Prop: "C02", Tier: "quick", Floor: 150,
		Title: "effect × gate matrix: for every data type, endpoint keyword and HTTP method class, mayWrite(T,k,m) ⇒ T.IsMutationRequest(m,k)",
		Fn:    ruleR2_2})
	register(ruleDef{ID: "R2.3", Prop: "C02", Tier: "quick", Floor: 12,
		Title: "node/repo route gates: every non-GET node route is behind nodeSelector whose truth table refuses locked nodes except {branch,newversion,tag}; handlers reaching node-state mutators are gated; read-only mode refused on every mux",
		Fn:    ruleR2_3})
	register(ruleDef{ID: "R2.4", Prop: "C02", Tier: "quick", Floor: 3,
		Title: "datastore guards: commit refuses an already locked node; newVersion/merge refuse an unlocked parent",
		Fn:    ruleR2_4})
}

// ---------------------------------------------------------------------------------------------
// shared: the dispatcher

// findDispatcher returns the function of package server that invokes DataService.ServeHTTP and
// the call instruction.
func findDispatcher(w *World) (*ssa.Function, *ssa.Call) {
	for _, f := range w.RepoFuncs {
		if relPkg(pkgPathOf(f)) != "server" {
			continue
		}
		for _, c := range calls(f) {
			cc := c.Common()
			if cc.IsInvoke() && cc.Method.Name() == "ServeHTTP" && cc.Method.Pkg() != nil &&
				relPkg(cc.Method.Pkg().Path()) == "datastore" {
				if call, ok := c.(*ssa.Call); ok {
					return f, call
				}
			}
		}
	}
	return nil, nil
}

// envLookupKey: v is c.Env[<const key>] or c.URLParams[<const key>] (a map Lookup with constant
// string key); returns the map's field name ("Env"/"URLParams") and the key.
func mapLookupConstKey(v ssa.Value) (field, key string, ok bool) {
	if ex, isEx := v.(*ssa.Extract); isEx {
		v = ex.Tuple
	}
	if ta, isTA := v.(*ssa.TypeAssert); isTA {
		v = ta.X
	}
	if ex, isEx := v.(*ssa.Extract); isEx {
		v = ex.Tuple
	}
	lk, isLk := v.(*ssa.Lookup)
	if !isLk {
		return "", "", false
	}
	k, isC := constString(stripConv(lk.Index))
	if !isC {
		return "", "", false
	}
	// map value: load of field Env / URLParams
	if u, isU := lk.X.(*ssa.UnOp); isU {
		if name, _, okf := fieldName(u.X); okf {
			return name, k, true
		}
	}
	return "", k, true
}

func isGlobalLoad(v ssa.Value, pkg, name string) bool {
	u, ok := v.(*ssa.UnOp)
	if !ok || u.Op != token.MUL {
		return false
	}
	g, ok := u.X.(*ssa.Global)
	return ok && g.Name() == name && relPkg(g.Pkg.Pkg.Path()) == pkg
}

// extractOfCall: v is Extract #idx of a call to pkg.name (or the call itself when idx<0).
func extractOfCall(v ssa.Value, idx int, pkg, name string) *ssa.Call {
	if ex, ok := v.(*ssa.Extract); ok {
		if idx >= 0 && ex.Index != idx {
			return nil
		}
		v = ex.Tuple
	}
	c, ok := v.(*ssa.Call)
	if !ok {
		return nil
	}
	if isCallTo(c, pkg, "", name) {
		return c
	}
	return nil
}

func isInvokeOf(v ssa.Value, method string) *ssa.Call {
	c, ok := v.(*ssa.Call)
	if !ok || !c.Call.IsInvoke() || c.Call.Method.Name() != method {
		return nil
	}
	return c
}

// isRefusalCall: writes a client/server error reply.
func isRefusalCall(c ssa.CallInstruction) bool {
	if isCallTo(c, "server", "", "BadRequest") {
		return true
	}
	if f := staticCallee(c); f != nil {
		switch f.String() {
		case "net/http.Error", "net/http.NotFound":
			return true
		}
	}
	return false
}

type gateAtoms struct {
	admin, fullwrite, readonly, locked, isMut, versioned map[ssa.Value]bool
	lockedCalls, isMutCalls, versionedCalls              []*ssa.Call
}

// gateHelpers: the bool-returning functions of the dispatcher's package that it calls (the gate, or part of it, moved
// into lockedNodeRequestAllowed(c, w, r, data, uuid) bool): their atoms count, and the dispatcher's SCCP evaluates
// their result under the same assignment.
func gateHelpers(disp *ssa.Function) []*ssa.Function {
	var out []*ssa.Function
	seen := map[*ssa.Function]bool{}
	for _, c := range calls(disp) {
		h := c.Common().StaticCallee()
		if h == nil || seen[h] || len(h.Blocks) == 0 || h.Pkg == nil || h.Pkg != disp.Pkg || h.Parent() != nil {
			continue
		}
		res := h.Signature.Results()
		if res.Len() != 1 {
			continue
		}
		// a bool ("may proceed") or an error ("refused")
		if bt, ok := res.At(0).Type().(*types.Basic); !ok || bt.Kind() != types.Bool {
			if !isErrorType(res.At(0).Type()) {
				continue
			}
		}
		seen[h] = true
		out = append(out, h)
	}
	return out
}

// gateArg: a helper's parameter seen from the dispatcher (the argument of the helper's one call).
func gateArg(v ssa.Value, disp *ssa.Function) ssa.Value {
	v = stripConv(v)
	prm, ok := v.(*ssa.Parameter)
	if !ok || prm.Parent() == disp {
		return v
	}
	h := prm.Parent()
	idx := -1
	for i, q := range h.Params {
		if q == prm {
			idx = i
		}
	}
	var arg ssa.Value
	n := 0
	for _, c := range calls(disp) {
		if c.Common().StaticCallee() == h && idx >= 0 && idx < len(c.Common().Args) {
			arg = c.Common().Args[idx]
			n++
		}
	}
	if n == 1 {
		return stripConv(arg)
	}
	return v
}

func collectGateAtoms(fs ...*ssa.Function) *gateAtoms {
	g := &gateAtoms{admin: map[ssa.Value]bool{}, fullwrite: map[ssa.Value]bool{}, readonly: map[ssa.Value]bool{},
		locked: map[ssa.Value]bool{}, isMut: map[ssa.Value]bool{}, versioned: map[ssa.Value]bool{}}
	for _, f := range fs {
		collectGateAtomsIn(g, f)
	}
	return g
}

func collectGateAtomsIn(g *gateAtoms, f *ssa.Function) {
	for _, b := range f.Blocks {
		for _, in := range b.Instrs {
			v, ok := in.(ssa.Value)
			if !ok {
				continue
			}
			if ta, ok := v.(*ssa.TypeAssert); ok {
				if _, key, ok := mapLookupConstKey(ta); ok && key == "adminPriv" {
					if ta.CommaOk {
						for _, ref := range *ta.Referrers() {
							if ex, ok := ref.(*ssa.Extract); ok && ex.Index == 0 {
								g.admin[ex] = true
							}
						}
					} else {
						g.admin[ta] = true
					}
				}
			}
			if isGlobalLoad(v, "server", "fullwrite") {
				g.fullwrite[v] = true
			}
			if isGlobalLoad(v, "server", "readonly") {
				g.readonly[v] = true
			}
			if ex, ok := v.(*ssa.Extract); ok && ex.Index == 0 {
				if c := extractOfCall(ex, 0, "datastore", "LockedUUID"); c != nil {
					g.locked[ex] = true
					g.lockedCalls = append(g.lockedCalls, c)
				}
			}
			if c := isInvokeOf(v, "IsMutationRequest"); c != nil {
				g.isMut[v] = true
				g.isMutCalls = append(g.isMutCalls, c)
			}
			if c := isInvokeOf(v, "Versioned"); c != nil {
				g.versioned[v] = true
				g.versionedCalls = append(g.versionedCalls, c)
			}
		}
	}
}

func (g *gateAtoms) atomFn(assign map[string]bool, method string) func(v ssa.Value) (AVal, bool) {
	return func(v ssa.Value) (AVal, bool) {
		look := func(m map[ssa.Value]bool, name string) (AVal, bool) {
			if m[v] {
				if b, ok := assign[name]; ok {
					return aBool(b), true
				}
			}
			return unknown, false
		}
		for _, p := range []struct {
			m map[ssa.Value]bool
			n string
		}{{g.admin, "admin"}, {g.fullwrite, "fullwrite"}, {g.readonly, "readonly"}, {g.locked, "locked"}, {g.isMut, "isMut"}, {g.versioned, "versioned"}} {
			if a, ok := look(p.m, p.n); ok {
				return a, true
			}
		}
		if method != "" && isHTTPRequestMethodLoad(v) {
			return aStr(method), true
		}
		return unknown, false
	}
}

func fmtAssign(a map[string]bool, names []string) string {
	var s []string
	for _, n := range names {
		if a[n] {
			s = append(s, n)
		} else {
			s = append(s, "¬"+n)
		}
	}
	return strings.Join(s, ",")
}

// ---------------------------------------------------------------------------------------------
// R2.1

func ruleR2_1(r *Run) {
	w := r.W
	disp, serve := findDispatcher(w)
	if disp == nil {
		r.violation("dispatcher", "no function in package server invokes datastore.DataService.ServeHTTP: the data-instance gate has no place to live", "-")
		return
	}
	pos := w.pos(serve.Pos())
	helpers := gateHelpers(disp)
	g := collectGateAtoms(append([]*ssa.Function{disp}, helpers...)...)
	isHelper := map[*ssa.Function]bool{}
	for _, h := range helpers {
		isHelper[h] = true
	}
	need := map[string]int{"adminPriv": len(g.admin), "fullwrite": len(g.fullwrite), "LockedUUID": len(g.locked), "IsMutationRequest": len(g.isMut), "Versioned": len(g.versioned)}
	for _, n := range []string{"adminPriv", "fullwrite", "LockedUUID", "IsMutationRequest", "Versioned"} {
		r.check(need[n] > 0, "dispatcher:atom:"+n, "gate operand present in "+fname(disp),
			"the dispatcher "+fname(disp)+" never evaluates "+n+": the mutation gate on data-instance routes is missing an operand", pos)
	}
	if len(g.locked) == 0 || len(g.isMut) == 0 {
		return
	}
	names := []string{"versioned", "admin", "fullwrite", "locked", "isMut"}
	var table []string
	refusedRow := false
	for bits := 0; bits < 32; bits++ {
		a := map[string]bool{}
		for i, n := range names {
			a[n] = bits&(1<<i) != 0
		}
		refusal := false
		atom := g.atomFn(a, "")
		s := runSCCP(disp, &AEnv{Atom: atom, CallEval: func(c *ssa.Call, args []AVal) (AVal, bool) {
			h := c.Call.StaticCallee()
			if h == nil || !isHelper[h] {
				return unknown, false
			}
			hs := runSCCP(h, &AEnv{Atom: atom})
			hs.eachFeasible(func(in ssa.Instruction) {
				if rc, ok := in.(ssa.CallInstruction); ok && isRefusalCall(rc) {
					refusal = true
				}
			})
			var res *bool
			if isErrorType(h.Signature.Results().At(0).Type()) {
				// nil on every feasible return, or certainly an error on every feasible return
				nNil, nErr, nOther := 0, 0, 0
				for _, hb := range h.Blocks {
					if !hs.Feasible[hb] {
						continue
					}
					ret, ok := hb.Instrs[len(hb.Instrs)-1].(*ssa.Return)
					if !ok || len(ret.Results) != 1 {
						continue
					}
					switch rv := ret.Results[0].(type) {
					case *ssa.Const:
						if rv.IsNil() {
							nNil++
						} else {
							nOther++
						}
					case *ssa.Call:
						if callee := rv.Call.StaticCallee(); callee != nil && (callee.Name() == "Errorf" || callee.Name() == "New") {
							nErr++
						} else {
							nOther++
						}
					case *ssa.MakeInterface:
						nErr++
					default:
						// an error passed on from a callee (LockedUUID's): taken on its err != nil edge
						nErr++
					}
				}
				switch {
				case nOther == 0 && nErr == 0 && nNil > 0:
					return AVal{K: ANil}, true
				case nOther == 0 && nNil == 0 && nErr > 0:
					return aTag("nonnil"), true
				}
				return unknown, false
			}
			for _, hb := range h.Blocks {
				if !hs.Feasible[hb] {
					continue
				}
				ret, ok := hb.Instrs[len(hb.Instrs)-1].(*ssa.Return)
				if !ok || len(ret.Results) != 1 {
					continue
				}
				v := hs.Eval(ret.Results[0])
				if v.K != ABool {
					return unknown, false
				}
				if res != nil && *res != v.B {
					return unknown, false
				}
				b := v.B
				res = &b
			}
			if res == nil {
				return unknown, false
			}
			return aBool(*res), true
		}})
		served := s.Feasible[serve.Block()]
		s.eachFeasible(func(in ssa.Instruction) {
			if c, ok := in.(ssa.CallInstruction); ok && isRefusalCall(c) {
				refusal = true
			}
		})
		table = append(table, fmt.Sprintf("%s → served=%v", fmtAssign(a, names), served))
		must := a["versioned"] && !a["admin"] && !a["fullwrite"] && a["locked"] && a["isMut"]
		if must {
			refusedRow = true
			var wit []string
			if served {
				p := findPath(disp, nil, nil, func(in ssa.Instruction) bool { return in == ssa.Instruction(serve) }, s.EdgeFeasible)
				wit = w.renderPath(p)
			}
			r.check(!served && refusal, "dispatcher:gate:"+fmtAssign(a, names),
				"ServeHTTP unreachable and an error reply reachable under this assignment",
				"a mutation request on a committed node by a non-admin in default mode reaches DataService.ServeHTTP (served="+fmt.Sprint(served)+", refusal reachable="+fmt.Sprint(refusal)+")", pos, wit...)
		}
	}
	if !refusedRow {
		r.undecided("dispatcher:gate", "refusing row not enumerated")
	}
	r.note("R2.1 served/refused table of %s: %s", fname(disp), strings.Join(table, "; "))

	// provenance of the operands
	uuidArg := stripConv(serve.Call.Args[0])
	recv := serve.Call.Value
	for _, lc := range g.lockedCalls {
		r.check(sameValue(gateArg(lc.Call.Args[0], disp), uuidArg), "dispatcher:locked-of-request-uuid",
			"LockedUUID is asked about the same uuid that is served",
			"LockedUUID is evaluated on a different value than the uuid passed to ServeHTTP", w.pos(lc.Pos()))
	}
	for _, mc := range g.isMutCalls {
		r.check(sameValue(gateArg(mc.Call.Value, disp), recv), "dispatcher:isMut-on-served-data",
			"IsMutationRequest is asked of the same data instance that is served",
			"IsMutationRequest is invoked on a different value than the instance whose ServeHTTP is called", w.pos(mc.Pos()))
		okM := len(mc.Call.Args) == 2 && isHTTPRequestMethodLoad(mc.Call.Args[0])
		r.check(okM, "dispatcher:isMut-arg-method", "first argument is r.Method of the request",
			"IsMutationRequest's action argument is not the request's r.Method", w.pos(mc.Pos()))
		okK := false
		if len(mc.Call.Args) == 2 {
			if f, k, ok := mapLookupConstKey(mc.Call.Args[1]); ok && k == "keyword" && (f == "URLParams" || f == "") {
				okK = true
			}
		}
		r.check(okK, "dispatcher:isMut-arg-keyword", "second argument is URLParams[\"keyword\"]",
			"IsMutationRequest's endpoint argument is not the route's :keyword parameter", w.pos(mc.Pos()))
	}
	for _, vc := range g.versionedCalls {
		r.check(sameValue(gateArg(vc.Call.Value, disp), recv), "dispatcher:versioned-on-served-data",
			"Versioned() is asked of the served instance", "Versioned() is invoked on a different value than the served instance", w.pos(vc.Pos()))
	}
}

// sameValue: identical SSA value after stripping conversions and trivial phis.
func sameValue(a, b ssa.Value) bool {
	a, b = stripConv(a), stripConv(b)
	if a == b {
		return true
	}
	return false
}

// ---------------------------------------------------------------------------------------------
// R2.2

// method classes: HTTP method tokens are case-sensitive and Go's server forwards any token, while
// the handlers lower-case r.Method — so non-canonical spellings are classes of their own.
var methodClasses = []string{"GET", "HEAD", "POST", "PUT", "DELETE", "PATCH", "post", "Put", "delete"}

type dataType struct {
	Named *types.Named
	Serve *ssa.Function
	IsMut *ssa.Function
}

// dataTypes lists the compiled data types: implementers of datastore.DataService.
func dataTypes(w *World) []dataType {
	iface := w.iface("datastore", "DataService")
	if iface == nil {
		return nil
	}
	var out []dataType
	for _, n := range w.implementers(iface) {
		p := relPkg(n.Obj().Pkg().Path())
		if !strings.HasPrefix(p, "datatype/") {
			continue
		}
		s := w.methodOf(n, "ServeHTTP")
		m := w.methodOf(n, "IsMutationRequest")
		if s == nil || m == nil {
			continue
		}
		out = append(out, dataType{n, s, m})
	}
	return out
}

// evalBoolFunc evaluates a pure bool function of string parameters by SCCP, following static calls
// to other such functions (embedded defaults).  Returns (value, known).
func evalBoolFunc(f *ssa.Function, args []AVal, depth int) (bool, bool) {
	if f == nil || len(f.Blocks) == 0 || depth > 4 {
		return false, false
	}
	env := &AEnv{Params: map[*ssa.Parameter]AVal{}}
	params := f.Params
	if len(params) == len(args)+1 {
		params = params[1:]
	}
	if len(params) != len(args) {
		return false, false
	}
	for i, a := range args {
		if a.known() {
			env.Params[params[i]] = a
		}
	}
	env.CallEval = func(c *ssa.Call, cargs []AVal) (AVal, bool) {
		callee := c.Call.StaticCallee()
		if callee == nil || !inRepo(callee) {
			return unknown, false
		}
		if b, ok := c.Type().Underlying().(*types.Basic); !ok || b.Kind() != types.Bool {
			return unknown, false
		}
		// drop receiver argument for method calls
		a := cargs
		if callee.Signature.Recv() != nil && len(a) > 0 {
			a = a[1:]
		}
		v, ok := evalBoolFunc(callee, a, depth+1)
		if !ok {
			return unknown, false
		}
		return aBool(v), true
	}
	s := runSCCP(f, env)
	first, res := true, false
	for _, b := range f.Blocks {
		if !s.Feasible[b] {
			continue
		}
		if ret, ok := b.Instrs[len(b.Instrs)-1].(*ssa.Return); ok && len(ret.Results) == 1 {
			v := s.Eval(ret.Results[0])
			if v.K != ABool {
				return false, false
			}
			if first {
				res, first = v.B, false
			} else if res != v.B {
				return false, false
			}
		}
	}
	return res, !first
}

func ruleR2_2(r *Run) {
	w := r.W
	sinks := w.newSinks()
	sink := func(c ssa.CallInstruction) bool { return sinks.isStorageWrite(c) || isEffectTransfer(c) }
	dts := dataTypes(w)
	if len(dts) < 10 {
		r.undecided("datatypes", fmt.Sprintf("only %d DataService implementations found (expected ≥10)", len(dts)))
		return
	}
	totalKw := 0
	for _, dt := range dts {
		tname := qname(dt.Named)
		sr := w.newSpecReach(sink)
		// discovery pass: keyword unknown, method unknown
		sr.From(dt.Serve, SpecCtx{}, nil)
		var kws []string
		for k := range sr.Keywords {
			kws = append(kws, k)
		}
		sort.Strings(kws)
		kws = append(kws, "\x00other") // a keyword matching no case: the default arm
		totalKw += len(kws)
		r.note("R2.2 %s: %d keywords: %s", tname, len(kws)-1, strings.Join(kws[:len(kws)-1], ","))
		for _, k := range kws {
			kdisp := k
			if k == "\x00other" {
				kdisp = "<default>"
			}
			var writes, refusedBy []string
			bad := false
			for _, m := range methodClasses {
				sc := SpecCtx{Method: m, Keyword: k, KwKnown: true}
				may := sr.From(dt.Serve, sc, nil)
				if !may {
					continue
				}
				writes = append(writes, m)
				mut, known := evalBoolFunc(dt.IsMut, []AVal{aStr(m), aStr(k)}, 0)
				if known && mut {
					refusedBy = append(refusedBy, m)
					continue
				}
				bad = true
				construct := fmt.Sprintf("%s:%s:%s", tname, kdisp, m)
				if reason, ok := r.exception(construct); ok {
					r.ok(construct, "exception: "+reason, w.fpos(dt.Serve))
					continue
				}
				wit := sr.Path(dt.Serve, sc, nil)
				r.violation(construct,
					fmt.Sprintf("%s request on endpoint %q of %s may reach a storage write, but IsMutationRequest(%q,%q) is %v (known=%v): the request passes the committed-node gate and can change versioned data",
						m, kdisp, tname, m, kdisp, mut, known), w.fpos(dt.Serve), wit...)
			}
			if !bad {
				d := "no method reaches a storage write"
				if len(writes) > 0 {
					d = "writing methods " + strings.Join(writes, ",") + " are all classified as mutations"
				}
				construct := fmt.Sprintf("%s:%s", tname, kdisp)
				if len(writes) > 0 {
					r.ok(construct, d, w.fpos(dt.Serve))
				} else {
					r.okTrivial(construct, d, w.fpos(dt.Serve))
				}
			}
		}
	}
	r.note("R2.2: %d data types, %d (type,keyword) pairs × %d method classes", len(dts), totalKw, len(methodClasses))
	if len(dts) < 14 {
		r.note("R2.2: fewer than the 14 data types confirmed by hand at the pinned commit")
	}
	r.assume("E1 limits: effects handed to pre-existing worker goroutines through channels other than sync events, and through reflection, are not followed; in-memory caches are not sinks")
}

func ruleR2_3(r *Run) { ruleR2_3impl(r) }

func init() {
	register(ruleDef{ID: "R2.5", Prop: "C02", Tier: "quick", Floor: 2,
		Title: "admin exception integrity: the adminPriv flag every gate consults can be true only when an admin token is configured and the request presents it",
		Fn:    ruleR2_5})
	register(ruleDef{ID: "R2.6", Prop: "C02", Tier: "quick", Floor: 3,
		Title: "handlers of the child-creating node routes (allowed through the locked-node gate) never pass the request's own uuid to a datastore function that changes node or repo state, except NewVersion",
		Fn:    ruleR2_6})
}

func ruleR2_5(r *Run) {
	w := r.W
	// writers of Env["adminPriv"]
	n := 0
	for _, f := range w.RepoFuncs {
		if relPkg(pkgPathOf(f)) != "server" {
			continue
		}
		for _, b := range f.Blocks {
			for _, in := range b.Instrs {
				mu, ok := in.(*ssa.MapUpdate)
				if !ok {
					continue
				}
				k, ok := constString(stripConv(mu.Key))
				if !ok || k != "adminPriv" {
					continue
				}
				n++
				// (a) no token configured ⇒ the stored flag is false
				env := &AEnv{Atom: func(v ssa.Value) (AVal, bool) {
					if isGlobalLoad(v, "server", "adminToken") {
						return aStr(""), true
					}
					return unknown, false
				}}
				s := runSCCP(f, env)
				val := s.Eval(stripConv(mu.Value))
				r.check(val.K == ABool && !val.B, fname(f)+":no-token-no-admin",
					"with no admin token configured the adminPriv flag stored is the constant false",
					"with an empty (unconfigured) admin token the adminPriv flag is "+val.String()+": a request can obtain admin rights — and bypass every committed-node gate — without a secret", w.pos(mu.Pos()))
				// (b) the flag derives from an equality with the configured token
				okCmp := false
				for _, rv := range roots(stripConv(mu.Value), f) {
					if bo, ok := rv.V.(*ssa.BinOp); ok && bo.Op == token.EQL {
						if isGlobalLoad(bo.X, "server", "adminToken") || isGlobalLoad(bo.Y, "server", "adminToken") {
							okCmp = true
						}
					} else if c, ok := rv.V.(*ssa.Const); ok && constVal(c).K == ABool && !constVal(c).B {
						// false default
					} else {
						okCmp = false
						break
					}
				}
				r.check(okCmp, fname(f)+":admin-iff-token-equal", "adminPriv is false or the result of comparing the request's token with the configured one",
					"adminPriv can be set from something other than equality with the configured admin token", w.pos(mu.Pos()))
			}
		}
	}
	if n == 0 {
		r.violation("adminPriv-writer", "no function of package server sets Env[\"adminPriv\"]: the gates read an unset flag", "-")
	}
}

// isRequestUUID: v derives from c.Env["uuid"].
func isRequestUUID(v ssa.Value, fn *ssa.Function) bool {
	rs := roots(v, fn)
	if len(rs) == 0 {
		return false
	}
	for _, rv := range rs {
		x := rv.V
		if ex, ok := x.(*ssa.Extract); ok {
			x = ex.Tuple
		}
		ta, ok := x.(*ssa.TypeAssert)
		if !ok {
			return false
		}
		if _, key, ok := mapLookupConstKey(ta); !ok || key != "uuid" {
			return false
		}
	}
	return true
}

func ruleR2_6(r *Run) {
	w := r.W
	rt := readRouteTable(w)
	if rt == nil {
		r.undecided("routes", "route table not found")
		return
	}
	// datastore functions that change persistent node/repo state: reach repoT.save or a store to a nodeT field
	save := w.method("datastore", "repoT", "save")
	mutates := w.newReach(func(c ssa.CallInstruction) bool {
		return save != nil && c.Common().StaticCallee() == save
	}, nil)
	for _, m := range rt.Muxes {
		for _, ro := range m.Routes {
			if ro.Handler == nil || !strings.HasPrefix(ro.Pattern, "/api/node/") || !childCreatingActions[lastSegment(ro.Pattern)] {
				continue
			}
			switch ro.Method {
			case "Get", "Head":
				continue
			}
			bad := ""
			nCalls := 0
			for _, c := range calls(ro.Handler) {
				callee := staticCallee(c)
				if callee == nil || relPkg(pkgPathOf(callee)) != "datastore" {
					continue
				}
				usesReq := false
				for _, a := range c.Common().Args {
					if typeIs(a.Type(), "dvid", "UUID") && isRequestUUID(a, ro.Handler) {
						usesReq = true
					}
				}
				if !usesReq {
					continue
				}
				nCalls++
				if callee.Name() == "NewVersion" {
					continue // creating a child of the committed node is the allowed effect
				}
				if mutates.From(callee) {
					bad = fmt.Sprintf("%s(request uuid) at %s", fname(callee), w.pos(c.Pos()))
				}
			}
			r.check(bad == "", "route:POST "+ro.Pattern+":parent-untouched",
				fmt.Sprintf("%d datastore calls take the request uuid; none but NewVersion changes state", nCalls),
				"the child-creating route "+ro.Pattern+" is let through the locked-node gate, and its handler applies a state-changing datastore function to the committed parent itself: "+bad, ro.Pos)
		}
	}
}
func ruleR2_4(r *Run) { ruleR2_4impl(r) }
