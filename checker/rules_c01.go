package main

import (
	"fmt"
	"go/token"
	"go/types"
	"strconv"
	"strings"

	"golang.org/x/tools/go/ssa"
)

func init() {
	register(ruleDef{ID: "R1.1", Prop: "C01", Tier: "quick", Floor: 8,
		Title: "every versioned point read and range scan of each ordered back end returns only what the ancestry resolver (GetBestKeyVersion / VersionedKeyValue → FindMatch → findMatch) selected, at the request's own version",
		Fn:    ruleR1_1})
	register(ruleDef{ID: "R1.2", Prop: "C01", Tier: "quick", Floor: 4,
		Title: "versioned Put clears and Delete sets the same-version tombstone for the same datum key inside the same transaction/batch",
		Fn:    ruleR1_2})
	register(ruleDef{ID: "R1.3", Prop: "C01", Tier: "quick", Floor: 2,
		Title: "dispatcher: unversioned instances are pinned to the repo root version, versioned ones use the request uuid's version",
		Fn:    ruleR1_3})
	register(ruleDef{ID: "R1.4", Prop: "C01", Tier: "quick", Floor: 3,
		Title: "tombstone/data marker agreement between key constructors and Key.IsTombstone",
		Fn:    ruleR1_4})
	register(ruleDef{ID: "R1.6", Prop: "C01", Tier: "quick", Floor: 5,
		Title: "resolver structure: a tombstone or superseded entry is never returned as a value, supersession marks are applied before a found value is returned, two live unsuperseded candidates are an error",
		Fn:    ruleR1_6})
}

// orderedBackends lists the concrete types implementing storage.OrderedKeyValueDB.
func orderedBackends(w *World) []*types.Named {
	i := w.iface("storage", "OrderedKeyValueDB")
	if i == nil {
		return nil
	}
	var out []*types.Named
	for _, n := range w.implementers(i) {
		if strings.HasPrefix(relPkg(n.Obj().Pkg().Path()), "storage/") {
			out = append(out, n)
		}
	}
	return out
}

func versionedAtom(val bool) func(v ssa.Value) (AVal, bool) {
	return func(v ssa.Value) (AVal, bool) {
		if c := isInvokeOf(v, "Versioned"); c != nil {
			return aBool(val), true
		}
		return unknown, false
	}
}

func isInvokeCall(c ssa.CallInstruction, method string) bool {
	cc := c.Common()
	return cc.IsInvoke() && cc.Method.Name() == method
}

// callsMethodNamed: static or invoke call of a method with that name (any receiver) declared in a
// repository package.
func callsMethodNamed(c ssa.CallInstruction, name string) bool {
	o := calleeObj(c)
	return o != nil && o.Name() == name && o.Pkg() != nil && strings.HasPrefix(o.Pkg().Path(), modPath)
}

func ruleR1_1(r *Run) {
	w := r.W
	backs := orderedBackends(w)
	if len(backs) == 0 {
		r.undecided("backends", "no implementation of storage.OrderedKeyValueDB in this build")
		return
	}
	for _, b := range backs {
		bn := qname(b)
		// --- point reads
		for _, mname := range []string{"Get", "Exists"} {
			f := w.methodOf(b, mname)
			if f == nil || len(f.Blocks) == 0 {
				r.undecided(bn+"."+mname, "method not found")
				continue
			}
			s := runSCCP(f, &AEnv{Atom: versionedAtom(true)})
			isResolver := func(in ssa.Instruction) bool {
				c, ok := in.(ssa.CallInstruction)
				return ok && isInvokeCall(c, "GetBestKeyVersion")
			}
			positive := func(in ssa.Instruction) bool {
				ret, ok := in.(*ssa.Return)
				if !ok || isErrorExit(ret) || len(ret.Results) == 0 {
					return false
				}
				v := s.Eval(retOperand(ret, 0))
				if mname == "Get" {
					return v.K != ANil
				}
				return !(v.K == ABool && !v.B)
			}
			p := findPath(f, nil, isResolver, positive, s.EdgeFeasible)
			r.check(p == nil, bn+"."+mname+":versioned-read-through-resolver",
				"with ctx.Versioned() true every success exit returning a value/true passes through VersionedCtx.GetBestKeyVersion",
				"a versioned "+mname+" can return a value without consulting the ancestry resolver (GetBestKeyVersion)", w.fpos(f), w.renderPath(p)...)
			if mname == "Get" {
				// the value is read at the key the resolver returned
				var resolved []ssa.Value
				for _, c := range calls(f) {
					if isInvokeCall(c, "GetBestKeyVersion") {
						if v, ok := c.(ssa.Value); ok {
							resolved = append(resolved, v)
						}
					}
				}
				n, bad := 0, ""
				for _, in := range feasibleInstrs(s) {
					mc, ok := in.(*ssa.MakeClosure)
					if !ok {
						continue
					}
					cl := mc.Fn.(*ssa.Function)
					for _, c := range calls(cl) {
						if fnn := staticCallee(c); fnn != nil && fnn.Name() == "Get" && strings.Contains(fnn.String(), "badger") && fnn.Signature.Recv() != nil {
							n++
							okArg := true
							rs := roots(c.Common().Args[1], cl)
							for _, rv := range rs {
								if !fromExtractOf(rv.V, resolved, 0) {
									okArg = false
								}
							}
							if len(rs) == 0 {
								okArg = false
							}
							if !okArg {
								bad = w.pos(c.Pos())
							}
						}
					}
				}
				if n > 0 {
					r.check(bad == "", bn+".Get:value-read-at-resolved-key", "the transaction reads the key returned by GetBestKeyVersion",
						"a versioned Get reads a key that is not the one the resolver selected", bad)
				}
			}
		}
		// --- range scanner: functions of the backend package taking a storage.VersionedCtx and a channel
		pkgPath := b.Obj().Pkg().Path()
		nScan := 0
		for _, f := range w.RepoFuncs {
			if pkgPathOf(f) != pkgPath || f.Parent() != nil || len(f.Blocks) == 0 {
				continue
			}
			hasV, hasCh := false, false
			for _, p := range f.Params {
				if typeIs(p.Type(), "storage", "VersionedCtx") {
					hasV = true
				}
				if ch, ok := p.Type().Underlying().(*types.Chan); ok && hasKeyValueField(ch.Elem()) {
					hasCh = true
				}
			}
			if !hasV || !hasCh {
				continue
			}
			nScan++
			for _, g := range withClosures(f) {
				for _, blk := range g.Blocks {
					for _, in := range blk.Instrs {
						snd, ok := in.(*ssa.Send)
						if !ok {
							continue
						}
						if che, ok := snd.Chan.Type().Underlying().(*types.Chan); !ok || !(hasKeyValueField(che.Elem()) || typeIs(che.Elem(), "storage", "KeyValue")) {
							continue
						}
						kv := sentKeyValue(snd)
						if kv == nil {
							continue // sends a nil KeyValue (error / end marker)
						}
						okv := false
						if ex, isEx := kv.(*ssa.Extract); isEx && ex.Index == 0 {
							if c, isC := ex.Tuple.(*ssa.Call); isC && isInvokeCall(c, "VersionedKeyValue") {
								okv = true
							}
						}
						r.check(okv, fmt.Sprintf("%s.%s:send-only-resolved", bn, f.Name()),
							"every key-value sent by the versioned scanner is the result of VersionedCtx.VersionedKeyValue",
							"the versioned range scanner sends a key-value that did not come from the ancestry resolver", w.pos(snd.Pos()))
					}
				}
			}
		}
		r.check(nScan >= 1, bn+":versioned-scanner-present", fmt.Sprintf("%d scanner functions", nScan), "no versioned range scanner found in "+pkgPath, "-")
	}

	// --- the resolver entry points reach findMatch with the context's own version
	for _, mname := range []string{"GetBestKeyVersion", "VersionedKeyValue"} {
		f := w.method("datastore", "VersionedCtx", mname)
		if f == nil {
			r.violation("VersionedCtx."+mname, "resolver entry point datastore.VersionedCtx."+mname+" not found", "-")
			continue
		}
		var fm ssa.CallInstruction
		for _, c := range calls(f) {
			if callsMethodNamed(c, "FindMatch") {
				fm = c
			}
		}
		if !r.check(fm != nil, "VersionedCtx."+mname+":calls-FindMatch", "calls kvVersions.FindMatch", "does not call kvVersions.FindMatch: the ancestry walk is bypassed", w.fpos(f)) {
			continue
		}
		args := fm.Common().Args
		okVer := false
		if len(args) == 2 {
			if c, ok := stripConv(args[1]).(*ssa.Call); ok && callsMethodNamed(c, "VersionID") {
				// receiver derives from the method's own receiver
				okVer = derivesFromParam(c.Common().Args, f.Params[0]) || derivesFromParam([]ssa.Value{c.Common().Value}, f.Params[0])
			}
		}
		r.check(okVer, "VersionedCtx."+mname+":match-at-own-version", "FindMatch is asked for vctx.VersionID()",
			"FindMatch is not asked for the context's own version id", w.pos(fm.Pos()))
		// every success return with a non-nil first result derives from FindMatch's result
		okRet := true
		for _, blk := range f.Blocks {
			ret, ok := blk.Instrs[len(blk.Instrs)-1].(*ssa.Return)
			if !ok || isErrorExit(ret) {
				continue
			}
			v := retOperand(ret, 0)
			if isNilConst(v) {
				continue
			}
			if !derivesFromCall(v, fm, 0) {
				okRet = false
			}
		}
		r.check(okRet, "VersionedCtx."+mname+":returns-match", "non-nil results derive from FindMatch's match",
			"returns a key/value that is not FindMatch's result", w.fpos(f))
	}
	fmatch := w.method("datastore", "kvVersions", "FindMatch")
	okF := false
	if fmatch != nil {
		for _, c := range calls(fmatch) {
			if callsMethodNamed(c, "findMatch") {
				a := c.Common().Args
				if len(a) == 3 && a[1] == ssa.Value(fmatch.Params[0]) && a[2] == ssa.Value(fmatch.Params[1]) {
					okF = true
				}
			}
		}
	}
	r.check(okF, "kvVersions.FindMatch:delegates", "FindMatch passes its own candidates and version to repoManager.findMatch",
		"kvVersions.FindMatch does not delegate (kvv, v) unchanged to repoManager.findMatch", w.fpos(fmatch))
}

func feasibleInstrs(s *SCCP) []ssa.Instruction {
	var out []ssa.Instruction
	s.eachFeasible(func(in ssa.Instruction) { out = append(out, in) })
	return out
}

func hasKeyValueField(t types.Type) bool {
	st, ok := t.Underlying().(*types.Struct)
	if !ok {
		return false
	}
	for i := 0; i < st.NumFields(); i++ {
		if typeIs(st.Field(i).Type(), "storage", "KeyValue") {
			return true
		}
	}
	return false
}

// sentKeyValue returns the non-nil *storage.KeyValue component of the struct sent, or nil when the
// component is the nil constant.
func sentKeyValue(snd *ssa.Send) ssa.Value {
	// the struct literal is built in an Alloc then loaded: find stores into its KeyValue field
	u, ok := snd.X.(*ssa.UnOp)
	if !ok {
		return snd.X
	}
	al, ok := u.X.(*ssa.Alloc)
	if !ok {
		return snd.X
	}
	var kv ssa.Value
	for _, ref := range *al.Referrers() {
		fa, ok := ref.(*ssa.FieldAddr)
		if !ok {
			continue
		}
		st := derefStruct(fa.X.Type())
		if st == nil || !typeIs(st.Field(fa.Field).Type(), "storage", "KeyValue") {
			continue
		}
		for _, r2 := range *fa.Referrers() {
			if s, ok := r2.(*ssa.Store); ok && !isNilConst(s.Val) {
				kv = s.Val
			}
		}
	}
	return kv
}

func fromExtractOf(v ssa.Value, calls []ssa.Value, idx int) bool {
	v = stripConv(v)
	if ex, ok := v.(*ssa.Extract); ok && ex.Index == idx {
		for _, c := range calls {
			if ex.Tuple == c {
				return true
			}
		}
	}
	return false
}

func derivesFromParam(vs []ssa.Value, p *ssa.Parameter) bool {
	for _, v := range vs {
		for i := 0; i < 8 && v != nil; i++ {
			v = stripConv(v)
			if v == ssa.Value(p) {
				return true
			}
			switch x := v.(type) {
			case *ssa.UnOp:
				v = x.X
			case *ssa.FieldAddr:
				v = x.X
			case *ssa.Field:
				v = x.X
			default:
				v = nil
			}
		}
	}
	return false
}

// derivesFromCall: v is Extract idx of call c, possibly through a field load/addr of it or a phi
// whose other edges are nil.
func derivesFromCall(v ssa.Value, c ssa.CallInstruction, idx int) bool {
	cv, _ := c.(ssa.Value)
	for i := 0; i < 8 && v != nil; i++ {
		v = stripConv(v)
		switch x := v.(type) {
		case *ssa.Extract:
			return x.Tuple == cv && x.Index == idx
		case *ssa.UnOp:
			v = x.X
		case *ssa.FieldAddr:
			v = x.X
		case *ssa.Field:
			v = x.X
		case *ssa.Phi:
			ok := true
			for _, e := range x.Edges {
				if !isNilConst(e) && !derivesFromCall(e, c, idx) {
					ok = false
				}
			}
			return ok
		default:
			return false
		}
	}
	return false
}

// ---------------------------------------------------------------------------------------------
// R1.2

func ruleR1_2(r *Run) {
	w := r.W
	for _, b := range orderedBackends(w) {
		bn := qname(b)
		for _, mname := range []string{"Put", "Delete"} {
			f := w.methodOf(b, mname)
			if f == nil {
				continue
			}
			checkTombstonePairing(r, f, bn+"."+mname, mname == "Put")
		}
		// the batch type returned by NewBatch
		nb := w.methodOf(b, "NewBatch")
		if nb == nil {
			continue
		}
		var batchT *types.Named
		for _, blk := range nb.Blocks {
			for _, in := range blk.Instrs {
				if mi, ok := in.(*ssa.MakeInterface); ok && typeIs(mi.Type(), "storage", "Batch") {
					batchT = namedOf(mi.X.Type())
				}
			}
		}
		if batchT == nil {
			r.undecided(bn+".NewBatch", "cannot resolve the concrete batch type")
			continue
		}
		for _, mname := range []string{"Put", "Delete"} {
			f := w.methodOf(batchT, mname)
			if f == nil {
				continue
			}
			checkTombstonePairing(r, f, qname(batchT)+"."+mname, mname == "Put")
		}
	}
}

// txnOp classifies a call as set/delete on a transaction or write batch and returns its key arg.
func txnOp(c ssa.CallInstruction) (op string, key ssa.Value, recv ssa.Value) {
	f := staticCallee(c)
	if f == nil || f.Signature.Recv() == nil || inRepo(f) {
		return "", nil, nil
	}
	args := c.Common().Args
	switch f.Name() {
	case "Set", "SetEntry", "Put":
		if len(args) >= 2 {
			return "set", args[1], args[0]
		}
	case "Delete":
		if len(args) >= 2 {
			return "delete", args[1], args[0]
		}
	}
	return "", nil, nil
}

// keyOrigin resolves a key value (through conversions, closures' free variables and field loads)
// to the call that constructed it: "ConstructKey" or "TombstoneKey", plus that call's TKey arg.
func keyOrigin(v ssa.Value, fn *ssa.Function, depth int) (string, ssa.Value) {
	for i := 0; i < 10 && v != nil; i++ {
		v = stripConv(v)
		switch x := v.(type) {
		case *ssa.Call:
			for _, n := range []string{"ConstructKey", "TombstoneKey"} {
				if isInvokeCall(x, n) || callsMethodNamed(x, n) {
					a := x.Call.Args
					return n, a[len(a)-1]
				}
			}
			return "", nil
		case *ssa.FreeVar:
			// bound at the MakeClosure site in the parent
			p := fn.Parent()
			if p == nil || depth > 3 {
				return "", nil
			}
			idx := -1
			for k, fv := range fn.FreeVars {
				if fv == x {
					idx = k
				}
			}
			for _, blk := range p.Blocks {
				for _, in := range blk.Instrs {
					if mc, ok := in.(*ssa.MakeClosure); ok && mc.Fn == fn && idx >= 0 {
						return keyOrigin(mc.Bindings[idx], p, depth+1)
					}
				}
			}
			return "", nil
		case *ssa.UnOp:
			// load of a local spilled to an Alloc: unique store
			if al, ok := x.X.(*ssa.Alloc); ok {
				var val ssa.Value
				n := 0
				for _, ref := range *al.Referrers() {
					if st, ok := ref.(*ssa.Store); ok && st.Addr == al {
						val = st.Val
						n++
					}
				}
				if n == 1 {
					v = val
					continue
				}
			}
			if fv, ok := x.X.(*ssa.FreeVar); ok {
				// captured by reference: find the Alloc in the parent and its unique store
				p := fn.Parent()
				if p == nil {
					return "", nil
				}
				idx := -1
				for k, f2 := range fn.FreeVars {
					if f2 == fv {
						idx = k
					}
				}
				for _, blk := range p.Blocks {
					for _, in := range blk.Instrs {
						if mc, ok := in.(*ssa.MakeClosure); ok && mc.Fn == fn && idx >= 0 {
							if al, ok := mc.Bindings[idx].(*ssa.Alloc); ok {
								var val ssa.Value
								n := 0
								for _, ref := range *al.Referrers() {
									if st, ok := ref.(*ssa.Store); ok && st.Addr == al {
										val = st.Val
										n++
									}
								}
								if n == 1 {
									return keyOrigin(val, p, depth+1)
								}
							}
						}
					}
				}
			}
			return "", nil
		case *ssa.Parameter:
			// a key handed to an unexported helper (db.putVersioned(key, vctx.TombstoneKey(tk), v)): the argument at
			// the helper's one call site
			if depth > 3 || keyOriginWorld == nil || fn == nil || fn.Object() == nil || fn.Object().Exported() {
				return "", nil
			}
			idx := -1
			for k, q := range fn.Params {
				if q == x {
					idx = k
				}
			}
			var site ssa.CallInstruction
			nSites := 0
			for _, cs := range callSitesOf(keyOriginWorld)[fn] {
				if ci, ok := cs.(ssa.CallInstruction); ok {
					site = ci
					nSites++
				}
			}
			if idx < 0 || nSites != 1 || idx >= len(site.Common().Args) {
				return "", nil
			}
			return keyOrigin(site.Common().Args[idx], site.Parent(), depth+1)
		default:
			return "", nil
		}
	}
	return "", nil
}

// keyOriginWorld: the program keyOrigin resolves helper parameters in (set by the rule that uses it).
var keyOriginWorld *World

func checkTombstonePairing(r *Run, f *ssa.Function, name string, isPut bool) {
	w := r.W
	keyOriginWorld = w
	// collect transaction ops in f and its closures, grouped by function (one closure = one txn)
	type opRec struct {
		op, origin string
		tk         ssa.Value
		fn         *ssa.Function
		pos        token.Pos
		block      *ssa.BasicBlock
	}
	var ops []opRec
	var fns []*ssa.Function
	for _, top := range withHelpers(f) { // the versioned branch may live in a helper (db.putVersioned(vctx, tk, v))
		fns = append(fns, withClosures(top)...)
	}
	for _, g := range fns {
		for _, c := range calls(g) {
			op, key, _ := txnOp(c)
			if op == "" {
				continue
			}
			origin, tk := keyOrigin(key, g, 0)
			ops = append(ops, opRec{op, origin, tk, g, c.Pos(), c.Block()})
		}
	}
	wantData, wantTomb := "set", "delete"
	if !isPut {
		wantData, wantTomb = "delete", "set"
	}
	// every function containing a tombstone op must contain the data op with the same tk (same
	// transaction), and vice versa on the versioned branch: i.e. each function that touches a
	// TombstoneKey key also touches the ConstructKey key.
	byFn := map[*ssa.Function][]opRec{}
	for _, o := range ops {
		byFn[o.fn] = append(byFn[o.fn], o)
	}
	pairs := 0
	for g, list := range byFn {
		var data, tomb []opRec
		for _, o := range list {
			switch {
			case o.origin == "ConstructKey" && o.op == wantData:
				data = append(data, o)
			case o.origin == "TombstoneKey" && o.op == wantTomb:
				tomb = append(tomb, o)
			case o.origin == "TombstoneKey":
				r.violation(name+":tombstone-op", fmt.Sprintf("the tombstone key is %s where a %s is required (a versioned %s must %s the same-version tombstone)", o.op, wantTomb, map[bool]string{true: "Put", false: "Delete"}[isPut], wantTomb), w.pos(o.pos))
			case o.origin == "ConstructKey":
				r.violation(name+":data-op", fmt.Sprintf("the data key is %s where a %s is required", o.op, wantData), w.pos(o.pos))
			}
		}
		if len(tomb) > 0 {
			ok := len(data) > 0
			for _, t := range tomb {
				same := false
				for _, d := range data {
					if sameTK(t.tk, d.tk) {
						same = true
					}
				}
				if !same {
					ok = false
				}
			}
			pairs++
			// both halves on every success exit of the transaction function (no path that performs one
			// half and returns successfully without the other)
			{
				isHalf := func(origin string) func(ssa.Instruction) bool {
					return func(in ssa.Instruction) bool {
						c, isC := in.(ssa.CallInstruction)
						if !isC {
							return false
						}
						op, key, _ := txnOp(c)
						if op == "" {
							return false
						}
						o, _ := keyOrigin(key, g, 0)
						return o == origin
					}
				}
				var ef edgeFilter
				if g == f {
					sc := runSCCP(f, &AEnv{Atom: versionedAtom(true)})
					ef = func(b *ssa.BasicBlock, i int) bool {
						if !sc.EdgeFeasible(b, i) {
							return false
						}
						// batch methods: `batch.vctx != nil` selects the versioned path
						if ifi, isIf := b.Instrs[len(b.Instrs)-1].(*ssa.If); isIf {
							if bo, isBo := ifi.Cond.(*ssa.BinOp); isBo && (bo.Op == token.NEQ || bo.Op == token.EQL) && isNilConst(bo.Y) {
								if ld, isLd := bo.X.(*ssa.UnOp); isLd {
									if fa, isFa := ld.X.(*ssa.FieldAddr); isFa {
										if nm, _, _ := fieldName(fa); nm == "vctx" {
											if bo.Op == token.NEQ {
												return i == 0
											}
											return i == 1
										}
									}
								}
							}
						}
						return true
					}
				}
				for _, half := range []string{"TombstoneKey", "ConstructKey"} {
					other := "ConstructKey"
					if half == "ConstructKey" {
						other = "TombstoneKey"
					}
					// an operation of this half reachable from the entry without the other half, and from it a
					// success exit still without the other half
					var wit []ssa.Instruction
					for _, c := range calls(g) {
						if !isHalf(half)(c) {
							continue
						}
						pre := findPath(g, nil, isHalf(other), func(in ssa.Instruction) bool { return in == ssa.Instruction(c) }, ef)
						if pre == nil {
							continue
						}
						if p := findPath(g, c, isHalf(other), successExit, ef); p != nil {
							wit = append(pre, p...)
						}
					}
					// and from entry: a success exit that performed neither is fine (nothing written), but one that
					// skipped only this half is caught from the other half's op above
					what := map[string]string{"TombstoneKey": "tombstone", "ConstructKey": "data-key"}
					r.check(wit == nil, name+":"+what[half]+"-op-always-followed-by-other-half",
						"after the "+what[half]+" operation every successful return of the transaction has performed the other half",
						"a transaction can perform the "+what[half]+" operation and return successfully without the "+what[other]+" operation (e.g. a shortcut when the version holds its own value): a deleted key keeps showing an ancestor's value / a re-put key stays hidden", w.fpos(g), w.renderPath(wit)...)
				}
			}
			r.check(ok, name+":paired-in-one-transaction",
				"data-key "+wantData+" and tombstone "+wantTomb+" for the same datum key are issued in the same transaction function "+fname(g),
				"the tombstone "+wantTomb+" is not issued in the same transaction as the data-key "+wantData+" for the same datum key", w.fpos(g))
		}
	}
	// the versioned branch must have such a pair at all
	r.check(pairs > 0, name+":tombstone-handled",
		"the versioned path maintains the tombstone", "a versioned "+name+" never touches the same-version tombstone key (vctx.TombstoneKey): a delete would not hide older values / a re-put would stay hidden", w.fpos(f))
	// and no data-key write on the versioned path may live in a transaction without the tombstone op
	vs := runSCCP(f, &AEnv{Atom: versionedAtom(true)})
	for g, list := range byFn {
		hasTomb := false
		for _, o := range list {
			if o.origin == "TombstoneKey" {
				hasTomb = true
			}
		}
		if hasTomb {
			continue
		}
		// is this closure created on the versioned-feasible part of f?
		if g == f {
			for _, o := range list {
				if o.origin == "ConstructKey" && vs.Feasible[o.block] && batchHasVctx(f) {
					// batch methods: the tombstone op is conditional on vctx != nil in the same function
					r.violation(name+":unpaired-data-op", "data key written without the tombstone op on a path of "+fname(f), w.pos(o.pos))
				}
			}
			continue
		}
		for _, blk := range f.Blocks {
			for _, in := range blk.Instrs {
				if mc, ok := in.(*ssa.MakeClosure); ok && mc.Fn == g && vs.Feasible[blk] {
					for _, o := range list {
						if o.origin == "ConstructKey" {
							r.violation(name+":unpaired-data-op", "on the versioned branch the data key is written in a transaction that does not touch the tombstone", w.pos(o.pos))
						}
					}
				}
			}
		}
	}
}

func batchHasVctx(f *ssa.Function) bool { return false }

func sameTK(a, b ssa.Value) bool {
	if a == nil || b == nil {
		return false
	}
	return stripConv(a) == stripConv(b)
}

// ---------------------------------------------------------------------------------------------
// R1.3

func ruleR1_3(r *Run) {
	w := r.W
	disp, serve := findDispatcher(w)
	if disp == nil {
		r.violation("dispatcher", "no dispatcher found", "-")
		return
	}
	// the ctx passed to ServeHTTP
	var newCtx *ssa.Call
	for _, c := range calls(disp) {
		if isCallTo(c, "datastore", "", "NewVersionedCtx") {
			if cc, ok := c.(*ssa.Call); ok {
				newCtx = cc
			}
		}
	}
	if newCtx == nil {
		r.violation("dispatcher:ctx", "the dispatcher never builds a datastore.NewVersionedCtx", w.fpos(disp))
		return
	}
	r.check(sameValue(serve.Call.Args[1], newCtx), "dispatcher:ctx-served", "the context built is the one served", "ServeHTTP receives a different context than the one built from the request", w.pos(serve.Pos()))
	r.check(sameValue(newCtx.Call.Args[0], serve.Call.Value), "dispatcher:ctx-of-served-data", "context is for the served instance", "the context is built for a different data value than the one served", w.pos(newCtx.Pos()))
	verArg := newCtx.Call.Args[1]
	uuidArg := stripConv(serve.Call.Args[0])
	for _, versioned := range []bool{true, false} {
		s := runSCCP(disp, &AEnv{Atom: versionedAtom(versioned)})
		srcs := versionSources(s, verArg, newCtx.Block())
		want := "VersionFromUUID"
		if !versioned {
			want = "GetRepoRootVersion"
		}
		ok := len(srcs) > 0
		var got []string
		for _, c := range srcs {
			got = append(got, callDesc(c))
			if !isCallTo(c, "datastore", "", want) {
				ok = false
			}
			if want == "VersionFromUUID" && !sameValue(c.Call.Args[0], uuidArg) {
				ok = false
			}
			if want == "GetRepoRootVersion" {
				// its argument must be the request uuid's version
				in := extractOfCall(c.Call.Args[0], 0, "datastore", "VersionFromUUID")
				if in == nil || !sameValue(in.Call.Args[0], uuidArg) {
					ok = false
				}
			}
		}
		r.check(ok, fmt.Sprintf("dispatcher:version-source:versioned=%v", versioned),
			"context version comes from datastore."+want+" of the request uuid",
			fmt.Sprintf("with Versioned()=%v the context's version does not come from %s of the request uuid (sources: %v)", versioned, want, got), w.pos(newCtx.Pos()))
	}
}

// versionSources resolves a version value through feasible phi edges to the calls producing it.
func versionSources(s *SCCP, v ssa.Value, at *ssa.BasicBlock) []*ssa.Call {
	var out []*ssa.Call
	seen := map[ssa.Value]bool{}
	var rec func(v ssa.Value)
	rec = func(v ssa.Value) {
		v = stripConv(v)
		if seen[v] {
			return
		}
		seen[v] = true
		switch x := v.(type) {
		case *ssa.Phi:
			for i, e := range x.Edges {
				pred := x.Block().Preds[i]
				for si, sb := range pred.Succs {
					if sb == x.Block() && s.EdgeFeasible(pred, si) {
						rec(e)
					}
				}
			}
		case *ssa.Extract:
			if c, ok := x.Tuple.(*ssa.Call); ok {
				out = append(out, c)
			}
		case *ssa.Call:
			out = append(out, x)
		}
	}
	rec(v)
	return out
}

// ---------------------------------------------------------------------------------------------
// R1.4

func ruleR1_4(r *Run) {
	w := r.W
	sp := w.tpkg("storage")
	if sp == nil {
		r.undecided("storage", "package storage not loaded")
		return
	}
	cval := func(name string) (int64, bool) {
		c, ok := sp.Scope().Lookup(name).(*types.Const)
		if !ok {
			return 0, false
		}
		v, ok := constantInt(c)
		return v, ok
	}
	md, ok1 := cval("MarkData")
	mt, ok2 := cval("MarkTombstone")
	if !ok1 || !ok2 {
		r.violation("markers", "storage.MarkData / storage.MarkTombstone constants not found", "-")
		return
	}
	r.check(md != mt, "markers:distinct", fmt.Sprintf("MarkData=%#x MarkTombstone=%#x", md, mt), "data and tombstone markers are equal", "-")
	// IsTombstone: evaluate with the last byte = each marker
	f := w.method("storage", "Key", "IsTombstone")
	if f == nil {
		r.violation("Key.IsTombstone", "storage.Key.IsTombstone not found", "-")
		return
	}
	for _, tc := range []struct {
		mark int64
		want bool
		n    string
	}{{md, false, "MarkData"}, {mt, true, "MarkTombstone"}} {
		env := &AEnv{Atom: func(v ssa.Value) (AVal, bool) {
			// the byte loaded from the key: any element load of the receiver
			if u, ok := v.(*ssa.UnOp); ok && u.Op == token.MUL {
				if ia, ok := u.X.(*ssa.IndexAddr); ok && ia.X == ssa.Value(f.Params[0]) {
					return AVal{K: AInt, I: tc.mark}, true
				}
			}
			if l, ok := v.(*ssa.Lookup); ok && l.X == ssa.Value(f.Params[0]) {
				return AVal{K: AInt, I: tc.mark}, true
			}
			if c, ok := v.(*ssa.Call); ok {
				if b, ok := c.Call.Value.(*ssa.Builtin); ok && b.Name() == "len" {
					return AVal{K: AInt, I: 20}, true
				}
			}
			return unknown, false
		}}
		s := runSCCP(f, env)
		got, known := joinReturns(s, f)
		r.check(known && got.K == ABool && got.B == tc.want, "Key.IsTombstone:"+tc.n,
			fmt.Sprintf("a key ending in %s is classified tombstone=%v", tc.n, tc.want),
			fmt.Sprintf("Key.IsTombstone on a key ending in %s yields %v (known=%v), want %v", tc.n, got, known, tc.want), w.fpos(f))
	}
	// constructors: TombstoneKey appends MarkTombstone, constructDataKey appends MarkData
	for _, tc := range []struct {
		recv, name string
		want       int64
	}{{"DataContext", "TombstoneKey", mt}, {"", "constructDataKey", md}, {"DataContext", "TombstoneKeyVersion", mt}} {
		var g *ssa.Function
		if tc.recv == "" {
			g = w.fn("storage", tc.name)
		} else {
			g = w.method("storage", tc.recv, tc.name)
		}
		if g == nil {
			r.violation("storage."+tc.name, "constructor not found", "-")
			continue
		}
		last, ok := lastAppendedByte(g)
		r.check(ok && last == tc.want, "storage."+tc.name+":marker",
			fmt.Sprintf("returns a key whose last appended byte is %#x", tc.want),
			fmt.Sprintf("the key returned by %s does not end in the expected marker (got %#x, resolved=%v, want %#x)", tc.name, last, ok, tc.want), w.fpos(g))
	}
}

func constantInt(c *types.Const) (int64, bool) {
	return constInt(ssa.NewConst(c.Val(), c.Type()))
}

func joinReturns(s *SCCP, f *ssa.Function) (AVal, bool) {
	var out AVal
	first := true
	for _, b := range f.Blocks {
		if !s.Feasible[b] {
			continue
		}
		if ret, ok := b.Instrs[len(b.Instrs)-1].(*ssa.Return); ok && len(ret.Results) > 0 {
			v := s.Eval(ret.Results[0])
			if !v.known() {
				return unknown, false
			}
			if first {
				out, first = v, false
			} else if !out.eq(v) {
				return unknown, false
			}
		}
	}
	return out, !first
}

// lastAppendedByte: every returned value of g is append(x, <const byte>) (possibly converted);
// returns that constant.
func lastAppendedByte(g *ssa.Function) (int64, bool) {
	var val int64
	n := 0
	for _, b := range g.Blocks {
		ret, ok := b.Instrs[len(b.Instrs)-1].(*ssa.Return)
		if !ok || len(ret.Results) == 0 {
			continue
		}
		v := stripConv(ret.Results[0])
		k, ok := int64(0), false
		if c, isCall := v.(*ssa.Call); isCall {
			if bi, isBi := c.Call.Value.(*ssa.Builtin); isBi && bi.Name() == "append" && len(c.Call.Args) == 2 {
				// variadic arg: slice of a new array with one element stored
				k, ok = singleVariadicConst(c.Call.Args[1])
			}
		}
		if !ok {
			// through key-building helpers: the last component of the resolved append chain
			comps := keyComponents(v, g, 0)
			if len(comps) > 0 && strings.HasPrefix(comps[len(comps)-1], "byte=0x") {
				if u, err := strconv.ParseInt(comps[len(comps)-1][len("byte=0x"):], 16, 64); err == nil {
					k, ok = u, true
				}
			}
		}
		if !ok {
			return 0, false
		}
		if n > 0 && k != val {
			return 0, false
		}
		val = k
		n++
	}
	return val, n > 0
}

func singleVariadicConst(v ssa.Value) (int64, bool) {
	sl, ok := v.(*ssa.Slice)
	if !ok {
		return 0, false
	}
	al, ok := sl.X.(*ssa.Alloc)
	if !ok {
		return 0, false
	}
	var k int64
	n := 0
	for _, ref := range *al.Referrers() {
		if ia, ok := ref.(*ssa.IndexAddr); ok {
			for _, r2 := range *ia.Referrers() {
				if st, ok := r2.(*ssa.Store); ok {
					if c, ok := constInt(st.Val); ok {
						k = c
						n++
					} else {
						return 0, false
					}
				}
			}
		}
	}
	return k, n == 1
}

// ---------------------------------------------------------------------------------------------
// R1.6 — resolver structure

func ruleR1_6(r *Run) {
	w := r.W
	f := w.method("datastore", "repoManager", "findMatch")
	if f == nil {
		r.violation("repoManager.findMatch", "the ancestry resolver datastore.repoManager.findMatch not found", "-")
		return
	}
	isRecursive := func(v ssa.Value) bool {
		if ex, ok := v.(*ssa.Extract); ok {
			if c, ok := ex.Tuple.(*ssa.Call); ok && c.Call.StaticCallee() == f {
				return true
			}
		}
		return false
	}
	// (a) tombstone hides: with every IsTombstone() true, no return yields a non-nil kv other than a
	// recursive result passed through unchanged
	envT := &AEnv{Atom: func(v ssa.Value) (AVal, bool) {
		if c, ok := v.(*ssa.Call); ok && callsMethodNamed(c, "IsTombstone") {
			return aBool(true), true
		}
		return unknown, false
	}}
	s := runSCCP(f, envT)
	nTomb := 0
	for _, c := range calls(f) {
		if callsMethodNamed(c, "IsTombstone") {
			nTomb++
		}
	}
	bad := ""
	for _, b := range f.Blocks {
		if !s.Feasible[b] {
			continue
		}
		if ret, ok := b.Instrs[len(b.Instrs)-1].(*ssa.Return); ok && !isErrorExit(ret) {
			v := retOperand(ret, 0)
			if s.Eval(v).K == ANil || isRecursive(v) {
				continue
			}
			bad = w.pos(ret.Pos())
		}
	}
	r.check(nTomb > 0 && bad == "", "findMatch:tombstone-hides",
		fmt.Sprintf("with every IsTombstone() true no success exit returns a value (%d tombstone tests)", nTomb),
		"findMatch can return a tombstoned entry as a live value (a deletion would not hide older values)", bad)

	// the block region where the candidate map had an entry for v: dominated by the true edge of the
	// first map lookup's ok
	var lookupOK ssa.Value
	var nField ssa.Value // the kvvNode looked up
	for _, in := range f.Blocks[0].Instrs {
		if ex, ok := in.(*ssa.Extract); ok {
			if lk, ok := ex.Tuple.(*ssa.Lookup); ok && lk.CommaOk && lk.X == ssa.Value(f.Params[1]) && lk.Index == ssa.Value(f.Params[2]) {
				if ex.Index == 1 {
					lookupOK = ex
				} else {
					nField = ex
				}
			}
		}
	}
	if lookupOK == nil || nField == nil {
		r.undecided("findMatch:own-entry", "cannot find the lookup kvv[v] at the entry of findMatch")
		return
	}
	envFound := func(invalid bool) *AEnv {
		return &AEnv{Atom: func(v ssa.Value) (AVal, bool) {
			if v == lookupOK {
				return aBool(true), true
			}
			if isFieldReadOfValue(v, "invalid", nField, f) {
				return aBool(invalid), true
			}
			return unknown, false
		}}
	}
	// (c) a superseded own entry is never returned
	s = runSCCP(f, envFound(true))
	bad = ""
	for _, b := range f.Blocks {
		if !s.Feasible[b] {
			continue
		}
		if ret, ok := b.Instrs[len(b.Instrs)-1].(*ssa.Return); ok && !isErrorExit(ret) {
			if s.Eval(retOperand(ret, 0)).K != ANil {
				bad = w.pos(ret.Pos())
			}
		}
	}
	r.check(bad == "", "findMatch:superseded-entry-hidden", "with kvv[v] present and marked invalid every success exit returns nil",
		"findMatch returns an entry that another candidate's lineage has superseded (invalid mark ignored)", bad)
	// (b) a valid own entry is returned only after the ancestors were invalidated
	s = runSCCP(f, envFound(false))
	isInv := func(in ssa.Instruction) bool {
		c, ok := in.(ssa.CallInstruction)
		return ok && callsMethodNamed(c, "invalidateAncestors")
	}
	valueRet := func(in ssa.Instruction) bool {
		ret, ok := in.(*ssa.Return)
		return ok && !isErrorExit(ret) && s.Eval(retOperand(ret, 0)).K != ANil
	}
	p := findPath(f, nil, isInv, valueRet, s.EdgeFeasible)
	anyValue := findPath(f, nil, nil, valueRet, s.EdgeFeasible)
	r.check(p == nil && anyValue != nil, "findMatch:own-entry-supersedes-ancestors",
		"a live own entry is returned, and only after invalidateAncestors marked the older candidates",
		"findMatch returns its own entry without marking ancestors' entries as superseded (a merge would see stale candidates), or never returns it", w.fpos(f), w.renderPath(p)...)
	// a deletion stored at v hides older values on every lineage: the nil (tombstone) success exit, too,
	// lies behind invalidateAncestors
	anyRet := func(in ssa.Instruction) bool {
		ret, ok := in.(*ssa.Return)
		return ok && !isErrorExit(ret)
	}
	p = findPath(f, nil, isInv, anyRet, s.EdgeFeasible)
	r.check(p == nil, "findMatch:own-entry-or-deletion-supersedes-ancestors",
		"with a live or deleted entry at v every success exit lies behind invalidateAncestors",
		"findMatch leaves with its own entry (value or deletion) without marking the ancestors' entries as superseded: another parent of a merge that still reaches the older value presents it as live", w.fpos(f), w.renderPath(p)...)
	// own entry wins over ancestors: with found, no recursive ascent is feasible
	asc := false
	s.eachFeasible(func(in ssa.Instruction) {
		if c, ok := in.(ssa.CallInstruction); ok && c.Common().StaticCallee() == f {
			asc = true
		}
	})
	r.check(!asc, "findMatch:own-entry-wins", "with an entry at v itself the walk does not ascend", "findMatch ascends to parents although version v itself has an entry", w.fpos(f))

	// (d) several live unsuperseded candidates ⇒ error.  The candidate set is the map whose len is
	// switched on after the multi-parent loop: with len(set) ≥ 2 every feasible exit reached through
	// that switch is an error exit.
	var lenCalls []*ssa.Call
	for _, c := range calls(f) {
		if cc, ok := c.(*ssa.Call); ok {
			if bi, ok := cc.Call.Value.(*ssa.Builtin); ok && bi.Name() == "len" {
				if _, isMap := cc.Call.Args[0].Type().Underlying().(*types.Map); isMap {
					lenCalls = append(lenCalls, cc)
				}
			}
		}
	}
	if len(lenCalls) == 0 {
		r.violation("findMatch:ambiguous-merge-is-error", "findMatch never inspects the number of surviving candidates of a merge: two live values cannot be detected", w.fpos(f))
	} else {
		for _, n := range []int64{2, 3} {
			env := &AEnv{Atom: func(v ssa.Value) (AVal, bool) {
				for _, lc := range lenCalls {
					if v == ssa.Value(lc) {
						return AVal{K: AInt, I: n}, true
					}
				}
				if v == lookupOK {
					return aBool(false), true
				}
				return unknown, false
			}}
			s := runSCCP(f, env)
			// success exits dominated by a len() call block
			bad := ""
			for _, b := range f.Blocks {
				if !s.Feasible[b] {
					continue
				}
				ret, ok := b.Instrs[len(b.Instrs)-1].(*ssa.Return)
				if !ok || isErrorExit(ret) {
					continue
				}
				for _, lc := range lenCalls {
					if lc.Block().Dominates(b) && s.Eval(retOperand(ret, 0)).K != ANil {
						bad = w.pos(ret.Pos())
					}
				}
			}
			r.check(bad == "", fmt.Sprintf("findMatch:ambiguous-merge-is-error:%d", n),
				fmt.Sprintf("with %d surviving candidates no value is returned successfully", n),
				fmt.Sprintf("with %d unsuperseded live candidates among merge parents findMatch succeeds with one of them", n), bad)
		}
	}
	// (e) the entry returned for a merge is the surviving candidate's: which candidate survives is only
	// known after every parent was scanned (a later parent's lineage can supersede or delete an earlier
	// match), so the returned entry has to be computed from the filtered candidate set or from a
	// look-up in the candidate entries made for it, not only from what the scan remembered.
	if len(lenCalls) > 0 {
		cand := map[ssa.Value]bool{}
		for _, lc := range lenCalls {
			cand[lc.Call.Args[0]] = true
		}
		n, bad := 0, ""
		for _, b := range f.Blocks {
			ret, ok := b.Instrs[len(b.Instrs)-1].(*ssa.Return)
			if !ok || isErrorExit(ret) {
				continue
			}
			v := retOperand(ret, 0)
			if isNilConst(v) || isRecursive(v) {
				continue
			}
			viaLen := false
			for _, lc := range lenCalls {
				if lc.Block().Dominates(b) {
					viaLen = true
				}
			}
			if !viaLen {
				continue
			}
			n++
			dep := false
			for d := range dataDeps(v) {
				switch x := d.(type) {
				case *ssa.Range:
					dep = dep || cand[x.X]
				case *ssa.Lookup:
					dep = dep || cand[x.X] || (x.X == ssa.Value(f.Params[1]) && x.Index != ssa.Value(f.Params[2]))
				}
			}
			if !dep {
				bad = w.pos(ret.Pos())
			}
		}
		r.check(n > 0 && bad == "", "findMatch:merge-returns-the-surviving-candidate",
			fmt.Sprintf("%d merge exit(s) return an entry computed from the filtered candidate set", n),
			"the entry a merge read returns does not depend on which candidate survived the supersession filter (it is whatever the parent scan remembered): with three parents, a lineage that deletes an earlier match leaves that deleted value as the answer", bad)
	}
	// invalidateAncestors marks and recurses over all parents
	inv := w.method("datastore", "repoManager", "invalidateAncestors")
	if inv == nil {
		r.violation("invalidateAncestors", "datastore.repoManager.invalidateAncestors not found", "-")
		return
	}
	marks, rec, parents := false, false, false
	for _, b := range inv.Blocks {
		for _, in := range b.Instrs {
			if st, ok := in.(*ssa.Store); ok {
				if fa, ok := st.Addr.(*ssa.FieldAddr); ok {
					if name, _, _ := fieldName(fa); name == "invalid" {
						if c, ok := st.Val.(*ssa.Const); ok && constVal(c).K == ABool && constVal(c).B {
							marks = true
						}
					}
				}
			}
			if c, ok := in.(ssa.CallInstruction); ok {
				if c.Common().StaticCallee() == inv {
					rec = true
				}
				if callsMethodNamed(c, "getParentsByVersion") {
					parents = true
				}
			}
		}
	}
	r.check(marks && rec && parents, "invalidateAncestors:marks-all-ancestors",
		"sets invalid=true on candidate entries of every parent and recurses", fmt.Sprintf("invalidateAncestors no longer marks (%v) / recurses (%v) / enumerates parents (%v)", marks, rec, parents), w.fpos(inv))
	// the walk continues above a parent whether or not that parent has an entry (only an entry that
	// is already marked may cut the walk: its ancestors were marked when it was)
	var okV, nodeV ssa.Value
	for _, b := range inv.Blocks {
		for _, in := range b.Instrs {
			if ex, ok := in.(*ssa.Extract); ok {
				if lk, ok := ex.Tuple.(*ssa.Lookup); ok && lk.CommaOk && lk.X == ssa.Value(inv.Params[1]) {
					if ex.Index == 1 {
						okV = ex
					} else {
						nodeV = ex
					}
				}
			}
		}
	}
	if okV == nil || nodeV == nil {
		r.undecided("invalidateAncestors:walk", "cannot find the candidate lookup kvv[parent]")
		return
	}
	for _, tc := range []struct {
		name           string
		found, invalid bool
	}{{"parent-without-entry", false, false}, {"parent-with-live-entry", true, false}} {
		env := &AEnv{Atom: func(v ssa.Value) (AVal, bool) {
			if v == okV {
				return aBool(tc.found), true
			}
			if isFieldReadOfValue(v, "invalid", nodeV, inv) {
				return aBool(tc.invalid), true
			}
			return unknown, false
		}}
		s := runSCCP(inv, env)
		recReach, markReach := false, false
		s.eachFeasible(func(in ssa.Instruction) {
			if c, ok := in.(ssa.CallInstruction); ok && c.Common().StaticCallee() == inv {
				recReach = true
			}
			if st, ok := in.(*ssa.Store); ok {
				if fa, ok := st.Addr.(*ssa.FieldAddr); ok {
					if name, _, _ := fieldName(fa); name == "invalid" {
						markReach = true
					}
				}
			}
		})
		r.check(recReach && (markReach || !tc.found), "invalidateAncestors:"+tc.name+":walk-continues",
			"the entry (if any) is marked and the walk recurses above this parent",
			fmt.Sprintf("for a %s the supersession walk stops (recursion reachable=%v, mark reachable=%v): older entries further up the lineage stay live and a merge sees two candidates", tc.name, recReach, markReach), w.fpos(inv))
	}
}

// isFieldReadOfValue: v reads field `field` of the struct value `base` (directly, or through the
// local Alloc the struct was spilled to).
func isFieldReadOfValue(v ssa.Value, field string, base ssa.Value, fn *ssa.Function) bool {
	switch x := v.(type) {
	case *ssa.Field:
		if name, _, ok := fieldName(x); ok && name == field {
			for _, rv := range roots(x.X, fn) {
				if rv.V == base {
					return true
				}
			}
		}
	case *ssa.UnOp:
		if x.Op != token.MUL {
			return false
		}
		fa, ok := x.X.(*ssa.FieldAddr)
		if !ok {
			return false
		}
		if name, _, ok := fieldName(fa); !ok || name != field {
			return false
		}
		al, ok := fa.X.(*ssa.Alloc)
		if !ok {
			return false
		}
		n, match := 0, 0
		for _, ref := range *al.Referrers() {
			if st, ok := ref.(*ssa.Store); ok && st.Addr == ssa.Value(al) {
				n++
				if st.Val == base {
					match++
				}
			}
		}
		return n > 0 && n == match
	}
	return false
}
